#!/bin/sh
# usage: check.sh <property> quick|thorough   — rebuilds the checker if stale, analyses /repo's working tree
set -u
export GOFLAGS=-mod=mod GOPROXY=off GOSUMDB=off GOTOOLCHAIN=local GOWORK=off
cd "$(dirname "$0")" || exit 2
V=$(pwd)
if [ ! -x "$V/bin/biocheck" ] || [ -n "$(find "$V/checker" -name '*.go' -newer "$V/bin/biocheck" 2>/dev/null | head -1)" ]; then
  (cd "$V/checker" && go build -o "$V/bin/biocheck" .) || { echo "VIOLATION property=$1 replay=$V/evidence/replay/build-failed"; exit 1; }
fi
exec "$V/bin/biocheck" -property "$1" -tier "${2:-quick}" -dir "${REPO_DIR:-/repo}" -verif "$V"
