package main

import (
	"fmt"
	"go/ast"
	"go/token"
	"go/types"
	"sort"
	"strings"

	"golang.org/x/tools/go/ssa"
)

func init() {
	register("C18", "one obligation per callback call site (YD1) and per error item (YD2); non-trivial = decided by CFG reachability from the false-result successors computed from the condition tree", rulesC18, nil)
}

// formats whose error item must be the last item (property text)
var yd2Formats = map[string]bool{"formats/fasta": true, "formats/fastq": true, "formats/bed": true, "formats/newick": true}

func rulesC18(c *Ctx, r *Report) {
	r.explain("Decides, on go/cfg of every function or literal in the module that calls a func(...) bool parameter: (YD1) no callback call is reachable once a callback call has returned false — necessary and sufficient for 'makes no further callback', necessary for 'does not panic' (range-over-func panics on a late callback); (YD2) in fasta, fastq, bed, newick a callback call that carries a non-nil, non-pass-through error is followed by no callback call — 'an error item is always the last item'. Not decided: that the items seen before stopping are the leading items of an uninterrupted run (determinism). Added rules: (REENTRANT) no iterator literal assigns to a captured variable; (STALE-ELEM) for the explicit stacks of ForEach and traverse; (NIL-HANDLE); ForEach's key enumeration/progress rules and the CanonicalSubsequences count/window rules (what the leading items are). (CLOSE) for every aio.Open in the File functions: every path from the successful open to a return passes a Close of that file, called or deferred (directly, in a deferred closure, or in a module helper) — an early stop releases the descriptor like a full run does. (SC-BUF) shared from C02: Scanner.Buffer is called before the first Scan (calling it later panics — an iterator that panics on a long line). Shared from C11 (\"does not panic\"): GRD and PANIC over everything the codec iterators reach.")
	r.assume("go/cfg and go/types of x/tools v0.29.0 represent the source faithfully; a consumer callback that returns normally; the language guarantees a range-over-func loop body returns false to the inner iterator after break/return")
	yds := allYD(c.Pkgs)
	nf, ns, n2 := 0, 0, 0
	for _, y := range yds {
		if strings.HasSuffix(y.f.name, "_test") {
			continue
		}
		nf++
		ns += len(y.sites) + len(y.delegs)
		r.analysed(y.f.name)
		y.ruleYD1(c, r, "YD1")
		if yd2Formats[relPkg(y.f.pkg.PkgPath)] {
			n2 += y.ruleYD2(c, r, "YD2", nil)
		}
	}
	// anchors: the iterator-returning API of the property must be among the instances
	want := []string{
		"formats/fasta.File$1", "formats/fasta.Reader$1",
		"formats/fastq.File$1", "formats/fastq.Reader$1",
		"formats/sam.ReaderHeader$1", "formats/sam.Reader$1", "formats/sam.File$1", "formats/sam.FileHeader$1",
		"formats/bed.Reader$1", "formats/bed.File$1",
		"formats/newick.Reader$1", "formats/newick.File$1",
		"trie.(*Trie).ForEach", "sequtil.CanonicalSubsequences$1",
	}
	have := map[string]bool{}
	for _, y := range yds {
		if len(y.sites) > 0 || len(y.delegs) > 0 {
			have[y.f.name] = true // calls the callback itself or hands it to a function / literal that is checked in turn
		}
	}
	// an iterator whose body is a method value or a named function instead of a literal: found through the values
	havePos := map[token.Pos]bool{}
	for _, y := range yds {
		if (len(y.sites) > 0 || len(y.delegs) > 0) && y.f.decl != nil && y.f.node == ast.Node(y.f.decl) {
			havePos[y.f.decl.Name.Pos()] = true
		}
	}
	for _, w := range want {
		if !have[w] && strings.HasSuffix(w, "$1") {
			base := strings.TrimSuffix(w, "$1")
			if i := strings.LastIndex(base, "."); i > 0 {
				if ib := c.iterBody(c.fn(base[:i], base[i+1:])); ib != nil && ib.f != nil && havePos[ib.f.Pos()] {
					have[w] = true
				}
			}
		}
	}
	for _, w := range want {
		if !have[w] {
			r.undecided("YD1", w, "anchor", "", "iterator function named by the property was not found with a called bool callback (renamed, removed, or restructured): the rule cannot vouch for it")
		}
	}
	r.floor("YD1", ns, 17, "callback call sites (31 today; at least one per iterator function)")
	r.floor("YD1-functions", nf, 14, "iterator functions (17 today; the 14 exported entry points are anchored by name)")
	r.floor("YD2", n2, 6, "error items in fasta/fastq/bed/newick: iter (2), File open errors (4), bed/newick Reader (2)")
	// what the items delivered before the stop depend on: private working state, element pointers that stay valid
	var lits []string
	for _, y := range yds {
		if strings.HasSuffix(y.f.name, "_test") || len(y.sites) == 0 {
			continue
		}
		lits = append(lits, y.f.name)
	}
	rulesReentrantAll(c, r)
	if fe := c.fn("trie", "(*Trie).ForEach"); fe != nil {
		ruleStaleElem(c, r, fe)
	}
	if tr := c.role("newick.traverse"); tr != nil && len(tr.AnonFuncs) == 1 {
		ruleStaleElem(c, r, tr.AnonFuncs[0])
	}
	rulesOpenedHandle(c, r)
	rulesScanBuf(c, r, "formats/fastq") // Scanner.Buffer after the first Scan panics
	r.floor("CLOSE", rulesCloseAllExits(c, r), 4, "aio.Open call sites in the File functions (6 today)")
	rulesTrieKeys(c, r)
	rulesCanonical(c, r)
	// what the leading items are made of: ForEach and keys do not write the trie (a key list cached in the node goes
	// stale); the fastq record does not alias the scanner's buffer (an item handed out changes when the run goes on);
	// the newick name helpers stay in bounds (a lone quote at the end of the input)
	{
		e := effFor(c)
		for _, name := range []string{"(*Trie).ForEach", "role:trie.keys"} {
			f := c.fn("trie", name)
			if strings.HasPrefix(name, "role:") {
				f = c.role(strings.TrimPrefix(name, "role:"))
			}
			if f != nil {
				e.rulePure(r, "PURE", f, "t")
			}
		}
	}
	rulesScanAliasPkg(c, r, "formats/fastq")
	rulesNewickNames(c, r)
	_ = lits
	// "does not panic": the bounds and panic rules of C11 over everything the codec iterators reach — a stop is
	// no help if the item before it cannot be produced (an index out of range on an odd line, a make with a
	// capacity taken from the input)
	{
		funcs, reach := decoderFuncs(c)
		rulesGrdFuncs(c, r, funcs, 120, "bounds goals proven in decoder-reachable functions (shared with C11)")
		rulesPanics(c, r, funcs, reach)
	}
}

// rulesReentrantAll (REENTRANT): no iterator literal of the module assigns to a variable captured from the
// function that created it — running the same iterator value again (after a stop, nested) starts afresh.
func rulesReentrantAll(c *Ctx, r *Report) {
	n := 0
	for _, f := range c.moduleFuncs() {
		if f.Parent() == nil || strings.HasSuffix(funcPkgPath(f), "_test") || f.Synthetic != "" {
			continue
		}
		// an iterator literal: has a func(...) bool parameter
		isIter := false
		for _, p := range f.Params {
			if sg, ok := p.Type().Underlying().(*types.Signature); ok && sg.Results().Len() == 1 {
				if bt, ok := sg.Results().At(0).Type().Underlying().(*types.Basic); ok && bt.Kind() == types.Bool {
					isIter = true
				}
			}
		}
		if !isIter {
			continue
		}
		n++
		var bad []string
		fv := map[ssa.Value]bool{}
		for _, v := range f.FreeVars {
			fv[v] = true
		}
		instrs(f, func(in ssa.Instruction) {
			if st, ok := in.(*ssa.Store); ok && fv[st.Addr] {
				bad = append(bad, "store to captured variable "+st.Addr.Name()+" at "+c.pos(st.Pos()))
			}
		})
		r.check(len(bad) == 0, "REENTRANT", fname(f), "working state is local", c.pos(f.Pos()), "the iterator body never assigns to a captured variable: a run that was stopped leaves nothing behind for the next run of the same iterator value",
			"the iterator body assigns to variables captured from outside ("+strings.Join(bad, "; ")+"): after an early stop the next run of the same iterator value starts from leftover state")
	}
	r.floor("REENTRANT", n, 10, "iterator literals in the module (14 today)")
}

// rulesOpenedHandle (NIL-HANDLE): what aio.Open returned is touched (deferred Close included) only where its
// error is known to be nil — on failure the handle is nil and any method call on it panics when it runs.
func rulesOpenedHandle(c *Ctx, r *Report) {
	n := 0
	for _, f := range formatFuncs(c) {
		instrs(f, func(in ssa.Instruction) {
			call, ok := in.(*ssa.Call)
			if !ok || !fnIs(call.Call.StaticCallee(), gostuffPath+"/aio", "Open") {
				return
			}
			var h, e *ssa.Extract
			for _, ref := range *call.Referrers() {
				if ex, ok := ref.(*ssa.Extract); ok {
					if ex.Index == 0 {
						h = ex
					} else {
						e = ex
					}
				}
			}
			if h == nil || e == nil {
				return
			}
			n++
			var bad []string
			for _, use := range *h.Referrers() {
				if _, dbg := use.(*ssa.DebugRef); dbg {
					continue
				}
				// the variable is captured by a closure (a deferred literal, a range-over-func body): storing into its
				// cell is not a use; the loads of the cell and the closures that capture it are
				if st, ok := use.(*ssa.Store); ok && st.Val == ssa.Value(h) {
					if al, ok := st.Addr.(*ssa.Alloc); ok {
						for _, cu := range *al.Referrers() {
							switch x := cu.(type) {
							case *ssa.Store, *ssa.DebugRef:
							case *ssa.UnOp, *ssa.MakeClosure:
								if !nilEdgeOfDominates(e, cu.Block()) {
									bad = append(bad, c.pos(x.Pos()))
								}
							default:
								bad = append(bad, c.pos(cu.Pos()))
							}
						}
						continue
					}
				}
				if !nilEdgeOfDominates(e, use.Block()) {
					bad = append(bad, c.pos(use.Pos()))
				}
			}
			sort.Strings(bad)
			r.check(len(bad) == 0, "NIL-HANDLE", fname(f), "opened file used only after the error check", c.pos(call.Pos()),
				"every use of the opened file (deferred Close included) lies behind err == nil", fmt.Sprintf("the opened file is used at %v where the open error has not been ruled out: when the path cannot be opened the handle is nil and the (deferred) call panics after the error item was delivered", bad))
		})
	}
	r.floor("NIL-HANDLE", n, scopedFloor(4, 1), "aio.Open call sites in the File functions (6 today)")
}

// nilEdgeOfDominates: target is reachable only through the nil edge of a comparison of errV with nil.
func nilEdgeOfDominates(errV ssa.Value, target *ssa.BasicBlock) bool {
	for _, ref := range *errV.Referrers() {
		bo, ok := ref.(*ssa.BinOp)
		if !ok || (bo.Op != token.NEQ && bo.Op != token.EQL) || !(isNilConst(bo.Y) || isNilConst(bo.X)) {
			continue
		}
		for _, r2 := range *bo.Referrers() {
			iff, ok := r2.(*ssa.If)
			if !ok {
				continue
			}
			b := iff.Block()
			nilSucc, errSucc := b.Succs[1], b.Succs[0]
			if bo.Op == token.EQL {
				nilSucc, errSucc = errSucc, nilSucc
			}
			if len(nilSucc.Preds) == 1 && nilSucc.Dominates(target) && !blockReaches(errSucc, target) && errSucc != target {
				return true
			}
		}
	}
	return false
}

// rulesYDPkg: YD1 and YD2 for the iterator functions of one package.
func rulesYDPkg(c *Ctx, r *Report, rel string) {
	n := 0
	for _, y := range allYD(c.Pkgs) {
		if strings.HasSuffix(y.f.name, "_test") || relPkg(y.f.pkg.PkgPath) != rel {
			continue
		}
		n++
		r.analysed(y.f.name)
		y.ruleYD1(c, r, "YD1")
		if yd2Formats[rel] {
			y.ruleYD2(c, r, "YD2", nil)
		}
	}
	r.floor("YD1-"+rel, n, 2, "iterator functions of "+rel)
}
