package main

import (
	"strings"
)

func init() {
	register("C18", "one obligation per callback call site (YD1) and per error item (YD2); non-trivial = decided by CFG reachability from the false-result successors computed from the condition tree", rulesC18, nil)
}

// formats whose error item must be the last item (property text)
var yd2Formats = map[string]bool{"formats/fasta": true, "formats/fastq": true, "formats/bed": true, "formats/newick": true}

func rulesC18(c *Ctx, r *Report) {
	r.explain("Decides, on go/cfg of every function or literal in the module that calls a func(...) bool parameter: (YD1) no callback call is reachable once a callback call has returned false — necessary and sufficient for 'makes no further callback', necessary for 'does not panic' (range-over-func panics on a late callback); (YD2) in fasta, fastq, bed, newick a callback call that carries a non-nil, non-pass-through error is followed by no callback call — 'an error item is always the last item'. Not decided: that the items seen before stopping are the leading items of an uninterrupted run (determinism).")
	r.assume("go/cfg and go/types of x/tools v0.29.0 represent the source faithfully; a consumer callback that returns normally; the language guarantees a range-over-func loop body returns false to the inner iterator after break/return")
	yds := allYD(c.Pkgs)
	nf, ns, n2 := 0, 0, 0
	for _, y := range yds {
		if strings.HasSuffix(y.f.name, "_test") {
			continue
		}
		nf++
		ns += len(y.sites)
		r.analysed(y.f.name)
		y.ruleYD1(c, r, "YD1")
		if yd2Formats[relPkg(y.f.pkg.PkgPath)] {
			n2 += y.ruleYD2(c, r, "YD2", nil)
		}
	}
	// anchors: the iterator-returning API of the property must be among the instances
	want := []string{
		"formats/fasta.File$1", "formats/fasta.Reader$1",
		"formats/fastq.File$1", "formats/fastq.Reader$1",
		"formats/sam.ReaderHeader$1", "formats/sam.Reader$1", "formats/sam.File$1", "formats/sam.FileHeader$1",
		"formats/bed.Reader$1", "formats/bed.File$1",
		"formats/newick.Reader$1", "formats/newick.File$1",
		"trie.(*Trie).ForEach", "sequtil.CanonicalSubsequences$1",
	}
	have := map[string]bool{}
	for _, y := range yds {
		if len(y.sites) > 0 {
			have[y.f.name] = true
		}
	}
	for _, w := range want {
		if !have[w] {
			r.undecided("YD1", w, "anchor", "", "iterator function named by the property was not found with a called bool callback (renamed, removed, or restructured): the rule cannot vouch for it")
		}
	}
	r.floor("YD1", ns, 17, "callback call sites (31 today; at least one per iterator function)")
	r.floor("YD1-functions", nf, 14, "iterator functions (17 today; the 14 exported entry points are anchored by name)")
	r.floor("YD2", n2, 6, "error items in fasta/fastq/bed/newick: iter (2), File open errors (4), bed/newick Reader (2)")
}
