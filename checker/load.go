package main

import (
	"fmt"
	"go/ast"
	"go/token"
	"go/types"
	"os"
	"sort"
	"strings"

	"golang.org/x/tools/go/packages"
	"golang.org/x/tools/go/ssa"
	"golang.org/x/tools/go/ssa/ssautil"
)

const modPath = "github.com/fluhus/biostuff"
const gostuffPath = "github.com/fluhus/gostuff"

// Ctx is one loaded, type-checked, SSA-built program.
type Ctx struct {
	Dir      string
	Fset     *token.FileSet
	Pkgs     []*packages.Package          // module packages (roots)
	All      map[string]*packages.Package // every package with syntax, by path
	Prog     *ssa.Program
	SSA      map[string]*ssa.Package // by path
	Tests    bool
	GOARCH   string
	LoadNote string
	astOf    map[*ssa.Function]ast.Node

	foldCache map[string]*foldResult
}

// load loads dir's ./... with full syntax for dependencies and builds SSA.
func load(dir string, tests bool, goarch string, overlay map[string][]byte) (*Ctx, error) {
	env := []string{}
	for _, e := range os.Environ() {
		if strings.HasPrefix(e, "GOWORK=") || strings.HasPrefix(e, "GOFLAGS=") || strings.HasPrefix(e, "GOARCH=") {
			continue
		}
		env = append(env, e)
	}
	env = append(env, "GOFLAGS=-mod=mod", "GOPROXY=off", "GOSUMDB=off", "GOWORK=off", "GOTOOLCHAIN=local")
	if goarch != "" {
		env = append(env, "GOARCH="+goarch, "CGO_ENABLED=0")
	}
	conf := &packages.Config{
		Mode:    packages.LoadAllSyntax,
		Dir:     dir,
		Env:     env,
		Tests:   tests,
		Overlay: overlay,
	}
	pkgs, err := packages.Load(conf, "./...")
	if err != nil {
		return nil, fmt.Errorf("packages.Load: %v", err)
	}
	c := &Ctx{Dir: dir, All: map[string]*packages.Package{}, SSA: map[string]*ssa.Package{}, Tests: tests, GOARCH: goarch, astOf: map[*ssa.Function]ast.Node{}}
	var errs []string
	packages.Visit(pkgs, nil, func(p *packages.Package) {
		for _, e := range p.Errors {
			errs = append(errs, e.Error())
		}
		if _, ok := c.All[p.PkgPath]; !ok || !strings.Contains(p.ID, "[") {
			// prefer the non-test variant under the plain path
			if prev, ok := c.All[p.PkgPath]; !ok || strings.Contains(prev.ID, "[") {
				c.All[p.PkgPath] = p
			}
		}
	})
	if len(errs) > 0 {
		sort.Strings(errs)
		return nil, fmt.Errorf("load/type errors (%d): %s", len(errs), strings.Join(errs[:min(len(errs), 5)], "; "))
	}
	n := 0
	for _, p := range pkgs {
		if strings.HasPrefix(p.PkgPath, modPath) {
			n++
			c.Pkgs = append(c.Pkgs, p)
			if c.Fset == nil {
				c.Fset = p.Fset
			}
		}
	}
	if n < 12 {
		return nil, fmt.Errorf("only %d module packages loaded, expected at least 12", n)
	}
	prog, _ := ssautil.AllPackages(pkgs, ssa.InstantiateGenerics)
	prog.Build()
	c.Prog = prog
	for _, sp := range prog.AllPackages() {
		path := sp.Pkg.Path()
		if prev, ok := c.SSA[path]; ok {
			// keep the one matching c.All's types.Package
			if ap, ok := c.All[path]; ok && ap.Types == prev.Pkg {
				continue
			}
		}
		c.SSA[path] = sp
	}
	c.LoadNote = fmt.Sprintf("%d module packages, tests=%v, GOARCH=%s", n, tests, goarch)
	return c, nil
}

// pkg returns the module package with the given path relative to the module root.
func (c *Ctx) pkg(rel string) *packages.Package {
	p := modPath
	if rel != "" {
		p += "/" + rel
	}
	return c.All[p]
}

func (c *Ctx) ssaPkg(rel string) *ssa.Package {
	p := modPath
	if rel != "" {
		p += "/" + rel
	}
	return c.SSA[p]
}

// fn resolves "Name" (package function) or "T.Name" / "(*T).Name" (method) in a module package.
func (c *Ctx) fn(rel, name string) *ssa.Function {
	sp := c.ssaPkg(rel)
	if sp == nil {
		return nil
	}
	return ssaFunc(c.Prog, sp, name)
}

func ssaFunc(prog *ssa.Program, sp *ssa.Package, name string) *ssa.Function {
	name = strings.TrimPrefix(name, "(")
	name = strings.Replace(name, ")", "", 1)
	ptr := strings.HasPrefix(name, "*")
	name = strings.TrimPrefix(name, "*")
	if i := strings.Index(name, "."); i >= 0 {
		tn, mn := name[:i], name[i+1:]
		obj, _ := sp.Pkg.Scope().Lookup(tn).(*types.TypeName)
		if obj == nil {
			return nil
		}
		var recv types.Type = obj.Type()
		// find the method in the method set of T or *T
		for _, t := range []types.Type{recv, types.NewPointer(recv)} {
			ms := prog.MethodSets.MethodSet(t)
			for i := 0; i < ms.Len(); i++ {
				sel := ms.At(i)
				if sel.Obj().Name() == mn && sel.Obj().Pkg() == sp.Pkg {
					f := prog.MethodValue(sel)
					// unwrap the synthetic pointer-receiver wrapper for value methods
					if f != nil && f.Synthetic != "" {
						if fo, ok := sel.Obj().(*types.Func); ok {
							if real := prog.FuncValue(fo); real != nil {
								return real
							}
						}
					}
					return f
				}
			}
		}
		_ = ptr
		return nil
	}
	return sp.Func(name)
}

// relPkg renders a package path relative to the module.
func relPkg(path string) string {
	if path == modPath {
		return "."
	}
	if strings.HasPrefix(path, modPath+"/") {
		return strings.TrimPrefix(path, modPath+"/")
	}
	if strings.HasPrefix(path, gostuffPath+"/") {
		return "gostuff/" + strings.TrimPrefix(path, gostuffPath+"/")
	}
	return path
}

// fname renders a function name without line numbers: pkg.(*T).m$1
func fname(f *ssa.Function) string {
	if f == nil {
		return "<nil>"
	}
	if f.Parent() != nil {
		// anonymous: parent name + $n
		return fname(f.Parent()) + "$" + strings.TrimPrefix(f.Name()[strings.LastIndex(f.Name(), "$"):], "$")
	}
	pk := ""
	if f.Pkg != nil {
		pk = relPkg(f.Pkg.Pkg.Path())
	} else if f.Object() != nil && f.Object().Pkg() != nil {
		pk = relPkg(f.Object().Pkg().Path())
	}
	if recv := f.Signature.Recv(); recv != nil {
		t := recv.Type()
		star := ""
		if p, ok := t.(*types.Pointer); ok {
			t = p.Elem()
			star = "*"
		}
		tn := t.String()
		if n, ok := t.(*types.Named); ok {
			tn = n.Obj().Name()
		}
		if star != "" {
			return fmt.Sprintf("%s.(*%s).%s", pk, tn, f.Name())
		}
		return fmt.Sprintf("%s.%s.%s", pk, tn, f.Name())
	}
	return pk + "." + f.Name()
}

func (c *Ctx) pos(p token.Pos) string {
	if !p.IsValid() {
		return ""
	}
	ps := c.Prog.Fset.Position(p)
	fn := ps.Filename
	if strings.HasPrefix(fn, c.Dir+"/") {
		fn = strings.TrimPrefix(fn, c.Dir+"/")
	} else if i := strings.Index(fn, "/pkg/mod/"); i >= 0 {
		fn = fn[i+len("/pkg/mod/"):]
	}
	return fmt.Sprintf("%s:%d", fn, ps.Line)
}

func (c *Ctx) inModule(f *ssa.Function) bool {
	p := funcPkgPath(f)
	return p == modPath || strings.HasPrefix(p, modPath+"/")
}

func (c *Ctx) inScope(f *ssa.Function) bool {
	p := funcPkgPath(f)
	return p == modPath || strings.HasPrefix(p, modPath+"/") || strings.HasPrefix(p, gostuffPath+"/")
}

func funcPkgPath(f *ssa.Function) string {
	for f != nil && f.Parent() != nil {
		f = f.Parent()
	}
	if f == nil {
		return ""
	}
	if f.Pkg != nil {
		return f.Pkg.Pkg.Path()
	}
	if o := f.Origin(); o != nil && o.Pkg != nil {
		return o.Pkg.Pkg.Path()
	}
	if f.Object() != nil && f.Object().Pkg() != nil {
		return f.Object().Pkg().Path()
	}
	return ""
}

// family returns f and all closures it creates, transitively.
func family(f *ssa.Function) []*ssa.Function {
	out := []*ssa.Function{f}
	for _, a := range f.AnonFuncs {
		out = append(out, family(a)...)
	}
	return out
}

// moduleFuncs lists every source function (with closures) of the module packages,
// test variants excluded unless c.Tests.
func (c *Ctx) moduleFuncs() []*ssa.Function {
	var out []*ssa.Function
	seen := map[*ssa.Function]bool{}
	var paths []string
	for p := range c.SSA {
		if p == modPath || strings.HasPrefix(p, modPath+"/") {
			paths = append(paths, p)
		}
	}
	sort.Strings(paths)
	for _, p := range paths {
		sp := c.SSA[p]
		var names []string
		for n := range sp.Members {
			names = append(names, n)
		}
		sort.Strings(names)
		add := func(f *ssa.Function) {
			if f == nil || seen[f] || f.Blocks == nil {
				return
			}
			seen[f] = true
			out = append(out, family(f)...)
		}
		for _, n := range names {
			switch m := sp.Members[n].(type) {
			case *ssa.Function:
				add(m)
			case *ssa.Type:
				for _, t := range []types.Type{m.Type(), types.NewPointer(m.Type())} {
					ms := c.Prog.MethodSets.MethodSet(t)
					for i := 0; i < ms.Len(); i++ {
						if fo, ok := ms.At(i).Obj().(*types.Func); ok && fo.Pkg() == sp.Pkg {
							add(c.Prog.FuncValue(fo))
						}
					}
				}
			}
		}
	}
	return out
}

// ---------------------------------------------------------------------------
// callee identification (always through resolved objects)

// calleeFunc returns the statically resolved callee of a call instruction, if any.
func calleeFunc(call ssa.CallInstruction) *ssa.Function {
	return call.Common().StaticCallee()
}

// objIs reports whether fn is package-level function pkgpath.name.
func fnIs(f *ssa.Function, pkgpath, name string) bool {
	if f == nil {
		return false
	}
	if o := f.Origin(); o != nil {
		f = o
	}
	obj, _ := f.Object().(*types.Func)
	if obj == nil || obj.Pkg() == nil {
		return false
	}
	if obj.Pkg().Path() != pkgpath || obj.Name() != name {
		return false
	}
	return obj.Type().(*types.Signature).Recv() == nil
}

// methIs reports whether f is method pkgpath.(T or *T).name.
func methIs(f *ssa.Function, pkgpath, tname, name string) bool {
	if f == nil {
		return false
	}
	obj, _ := f.Object().(*types.Func)
	return funcObjIsMethod(obj, pkgpath, tname, name)
}

func funcObjIsMethod(obj *types.Func, pkgpath, tname, name string) bool {
	if obj == nil || obj.Pkg() == nil || obj.Pkg().Path() != pkgpath || obj.Name() != name {
		return false
	}
	recv := obj.Type().(*types.Signature).Recv()
	if recv == nil {
		return false
	}
	t := recv.Type()
	if p, ok := t.(*types.Pointer); ok {
		t = p.Elem()
	}
	n, ok := t.(*types.Named)
	return ok && n.Obj().Name() == tname
}

// invokeIs reports whether call is an interface invoke of method name on interface pkgpath.iname
// (or on any interface when iname == "").
func invokeIs(call ssa.CallInstruction, name string) bool {
	cc := call.Common()
	return cc.IsInvoke() && cc.Method.Name() == name
}

// callName gives a readable callee for diagnostics.
func callName(call ssa.CallInstruction) string {
	cc := call.Common()
	if cc.IsInvoke() {
		return "invoke " + cc.Method.FullName()
	}
	if f := cc.StaticCallee(); f != nil {
		return fname(f)
	}
	if b, ok := cc.Value.(*ssa.Builtin); ok {
		return "builtin " + b.Name()
	}
	return "dynamic " + cc.Value.Name()
}

// instrs iterates over all instructions of f.
func instrs(f *ssa.Function, fn func(ssa.Instruction)) {
	for _, b := range f.Blocks {
		for _, in := range b.Instrs {
			fn(in)
		}
	}
}

// syntax returns the *ast.FuncDecl or *ast.FuncLit of f.
func syntaxOf(f *ssa.Function) ast.Node {
	return f.Syntax()
}

// typesInfoFor returns the types.Info of the package that contains f.
func (c *Ctx) infoFor(f *ssa.Function) *types.Info {
	p := c.All[funcPkgPath(f)]
	if p == nil {
		return nil
	}
	return p.TypesInfo
}

func typesPtr(t *ssa.Type) types.Type { return types.NewPointer(t.Type()) }

// sizes: the type sizes of the configuration being analysed.
func (c *Ctx) sizes() types.Sizes {
	arch := c.GOARCH
	if arch == "" {
		arch = "amd64"
	}
	if s := types.SizesFor("gc", arch); s != nil {
		return s
	}
	return types.SizesFor("gc", "amd64")
}
