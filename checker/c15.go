package main

import (
	"fmt"
	"go/constant"
	"go/token"
	"go/types"
	"strings"

	"golang.org/x/tools/go/ssa"
)

func init() {
	register("C15", "one obligation per observer and parameter (effect query), per write event of Delete, per pruning test, per key enumeration, per JSON mirror clause, per callback call site; non-trivial = needed the points-to/effect computation, a partition dataflow on a map length, or CFG reachability", rulesC15, nil)
}

func rulesC15(c *Ctx, r *Report) {
	r.explain("Decides: (PURE) Has, ForEach, keys and MarshalJSON never write the trie they observe (an observer that created or removed nodes would change the set); (DEL-NF) in Delete no write to the trie lies on a path to `return false`; (DEL-PRUNE) Delete's upward pruning continues past an ancestor exactly when that ancestor has no children left (map length 0), so members without the deleted prefix are never removed; (KEYS-ALL) keys() appends the key of every iteration of a range over the node's map — every child is enumerated; ForEach's per-node progress is compared with the number of children of the same node; (JSON-MIRROR) MarshalJSON marshals a mirror struct that holds the node's own map unchanged and UnmarshalJSON stores the mirror's map back, the two mirror types being identical; (YD1/REENTRANT) ForEach makes no callback after a false result and keeps its working state local. Not decided: everything history-dependent — the set model, exactly-once enumeration, the JSON round trip as an equality. Added rules: (DEL-WALK) every path from a child lookup to the deletion phase passes a nil test of its result; (DEL-ONLY) Delete's writes are all delete(); (ADD-GUARD) Add stores a child only on the nil edge of a lookup of the same map and key; (EMPTY-KEY) with an empty argument Has can only return true and Add reaches no write; (STALE-ELEM) no element pointer of ForEach's stack is used after an append; DEL-PRUNE is decided on the loop automaton. KEYS-ALL additionally: every byte appended to the key list is the key of an iteration over the node's map.")
	r.assume("encoding/json round-trips map[byte]*Trie through the exported mirror field")
	e := effFor(c)
	n := 0
	for _, name := range []string{"(*Trie).Has", "(*Trie).ForEach", "role:trie.keys", "(*Trie).MarshalJSON"} {
		f := c.fn("trie", name)
		if strings.HasPrefix(name, "role:") {
			f = c.role(strings.TrimPrefix(name, "role:"))
		}
		if f == nil {
			r.undecided("PURE", "trie."+name, "anchor", "", "observer not found")
			continue
		}
		n++
		e.rulePure(r, "PURE", f, "t")
	}
	r.floor("PURE", n, 4, "observers Has, ForEach, keys, MarshalJSON")
	rulesTrieDelete(c, r, e)
	rulesTrieKeys(c, r)
	rulesTrieJSON(c, r)
	for _, y := range allYD(c.Pkgs) {
		if y.f.name == "trie.(*Trie).ForEach" {
			y.ruleYD1(c, r, "YD1")
		}
	}
	rulesReentrant(c, r, []string{"trie.(*Trie).ForEach"})
	if fe := c.fn("trie", "(*Trie).ForEach"); fe != nil {
		ruleStaleElem(c, r, fe)
	}
	rulesTrieWalk(c, r)
	rulesTrieEmptyKey(c, r)
	rulesTrieAddGuard(c, r)
}

// rulesTrieAddGuard (ADD-GUARD): Add stores a child only where the lookup of the same map and key was nil —
// it never replaces an existing subtree.
func rulesTrieAddGuard(c *Ctx, r *Report) {
	f := c.fn("trie", "(*Trie).Add")
	where := "trie.(*Trie).Add"
	if f == nil {
		r.undecided("ADD-GUARD", where, "anchor", "", "Add not found")
		return
	}
	r.analysed(where)
	n := 0
	// Add and the helpers of its package it calls (get-or-create of a child)
	fns := []*ssa.Function{f}
	for _, g := range c.calleesIn(f) {
		if g.Pkg == f.Pkg && g.Blocks != nil && g != f {
			fns = append(fns, g)
		}
	}
	for _, fn := range fns {
		s := newSymb(fn)
		if fn != f {
			where = fname(fn)
		}
		instrs(fn, func(in ssa.Instruction) {
			mu, ok := in.(*ssa.MapUpdate)
			if !ok {
				return
			}
			if fn != f {
				r.analysed(where)
			}
			n++
			mk := s.expr(mu.Map).String() + "[" + s.expr(mu.Key).String() + "]"
			guarded := false
			for cur := mu.Block(); cur != nil && cur.Idom() != nil; cur = cur.Idom() {
				d := cur.Idom()
				iff, ok := lastInstr(d).(*ssa.If)
				if !ok || len(cur.Preds) != 1 || cur.Preds[0] != d {
					continue
				}
				bo, ok := iff.Cond.(*ssa.BinOp)
				if !ok || (bo.Op != token.EQL && bo.Op != token.NEQ) {
					continue
				}
				var lk *ssa.Lookup
				if l, ok := bo.X.(*ssa.Lookup); ok && isNilConst(bo.Y) {
					lk = l
				} else if l, ok := bo.Y.(*ssa.Lookup); ok && isNilConst(bo.X) {
					lk = l
				}
				if lk == nil || s.expr(lk.X).String()+"["+s.expr(lk.Index).String()+"]" != mk {
					continue
				}
				onNil := d.Succs[0] == cur
				if bo.Op == token.NEQ {
					onNil = d.Succs[1] == cur
				}
				if onNil {
					guarded = true
				}
			}
			r.check(guarded, "ADD-GUARD", where, "child stored only where absent", c.pos(mu.Pos()),
				"the store into "+mk+" is taken only on the nil edge of a lookup of the same map and key: an existing subtree is never replaced",
				"the store into "+mk+" is not guarded by `lookup == nil` on the same map and key: adding a prefix of a member (or re-adding) replaces the subtree below it and loses members")
		})
	}
	r.floor("ADD-GUARD", n, 1, "map updates in Add")
}

// rulesTrieWalk (DEL-WALK): in Delete every child lookup is nil-tested before the walk can reach the
// deletion phase: a key that is absent at any depth — the last one included — is reported as not found.
func rulesTrieWalk(c *Ctx, r *Report) {
	f := c.fn("trie", "(*Trie).Delete")
	where := "trie.(*Trie).Delete"
	if f == nil {
		return // reported by DEL-NF
	}
	var dels []ssa.Instruction // where the deletion phase starts: delete() calls, or — when the walk is a stage of
	// its own — the returns of that stage that report "found"
	var lookups []*ssa.Lookup
	for _, sf := range c.stageFuncs(f) {
		var dl []ssa.Instruction
		var lks []*ssa.Lookup
		instrs(sf, func(in ssa.Instruction) {
			switch x := in.(type) {
			case *ssa.Call:
				if b, ok := x.Call.Value.(*ssa.Builtin); ok && b.Name() == "delete" {
					dl = append(dl, x)
				}
			case *ssa.Lookup:
				if _, isMap := x.X.Type().Underlying().(*types.Map); isMap {
					if _, isPtr := x.Type().Underlying().(*types.Pointer); isPtr {
						lks = append(lks, x)
					}
				}
			}
		})
		if len(lks) > 0 && len(dl) == 0 && sf != f {
			// a walk stage: its "found" returns lead on to the deletion
			instrs(sf, func(in ssa.Instruction) {
				if rt, ok := in.(*ssa.Return); ok {
					for _, op := range retOperands(rt) {
						if k := constVal(op); k != nil && k.String() == "true" {
							dl = append(dl, rt)
						}
					}
				}
			})
			r.analysed(fname(sf))
		}
		dels = append(dels, dl...)
		lookups = append(lookups, lks...)
	}
	for _, lk := range lookups {
		f := lk.Parent()
		// the values that carry the lookup's result: itself and phis merging it
		carries := map[ssa.Value]bool{lk: true}
		for changed := true; changed; {
			changed = false
			instrs(f, func(in ssa.Instruction) {
				if phi, ok := in.(*ssa.Phi); ok && !carries[phi] {
					for _, e := range phi.Edges {
						if carries[e] {
							carries[phi] = true
							changed = true
						}
					}
				}
			})
		}
		isTest := func(b *ssa.BasicBlock) bool {
			iff, ok := lastInstr(b).(*ssa.If)
			if !ok {
				return false
			}
			bo, ok := iff.Cond.(*ssa.BinOp)
			if !ok || (bo.Op != token.EQL && bo.Op != token.NEQ) {
				return false
			}
			return carries[bo.X] && isNilConst(bo.Y) || carries[bo.Y] && isNilConst(bo.X)
		}
		// search a path from the lookup to a delete() that passes no nil test of the result
		seen := map[*ssa.BasicBlock]bool{}
		untested := ""
		var walk func(b *ssa.BasicBlock, from int)
		walk = func(b *ssa.BasicBlock, from int) {
			for _, in := range b.Instrs[from:] {
				for _, d := range dels {
					if in == d {
						untested = c.pos(d.Pos())
						if untested == "" {
							untested = "the stage's `found` return"
						}
					}
				}
			}
			if isTest(b) {
				return
			}
			for _, su := range b.Succs {
				if !seen[su] {
					seen[su] = true
					walk(su, 0)
				}
			}
		}
		idx := 0
		for i, in := range lk.Block().Instrs {
			if in == ssa.Instruction(lk) {
				idx = i + 1
			}
		}
		walk(lk.Block(), idx)
		r.check(untested == "", "DEL-WALK", where, "child lookup tested", c.pos(lk.Pos()),
			"every path from this child lookup to the deletion phase passes a nil test of its result: an absent key is reported, whatever its depth",
			"a path leads from this child lookup to delete() at "+untested+" without testing its result for nil: when the last byte of the key has no child, Delete still removes an edge and returns true")
	}
	r.floor("DEL-WALK", len(lookups), 1, "child lookups in Delete's downward walk")
}

// reachUnderEmptyKey walks f from its entry following only the edges that are possible when the slice
// parameter is empty (conditions on len of the parameter — or of a loop variable that still holds it — are
// evaluated, all other conditions are taken both ways).
func reachUnderEmptyKey(f *ssa.Function, param ssa.Value) map[*ssa.BasicBlock]bool {
	reached, _ := reachUnderEmptyKeyVals(f, param, 0)
	return reached
}

// reachUnderEmptyKeyVals also reports, per reached return, the values result resIdx can have there ("true",
// "false", or "?" when not a constant on that path).
func reachUnderEmptyKeyVals(f *ssa.Function, param ssa.Value, resIdx int) (map[*ssa.BasicBlock]bool, map[*ssa.Return][]string) {
	retVals := map[*ssa.Return][]string{}
	reached := map[*ssa.BasicBlock]bool{}
	type edge struct{ from, to *ssa.BasicBlock }
	seenEdge := map[edge]bool{}
	type env struct {
		isParam map[ssa.Value]bool  // values that still are the (empty) parameter
		ints    map[ssa.Value]int64 // integer values known on this path
	}
	var walk func(b, pred *ssa.BasicBlock, e env)
	walk = func(b, pred *ssa.BasicBlock, e env) {
		reached[b] = true
		cur := env{map[ssa.Value]bool{}, map[ssa.Value]int64{}}
		for k, v := range e.isParam {
			cur.isParam[k] = v
		}
		for k, v := range e.ints {
			cur.ints[k] = v
		}
		known := func(v ssa.Value) (int64, bool) {
			if k, ok := cInt(constVal(v)); ok {
				return k, true
			}
			k, ok := cur.ints[v]
			return k, ok
		}
		for _, in := range b.Instrs {
			switch x := in.(type) {
			case *ssa.Phi:
				delete(cur.isParam, x)
				delete(cur.ints, x)
				for i, p := range b.Preds {
					if p != pred {
						continue
					}
					if e.isParam[x.Edges[i]] {
						cur.isParam[x] = true
					}
					if k, ok := cInt(constVal(x.Edges[i])); ok {
						cur.ints[x] = k
					} else if k, ok := e.ints[x.Edges[i]]; ok {
						cur.ints[x] = k
					} else if kv := constVal(x.Edges[i]); kv != nil && kv.Kind() == constant.Bool {
						if constant.BoolVal(kv) {
							cur.ints[x] = 1
						} else {
							cur.ints[x] = 0
						}
					}
				}
			case *ssa.Call:
				if bi, ok := x.Call.Value.(*ssa.Builtin); ok && bi.Name() == "len" && cur.isParam[x.Call.Args[0]] {
					cur.ints[x] = 0
				}
			case *ssa.BinOp:
				l, ok1 := known(x.X)
				r, ok2 := known(x.Y)
				if ok1 && ok2 {
					switch x.Op {
					case token.ADD:
						cur.ints[x] = l + r
					case token.SUB:
						cur.ints[x] = l - r
					}
				}
			}
		}
		if rt, ok := lastInstr(b).(*ssa.Return); ok {
			ops := retOperands(rt)
			val := "?"
			if resIdx < len(ops) {
				if kv := constVal(ops[resIdx]); kv != nil && kv.Kind() == constant.Bool {
					val = kv.String()
				} else if k, ok := cur.ints[ops[resIdx]]; ok {
					if _, isBool := ops[resIdx].Type().Underlying().(*types.Basic); isBool && ops[resIdx].Type().Underlying().(*types.Basic).Kind() == types.Bool {
						val = map[int64]string{0: "false", 1: "true"}[k]
					}
				}
			}
			retVals[rt] = append(retVals[rt], val)
		}
		outs := []bool{true, true}
		if iff, ok := lastInstr(b).(*ssa.If); ok {
			if bo, ok := iff.Cond.(*ssa.BinOp); ok {
				l, ok1 := known(bo.X)
				r, ok2 := known(bo.Y)
				if ok1 && ok2 {
					if res, okc := cmpHolds(bo.Op, int(l), int(r)); okc {
						outs = []bool{res, !res}
					}
				}
			}
		}
		for i, su := range b.Succs {
			if i < len(outs) && !outs[i] {
				continue
			}
			if seenEdge[edge{b, su}] {
				continue
			}
			seenEdge[edge{b, su}] = true
			walk(su, b, cur)
		}
	}
	walk(f.Blocks[0], nil, env{map[ssa.Value]bool{param: true}, map[ssa.Value]int64{}})
	return reached, retVals
}

// rulesTrieEmptyKey (EMPTY-KEY): with an empty argument, Has can only return true and Add reaches no write.
func rulesTrieEmptyKey(c *Ctx, r *Report) {
	if f := c.fn("trie", "(*Trie).Has"); f != nil && len(f.Params) == 2 {
		where := "trie.(*Trie).Has"
		// Has itself, or the function it hands the whole lookup to (its bool result returned as it is)
		af, ap, resIdx := f, ssa.Value(f.Params[1]), 0
		if g, call := c.soleDelegate(f); g != nil {
			var rt *ssa.Return
			instrs(f, func(in ssa.Instruction) {
				if x, ok := in.(*ssa.Return); ok {
					rt = x
				}
			})
			pi := -1
			for i, a := range call.Call.Args {
				if a == ssa.Value(f.Params[1]) {
					pi = i
				}
			}
			if rt != nil && len(rt.Results) == 1 && pi >= 0 && pi < len(g.Params) {
				switch x := rt.Results[0].(type) {
				case *ssa.Extract:
					if x.Tuple == ssa.Value(call) {
						af, ap, resIdx = g, g.Params[pi], x.Index
					}
				case *ssa.Call:
					if x == call {
						af, ap, resIdx = g, g.Params[pi], 0
					}
				}
			}
			if af == g {
				r.analysed(fname(g))
			}
		}
		reached, vals := reachUnderEmptyKeyVals(af, ap, resIdx)
		var bad []string
		nRet := 0
		instrs(af, func(in ssa.Instruction) {
			rt, ok := in.(*ssa.Return)
			if !ok || !reached[rt.Block()] {
				return
			}
			nRet++
			for _, v := range vals[rt] {
				if v != "true" {
					bad = append(bad, c.pos(returnPos(rt.Block(), rt)))
				}
			}
			if len(vals[rt]) == 0 {
				bad = append(bad, c.pos(returnPos(rt.Block(), rt)))
			}
		})
		r.check(len(bad) == 0 && nRet > 0, "EMPTY-KEY", where, "Has(empty)", c.pos(f.Pos()),
			fmt.Sprintf("with an empty argument the only reachable return (%d) is `true`, whatever the trie holds", nRet),
			fmt.Sprintf("with an empty argument a return other than `true` is reachable (%v) depending on something else than the argument: Has(empty) must be true for every trie", bad))
	} else {
		r.undecided("EMPTY-KEY", "trie.(*Trie).Has", "anchor", "", "Has(b) not found")
	}
	if f := c.fn("trie", "(*Trie).Add"); f != nil && len(f.Params) == 2 {
		where := "trie.(*Trie).Add"
		reached := reachUnderEmptyKey(f, f.Params[1])
		var bad []string
		instrs(f, func(in ssa.Instruction) {
			if !reached[in.Block()] {
				return
			}
			switch x := in.(type) {
			case *ssa.MapUpdate:
				bad = append(bad, "map update at "+c.pos(x.Pos()))
			case *ssa.Store:
				if _, local := x.Addr.(*ssa.Alloc); !local {
					bad = append(bad, "store at "+c.pos(x.Pos()))
				}
			case *ssa.Call:
				if g := x.Call.StaticCallee(); g != nil && c.inModule(g) {
					bad = append(bad, "call of "+fname(g)+" at "+c.pos(x.Pos()))
				}
			}
		})
		r.check(len(bad) == 0, "EMPTY-KEY", where, "Add(empty)", c.pos(f.Pos()),
			"with an empty argument no map update, store or module call is reachable: adding the empty sequence changes nothing",
			"with an empty argument Add can reach: "+strings.Join(bad, "; "))
	} else {
		r.undecided("EMPTY-KEY", "trie.(*Trie).Add", "anchor", "", "Add(b) not found")
	}
}

func rulesTrieDelete(c *Ctx, r *Report, e *effEngine) {
	f := c.fn("trie", "(*Trie).Delete")
	where := "trie.(*Trie).Delete"
	if f == nil {
		r.undecided("DEL-NF", where, "anchor", "", "Delete not found")
		return
	}
	r.analysed(where)
	s := e.summarize(f)
	// returns of constant false
	var falseRets []*ssa.Return
	instrs(f, func(in ssa.Instruction) {
		if rt, ok := in.(*ssa.Return); ok && len(rt.Results) == 1 {
			if k := constVal(retOperands(rt)[0]); k != nil && k.String() == "false" {
				falseRets = append(falseRets, rt)
			}
		}
	})
	if len(falseRets) == 0 {
		r.undecided("DEL-NF", where, "not-found return", c.pos(f.Pos()), "no `return false` found")
	}
	evs := s.writes[0]
	for _, rt := range falseRets {
		bad := ""
		for _, ev := range evs {
			if ev.ins.Block() == rt.Block() || blockReaches(ev.ins.Block(), rt.Block()) {
				bad = fmt.Sprintf("%s at %s", ev.kind, c.pos(ev.ins.Pos()))
			}
		}
		r.check(bad == "", "DEL-NF", where, "not-found path writes nothing", c.pos(rt.Pos()), "no write to the trie can precede this `return false`", "the trie may be modified ("+bad+") on a path that then reports 'not found'")
	}
	r.floor("DEL-writes", len(evs), 1, "write events of Delete on the trie (the delete itself)")
	// DEL-ONLY: Delete changes the trie by removing map entries and in no other way
	var other []string
	for _, ev := range evs {
		if ev.kind != "delete" && !strings.HasPrefix(ev.kind, "delete via ") {
			other = append(other, fmt.Sprintf("%s at %s", ev.kind, c.pos(ev.ins.Pos())))
		}
	}
	r.check(len(other) == 0, "DEL-ONLY", where, "only removes edges", c.pos(f.Pos()), fmt.Sprintf("all %d write events of Delete on the trie are delete() on a node's map: nodes that stay reachable (the root included) keep a usable map", len(evs)),
		"Delete also changes the trie other than by delete() on a map ("+strings.Join(other, "; ")+"): a node that stays reachable, e.g. the root of an emptied trie, can be left in a state later calls do not expect")
	// DEL-PRUNE: after delete(node.m, key), the loop continues only when len(node.m) == 0
	var del *ssa.Call
	for _, sf := range c.stageFuncs(f) {
		instrs(sf, func(in ssa.Instruction) {
			if cl, ok := in.(*ssa.Call); ok {
				if b, ok := cl.Call.Value.(*ssa.Builtin); ok && b.Name() == "delete" {
					del = cl
				}
			}
		})
	}
	if del != nil && del.Parent() != f {
		// the pruning loop lives in a stage of Delete: analyse it there
		f = del.Parent()
		r.analysed(fname(f))
	}
	if del == nil {
		r.undecided("DEL-PRUNE", where, "delete", c.pos(f.Pos()), "no delete() found")
		return
	}
	sy := newSymb(f)
	mapExpr := sy.expr(del.Call.Args[0]).String()
	isLen := func(v ssa.Value) bool {
		e := sy.expr(v)
		return e.Op == "builtin:len" && e.Args[0].String() == mapExpr
	}
	// loop header of the pruning loop: the natural loop containing del
	var header *ssa.BasicBlock
	for _, b := range f.Blocks {
		if nl := naturalLoop(b); len(nl) > 1 && nl[del.Block()] {
			if header == nil || len(nl) < len(naturalLoop(header)) {
				header = b
			}
		}
	}
	if header == nil {
		r.undecided("DEL-PRUNE", where, "pruning loop", c.pos(del.Pos()), "delete() is not inside a loop")
		return
	}
	// the pruning loop as an automaton over (loop-carried flags, number of children left after the delete,
	// opaque conditions): which child counts let the walk go on to another delete?
	var lenCall *ssa.Call
	instrs(f, func(in ssa.Instruction) {
		if cl, ok := in.(*ssa.Call); ok && isLen(cl) && instrDominates(del, cl) {
			if lenCall == nil {
				lenCall = cl
			}
		}
	})
	if lenCall == nil {
		r.violated("DEL-PRUNE", where, "prune only empty ancestors", c.pos(del.Pos()), "the number of children left after the delete is never looked at: the upward walk does not depend on whether the ancestor still has other members below it")
		return
	}
	// every len() of that map after the delete is the same quantity: preset them all
	var extra []fsmInput
	extra = append(extra, fsmInput{v: lenCall, dom: []int64{0, 1, 2, 3}, name: "children"})
	m := buildFSM(c, f, header, nil, extra...)
	if m.err != "" {
		r.undecided("DEL-PRUNE", where, "pruning loop", c.pos(del.Pos()), "the pruning loop could not be evaluated: "+m.err)
		return
	}
	lenIdx := -1
	var stateIdx []int
	for i, in := range m.inputs {
		if in.v == ssa.Value(lenCall) {
			lenIdx = i
		} else if phi, ok := in.v.(*ssa.Phi); ok && phi.Block() == header {
			stateIdx = append(stateIdx, i)
		}
	}
	deletes := func(p *fsmPoint) bool {
		for _, e := range p.events {
			if strings.HasPrefix(e, "delete(") {
				return true
			}
		}
		return false
	}
	cont := intSet{}
	nDel := 0
	for _, p := range m.points {
		if !deletes(p) {
			continue
		}
		nDel++
		if !strings.HasPrefix(p.exit, "next(") {
			continue
		}
		next := map[string]string{}
		for _, kv := range strings.Split(strings.TrimSuffix(strings.TrimPrefix(p.exit, "next("), ")"), ",") {
			if i := strings.Index(kv, "="); i > 0 {
				next[kv[:i]] = kv[i+1:]
			}
		}
		for _, q := range m.points {
			if !deletes(q) {
				continue
			}
			match := true
			for _, si := range stateIdx {
				if want, ok := next[m.inputs[si].name]; ok && want != "?" && want != fmt.Sprint(q.vals[si]) {
					match = false
				}
			}
			if match {
				cont[p.vals[lenIdx]] = true
			}
		}
	}
	if nDel == 0 {
		r.undecided("DEL-PRUNE", where, "pruning loop", c.pos(del.Pos()), "no point of the loop automaton performs the delete")
		return
	}
	okPrune := len(cont) == 1 && cont[0]
	r.check(okPrune, "DEL-PRUNE", where, "prune only empty ancestors", c.pos(del.Pos()),
		fmt.Sprintf("over the loop automaton (%d points: loop-carried flags x children left x opaque conditions), the walk goes on to delete the parent's edge exactly when the node has no children left", len(m.points)),
		fmt.Sprintf("the upward walk can go on when the node still has %v children: members that do not have the deleted prefix are removed too (want: continue only with 0)", cont.sorted()))
	// the deleted key is b[i] in stack[i].m
	keyStr := sy.expr(del.Call.Args[1]).String()
	keyOK := false
	for i, p := range f.Params {
		if sl, ok := p.Type().Underlying().(*types.Slice); ok && types.Identical(sl.Elem(), types.Typ[types.Byte]) && strings.HasPrefix(keyStr, fmt.Sprintf("load(P%d[", i)) {
			keyOK = true
		}
	}
	if !keyOK {
		// the key kept beside the node in the walk's stack: stack[i] = link{node, b[i]} … delete(link.node.m, link.key)
		isArgByte := func(v ssa.Value) bool {
			e := sy.expr(v).String()
			for i, p := range f.Params {
				if sl, ok := p.Type().Underlying().(*types.Slice); ok && types.Identical(sl.Elem(), types.Typ[types.Byte]) && strings.HasPrefix(e, fmt.Sprintf("load(P%d[", i)) {
					return true
				}
			}
			return false
		}
		// the field and the slice the key is read from
		var stack ssa.Value
		field := -1
		if ld, ok := del.Call.Args[1].(*ssa.UnOp); ok && ld.Op == token.MUL {
			if fa, ok := ld.X.(*ssa.FieldAddr); ok {
				switch x := fa.X.(type) {
				case *ssa.Alloc:
					if el, ok := cellValue(x).(*ssa.UnOp); ok && el.Op == token.MUL {
						if ia, ok := el.X.(*ssa.IndexAddr); ok {
							stack, field = ia.X, fa.Field
						}
					}
				case *ssa.IndexAddr:
					stack, field = x.X, fa.Field
				}
			}
		}
		if _, isMk := stack.(*ssa.MakeSlice); isMk && field >= 0 {
			nStores, nOK := 0, 0
			instrs(f, func(in ssa.Instruction) {
				st, ok := in.(*ssa.Store)
				if !ok {
					return
				}
				switch ad := st.Addr.(type) {
				case *ssa.IndexAddr:
					if ad.X != stack {
						return
					}
					nStores++
					// the element stored whole: a literal whose field is a byte of the argument
					if ld, ok := st.Val.(*ssa.UnOp); ok && ld.Op == token.MUL {
						if lit, ok := ld.X.(*ssa.Alloc); ok {
							n, good := 0, 0
							for _, ref := range *lit.Referrers() {
								if fa, ok := ref.(*ssa.FieldAddr); ok && fa.Field == field {
									for _, r2 := range *fa.Referrers() {
										if s2, ok := r2.(*ssa.Store); ok && s2.Addr == ssa.Value(fa) {
											n++
											if isArgByte(s2.Val) {
												good++
											}
										}
									}
								}
							}
							if n == 1 && good == 1 {
								nOK++
							}
						}
					}
				case *ssa.FieldAddr:
					if ia, ok := ad.X.(*ssa.IndexAddr); ok && ia.X == stack && ad.Field == field {
						nStores++
						if isArgByte(st.Val) {
							nOK++
						}
					}
				}
			})
			keyOK = nStores > 0 && nStores == nOK
		}
	}
	r.check(keyOK, "DEL-PRUNE", where, "deleted edge", c.pos(del.Pos()), "the removed edge is labelled with a byte of the argument", "the removed edge is not labelled with b[i]")
}

// partitionFlowFrom is partitionFlow started at an inner block with the full domain.
func partitionFlowFrom(f *ssa.Function, start *ssa.BasicBlock, isTerm func(ssa.Value) bool, dom []int64) map[*ssa.BasicBlock]intSet {
	in := map[*ssa.BasicBlock]intSet{}
	all := intSet{}
	for _, k := range dom {
		all[k] = true
	}
	in[start] = all
	work := []*ssa.BasicBlock{start}
	for len(work) > 0 {
		b := work[0]
		work = work[1:]
		s := in[b]
		outs := make([]intSet, len(b.Succs))
		for i := range outs {
			outs[i] = s
		}
		if iff, ok := b.Instrs[len(b.Instrs)-1].(*ssa.If); ok {
			if bo, ok := iff.Cond.(*ssa.BinOp); ok {
				var k int64
				var okc, flip bool
				if isTerm(bo.X) {
					k, okc = cInt(constVal(bo.Y))
				} else if isTerm(bo.Y) {
					k, okc = cInt(constVal(bo.X))
					flip = true
				}
				if okc {
					t, e := intSet{}, intSet{}
					for v := range s {
						x, y := int(v), int(k)
						if flip {
							x, y = y, x
						}
						if res, ok := cmpHolds(bo.Op, x, y); ok {
							if res {
								t[v] = true
							} else {
								e[v] = true
							}
						}
					}
					outs[0], outs[1] = t, e
				}
			}
		}
		for i, sb := range b.Succs {
			if sb == start {
				continue
			}
			changed := false
			if in[sb] == nil {
				in[sb] = intSet{}
				changed = true
			}
			for v := range outs[i] {
				if !in[sb][v] {
					in[sb][v] = true
					changed = true
				}
			}
			if changed {
				work = append(work, sb)
			}
		}
	}
	return in
}

func rulesTrieKeys(c *Ctx, r *Report) {
	f := c.role("trie.keys")
	where := "trie.(keys helper of ForEach)"
	if f == nil {
		r.undecided("KEYS-ALL", where, "anchor", "", "keys not found")
		return
	}
	r.analysed(where)
	sy := newSymb(f)
	var rg *ssa.Range
	instrs(f, func(in ssa.Instruction) {
		if x, ok := in.(*ssa.Range); ok {
			rg = x
		}
	})
	okRange := rg != nil && sy.expr(rg.X).String() == "load(P0.f0)"
	okAppend := false
	var otherAppends []string
	if rg != nil {
		instrs(f, func(in ssa.Instruction) {
			cl, ok := in.(*ssa.Call)
			if !ok {
				return
			}
			if b, ok := cl.Call.Value.(*ssa.Builtin); !ok || b.Name() != "append" {
				return
			}
			if sl, ok := cl.Type().Underlying().(*types.Slice); !ok || !types.Identical(sl.Elem(), types.Typ[types.Byte]) {
				return
			}
			isKey := false
			for _, v := range orderedVarargs([]ssa.Value{cl.Call.Args[1]}) {
				if ex, ok := v.(*ssa.Extract); ok && ex.Index == 1 {
					if nx, ok := ex.Tuple.(*ssa.Next); ok && nx.Iter == ssa.Value(rg) {
						// appended unconditionally in the loop body: the append's block is the block after the ok test
						okAppend, isKey = true, true
					}
				}
			}
			if !isKey {
				otherAppends = append(otherAppends, c.pos(cl.Pos()))
			}
		})
	}
	r.check(okRange && okAppend, "KEYS-ALL", where, "every child key", c.pos(f.Pos()), "keys() ranges over the node's own map and appends the key of every iteration", "keys() does not enumerate the node's map with a range that appends every key: some children are never visited by ForEach")
	r.check(len(otherAppends) == 0, "KEYS-ALL", where, "nothing but the map's keys", c.pos(f.Pos()), "every byte appended to the key list is the key of an iteration over the node's map: each child is listed once",
		fmt.Sprintf("bytes are appended to the key list outside the range over the node's map (%v): a key can be listed twice, and ForEach then reports a member twice and skips another", otherAppends))
	// ForEach: progress compared with len of the same node's map or of its key list
	fe := c.fn("trie", "(*Trie).ForEach")
	if fe == nil {
		r.undecided("KEYS-ALL", "trie.(*Trie).ForEach", "anchor", "", "ForEach not found")
		return
	}
	r.analysed(fname(fe))
	sf := newSymb(fe)
	okCmp := false
	desc := ""
	instrs(fe, func(in ssa.Instruction) {
		bo, ok := in.(*ssa.BinOp)
		if !ok || (bo.Op != token.EQL && bo.Op != token.NEQ) { // `i == len` leaves the branch, `i != len` stays in it
			return
		}
		x, y := sf.expr(bo.X), sf.expr(bo.Y)
		for _, pr := range [][2]*Sym{{x, y}, {y, x}} {
			if pr[1].Op == "builtin:len" && pr[0].Op == "load" && pr[0].Args[0].Op == "field" {
				step := pr[0].Args[0].Args[0].String()
				l := pr[1].Args[0].String()
				desc = pr[0].String() + " == " + pr[1].String()
				// len(step.t.m) or len(step.k) of the same step
				if strings.Contains(l, step) {
					okCmp = true
				}
			}
		}
	})
	r.check(okCmp, "KEYS-ALL", fname(fe), "branch finished test", c.pos(fe.Pos()), "a node is finished when its progress index equals the number of children/keys of that same node ("+desc+")", "no test `step.i == len(children of the same step)` found: a branch may be left before all children are visited")
	_ = types.Typ
}

func rulesTrieJSON(c *Ctx, r *Report) {
	mj := c.fn("trie", "(*Trie).MarshalJSON")
	uj := c.fn("trie", "(*Trie).UnmarshalJSON")
	if mj == nil || uj == nil {
		r.undecided("JSON-MIRROR", "trie", "anchor", "", "MarshalJSON/UnmarshalJSON not found")
		return
	}
	r.analysed(fname(mj))
	r.analysed(fname(uj))
	sm := newSymb(mj)
	// MarshalJSON: straight line; json.Marshal(mirror) where mirror's only field store is load(t.m)
	var mcall *ssa.Call
	nLoops := 0
	instrs(mj, func(in ssa.Instruction) {
		if cl, ok := in.(*ssa.Call); ok && fnIs(cl.Call.StaticCallee(), "encoding/json", "Marshal") {
			mcall = cl
		}
		switch in.(type) {
		case *ssa.Range, *ssa.MapUpdate, *ssa.Phi:
			nLoops++
		}
	})
	okM := false
	var mirrorT types.Type
	if mcall != nil {
		if mi, ok := mcall.Call.Args[0].(*ssa.MakeInterface); ok {
			// the mirror handed over straight from the helper that builds it
			if isMirrorCall(c, mi.X, mj) {
				mirrorT = mi.X.Type()
				okM = true
			}
			if ld, ok := mi.X.(*ssa.UnOp); ok {
				if al, ok := ld.X.(*ssa.Alloc); ok {
					mirrorT = al.Type().(*types.Pointer).Elem()
					nStores, okStore := 0, true
					for _, ref := range *al.Referrers() {
						if fa, ok := ref.(*ssa.FieldAddr); ok {
							for _, r2 := range *fa.Referrers() {
								if st, ok := r2.(*ssa.Store); ok {
									nStores++
									if sm.expr(st.Val).String() != "load(P0.f0)" {
										okStore = false
									}
								}
							}
						}
						// the mirror built by a helper of the node: m := t.mirror()
						if st, ok := ref.(*ssa.Store); ok && st.Addr == ssa.Value(al) {
							nStores++
							if !isMirrorCall(c, st.Val, mj) {
								okStore = false
							}
						}
					}
					okM = nStores == 1 && okStore
				}
			}
		}
	}
	r.check(okM && nLoops == 0, "JSON-MIRROR", fname(mj), "marshals the node's own map", c.pos(mj.Pos()), "MarshalJSON marshals a mirror struct whose single field is the node's map itself, with no key or value transformation", "MarshalJSON transforms the map (keys or values) before marshalling, or does not marshal exactly the node's map")
	// UnmarshalJSON: json.Unmarshal(data, &mirror) ; t.m = mirror.M ; same mirror type
	su := newSymb(uj)
	var ucall *ssa.Call
	nLoopsU := 0
	instrs(uj, func(in ssa.Instruction) {
		if cl, ok := in.(*ssa.Call); ok && fnIs(cl.Call.StaticCallee(), "encoding/json", "Unmarshal") {
			ucall = cl
		}
		switch in.(type) {
		case *ssa.Range, *ssa.MapUpdate:
			nLoopsU++
		}
	})
	okU := false
	if ucall != nil {
		if mi, ok := ucall.Call.Args[1].(*ssa.MakeInterface); ok {
			if al, ok := mi.X.(*ssa.Alloc); ok {
				sameT := mirrorT != nil && types.Identical(al.Type().(*types.Pointer).Elem(), mirrorT)
				stored := false
				instrs(uj, func(in ssa.Instruction) {
					if st, ok := in.(*ssa.Store); ok && su.expr(st.Addr).String() == "P0.f0" {
						v := su.expr(st.Val)
						if v.Op == "load" && v.Args[0].Op == "field" && v.Args[0].Args[0].Val == ssa.Value(al) {
							stored = true
						}
					}
				})
				okU = sameT && stored
			}
		}
	}
	r.check(okU && nLoopsU == 0, "JSON-MIRROR", fname(uj), "restores the mirror's map", c.pos(uj.Pos()), "UnmarshalJSON decodes into the same mirror type and stores its map into the node unchanged", "UnmarshalJSON does not decode into the marshalling mirror type and store its map back unchanged: a rebuilt trie can differ from the original")
}

// rulesReentrant (REENTRANT): iterator bodies keep their working state local — no store to a captured
// variable, no append/store through a captured slice or map.
func rulesReentrant(c *Ctx, r *Report, names []string) {
	want := map[string]bool{}
	for _, n := range names {
		want[n] = true
	}
	n := 0
	for _, f := range c.moduleFuncs() {
		if !want[fname(f)] {
			continue
		}
		n++
		r.analysed(fname(f))
		var bad []string
		derived := map[ssa.Value]bool{}
		for _, fv := range f.FreeVars {
			derived[fv] = true
		}
		instrs(f, func(in ssa.Instruction) {
			switch x := in.(type) {
			case *ssa.Store:
				if derived[x.Addr] {
					bad = append(bad, "store to captured variable "+x.Addr.Name()+" at "+c.pos(x.Pos()))
				}
			}
		})
		r.check(len(bad) == 0, "REENTRANT", fname(f), "working state is local", c.pos(f.Pos()), "the iterator body never assigns to a captured variable: two runs of the same iterator value do not share state", "the iterator body assigns to variables captured from outside ("+strings.Join(bad, "; ")+"): running the same iterator value twice (nested, or via two iter.Pull) corrupts both runs")
	}
	r.floor("REENTRANT", n, len(names), "iterator bodies")
}

// isMirrorCall: v is h(recv) for a straight-line module helper h that returns a struct whose single field store is
// its receiver's map (load(P0.f0)).
func isMirrorCall(c *Ctx, v ssa.Value, caller *ssa.Function) bool {
	cl, ok := v.(*ssa.Call)
	if !ok || len(cl.Call.Args) != 1 || len(caller.Params) == 0 || cl.Call.Args[0] != ssa.Value(caller.Params[0]) {
		return false
	}
	h := cl.Call.StaticCallee()
	if h == nil || h.Blocks == nil || !c.inModule(h) || len(h.Blocks) != 1 {
		return false
	}
	hs := newSymb(h)
	rt, ok := lastInstr(h.Blocks[0]).(*ssa.Return)
	if !ok || len(rt.Results) != 1 {
		return false
	}
	ld, ok := rt.Results[0].(*ssa.UnOp)
	if !ok {
		return false
	}
	al, ok := ld.X.(*ssa.Alloc)
	if !ok {
		return false
	}
	n, good := 0, true
	for _, ref := range *al.Referrers() {
		switch x := ref.(type) {
		case *ssa.FieldAddr:
			for _, r2 := range *x.Referrers() {
				if st, ok := r2.(*ssa.Store); ok {
					n++
					if hs.expr(st.Val).String() != "load(P0.f0)" {
						good = false
					}
				}
			}
		case *ssa.Store:
			good = false
		}
	}
	return n == 1 && good
}
