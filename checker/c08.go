package main

func init() {
	register("C08", "one obligation per weak ordering (label/candidate pairing), per sibling expression pair, per traceback arm, per effect query; non-trivial = needed an ordering enumeration, a symbolic normal form comparison or a points-to/effect computation", rulesC08, nil)
}

func rulesC08(c *Ctx, r *Report) {
	r.explain("Decides: (PURE) Global, Local and everything they call never write through a, b or m; (ORD-L) decideOnStep labels the returned score with the step kind of the candidate it came from, in all 13 weak orderings; (SIB3) each traceback arm moves back by exactly the predecessor offset its candidate was computed from, in both Global/traceAlignmentSteps and Local/traceAlignmentStepsLocal; (SIB1) Global's and Local's candidate expressions and guarded cell stores are symbolically identical apart from Local's zero clamps; (SIB2) every substitution-matrix lookup has the argument order of its step kind (Get(a,Gap) deletion, Get(Gap,b) insertion) at the edges and in the middle — the asymmetric-matrix clause; (GO-SHAPE) gap-open is added exactly when the predecessor cell's step is of another kind, on the same predecessor the base score came from; (SIB-IDX) a and b are read at the cell's own row/column; (SIB5) Local's returned offsets are the fill's read indices of the first cell. Not decided: that the steps consume exactly a and b, score = re-score of the steps as an equality, absence of the internal panics. Added rules: (STOP) the traceback loops leave only at the origin (Global) or additionally at score == 0 of the current cell (Local); guards of cell stores are compared as boolean functions of the branch conditions (exact path conditions), not as nesting. (REV) before they are returned the collected steps are put in order: slices.Reverse, or a swap loop whose two positions add up to len-1 (as an invariant of its loop variables), whose test is equivalent to p < q as a linear inequality (`i < len/2` through the quotient law) and reads len-2 >= 0 on entry; or the steps are written from the end of a fixed buffer whose length is, term by term, at least bn + len(blocks)/bn - 2, the longest path through the table (a smaller buffer lets the index run below 0 on alignments with gaps on both sides). (T-START) Local's walk starts at a best cell of the whole table: the search is handed the table itself, its result is the start index unchanged, its loop visits every cell. (AS-TRACED) the steps and the score returned are the traceback's own results, handed on unchanged.")
	r.assume("scores are finite (NaN is outside the orderings enumerated); loads are compared modulo program point (siblings share the same abstraction)")
	rulesDecideOnStep(c, r, false, true)
	rulesSiblingRecurrence(c, r, false)
	rulesTraceFollowsFill(c, r)
	rulesLocalClamp(c, r)
	rulesTraceStop(c, r)
	rulesStepsReversed(c, r)
	rulesTracePanics(c, r)
	rulesFillAllCells(c, r)
	rulesStepsAsTraced(c, r) // the steps and score returned are the traceback's own, unchanged
	rulesTraceStart(c, r)
	rulesPureAlign(c, r)
}
