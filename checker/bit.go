package main

// E-BIT — bit-parallel abstract interpretation: a 64-vector of bit expressions over
// {0, 1, in_k, not in_k}. Exact for all 2^64 inputs at once for code built from bitwise
// operators with constants.

import (
	"fmt"
	"go/token"
	"go/types"
	"sort"
	"strings"

	"golang.org/x/tools/go/ssa"
)

type bitx struct {
	kind int8 // 0: const0, 1: const1, 2: in_k, 3: not in_k
	k    int8
}

type bitvec [64]bitx

func inVec() bitvec {
	var v bitvec
	for i := range v {
		v[i] = bitx{2, int8(i)}
	}
	return v
}

func constVec(x int64) bitvec {
	var v bitvec
	for i := range v {
		if (uint64(x)>>uint(i))&1 == 1 {
			v[i] = bitx{1, 0}
		}
	}
	return v
}

func bitNot(a bitx) bitx {
	switch a.kind {
	case 0:
		return bitx{1, 0}
	case 1:
		return bitx{0, 0}
	case 2:
		return bitx{3, a.k}
	}
	return bitx{2, a.k}
}

func bitAnd(a, b bitx) (bitx, bool) {
	switch {
	case a.kind == 0 || b.kind == 0:
		return bitx{0, 0}, true
	case a.kind == 1:
		return b, true
	case b.kind == 1:
		return a, true
	case a == b:
		return a, true
	case a.k == b.k:
		return bitx{0, 0}, true // x & !x
	}
	return bitx{}, false
}

func bitOr(a, b bitx) (bitx, bool) {
	x, ok := bitAnd(bitNot(a), bitNot(b))
	return bitNot(x), ok
}

func bitXor(a, b bitx) (bitx, bool) {
	switch {
	case a.kind == 0:
		return b, true
	case b.kind == 0:
		return a, true
	case a.kind == 1:
		return bitNot(b), true
	case b.kind == 1:
		return bitNot(a), true
	case a == b:
		return bitx{0, 0}, true
	case a.k == b.k:
		return bitx{1, 0}, true
	}
	return bitx{}, false
}

func vecOp(op token.Token, a, b bitvec) (bitvec, bool) {
	var out bitvec
	for i := range out {
		var ok bool
		switch op {
		case token.AND:
			out[i], ok = bitAnd(a[i], b[i])
		case token.OR:
			out[i], ok = bitOr(a[i], b[i])
		case token.XOR:
			out[i], ok = bitXor(a[i], b[i])
		case token.AND_NOT:
			out[i], ok = bitAnd(a[i], bitNot(b[i]))
		default:
			return out, false
		}
		if !ok {
			return out, false
		}
	}
	return out, true
}

func (v bitvec) describe(width int) string {
	var parts []string
	for i := 0; i < width; i++ {
		b := v[i]
		if b.kind == 2 && int(b.k) == i {
			continue
		}
		switch b.kind {
		case 0:
			parts = append(parts, fmt.Sprintf("bit%d:=0", i))
		case 1:
			parts = append(parts, fmt.Sprintf("bit%d:=1", i))
		case 2:
			parts = append(parts, fmt.Sprintf("bit%d:=in%d", i, b.k))
		case 3:
			parts = append(parts, fmt.Sprintf("bit%d:=!in%d", i, b.k))
		}
	}
	if len(parts) == 0 {
		return "unchanged"
	}
	return strings.Join(parts, " ")
}

// bitEval evaluates integer SSA values of f as bit vectors; in is the vector for the designated input.
type bitEval struct {
	vals  map[ssa.Value]bitvec
	width int
}

func (e *bitEval) vec(v ssa.Value) (bitvec, bool) {
	if x, ok := e.vals[v]; ok {
		return x, true
	}
	if k, ok := cInt(constVal(v)); ok {
		return constVec(k), true
	}
	switch x := v.(type) {
	case *ssa.BinOp:
		a, ok1 := e.vec(x.X)
		b, ok2 := e.vec(x.Y)
		if !ok1 || !ok2 {
			return bitvec{}, false
		}
		r, ok := vecOp(x.Op, a, b)
		if ok {
			e.vals[v] = r
		}
		return r, ok
	case *ssa.UnOp:
		if x.Op == token.XOR {
			a, ok := e.vec(x.X)
			if !ok {
				return bitvec{}, false
			}
			var r bitvec
			for i := range r {
				r[i] = bitNot(a[i])
			}
			return r, true
		}
	case *ssa.ChangeType:
		return e.vec(x.X)
	case *ssa.Convert:
		return e.vec(x.X)
	}
	return bitvec{}, false
}

// boolOf evaluates a boolean SSA value that tests a vector against zero: returns the literals whose OR it is.
func (e *bitEval) boolOf(v ssa.Value) (lits []bitx, constTrue bool, ok bool) {
	b, isB := v.(*ssa.BinOp)
	if !isB {
		return nil, false, false
	}
	zeroRight := false
	if k, okc := cInt(constVal(b.Y)); okc && k == 0 {
		zeroRight = true
	}
	if !zeroRight {
		return nil, false, false
	}
	vec, okv := e.vec(b.X)
	if !okv {
		return nil, false, false
	}
	switch b.Op {
	case token.GTR:
		// signed > 0: sign bit must be provably clear
		if vec[e.width-1].kind != 0 {
			return nil, false, false
		}
	case token.NEQ:
	default:
		return nil, false, false
	}
	seen := map[bitx]bool{}
	for i := 0; i < e.width; i++ {
		switch vec[i].kind {
		case 1:
			constTrue = true
		case 2, 3:
			if !seen[vec[i]] {
				seen[vec[i]] = true
				lits = append(lits, vec[i])
			}
		}
	}
	return lits, constTrue, true
}

// SAM specification: flag bit per exported accessor name.
var samFlagBits = map[string]uint{
	"Multiple": 0, "Each": 1, "Unmapped": 2, "Unmapped2": 3, "ReverseComplement": 4, "ReverseComplement2": 5,
	"First": 6, "Last": 7, "Secondary": 8, "NotPassing": 9, "Duplicate": 10, "Supplementary": 11,
}

func rulesFlags(c *Ctx, r *Report) {
	p := c.pkg("formats/sam")
	sp := c.ssaPkg("formats/sam")
	if p == nil || sp == nil {
		r.undecided("BIT", "formats/sam", "anchor", "", "package not found")
		return
	}
	flagT, _ := p.Types.Scope().Lookup("Flag").(*types.TypeName)
	if flagT == nil {
		r.undecided("BIT", "formats/sam.Flag", "anchor", "", "type Flag not found")
		return
	}
	width := 64
	if sz := p.TypesSizes.Sizeof(flagT.Type()); sz == 4 {
		width = 32
	}
	var names []string
	for n := range samFlagBits {
		names = append(names, n)
	}
	sort.Strings(names)
	nc, ng, ns := 0, 0, 0
	for _, n := range names {
		bit := samFlagBits[n]
		// constant
		cn := "Flag" + n
		where := "formats/sam." + cn
		k, _ := p.Types.Scope().Lookup(cn).(*types.Const)
		if k == nil {
			r.undecided("BIT-C", where, "anchor", "", "flag constant not found")
		} else {
			nc++
			v, _ := cInt(k.Val())
			r.check(v == int64(1)<<bit, "BIT-C", where, "value", c.pos(k.Pos()), fmt.Sprintf("= 0x%x, the bit the SAM specification assigns", v), fmt.Sprintf("= 0x%x, the SAM specification assigns 0x%x", v, int64(1)<<bit))
		}
		// getter
		where = "formats/sam.Flag." + n
		g := ssaFunc(c.Prog, sp, "Flag."+n)
		if g == nil || len(g.Params) != 1 {
			r.undecided("BIT-G", where, "anchor", "", "getter not found")
		} else {
			ng++
			r.analysed(fname(g))
			r.CallSites++
			ok, why := bitGetter(g, bit, width)
			if why == "undecided" {
				r.undecided("BIT-G", where, "reads", c.pos(g.Pos()), "the getter is not built from bitwise operators with constants and a comparison with zero")
			} else {
				r.check(ok, "BIT-G", where, "reads", c.pos(g.Pos()), fmt.Sprintf("returns exactly input bit %d (0x%x) for every flag value", bit, 1<<bit), why)
			}
		}
		// setter
		where = "formats/sam.(*Flag).Set" + n
		st := ssaFunc(c.Prog, sp, "(*Flag).Set"+n)
		if st == nil || len(st.Params) != 2 {
			r.undecided("BIT-S", where, "anchor", "", "setter not found")
		} else {
			ns++
			r.analysed(fname(st))
			for _, val := range []bool{true, false} {
				res, why := bitSetter(st, val, width)
				cons := fmt.Sprintf("value=%v", val)
				if why != "" {
					r.undecided("BIT-S", where, cons, c.pos(st.Pos()), why)
					continue
				}
				want := inVec()
				if val {
					want[bit] = bitx{1, 0}
				} else {
					want[bit] = bitx{0, 0}
				}
				okAll := true
				for i := 0; i < width; i++ {
					if res[i] != want[i] {
						okAll = false
					}
				}
				r.check(okAll, "BIT-S", where, cons, c.pos(st.Pos()),
					fmt.Sprintf("bit %d becomes %v and every other bit keeps its input value, for every flag value", bit, val),
					fmt.Sprintf("effect on the flag is {%s}, want {%s}", res.describe(width), want.describe(width)))
			}
		}
	}
	r.floor("BIT-C", nc, 12, "flag constants")
	r.floor("BIT-G", ng, 12, "getters")
	r.floor("BIT-S", ns, 12, "setters")
	r.Extra["flag_bit_width"] = width
}

func bitGetter(g *ssa.Function, bit uint, width int) (bool, string) {
	return bitGetterWith(g, map[ssa.Value]bitvec{g.Params[0]: inVec()}, bit, width, 0)
}

func bitGetterWith(g *ssa.Function, vals map[ssa.Value]bitvec, bit uint, width int, depth int) (bool, string) {
	e := &bitEval{vals: vals, width: width}
	// single return of a boolean
	var rets []*ssa.Return
	instrs(g, func(in ssa.Instruction) {
		if rt, ok := in.(*ssa.Return); ok {
			rets = append(rets, rt)
		}
	})
	if len(rets) != 1 || len(rets[0].Results) != 1 || len(g.Blocks) != 1 {
		return false, "undecided"
	}
	// the test done by a helper of the package: return f.has(FlagX)
	if cl, isCall := rets[0].Results[0].(*ssa.Call); isCall && depth < 2 {
		if h := cl.Call.StaticCallee(); h != nil && h.Blocks != nil && h.Pkg == g.Pkg && h != g && len(h.Params) == len(cl.Call.Args) {
			hv := map[ssa.Value]bitvec{}
			for i, a := range cl.Call.Args {
				v, ok := e.vec(a)
				if !ok {
					return false, "undecided"
				}
				hv[h.Params[i]] = v
			}
			return bitGetterWith(h, hv, bit, width, depth+1)
		}
	}
	lits, ct, ok := e.boolOf(rets[0].Results[0])
	if !ok {
		return false, "undecided"
	}
	if ct {
		return false, "always returns true"
	}
	if len(lits) == 1 && lits[0] == (bitx{2, int8(bit)}) {
		return true, ""
	}
	var ds []string
	for _, l := range lits {
		if l.kind == 2 {
			ds = append(ds, fmt.Sprintf("bit %d (0x%x)", l.k, 1<<uint(l.k)))
		} else {
			ds = append(ds, fmt.Sprintf("NOT bit %d", l.k))
		}
	}
	if len(ds) == 0 {
		return false, "always returns false"
	}
	return false, fmt.Sprintf("returns the OR of %s, want exactly bit %d (0x%x)", strings.Join(ds, ", "), bit, 1<<bit)
}

// bitSetter follows the path selected by the boolean parameter and returns the vector left in *f.
func bitSetter(f *ssa.Function, val bool, width int) (bitvec, string) {
	return bitSetterIn(f, inVec(), map[ssa.Value]bool{f.Params[1]: val}, map[ssa.Value]bitvec{}, width, 0)
}

// bitSetterIn evaluates fn (receiver pointer = first parameter) starting from the given contents of *recv, with
// known boolean and vector parameters; a call to another method on the same receiver is followed.
func bitSetterIn(f *ssa.Function, mem bitvec, bools map[ssa.Value]bool, vecs map[ssa.Value]bitvec, width, depth int) (bitvec, string) {
	if depth > 2 {
		return mem, "setter helpers nested too deep"
	}
	recv := f.Params[0]
	e := &bitEval{vals: map[ssa.Value]bitvec{}, width: width}
	for v, x := range vecs {
		e.vals[v] = x
	}
	boolOf := func(v ssa.Value) (bool, bool) {
		if b, ok := bools[v]; ok {
			return b, true
		}
		if u, ok := v.(*ssa.UnOp); ok && u.Op == token.NOT {
			if b, ok := bools[u.X]; ok {
				return !b, true
			}
		}
		if k, ok := v.(*ssa.Const); ok && k.Value != nil {
			switch k.Value.String() {
			case "true":
				return true, true
			case "false":
				return false, true
			}
		}
		return false, false
	}
	blk := f.Blocks[0]
	for steps := 0; steps < 50; steps++ {
		for _, in := range blk.Instrs {
			switch x := in.(type) {
			case *ssa.UnOp:
				if x.Op == token.MUL && x.X == ssa.Value(recv) {
					e.vals[x] = mem
				}
			case *ssa.Store:
				if x.Addr != ssa.Value(recv) {
					return mem, "store to something other than the receiver"
				}
				v, ok := e.vec(x.Val)
				if !ok {
					return mem, "stored value is not built from bitwise operators with constants"
				}
				mem = v
			case *ssa.If:
				b, ok := boolOf(x.Cond)
				if !ok {
					return mem, "branch on something other than the value parameter"
				}
				if b {
					blk = blk.Succs[0]
				} else {
					blk = blk.Succs[1]
				}
				goto next
			case *ssa.Jump:
				blk = blk.Succs[0]
				goto next
			case *ssa.Return:
				return mem, ""
			case *ssa.Call:
				// a helper method on the same receiver: setBit(bit, value)
				g := x.Call.StaticCallee()
				if g == nil || g.Blocks == nil || len(x.Call.Args) == 0 || x.Call.Args[0] != ssa.Value(recv) || len(g.Params) != len(x.Call.Args) {
					return mem, "setter calls or panics"
				}
				gb, gv := map[ssa.Value]bool{}, map[ssa.Value]bitvec{}
				for i := 1; i < len(x.Call.Args); i++ {
					a := x.Call.Args[i]
					if b, ok := boolOf(a); ok {
						gb[g.Params[i]] = b
						continue
					}
					v, ok := e.vec(a)
					if !ok {
						return mem, "setter passes a value to a helper that is neither the flag parameter nor a bit constant"
					}
					gv[g.Params[i]] = v
				}
				var why string
				mem, why = bitSetterIn(g, mem, gb, gv, width, depth+1)
				if why != "" {
					return mem, why
				}
			case *ssa.Panic, *ssa.Go, *ssa.Defer:
				return mem, "setter calls or panics"
			}
		}
		return mem, "block without terminator"
	next:
	}
	return mem, "loop in setter"
}
