package main

import (
	"fmt"
	"go/constant"
	"go/token"
	"go/types"
	"sort"
	"strings"

	"golang.org/x/tools/go/ssa"
)

func init() {
	register("C12", "one obligation per table clause (decided over all 256 entries), per accept/panic boundary (all 256 inputs), per sibling expression, per effect query; non-trivial = needed table reconstruction from SSA, a 256-point transfer-function computation, or a symbolic comparison", rulesC12, nil)
}

// intTable converts an evaluated slice table to int64 values (unset = 0).
func intTable(t *sliceTable) []int64 {
	out := make([]int64, t.size)
	for i, v := range t.vals {
		if v != nil {
			n, _ := constant.Int64Val(constant.ToInt(v))
			out[i] = n
		}
	}
	return out
}

const rcLetters = "aAcCgGtTnN"

func isUpperByte(b int64) bool { return b >= 'A' && b <= 'Z' }

func rulesC12(c *Ctx, r *Report) {
	r.explain("Decides: (T-COMP) the complement table after init is populated exactly at aAcCgGtTnN, is an involution, pairs A-T, C-G, N-N and preserves case, for all 256 entries, and nothing outside init writes it; (Z-PANIC) complementByte returns the table entry for exactly those ten bytes and panics for the other 246, by a 256-point transfer function over its CFG; (FLOW-RC) every byte ReverseComplement appends / ReverseComplementString writes is complementByte of an element of the source; (SIB4) both loops run from len-1 down to 0 in steps of 1; (PURE/APPEND-ONLY) src is never written, dst is only appended to; CanonicalSubsequences never writes seq. (CS-*) CanonicalSubsequences computes rc as ReverseComplement(fresh, seq), loops i = 0..len(seq)-k with no other exit than the consumer's stop, yields once per iteration the smaller (by bytes.Compare on the two whole windows, all three outcomes) of seq[i:i+k] and rc[len(rc)-i-k:len(rc)-i]. Not decided: that indexing from len-1 down to 0 is the reversal as an equality of sequences; strand symmetry as an equality. SIB4 is an index law: source index affine in a counted loop variable, first value len-1, step -1, loop runs exactly while the index is >= 0, no other exit. (FLOW-RC, extended) ReverseComplementString returns exactly the bytes written: the builder's String(), the string of a slice grown by append from an empty one, or string(ReverseComplement(dst, []byte(s))) with len(dst) = 0 by the length algebra — a destination made with a length keeps that many zero bytes in front.")
	r.assume("package initialisers run before any use; bytes are 8-bit")
	g, tab, ok := rulesComplementTable(c, r)
	if !ok {
		return
	}
	pairs := complementPairs

	// Z-PANIC: accept/panic boundary of complementByte over all 256 bytes
	cb := c.role("sequtil.complement")
	if cb == nil {
		// no helper: the lookup and its zero test are written out in each loop; decided per loop in rulesRCFlow
		// from the table (already decided entry by entry above) and the path condition of the output
	} else if len(cb.Params) != 1 {
		r.undecided("Z-PANIC", "sequtil.complementByte", "anchor", "", "function not found")
	} else {
		r.analysed(fname(cb))
		a := newFuncVSA(c, cb, byteDomain())
		a.sliceTab[g] = tab
		a.run()
		if a.err != "" {
			r.undecided("Z-PANIC", fname(cb), "transfer function", c.pos(cb.Pos()), a.err)
		} else {
			var wrongAccept, wrongReject, wrongVal []string
			for k, e := range a.exits {
				_, isLetter := pairs[byte(k)]
				switch {
				case e.kind == "panic" && isLetter:
					wrongReject = append(wrongReject, byteStr(k))
				case e.kind == "return" && !isLetter:
					wrongAccept = append(wrongAccept, byteStr(k))
				case e.kind == "return" && isLetter:
					if len(e.result) != 1 || !e.result[0].ok || e.result[0].v != int64(pairs[byte(k)]) {
						wrongVal = append(wrongVal, byteStr(k))
					}
				}
			}
			r.check(len(wrongAccept) == 0, "Z-PANIC", fname(cb), "rejects others", c.pos(cb.Pos()), "all 246 bytes outside aAcCgGtTnN reach the panic", fmt.Sprintf("%d bytes outside aAcCgGtTnN are complemented instead of panicking: %s", len(wrongAccept), strings.Join(wrongAccept[:min(8, len(wrongAccept))], " ")))
			r.check(len(wrongReject) == 0 && len(wrongVal) == 0, "Z-PANIC", fname(cb), "accepts letters", c.pos(cb.Pos()), "the ten letters return their complement", fmt.Sprintf("letters rejected: %v; wrong complement: %v", wrongReject, wrongVal))
		}
	}
	rulesRCFlow(c, r, cb, g)
	rulesCanonical(c, r)
	rulesEffC12(c, r)
}

// rulesRCFlow: FLOW-RC and SIB4.
func rulesRCFlow(c *Ctx, r *Report, cb *ssa.Function, tab *ssa.Global) {
	type loopDesc struct{ elem, init, step, cond string }
	var descs []loopDesc
	for _, name := range []string{"ReverseComplement", "ReverseComplementString"} {
		f := c.fn("sequtil", name)
		where := "sequtil." + name
		if f == nil {
			r.undecided("FLOW-RC", where, "anchor", "", "function not found")
			continue
		}
		r.analysed(where)
		s := newSymb(f)
		srcIdx := len(f.Params) - 1 // src / s is the last parameter
		srcName := fmt.Sprintf("P%d", srcIdx)
		var comp ssa.Value // the complemented byte
		var argV ssa.Value // what it is the complement of
		if cb != nil {
			calls := staticCallsTo(f, cb)
			if len(calls) != 1 {
				r.undecided("FLOW-RC", where, "complement call", c.pos(f.Pos()), fmt.Sprintf("expected one complementByte call, found %d", len(calls)))
				continue
			}
			comp, argV = calls[0], calls[0].Call.Args[0]
		} else {
			var why string
			comp, argV, why = inlineComplement(c, f, tab)
			if comp == nil {
				r.undecided("Z-PANIC", where, "inline lookup", c.pos(f.Pos()), why)
				continue
			}
			okG, whyG := zeroGuarded(f, comp)
			r.check(okG, "Z-PANIC", where, "rejects others", c.pos(comp.Pos()), "every output of the table value is on the non-zero side of a test whose zero side panics: the 246 bytes with a zero entry panic, the ten letters (T-COMP) pass", whyG)
		}
		arg := s.expr(argV)
		// element of the source: load(P[idx]) for slices, lookup(P, idx) for strings
		var idx *Sym
		if arg.Op == "load" && arg.Args[0].Op == "index" && arg.Args[0].Args[0].String() == srcName {
			idx = arg.Args[0].Args[1]
		} else if (arg.Op == "lookup" || arg.Op == "index") && arg.Args[0].String() == srcName {
			idx = arg.Args[1]
		}
		if !r.check(idx != nil, "FLOW-RC", where, "complemented value", c.pos(comp.Pos()), "complementByte is applied to an element of the source", "complementByte is applied to "+arg.String()+", not to an element of the source") {
			continue
		}
		// every output byte is that call's result
		outOK, outWhy := rcOutputsAre(f, comp)
		r.check(outOK, "FLOW-RC", where, "output bytes", c.pos(f.Pos()), "every byte appended/written is the result of that complementByte call", outWhy)
		if name == "ReverseComplementString" {
			rsOK, rsWhy := rcStringResults(c, f)
			r.check(rsOK, "FLOW-RC", where, "result is the bytes written", c.pos(f.Pos()), "every return hands back exactly the complemented bytes: the builder's string, a slice appended to from empty, or ReverseComplement onto an empty destination", rsWhy)
		}
		// loop shape: the sequence of source indices over the iterations
		law, why := indexLawOf(s, f, idx)
		if law == nil {
			r.undecided("SIB4", where, "loop", c.pos(f.Pos()), "source index is not an affine function of a counted loop variable: "+why)
			continue
		}
		d := loopDesc{elem: "elem(src)", init: strings.ReplaceAll(law.first.String(), srcName, "SRC"), step: fmt.Sprint(law.delta), cond: fmt.Sprint(law.condIsIdxNonNeg, law.onlyExit)}
		okShape := d.init == "1*builtin:len(SRC) + -1" && law.delta == -1 && law.condIsIdxNonNeg && law.onlyExit
		r.check(okShape, "SIB4", where, "loop bounds", c.pos(f.Pos()), "the source index starts at len(src)-1, decreases by 1 per iteration, and the loop runs exactly while it is >= 0 (no other exit): every element is read once, last to first",
			fmt.Sprintf("the source index starts at [%s], changes by %d per iteration, loop runs exactly while index >= 0: %v, no other exit: %v — want start len(src)-1, step -1: not every element is visited exactly once from the end", d.init, law.delta, law.condIsIdxNonNeg, law.onlyExit))
		descs = append(descs, d)
	}
	if len(descs) == 2 {
		r.check(descs[0].init == descs[1].init && descs[0].step == descs[1].step && descs[0].cond == descs[1].cond, "SIB4", "sequtil.ReverseComplement~String", "siblings", "", "both functions iterate identically", fmt.Sprintf("siblings disagree: %+v vs %+v", descs[0], descs[1]))
	}
}

// rcOutputsAre: every append onto dst / WriteByte receives exactly call's result.
func rcOutputsAre(f *ssa.Function, call ssa.Value) (bool, string) {
	n := 0
	why := ""
	instrs(f, func(in ssa.Instruction) {
		cl, ok := in.(*ssa.Call)
		if !ok || ssa.Value(cl) == call {
			return
		}
		if b, ok := cl.Call.Value.(*ssa.Builtin); ok && b.Name() == "append" {
			n++
			// second arg: slice of a 1-element varargs array holding call's result
			sl, ok := cl.Call.Args[1].(*ssa.Slice)
			if !ok {
				why = "append of something other than a single byte"
				return
			}
			al, ok := sl.X.(*ssa.Alloc)
			if !ok {
				why = "append of a slice that is not a single-byte literal"
				return
			}
			for _, ref := range *al.Referrers() {
				if ia, ok := ref.(*ssa.IndexAddr); ok {
					for _, r2 := range *ia.Referrers() {
						if st, ok := r2.(*ssa.Store); ok && st.Val != call {
							why = "appended byte is not the complementByte result"
						}
					}
				}
			}
			return
		}
		if callee := cl.Call.StaticCallee(); callee != nil && methIs(callee, "strings", "Builder", "WriteByte") {
			n++
			if cl.Call.Args[1] != call {
				why = "written byte is not the complementByte result"
			}
		}
	})
	if n == 0 {
		return false, "no append/WriteByte found"
	}
	return why == "", why
}

// indexLaw describes how an index expression evolves over the iterations of the loop that computes it.
type indexLaw struct {
	first           linForm // value in the first iteration
	delta           int64   // change per iteration
	condIsIdxNonNeg bool    // the loop's continuation test is equivalent to idx >= 0
	onlyExit        bool    // the loop has no exit other than that test (panics aside)
}

// indexLawOf: idx must be an affine function of one loop-header phi with a constant step.
func indexLawOf(s *symb, f *ssa.Function, idxS *Sym) (*indexLaw, string) {
	idx := idxS.Val
	// the phi: search idx's operands
	var phi *ssa.Phi
	seen := map[ssa.Value]bool{}
	var find func(v ssa.Value)
	find = func(v ssa.Value) {
		if v == nil || seen[v] || phi != nil {
			return
		}
		seen[v] = true
		if p, ok := v.(*ssa.Phi); ok {
			if isLoopHeader(p.Block()) {
				phi = p
				return
			}
		}
		if b, ok := v.(*ssa.BinOp); ok {
			find(b.X)
			find(b.Y)
		}
		if cv, ok := v.(*ssa.Convert); ok {
			find(cv.X)
		}
	}
	find(idx)
	// the index as an expression tree (its root may be a normalised node without an SSA value of its own)
	var walkSym func(e *Sym)
	walkSym = func(e *Sym) {
		if e == nil || phi != nil {
			return
		}
		find(e.Val)
		for _, a := range e.Args {
			walkSym(a)
		}
	}
	walkSym(idxS)
	if phi == nil {
		return nil, "no loop variable in the index"
	}
	pname := s.expr(phi).String()
	lidx := linOf(idxS)
	alpha := lidx.coef[pname]
	if alpha == 0 {
		return nil, "index does not depend linearly on the loop variable"
	}
	nl := naturalLoop(phi.Block())
	var init *linForm
	var step int64
	haveStep := false
	for i, e := range phi.Edges {
		if nl[phi.Block().Preds[i]] {
			d := linSub(linOf(s.expr(e)), linOf(s.expr(phi)))
			nz := 0
			for _, cf := range d.coef {
				if cf != 0 {
					nz++
				}
			}
			if nz != 0 || (haveStep && d.k != step) {
				return nil, "loop variable is not advanced by a constant"
			}
			step, haveStep = d.k, true
		} else {
			l := linOf(s.expr(e))
			init = &l
		}
	}
	if init == nil || !haveStep {
		return nil, "loop variable has no initial value or no step"
	}
	// first = lidx with P := init
	first := linForm{coef: map[string]int64{}, k: lidx.k + alpha*init.k}
	for x, cf := range lidx.coef {
		if x != pname {
			first.coef[x] += cf
		}
	}
	for x, cf := range init.coef {
		first.coef[x] += alpha * cf
	}
	law := &indexLaw{first: first, delta: alpha * step}
	// continuation test at the header
	if iff, ok := lastInstr(phi.Block()).(*ssa.If); ok {
		if bo, ok := iff.Cond.(*ssa.BinOp); ok {
			x, y := linOf(s.expr(bo.X)), linOf(s.expr(bo.Y))
			var g linForm
			okOp := true
			switch bo.Op {
			case token.LSS:
				g = linSub(y, x)
				g.k--
			case token.LEQ:
				g = linSub(y, x)
			case token.GTR:
				g = linSub(x, y)
				g.k--
			case token.GEQ:
				g = linSub(x, y)
			default:
				okOp = false
			}
			// continue on the true edge into the loop
			if okOp && nl[phi.Block().Succs[0]] && !nl[phi.Block().Succs[1]] {
				law.condIsIdxNonNeg = linSub(g, lidx).String() == "0"
				if !law.condIsIdxNonNeg {
					// a rotated loop (`for i := range n`): the test at the end of the body is about the next iteration's
					// index, and the guard in front of the loop about the first one
					next := linForm{coef: map[string]int64{}, k: lidx.k + alpha*step}
					for x, cf := range lidx.coef {
						next.coef[x] += cf
					}
					okEntry := false
					for i, pr := range phi.Block().Preds {
						if nl[pr] {
							continue
						}
						_ = i
						if eif, ok := lastInstr(pr).(*ssa.If); ok && pr.Succs[0] == phi.Block() {
							if ebo, ok := eif.Cond.(*ssa.BinOp); ok {
								ex, ey := linOf(s.expr(ebo.X)), linOf(s.expr(ebo.Y))
								var eg linForm
								okE := true
								switch ebo.Op {
								case token.LSS:
									eg = linSub(ey, ex)
									eg.k--
								case token.LEQ:
									eg = linSub(ey, ex)
								case token.GTR:
									eg = linSub(ex, ey)
									eg.k--
								case token.GEQ:
									eg = linSub(ex, ey)
								default:
									okE = false
								}
								if okE && linSub(eg, first).String() == "0" {
									okEntry = true
								}
							}
						}
					}
					law.condIsIdxNonNeg = okEntry && linSub(g, next).String() == "0"
				}
			}
		}
	}
	law.onlyExit = true
	for b := range nl {
		for _, su := range b.Succs {
			if !nl[su] && b != phi.Block() && !blockAlwaysPanics(su) {
				law.onlyExit = false
			}
		}
	}
	return law, ""
}

var complementPairs = map[byte]byte{'a': 't', 'c': 'g', 'g': 'c', 't': 'a', 'n': 'n', 'A': 'T', 'C': 'G', 'G': 'C', 'T': 'A', 'N': 'N'}

// rulesComplementTable (T-COMP, T-WMW): the complement table, decided over all of its entries.
func rulesComplementTable(c *Ctx, r *Report) (*ssa.Global, []int64, bool) {
	funcs := c.moduleFuncs()
	g := c.tableIn(c.role("sequtil.complement"), 0)
	if g == nil {
		// lookup written out in the loops themselves
		g = c.tableIn(c.fn("sequtil", "ReverseComplement"), 0)
	}
	where := "sequtil.complementBytes"
	if g == nil {
		r.undecided("T-COMP", where, "anchor", "", "table variable not found")
		return nil, nil, false
	}
	t := c.evalSliceInit("sequtil", g)
	if t.err != "" {
		r.undecided("T-COMP", where, "init-shape", c.pos(g.Pos()), "cannot reconstruct the table from its initialiser: "+t.err)
		return nil, nil, false
	}
	tab := intTable(t)
	pos := c.pos(g.Pos())
	r.check(t.size >= 256, "T-COMP", where, "size", pos, fmt.Sprintf("table has %d entries: every byte value indexes it", t.size), fmt.Sprintf("table has %d entries but is indexed by a byte: values >= %d are out of range or aliased", t.size, t.size))
	var populated []string
	for i, v := range tab {
		if v != 0 {
			populated = append(populated, string(rune(i)))
		}
	}
	want := strings.Split(rcLetters, "")
	sort.Strings(want)
	sort.Strings(populated)
	r.check(strings.Join(populated, "") == strings.Join(want, ""), "T-COMP", where, "populated", pos,
		"non-zero exactly at "+rcLetters, fmt.Sprintf("non-zero at %q, want exactly %q", strings.Join(populated, ""), strings.Join(want, "")))
	pairs := complementPairs
	var bad []string
	for i, v := range tab {
		if v == 0 {
			continue
		}
		if v < 0 || v >= int64(len(tab)) || tab[v] != int64(i) {
			bad = append(bad, fmt.Sprintf("comp(comp(%s)) != %s", byteStr(i), byteStr(i)))
		}
		if isUpperByte(int64(i)) != isUpperByte(v) {
			bad = append(bad, fmt.Sprintf("comp(%s)=%s changes case", byteStr(i), byteStr(int(v))))
		}
		if w, ok := pairs[byte(i)]; ok && int64(w) != v {
			bad = append(bad, fmt.Sprintf("comp(%s)=%s, want %s", byteStr(i), byteStr(int(v)), byteStr(int(w))))
		}
	}
	r.check(len(bad) == 0, "T-COMP", where, "involution+case+pairs", pos, "comp∘comp = id, case preserved, A-T C-G N-N on all populated entries", strings.Join(bad, "; "))
	c.ruleWhoMayWrite(r, "T-WMW", g, "sequtil", c.initFuncsOf("sequtil"), funcs)

	return g, tab, true
}

// inlineComplement: the complement lookup written out in f: the one load of tab[x]; returns the loaded value and x.
func inlineComplement(c *Ctx, f *ssa.Function, tab *ssa.Global) (ssa.Value, ssa.Value, string) {
	var loads []*ssa.UnOp
	instrs(f, func(in ssa.Instruction) {
		ld, ok := in.(*ssa.UnOp)
		if !ok || ld.Op != token.MUL {
			return
		}
		ia, ok := ld.X.(*ssa.IndexAddr)
		if !ok {
			return
		}
		if b, ok := ia.X.(*ssa.UnOp); ok && b.Op == token.MUL && b.X == ssa.Value(tab) {
			loads = append(loads, ld)
		}
	})
	if len(loads) != 1 {
		return nil, nil, fmt.Sprintf("no complement helper, and %d lookups of the table in %s (want one)", len(loads), fname(f))
	}
	idx := loads[0].X.(*ssa.IndexAddr).Index
	for {
		cv, ok := idx.(*ssa.Convert)
		if !ok {
			break
		}
		// widening an unsigned byte keeps its value
		if bt, ok := cv.X.Type().Underlying().(*types.Basic); !ok || bt.Kind() != types.Uint8 {
			break
		}
		idx = cv.X
	}
	return loads[0], idx, ""
}

// zeroGuarded: every use of v other than the zero test lies on the non-zero side of `v == 0` / `v != 0`, the zero
// side of that test always panics, and nothing else in f panics.
func zeroGuarded(f *ssa.Function, v ssa.Value) (bool, string) {
	var test *ssa.If
	var nz, z *ssa.BasicBlock
	for _, b := range f.Blocks {
		iff, ok := lastInstr(b).(*ssa.If)
		if !ok {
			continue
		}
		bo, ok := iff.Cond.(*ssa.BinOp)
		if !ok || (bo.Op != token.EQL && bo.Op != token.NEQ) {
			continue
		}
		if !((bo.X == v && isZero(bo.Y)) || (bo.Y == v && isZero(bo.X))) {
			continue
		}
		if test != nil {
			return false, "the table value is tested against zero more than once"
		}
		test = iff
		if bo.Op == token.EQL {
			z, nz = b.Succs[0], b.Succs[1]
		} else {
			z, nz = b.Succs[1], b.Succs[0]
		}
	}
	if test == nil {
		return false, "the table value is never tested against zero: bytes outside aAcCgGtTnN are complemented to 0 instead of panicking"
	}
	if !blockAlwaysPanics(z) {
		return false, "the zero side of the test does not panic"
	}
	if len(nz.Preds) != 1 {
		return false, "the non-zero side of the test is reachable without the test"
	}
	for _, ref := range *v.Referrers() {
		if ref == test.Cond.(ssa.Instruction) {
			continue
		}
		if !nz.Dominates(ref.Block()) && !z.Dominates(ref.Block()) {
			return false, "the table value is used at " + fname(f) + " outside the non-zero side of its test"
		}
	}
	for _, b := range f.Blocks {
		if _, ok := lastInstr(b).(*ssa.Panic); ok && !z.Dominates(b) {
			return false, "a panic other than the zero-entry one: letters may be rejected"
		}
	}
	return true, ""
}

func isZero(v ssa.Value) bool {
	k, ok := cInt(constVal(v))
	return ok && k == 0
}

// rcStringResults: what ReverseComplementString returns is built from nothing but the complemented bytes: the
// String() of the builder that was written to, the string of a slice grown by append from an empty one, or the string
// of ReverseComplement(dst, []byte(s)) with len(dst) == 0.
func rcStringResults(c *Ctx, f *ssa.Function) (bool, string) {
	p := newProver(c, f)
	emptyLen := func(v ssa.Value) bool {
		l := p.lenOf(v)
		return l.isConst() && l.c == 0
	}
	var grown func(v ssa.Value, depth int) bool
	grown = func(v ssa.Value, depth int) bool {
		if depth > 8 {
			return false
		}
		if isNilConst(v) || emptyLen(v) {
			return true
		}
		switch x := v.(type) {
		case *ssa.Phi:
			for _, e := range x.Edges {
				if e != v && !grown(e, depth+1) {
					return false
				}
			}
			return true
		case *ssa.Call:
			if b, ok := x.Call.Value.(*ssa.Builtin); ok && b.Name() == "append" {
				return grown(x.Call.Args[0], depth+1)
			}
			if g := x.Call.StaticCallee(); g != nil && g == c.fn("sequtil", "ReverseComplement") && len(x.Call.Args) == 2 {
				return emptyLen(x.Call.Args[0])
			}
		}
		return false
	}
	why := ""
	n := 0
	instrs(f, func(in ssa.Instruction) {
		rt, ok := in.(*ssa.Return)
		if !ok || len(rt.Results) != 1 {
			return
		}
		n++
		switch x := rt.Results[0].(type) {
		case *ssa.Call:
			if methIs(x.Call.StaticCallee(), "strings", "Builder", "String") {
				return
			}
			why = "a return hands back the result of " + callName(x)
		case *ssa.Convert:
			if !grown(x.X, 0) {
				why = "a return converts a slice that does not start empty (or is not grown by appending complements): it carries bytes that are not complements of the input — e.g. ReverseComplement onto make([]byte, n) keeps n zero bytes in front"
			}
		case *ssa.Const:
			// "" for empty input
		default:
			why = fmt.Sprintf("a return hands back %T", x)
		}
	})
	return why == "" && n > 0, why
}
