package main






