package main






func rulesGrdPkg(c *Ctx, r *Report, rels []string, floor int) {}
