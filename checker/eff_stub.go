package main

func rulesPureAlign(c *Ctx, r *Report) {}

func rulesEffC12(c *Ctx, r *Report) {}

func rulesEffC13(c *Ctx, r *Report) {}

func rulesEffC14(c *Ctx, r *Report) {}

