package main

func rulesPureAlign(c *Ctx, r *Report) {}
