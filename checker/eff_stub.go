package main
