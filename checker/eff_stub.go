package main





