package main

import (
	"encoding/json"
	"fmt"
	"go/token"
	"os"
	"path/filepath"
	"sort"
	"strings"
	"time"
)

// Verdict of one obligation.
type Verdict string

const (
	Holds     Verdict = "HOLDS"
	Violated  Verdict = "VIOLATED"
	Undecided Verdict = "UNDECIDED"
)

// An Obligation is one rule instance at one construct.
type Obligation struct {
	Rule    string  `json:"rule"`
	Key     string  `json:"key"` // rule/pkg.func/construct — no line numbers
	Pos     string  `json:"pos"` // file:line (diagnosis only)
	Verdict Verdict `json:"verdict"`
	Reason  string  `json:"reason"`
	// Nontrivial: the decision needed a path/dataflow/table computation.
	Nontrivial bool `json:"nontrivial"`
	Known      bool `json:"known_finding,omitempty"`
}

// RuleStat records instance counts against the hand-confirmed floor.
type RuleStat struct {
	Rule      string `json:"rule"`
	Instances int    `json:"instances"`
	Floor     int    `json:"floor"`
	Note      string `json:"note,omitempty"`
}

// Report accumulates what one run decided.
type Report struct {
	Property   string
	Tier       string
	Obs        []*Obligation
	NotCovered []string
	Controls   []string
	Stats      []*RuleStat
	Funcs      map[string]bool // functions analysed
	CallSites  int
	Extra      map[string]any
	Explain    []string // what is decided / not decided
	Assume     []string
	keys       map[string]int
}

func newReport(prop, tier string) *Report {
	return &Report{Property: prop, Tier: tier, Funcs: map[string]bool{}, Extra: map[string]any{}, keys: map[string]int{}}
}

// add records an obligation; keys are made unique with an ordinal among equals.
func (r *Report) add(rule, where, construct string, pos string, v Verdict, nontrivial bool, reason string) *Obligation {
	key := rule + "/" + where
	if construct != "" {
		key += "/" + construct
	}
	r.keys[key]++
	if n := r.keys[key]; n > 1 {
		key = fmt.Sprintf("%s#%d", key, n)
	}
	o := &Obligation{Rule: rule, Key: key, Pos: pos, Verdict: v, Reason: reason, Nontrivial: nontrivial}
	r.Obs = append(r.Obs, o)
	return o
}

// rollback drops the obligations recorded since mark (= len(r.Obs) at the time): a rule that could not decide
// by one method hands over to another.
func (r *Report) rollback(mark int) {
	for _, o := range r.Obs[mark:] {
		k := o.Key
		if i := strings.LastIndex(k, "#"); i >= 0 {
			k = k[:i]
		}
		if r.keys[k] > 0 {
			r.keys[k]--
		}
	}
	r.Obs = r.Obs[:mark]
}

func (r *Report) holds(rule, where, construct, pos, reason string) {
	r.add(rule, where, construct, pos, Holds, true, reason)
}
func (r *Report) violated(rule, where, construct, pos, reason string) {
	r.add(rule, where, construct, pos, Violated, true, reason)
}
func (r *Report) undecided(rule, where, construct, pos, reason string) {
	r.add(rule, where, construct, pos, Undecided, false, reason)
}

// check adds HOLDS or VIOLATED.
func (r *Report) check(ok bool, rule, where, construct, pos, okReason, badReason string) bool {
	if ok {
		r.holds(rule, where, construct, pos, okReason)
	} else {
		r.violated(rule, where, construct, pos, badReason)
	}
	return ok
}

// floor asserts a minimum instance count for a rule; fewer => UNDECIDED (vacuity guard).
func (r *Report) floor(rule string, instances, floor int, note string) {
	r.Stats = append(r.Stats, &RuleStat{Rule: rule, Instances: instances, Floor: floor, Note: note})
	if instances < floor {
		r.undecided(rule, "floor", "", "", fmt.Sprintf("only %d instances found, %d confirmed by hand (%s): the rule would pass vacuously", instances, floor, note))
	}
}

func (r *Report) control(name string, ok bool, detail string) {
	if ok {
		r.Controls = append(r.Controls, name+": matched ("+detail+")")
	} else {
		r.Controls = append(r.Controls, name+": NOT MATCHED ("+detail+")")
		r.undecided("CONTROL", name, "", "", "positive control no longer matches: "+detail)
	}
}

func (r *Report) notCovered(s string) { r.NotCovered = append(r.NotCovered, s) }
func (r *Report) explain(s string)    { r.Explain = append(r.Explain, s) }
func (r *Report) assume(s string)     { r.Assume = append(r.Assume, s) }
func (r *Report) analysed(fn string)  { r.Funcs[fn] = true }

// ---------------------------------------------------------------------------
// known findings

type knownFinding struct {
	prop, key, what string
}

func loadKnown(path string) ([]knownFinding, error) {
	data, err := os.ReadFile(path)
	if err != nil {
		if os.IsNotExist(err) {
			return nil, nil
		}
		return nil, err
	}
	var out []knownFinding
	for _, line := range strings.Split(string(data), "\n") {
		line = strings.TrimSpace(line)
		if !strings.HasPrefix(line, "known:") {
			continue
		}
		f := strings.Fields(strings.TrimPrefix(line, "known:"))
		k := knownFinding{}
		rest := []string{}
		for _, w := range f {
			switch {
			case strings.HasPrefix(w, "property=") && k.prop == "":
				k.prop = strings.TrimPrefix(w, "property=")
			case strings.HasPrefix(w, "key=") && k.key == "":
				k.key = strings.TrimPrefix(w, "key=")
			default:
				rest = append(rest, w)
			}
		}
		k.what = strings.Join(rest, " ")
		out = append(out, k)
	}
	return out, nil
}

// ---------------------------------------------------------------------------
// finish: print, write evidence, exit code

func posStr(fset *token.FileSet, p token.Pos) string {
	if !p.IsValid() {
		return ""
	}
	ps := fset.Position(p)
	return fmt.Sprintf("%s:%d", ps.Filename, ps.Line)
}

func (r *Report) finish(verifDir string, seed int64, start time.Time, level, levelRule string, replayKey string) int {
	known, kerr := loadKnown(filepath.Join(verifDir, "KNOWN_FINDINGS.txt"))
	if kerr != nil {
		r.undecided("KNOWN", "KNOWN_FINDINGS.txt", "", "", kerr.Error())
	}
	sort.SliceStable(r.Obs, func(i, j int) bool { return r.Obs[i].Key < r.Obs[j].Key })
	nHold, nViol, nUndec, nNontriv := 0, 0, 0, 0
	distinct := map[string]bool{}
	var bad []*Obligation
	for _, o := range r.Obs {
		if o.Verdict == Violated {
			for _, k := range known {
				if k.prop == r.Property && k.key == o.Key {
					o.Known = true
					fmt.Printf("KNOWN-FINDING: property=%s %s [%s]\n", r.Property, k.what, o.Key)
				}
			}
		}
		switch {
		case o.Verdict == Holds:
			nHold++
		case o.Verdict == Violated && !o.Known:
			nViol++
			bad = append(bad, o)
		case o.Verdict == Undecided:
			nUndec++
			bad = append(bad, o)
		}
		if o.Nontrivial && !distinct[o.Key] {
			distinct[o.Key] = true
			nNontriv++
		}
	}
	if replayKey == "" {
		for _, o := range r.Obs {
			fmt.Printf("%-9s %-10s %s  %s\n    %s\n", o.Verdict, o.Rule, o.Key, o.Pos, o.Reason)
		}
		for _, s := range r.Stats {
			fmt.Printf("rule %-12s instances=%d floor=%d %s\n", s.Rule, s.Instances, s.Floor, s.Note)
		}
		for _, c := range r.Controls {
			fmt.Println("control", c)
		}
		for _, n := range r.NotCovered {
			fmt.Println("not-covered:", n)
		}
	} else {
		found := false
		for _, o := range r.Obs {
			if o.Key == replayKey {
				found = true
				fmt.Printf("REPLAY %s\n  rule:    %s\n  at:      %s\n  verdict: %s\n  reason:  %s\n", o.Key, o.Rule, o.Pos, o.Verdict, o.Reason)
			}
		}
		if !found {
			fmt.Printf("REPLAY %s: obligation no longer exists on the current tree\n", replayKey)
		}
	}
	fmt.Printf("summary property=%s tier=%s obligations=%d holds=%d violated=%d undecided=%d functions=%d\n",
		r.Property, r.Tier, len(r.Obs), nHold, nViol, nUndec, len(r.Funcs))

	// replay records + VIOLATION lines
	exit := 0
	if len(bad) > 0 {
		exit = 1
		rdir := filepath.Join(verifDir, "evidence", "replay")
		os.MkdirAll(rdir, 0o755)
		for i, o := range bad {
			kind := "violated"
			if o.Verdict == Undecided {
				kind = "undecided"
			}
			rec := map[string]any{"property": r.Property, "kind": kind, "key": o.Key, "rule": o.Rule, "pos": o.Pos, "reason": o.Reason}
			path := filepath.Join(rdir, fmt.Sprintf("%s-%d.json", r.Property, i+1))
			data, _ := json.MarshalIndent(rec, "", " ")
			os.WriteFile(path, data, 0o644)
			fmt.Printf("VIOLATION property=%s replay=%s\n", r.Property, path)
			fmt.Printf("  %s %s at %s: %s\n", kind, o.Key, o.Pos, o.Reason)
		}
	}
	if replayKey != "" {
		return exit
	}

	// evidence
	if r.Assume == nil {
		r.Assume = []string{"go/packages, go/types, go/ssa and go/cfg of x/tools v0.29.0 represent /repo's source faithfully"}
	}
	if r.NotCovered == nil {
		r.NotCovered = []string{}
	}
	if r.Controls == nil {
		r.Controls = []string{}
	}
	if r.Stats == nil {
		r.Stats = []*RuleStat{}
	}
	samples := []any{}
	for _, o := range r.Obs {
		samples = append(samples, o)
	}
	funcs := make([]string, 0, len(r.Funcs))
	for f := range r.Funcs {
		funcs = append(funcs, f)
	}
	sort.Strings(funcs)
	cov := map[string]any{
		"explanation":         strings.Join(r.Explain, "\n"),
		"obligations":         len(r.Obs),
		"discharged":          nHold,
		"evaluations":         len(r.Obs),
		"distinct_nontrivial": nNontriv,
		"rule":                levelRule,
		"samples":             samples,
		"functions_analysed":  funcs,
		"call_sites":          r.CallSites,
		"rule_instances":      r.Stats,
		"not_covered":         r.NotCovered,
		"controls":            r.Controls,
		"undecided":           nUndec,
		"checker_cmd":         fmt.Sprintf("/verif/check.sh %s %s", r.Property, r.Tier),
	}
	for k, v := range r.Extra {
		cov[k] = v
	}
	ev := map[string]any{
		"property_id": r.Property,
		"tier":        r.Tier,
		"seed":        seed,
		"level":       level,
		"coverage":    cov,
		"assumptions": r.Assume,
		"wall_s":      time.Since(start).Seconds(),
		"violations":  nViol + nUndec,
	}
	data, _ := json.MarshalIndent(ev, "", " ")
	os.MkdirAll(filepath.Join(verifDir, "evidence"), 0o755)
	if err := os.WriteFile(filepath.Join(verifDir, "evidence", r.Property+".json"), data, 0o644); err != nil {
		fmt.Println("cannot write evidence:", err)
		return 1
	}
	return exit
}
