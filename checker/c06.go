package main

import (
	"fmt"
	"go/ast"
	"go/constant"
	"go/token"
	"go/types"
	"sort"
	"strings"

	"golang.org/x/tools/go/cfg"
	"golang.org/x/tools/go/packages"
	"golang.org/x/tools/go/ssa"
	"golang.org/x/tools/go/types/typeutil"
)

func init() {
	register("C06", "one obligation per File function and clause, per io.Reader flow, per buffer-view source, per line-terminator comparison group, per line-trimming chain; non-trivial = decided by CFG must-pass-through, forward value flow or taint propagation", rulesC06, nil)
}

func rulesC06(c *Ctx, r *Report) {
	r.explain("Decides: (FD1-FD4) every File/FileHeader function passes its path to gostuff aio.Open (the suffix-driven opener), yields the open error, and on success cannot reach its exit without ranging over the same package's Reader/ReaderHeader applied to the opened stream, passing every (item, error) pair through unchanged; (A6) the io.Reader given to a decoder entry flows only into bufio.NewReader/NewReaderSize/NewScanner/csv.NewReader (through constructors, struct fields and closures) and nothing in the codec packages calls Read on an io.Reader itself; (A6-SCHED) nothing in the codec packages consults bufio.Reader.Buffered — how much is buffered depends on the read schedule; (SCAN-ALIAS) no view into a bufio buffer (Scanner.Bytes, ReadSlice, ReadLine, Peek) reaches a record without a copy — when the buffer is refilled depends on the read schedule; (G5) CR is recognised wherever LF is: every group of byte constants an input byte is compared with that contains '\\n' contains '\\r' (fasta, newick), fastq keeps bufio.ScanLines, sam/bed strip exactly \"\\n\" then \"\\r\" from a ReadString('\\n') line before any other use. Not decided: that bufio/gzip reassemble tokens across reads (trusted), equality of the item sequences. Added rules: (FD2) an io.EOF from aio.Open is an open failure; (NIL-HANDLE) the opened file is touched only behind err == nil; stale buffer views after a later read. (LAYER) no decompressor or transcoder is constructed in the codec packages: File and Reader cannot differ by what the content looks like. FD1 additionally: the path parameter is never assigned or handed out by address before it is opened.")
	r.assume("bufio.Reader, bufio.Scanner, gzip readers deliver the same byte sequence regardless of how the underlying reader chunks it; aio.Open chooses decompression by file suffix")
	rulesFileDelegation(c, r)
	rulesReaderEntry(c, r)
	rulesScanAlias(c, r, true)
	rulesLineTerminators(c, r, "C06")
	rulesOpenedHandle(c, r)
	rulesNoTranscoder(c, r)
	rulesFastaAutomaton(c, r) // CR and LF, and how lines are taken apart, as the reader's transition function
}

// ---------------------------------------------------------------------------
// FD1-FD4

type fileSpec struct{ rel, file, reader string }

var fileSpecs = []fileSpec{
	{"formats/fasta", "File", "Reader"}, {"formats/fastq", "File", "Reader"},
	{"formats/sam", "File", "Reader"}, {"formats/sam", "FileHeader", "ReaderHeader"},
	{"formats/bed", "File", "Reader"}, {"formats/newick", "File", "Reader"},
}

func findDecl(p *packages.Package, name string) *ast.FuncDecl {
	for _, f := range p.Syntax {
		for _, d := range f.Decls {
			if fd, ok := d.(*ast.FuncDecl); ok && fd.Recv == nil && fd.Name.Name == name {
				return fd
			}
		}
	}
	return nil
}

func rulesFileDelegation(c *Ctx, r *Report) {
	n := 0
	for _, sp := range fileSpecs {
		if !inScopeRel(sp.rel) {
			continue
		}
		p := c.pkg(sp.rel)
		where := sp.rel + "." + sp.file
		if p == nil {
			r.undecided("FD", where, "anchor", "", "package not found")
			continue
		}
		fd := findDecl(p, sp.file)
		if fd == nil || fd.Type.Params == nil || len(fd.Type.Params.List) != 1 || len(fd.Type.Params.List[0].Names) != 1 {
			r.undecided("FD", where, "anchor", "", "function "+sp.file+"(path) not found")
			continue
		}
		n++
		r.analysed(where)
		info := p.TypesInfo
		pathParam := info.Defs[fd.Type.Params.List[0].Names[0]]
		var lit *ast.FuncLit
		ast.Inspect(fd.Body, func(nd ast.Node) bool {
			if l, ok := nd.(*ast.FuncLit); ok && lit == nil {
				lit = l
				return false
			}
			return true
		})
		if lit == nil || len(lit.Type.Params.List) != 1 || len(lit.Type.Params.List[0].Names) != 1 {
			r.undecided("FD", where, "iterator literal", c.pos(fd.Pos()), "the function does not return a single iterator literal")
			continue
		}
		yield := info.Defs[lit.Type.Params.List[0].Names[0]]
		// the literal only hands (path, yield) to a function of the package that does the work: analyse that function
		litBody := lit.Body
		if len(lit.Body.List) == 1 {
			if es, ok := lit.Body.List[0].(*ast.ExprStmt); ok {
				if call, ok := es.X.(*ast.CallExpr); ok {
					if fn, _ := typeutil.Callee(info, call).(*types.Func); fn != nil && fn.Pkg() == p.Types {
						if hd := findDecl(p, fn.Name()); hd != nil && hd.Body != nil && hd.Recv == nil {
							var params []types.Object
							for _, fld := range hd.Type.Params.List {
								for _, nm := range fld.Names {
									params = append(params, info.Defs[nm])
								}
							}
							var np, ny types.Object
							for i, a := range call.Args {
								if i >= len(params) {
									break
								}
								switch identObj(info, a) {
								case pathParam:
									np = params[i]
								case yield:
									ny = params[i]
								}
							}
							if np != nil && ny != nil {
								litBody, pathParam, yield = hd.Body, np, ny
								r.analysed(sp.rel + "." + fn.Name())
							}
						}
					}
				}
			}
		}
		// FD1: f, err := aio.Open(path)
		var openCall *ast.CallExpr
		var openVar, errVar types.Object
		ast.Inspect(litBody, func(nd ast.Node) bool {
			as, ok := nd.(*ast.AssignStmt)
			if !ok || len(as.Rhs) != 1 || len(as.Lhs) != 2 {
				return true
			}
			call, ok := as.Rhs[0].(*ast.CallExpr)
			if !ok {
				return true
			}
			fn, _ := typeutil.Callee(info, call).(*types.Func)
			if fn == nil || fn.FullName() != gostuffPath+"/aio.Open" {
				return true
			}
			openCall = call
			if id, ok := as.Lhs[0].(*ast.Ident); ok {
				openVar = info.ObjectOf(id)
			}
			if id, ok := as.Lhs[1].(*ast.Ident); ok {
				errVar = info.ObjectOf(id)
			}
			return true
		})
		okOpen := false
		if openCall != nil && len(openCall.Args) == 1 {
			if id, ok := ast.Unparen(openCall.Args[0]).(*ast.Ident); ok && info.Uses[id] == pathParam {
				okOpen = true
			}
		}
		// … and the parameter still holds what the caller passed: it is never assigned or handed out by address
		for _, body := range []ast.Node{fd.Body, litBody} {
			if !okOpen || body == nil {
				break
			}
			ast.Inspect(body, func(nd ast.Node) bool {
				switch x := nd.(type) {
				case *ast.AssignStmt:
					for _, l := range x.Lhs {
						if id, ok := ast.Unparen(l).(*ast.Ident); ok && info.ObjectOf(id) == pathParam && x.Tok != token.DEFINE {
							okOpen = false
						}
					}
				case *ast.UnaryExpr:
					if id, ok := ast.Unparen(x.X).(*ast.Ident); ok && x.Op == token.AND && info.ObjectOf(id) == pathParam {
						okOpen = false
					}
				}
				return true
			})
		}
		if !r.check(okOpen && openVar != nil, "FD1", where, "opens with aio.Open(path)", c.pos(fd.Pos()),
			"the path parameter is opened with gostuff aio.Open (decompresses by suffix)",
			"the file is not opened with aio.Open(path): a .gz file would be decoded as raw bytes, or another path is opened") {
			continue
		}
		// FD2: the open error is yielded (B2 term of aio.Open in this literal)
		fdOpenErrYielded(c, r, sp, where, openCall)
		// FD3: must pass through `range Reader(f)`
		var rng *ast.RangeStmt
		ast.Inspect(litBody, func(nd ast.Node) bool {
			rs, ok := nd.(*ast.RangeStmt)
			if !ok {
				return true
			}
			call, ok := ast.Unparen(rs.X).(*ast.CallExpr)
			if !ok || len(call.Args) != 1 {
				return true
			}
			fn, _ := typeutil.Callee(info, call).(*types.Func)
			if fn == nil || fn.Pkg() != p.Types || fn.Name() != sp.reader {
				return true
			}
			if id, ok := ast.Unparen(call.Args[0]).(*ast.Ident); ok && info.Uses[id] == openVar {
				rng = rs
			}
			return true
		})
		if rng == nil {
			// not written as a range statement: decide it on the values (explicit iterator call, forwarding helper)
			if ok, why := fdDelegatesSSA(c, sp); ok {
				r.holds("FD3", where, "delegates to "+sp.reader, c.pos(lit.Pos()), fmt.Sprintf("after a successful open every path to a return invokes %s(f) with a body that hands every item to the callback unchanged (value form)", sp.reader))
				continue
			} else if why != "" {
				r.violated("FD3", where, "delegates to "+sp.reader, c.pos(lit.Pos()), fmt.Sprintf("no `for … := range %s(f)` over the opened stream, and the value form fails: %s", sp.reader, why))
				continue
			}
			r.violated("FD3", where, "delegates to "+sp.reader, c.pos(lit.Pos()), fmt.Sprintf("no `for … := range %s(f)` over the opened stream: File does not yield what %s yields on the file's bytes", sp.reader, sp.reader))
			continue
		}
		g := cfg.New(litBody, mayReturn(info))
		var rangeBlocks []*cfg.Block
		for _, b := range g.Blocks {
			for _, nd := range b.Nodes {
				if nd == ast.Node(rng.X) {
					rangeBlocks = append(rangeBlocks, b)
				}
			}
		}
		// success edge: the false successor of `err != nil` (or true successor of `err == nil`) on the open error
		mustPass, found := false, false
		for _, b := range g.Blocks {
			if len(b.Succs) != 2 || len(b.Nodes) == 0 {
				continue
			}
			be, ok := b.Nodes[len(b.Nodes)-1].(*ast.BinaryExpr)
			if !ok || (be.Op != token.NEQ && be.Op != token.EQL) {
				continue
			}
			id, ok := ast.Unparen(be.X).(*ast.Ident)
			if !ok || info.Uses[id] != errVar || !isNilIdent(info, be.Y) {
				continue
			}
			found = true
			succ := b.Succs[1]
			if be.Op == token.EQL {
				succ = b.Succs[0]
			}
			mustPass = !cfgReachExitAvoiding(succ, rangeBlocks)
		}
		if !found {
			r.undecided("FD3", where, "delegates to "+sp.reader, c.pos(lit.Pos()), "no `err != nil` test on the open error found")
			continue
		}
		r.check(mustPass && len(rangeBlocks) > 0, "FD3", where, "delegates to "+sp.reader, c.pos(rng.Pos()),
			fmt.Sprintf("after a successful open every path to the exit passes `range %s(f)`", sp.reader),
			fmt.Sprintf("after a successful open the exit is reachable without ranging over %s(f)", sp.reader))
		// FD4: the body passes (key, value) through unchanged, on every iteration
		kObj, vObj := identObj(info, rng.Key), identObj(info, rng.Value)
		nY, okY := 0, true
		ast.Inspect(rng.Body, func(nd ast.Node) bool {
			call, ok := nd.(*ast.CallExpr)
			if !ok {
				return true
			}
			id, ok := ast.Unparen(call.Fun).(*ast.Ident)
			if !ok || info.Uses[id] != yield {
				return true
			}
			nY++
			if len(call.Args) != 2 || identObj(info, call.Args[0]) != kObj || identObj(info, call.Args[1]) != vObj || kObj == nil || vObj == nil {
				okY = false
			}
			return true
		})
		// every iteration yields: first statement of the body is the `if !yield(k, v)` (no path around it)
		bodyG := cfg.New(rng.Body, mayReturn(info))
		skip := false
		{
			var yBlocks []*cfg.Block
			for _, b := range bodyG.Blocks {
				for _, nd := range b.Nodes {
					has := false
					ast.Inspect(nd, func(m ast.Node) bool {
						if call, ok := m.(*ast.CallExpr); ok {
							if id, ok := ast.Unparen(call.Fun).(*ast.Ident); ok && info.Uses[id] == yield {
								has = true
							}
						}
						return true
					})
					if has {
						yBlocks = append(yBlocks, b)
					}
				}
			}
			if len(bodyG.Blocks) > 0 {
				skip = cfgReachExitAvoiding(bodyG.Blocks[0], yBlocks)
			}
		}
		r.check(nY >= 1 && okY && !skip, "FD4", where, "passes items through", c.pos(rng.Pos()),
			"every iteration hands exactly the (item, error) pair of the inner iterator to the consumer",
			fmt.Sprintf("the loop body does not pass every (item, error) pair through unchanged (yield calls: %d, arguments are the range variables: %v, an iteration can skip the yield: %v): File and %s disagree on some inputs", nY, okY, skip, sp.reader))
	}
	r.floor("FD", n, scopedFloor(6, 1), "File functions (fasta, fastq, sam.File, sam.FileHeader, bed, newick)")
}

func identObj(info *types.Info, e ast.Expr) types.Object {
	if e == nil {
		return nil
	}
	id, ok := ast.Unparen(e).(*ast.Ident)
	if !ok {
		return nil
	}
	return info.ObjectOf(id)
}

func cfgReachExitAvoiding(start *cfg.Block, avoid []*cfg.Block) bool {
	av := map[*cfg.Block]bool{}
	for _, b := range avoid {
		av[b] = true
	}
	seen := map[*cfg.Block]bool{}
	var dfs func(b *cfg.Block) bool
	dfs = func(b *cfg.Block) bool {
		if av[b] || seen[b] {
			return false
		}
		seen[b] = true
		if len(b.Succs) == 0 {
			// a block ending in panic is not an exit that yields nothing silently
			if len(b.Nodes) > 0 {
				if es, ok := b.Nodes[len(b.Nodes)-1].(*ast.ExprStmt); ok {
					if call, ok := es.X.(*ast.CallExpr); ok {
						if id, ok := call.Fun.(*ast.Ident); ok && id.Name == "panic" {
							return false
						}
					}
				}
			}
			return true
		}
		for _, s := range b.Succs {
			if dfs(s) {
				return true
			}
		}
		return false
	}
	return dfs(start)
}

// fdOpenErrYielded (FD2): the aio.Open error term in the File literal is reported (yielded) on every path.
func fdOpenErrYielded(c *Ctx, r *Report, sp fileSpec, where string, openCall *ast.CallExpr) {
	outer := c.fn(sp.rel, sp.file)
	if outer == nil {
		r.undecided("FD2", where, "open error yielded", "", "SSA function not found")
		return
	}
	e := &fdEngine{c: c, mode: fdStream, derived: map[*ssa.Function]bool{}}
	n := 0
	// the function itself, its literals, and a function of the package a literal hands its whole work to
	fns := family(outer)
	for _, f := range family(outer) {
		if g, _ := c.soleDelegate(f); g != nil {
			fns = append(fns, family(g)...)
		}
	}
	for _, f := range fns {
		for _, t := range e.terms(f) {
			if t.what != "aio.Open" {
				continue
			}
			n++
			t.noEOF = true // opening is not reading: an io.EOF from Open (e.g. an empty .gz) is a failure to open, not a clean end
			findings, _ := e.analyze(f, t)
			if len(findings) == 0 {
				r.holds("FD2", where, "open error yielded", c.pos(t.call.Pos()), "a failure to open the path is handed to the consumer on every path")
			} else {
				r.violated("FD2", where, "open error yielded", c.pos(findings[0].pos), "a failure to open the path can be dropped: "+findings[0].msg)
			}
		}
	}
	if n == 0 {
		r.undecided("FD2", where, "open error yielded", "", "aio.Open error term not found")
	}
}

// ---------------------------------------------------------------------------
// A6: io.Reader values flow only into re-assembling constructors

var reassemblers = map[string]bool{
	"bufio.NewReader": true, "bufio.NewReaderSize": true, "bufio.NewScanner": true, "encoding/csv.NewReader": true,
}

// detectDirectReads: Read invokes on io.Reader-typed values, and (*bufio.Reader).Buffered calls.
func detectDirectReads(c *Ctx, funcs []*ssa.Function) (reads, buffered []ssa.Instruction) {
	for _, f := range funcs {
		instrs(f, func(in ssa.Instruction) {
			ci, ok := in.(ssa.CallInstruction)
			if !ok {
				return
			}
			cc := ci.Common()
			if cc.IsInvoke() && cc.Method.Name() == "Read" && cc.Method.Pkg() == nil || cc.IsInvoke() && cc.Method.Name() == "Read" {
				if _, isIface := cc.Value.Type().Underlying().(*types.Interface); isIface {
					reads = append(reads, in)
				}
			}
			if methIs(cc.StaticCallee(), "bufio", "Reader", "Buffered") {
				buffered = append(buffered, in)
			}
		})
	}
	return
}

func isIOReader(t types.Type) bool {
	n, ok := t.(*types.Named)
	return ok && n.Obj().Pkg() != nil && n.Obj().Pkg().Path() == "io" && n.Obj().Name() == "Reader"
}

// readerFlow follows an io.Reader value forward; returns descriptions of sinks that are not re-assemblers.
type readerFlow struct {
	c    *Ctx
	seen map[ssa.Value]bool
	good []string
	bad  []string
}

func (rf *readerFlow) follow(v ssa.Value, from *ssa.Function) {
	if rf.seen[v] {
		return
	}
	rf.seen[v] = true
	refs := v.Referrers()
	if refs == nil {
		return
	}
	for _, ref := range *refs {
		switch x := ref.(type) {
		case *ssa.DebugRef:
		case *ssa.Phi:
			rf.follow(x, from)
		case *ssa.ChangeInterface:
			rf.follow(x, from)
		case *ssa.MakeInterface:
			rf.follow(x, from)
		case *ssa.ChangeType:
			rf.follow(x, from)
		case *ssa.Store:
			if x.Val != v {
				continue
			}
			// spilled into a local cell (captured variable) or a struct field: follow the loads of that cell
			switch ad := x.Addr.(type) {
			case *ssa.Alloc:
				rf.followCell(ad, from)
			case *ssa.FieldAddr:
				// a field of a local struct that becomes the receiver of a method value: follow the field in the method
				if al, ok := ad.X.(*ssa.Alloc); ok && rf.followStructField(al, ad.Field, from) {
					continue
				}
				rf.bad = append(rf.bad, "stored into memory at "+rf.c.pos(x.Pos()))
			default:
				rf.bad = append(rf.bad, "stored into memory at "+rf.c.pos(x.Pos()))
			}
		case *ssa.MakeClosure:
			fn := x.Fn.(*ssa.Function)
			for i, b := range x.Bindings {
				if b == v && i < len(fn.FreeVars) {
					rf.follow(fn.FreeVars[i], fn)
				}
			}
		case ssa.CallInstruction:
			cc := x.Common()
			if cc.IsInvoke() {
				if cc.Value == v {
					if cc.Method.Name() == "Close" {
						continue
					}
					rf.bad = append(rf.bad, fmt.Sprintf("method %s called on the stream at %s", cc.Method.Name(), rf.c.pos(x.Pos())))
				}
				continue
			}
			callee := cc.StaticCallee()
			if callee == nil {
				rf.bad = append(rf.bad, "passed to a dynamic call at "+rf.c.pos(x.Pos()))
				continue
			}
			qn := qname(callee)
			if reassemblers[qn] {
				rf.good = append(rf.good, qn)
				continue
			}
			if callee.Name() == "Close" && len(cc.Args) == 1 {
				continue // closing the stream reads nothing
			}
			if rf.c.inModule(callee) && callee.Blocks != nil {
				for i, a := range cc.Args {
					if a == v && i < len(callee.Params) {
						rf.follow(callee.Params[i], callee)
					}
				}
				continue
			}
			rf.bad = append(rf.bad, "passed to "+qn+" at "+rf.c.pos(x.Pos()))
		case *ssa.Defer:
		case *ssa.Return:
			rf.bad = append(rf.bad, "returned at "+rf.c.pos(x.Pos()))
		case *ssa.BinOp, *ssa.If:
		default:
			rf.bad = append(rf.bad, fmt.Sprintf("used by %T at %s", ref, rf.c.pos(ref.Pos())))
		}
	}
}

func (rf *readerFlow) followCell(cell ssa.Value, from *ssa.Function) {
	if rf.seen[cell] {
		return
	}
	rf.seen[cell] = true
	for _, ref := range *cell.Referrers() {
		switch x := ref.(type) {
		case *ssa.UnOp:
			if x.Op == token.MUL {
				rf.follow(x, from)
			}
		case *ssa.MakeClosure:
			fn := x.Fn.(*ssa.Function)
			for i, b := range x.Bindings {
				if b == cell && i < len(fn.FreeVars) {
					rf.followCell(fn.FreeVars[i], fn)
				}
			}
		}
	}
}

func rulesReaderEntry(c *Ctx, r *Report) {
	funcs := formatFuncs(c)
	n := 0
	for _, f := range funcs {
		if f.Parent() != nil {
			continue
		}
		for _, p := range f.Params {
			if !isIOReader(p.Type()) {
				continue
			}
			n++
			r.analysed(fname(f))
			rf := &readerFlow{c: c, seen: map[ssa.Value]bool{}}
			rf.follow(p, f)
			sort.Strings(rf.good)
			r.check(len(rf.bad) == 0 && len(rf.good) > 0, "A6", fname(f), "io.Reader "+p.Name(), c.pos(f.Pos()),
				"the stream only enters "+strings.Join(uniq(rf.good), ", ")+" (re-assembles tokens across short reads)",
				"the stream is used other than through a buffering reader: "+strings.Join(rf.bad, "; ")+fmt.Sprintf(" (buffering constructors reached: %v)", uniq(rf.good)))
		}
	}
	// also the streams opened by File functions
	for _, f := range funcs {
		instrs(f, func(in ssa.Instruction) {
			call, ok := in.(*ssa.Call)
			if !ok || !fnIs(call.Call.StaticCallee(), gostuffPath+"/aio", "Open") {
				return
			}
			for _, ref := range *call.Referrers() {
				ex, ok := ref.(*ssa.Extract)
				if !ok || ex.Index != 0 {
					continue
				}
				n++
				rf := &readerFlow{c: c, seen: map[ssa.Value]bool{}}
				rf.follow(ex, f)
				r.check(len(rf.bad) == 0 && len(rf.good) > 0, "A6", fname(f), "opened stream", c.pos(call.Pos()),
					"the opened file only enters "+strings.Join(uniq(rf.good), ", "),
					"the opened file is used other than through the package's Reader: "+strings.Join(rf.bad, "; "))
			}
		})
	}
	r.floor("A6", n, scopedFloor(8, 2), "io.Reader entries (6 Reader/newReader functions) and 6 opened streams")
	reads, buffered := detectDirectReads(c, funcs)
	pos := ""
	if len(reads) > 0 {
		pos = c.pos(reads[0].Pos())
	}
	r.check(len(reads) == 0, "A6", "formats/*", "no direct Read", pos, "no function of the codec packages calls Read on an io.Reader itself", fmt.Sprintf("%d direct Read calls on an io.Reader: short reads become the decoder's own problem", len(reads)))
	pos = ""
	if len(buffered) > 0 {
		pos = c.pos(buffered[0].Pos())
	}
	r.check(len(buffered) == 0, "A6-SCHED", "formats/*", "no Buffered()", pos, "no decoder consults bufio.Reader.Buffered", fmt.Sprintf("%d calls of bufio.Reader.Buffered: how much is buffered depends on how the stream was chunked, so decoding depends on the read schedule", len(buffered)))
	withControl(r, "A6 direct Read / Buffered", func(cc *Ctx, fs []*ssa.Function) int {
		a, b := detectDirectReads(cc, fs)
		if len(a) > 0 && len(b) > 0 {
			return len(a) + len(b)
		}
		return 0
	})
}

func uniq(s []string) []string {
	m := map[string]bool{}
	var out []string
	for _, x := range s {
		if !m[x] {
			m[x] = true
			out = append(out, x)
		}
	}
	sort.Strings(out)
	return out
}

// ---------------------------------------------------------------------------
// SCAN-ALIAS

var bufferViews = map[string]bool{
	"(*bufio.Scanner).Bytes": true, "(*bufio.Reader).ReadSlice": true, "(*bufio.Reader).ReadLine": true, "(*bufio.Reader).Peek": true,
}

var copyingCalls = map[string]bool{
	"slices.Clone": true, "bytes.Clone": true, "bytes.ToUpper": true, "bytes.ToLower": true,
}

type aliasHit struct {
	src  *ssa.Call
	sink ssa.Instruction
	why  string
}

// detectScanAlias propagates "view into a bufio buffer" through slices, phis and local cells and reports
// stores into memory, returns and captures of such views.
func detectScanAlias(c *Ctx, funcs []*ssa.Function) (sources []*ssa.Call, hits []aliasHit) {
	for _, f := range funcs {
		instrs(f, func(in ssa.Instruction) {
			call, ok := in.(*ssa.Call)
			if !ok || call.Call.StaticCallee() == nil || !bufferViews[qname(call.Call.StaticCallee())] {
				return
			}
			sources = append(sources, call)
			seen := map[ssa.Value]bool{}
			var follow func(v ssa.Value)
			follow = func(v ssa.Value) {
				if seen[v] {
					return
				}
				seen[v] = true
				refs := v.Referrers()
				if refs == nil {
					return
				}
				for _, ref := range *refs {
					switch x := ref.(type) {
					case *ssa.Extract:
						if _, ok := x.Type().Underlying().(*types.Slice); ok {
							follow(x)
						}
					case *ssa.Slice:
						if x.X == v {
							follow(x)
						}
					case *ssa.Phi, *ssa.ChangeType:
						follow(ref.(ssa.Value))
					case *ssa.Convert:
						// []byte -> string copies
					case *ssa.Store:
						if x.Val != v {
							continue
						}
						if al, ok := x.Addr.(*ssa.Alloc); ok && !al.Heap {
							for _, r2 := range *al.Referrers() {
								if ld, ok := r2.(*ssa.UnOp); ok && ld.Op == token.MUL {
									follow(ld)
								}
							}
							continue
						}
						hits = append(hits, aliasHit{call, x, "stored into a record or other memory"})
					case *ssa.Return:
						hits = append(hits, aliasHit{call, x, "returned"})
					case *ssa.MakeInterface:
						hits = append(hits, aliasHit{call, x, "converted to an interface value (escapes)"})
					case *ssa.MakeClosure:
						hits = append(hits, aliasHit{call, x, "captured by a closure"})
					case ssa.CallInstruction:
						cc := x.Common()
						if b, ok := cc.Value.(*ssa.Builtin); ok {
							if b.Name() == "append" && len(cc.Args) > 0 && cc.Args[0] == v {
								if val, ok := x.(ssa.Value); ok {
									follow(val)
								}
							}
							continue // append(x, view...), copy, len: copy or read
						}
						callee := cc.StaticCallee()
						if callee == nil {
							hits = append(hits, aliasHit{call, x, "passed to a dynamic call (e.g. yielded)"})
							continue
						}
						qn := qname(callee)
						if copyingCalls[qn] {
							continue
						}
						if val, ok := x.(ssa.Value); ok {
							if _, isSlice := val.Type().Underlying().(*types.Slice); isSlice && !strings.HasPrefix(qn, "strconv.") {
								// a function returning a slice from a view may return a sub-view (bytes.TrimSpace …)
								follow(val)
							}
						}
					}
				}
			}
			follow(call)
			// stale views: a view (or a sub-slice of it) used after the buffer moved on
			isScanner := strings.Contains(qname(call.Call.StaticCallee()), "Scanner")
			var advances []ssa.Instruction
			instrs(f, func(in2 ssa.Instruction) {
				if ci, ok := in2.(ssa.CallInstruction); ok && in2 != ssa.Instruction(call) && advancesBuffer(c, ci, isScanner, 0) {
					advances = append(advances, in2)
				}
			})
			reported := map[ssa.Instruction]bool{}
			for v := range seen {
				refs := v.Referrers()
				if refs == nil {
					continue
				}
				for _, use := range *refs {
					if _, ok := use.(*ssa.DebugRef); ok || reported[use] {
						continue
					}
					if _, ok := use.(*ssa.Phi); ok {
						continue // the merged value's own uses are examined
					}
					for _, adv := range advances {
						if use != adv && instrPathAvoiding(call, adv, call) && instrPathAvoiding(adv, use, call) {
							reported[use] = true
							hits = append(hits, aliasHit{call, use, "still used after a later read on the same buffer (" + callName(adv.(ssa.CallInstruction)) + " at " + c.pos(adv.Pos()) + ")"})
							break
						}
					}
				}
			}
		})
	}
	return
}

func rulesScanAlias(c *Ctx, r *Report, allFormats bool) {
	funcs := formatFuncs(c, "formats/smtext")
	sources, hits := detectScanAlias(c, funcs)
	byCall := map[*ssa.Call][]aliasHit{}
	for _, h := range hits {
		byCall[h.src] = append(byCall[h.src], h)
	}
	for _, s := range sources {
		f := s.Parent()
		r.analysed(fname(f))
		if hs := byCall[s]; len(hs) > 0 {
			for _, h := range hs {
				r.violated("SCAN-ALIAS", fname(f), "view "+qname(s.Call.StaticCallee()), c.pos(h.sink.Pos()), "a view into the reader's internal buffer is "+h.why+" without a copy: the next read shifts or refills the buffer and silently changes the record (depends on how the stream is chunked)")
			}
		} else {
			r.holds("SCAN-ALIAS", fname(f), "view "+qname(s.Call.StaticCallee()), c.pos(s.Pos()), "this view into the reader's buffer is copied (slices.Clone/append/string conversion) or only inspected before the next read")
		}
	}
	r.floor("SCAN-ALIAS", len(sources), 1, "Scanner.Bytes call sites in fastq")
	withControl(r, "SCAN-ALIAS escaping view", func(cc *Ctx, fs []*ssa.Function) int {
		_, h := detectScanAlias(cc, fs)
		return len(h)
	})
}

// ---------------------------------------------------------------------------
// G5: line terminators

// byteCompareGroups: the constants a byte-typed value is compared with, grouped into `||` chains / case lists:
// comparisons linked through their not-equal edges whose equal edges continue at the same place (following
// empty blocks, and taking the phi values they contribute into account).
func byteCompareGroups(f *ssa.Function) map[ssa.Value]map[*ssa.BasicBlock][]int64 {
	type cmp struct {
		blk      *ssa.BasicBlock
		v        ssa.Value
		k        int64
		eq, ne   *ssa.BasicBlock
		resolved string
	}
	var cmps []*cmp
	byBlk := map[*ssa.BasicBlock]*cmp{}
	for _, b := range f.Blocks {
		iff, ok := b.Instrs[len(b.Instrs)-1].(*ssa.If)
		if !ok {
			continue
		}
		bo, ok := iff.Cond.(*ssa.BinOp)
		if !ok || (bo.Op != token.EQL && bo.Op != token.NEQ) {
			continue
		}
		v, k := bo.X, bo.Y
		kc, okc := cInt(constVal(k))
		if !okc {
			v, k = bo.Y, bo.X
			kc, okc = cInt(constVal(k))
		}
		if !okc {
			continue
		}
		bt, ok := v.Type().Underlying().(*types.Basic)
		if !ok || bt.Kind() != types.Uint8 {
			continue
		}
		eq, ne := b.Succs[0], b.Succs[1]
		if bo.Op == token.NEQ {
			eq, ne = ne, eq
		}
		c := &cmp{blk: b, v: v, k: kc, eq: eq, ne: ne, resolved: resolveTarget(b, eq)}
		cmps = append(cmps, c)
		byBlk[b] = c
	}
	// union chains
	parent := map[*cmp]*cmp{}
	var find func(x *cmp) *cmp
	find = func(x *cmp) *cmp {
		if parent[x] == nil || parent[x] == x {
			return x
		}
		r := find(parent[x])
		parent[x] = r
		return r
	}
	for _, a := range cmps {
		if nx := byBlk[a.ne]; nx != nil && nx.v == a.v && len(nx.blk.Preds) == 1 && nx.resolved == a.resolved {
			ra, rb := find(a), find(nx)
			if ra != rb {
				parent[rb] = ra
			}
		}
	}
	out := map[ssa.Value]map[*ssa.BasicBlock][]int64{}
	for _, c := range cmps {
		root := find(c)
		if out[c.v] == nil {
			out[c.v] = map[*ssa.BasicBlock][]int64{}
		}
		out[c.v][root.blk] = append(out[c.v][root.blk], c.k)
	}
	return out
}

// resolveTarget follows blocks that only jump on and describes where control continues, including the phi
// values contributed on arrival.
func resolveTarget(from, target *ssa.BasicBlock) string {
	prev := from
	for hops := 0; hops < 8; hops++ {
		if len(target.Instrs) == 1 {
			if _, ok := target.Instrs[0].(*ssa.Jump); ok {
				prev, target = target, target.Succs[0]
				continue
			}
		}
		break
	}
	key := fmt.Sprintf("b%d", target.Index)
	for _, in := range target.Instrs {
		phi, ok := in.(*ssa.Phi)
		if !ok {
			break
		}
		for i, p := range target.Preds {
			if p == prev {
				e := phi.Edges[i]
				if k := constVal(e); k != nil {
					key += "|" + k.ExactString()
				} else {
					key += "|" + e.Name()
				}
			}
		}
	}
	return key
}

type g5spec struct{ rel, fn string }

func rulesLineTerminators(c *Ctx, r *Report, prop string) {
	_, n1 := rulesG5Automaton(c, r, c.role("fasta.read"), "formats/fasta record reader")
	_, n2 := rulesG5Automaton(c, r, c.role("newick.nextToken"), "formats/newick tokenizer")
	r.floor("G5", n1+n2, 4, "automaton states of the FASTA reader and the Newick tokenizer in which the byte matters")
	rulesG5Lines(c, r)
}

// rulesG5Bytes: byte-level decoders — every group of terminator comparisons contains both LF and CR.
func rulesG5Bytes(c *Ctx, r *Report, specs []g5spec, floor int, note string) {
	nGroups := 0
	for _, spec := range specs {
		f := c.fn(spec.rel, spec.fn)
		if strings.HasPrefix(spec.fn, "role:") {
			f = c.role(strings.TrimPrefix(spec.fn, "role:"))
		}
		where := spec.rel + "." + spec.fn
		if f == nil {
			r.undecided("G5", where, "anchor", "", "decoder function not found")
			continue
		}
		r.analysed(fname(f))
		for v, groups := range byteCompareGroups(f) {
			_ = v
			var targets []*ssa.BasicBlock
			for t := range groups {
				targets = append(targets, t)
			}
			sort.Slice(targets, func(i, j int) bool { return targets[i].Index < targets[j].Index })
			for _, t := range targets {
				ks := groups[t]
				hasLF, hasCR := false, false
				var names []string
				for _, k := range ks {
					if k == '\n' {
						hasLF = true
					}
					if k == '\r' {
						hasCR = true
					}
					names = append(names, byteStr(int(k)))
				}
				if !hasLF && !hasCR {
					continue
				}
				nGroups++
				sort.Strings(names)
				pos := ""
				for _, in := range t.Instrs {
					if in.Pos().IsValid() {
						pos = c.pos(in.Pos())
						break
					}
				}
				r.check(hasLF && hasCR, "G5", fname(f), "group {"+strings.Join(names, ",")+"}", pos,
					"this group of terminator comparisons contains both LF and CR", "this group recognises only one of LF/CR: with the other convention the byte ends up in the name/sequence/token (CRLF input decodes differently from LF input)")
			}
		}
	}
	r.floor("G5", nGroups, floor, note)
}

// rulesNoCustomSplit: no Scanner in the codec packages replaces bufio.ScanLines.
func rulesNoCustomSplit(c *Ctx, r *Report) {
	nSplit := 0
	for _, f := range formatFuncs(c) {
		instrs(f, func(in ssa.Instruction) {
			if ci, ok := in.(ssa.CallInstruction); ok && methIs(ci.Common().StaticCallee(), "bufio", "Scanner", "Split") {
				nSplit++
				r.violated("G5", fname(f), "Scanner.Split", c.pos(in.Pos()), "the scanner's split function is replaced: that every line is delivered whole, once, with exactly its terminator removed can no longer be assumed")
			}
		})
	}
	if nSplit == 0 {
		r.holds("G5", "formats/fastq", "Scanner.Split never called", "", "the fastq scanner keeps bufio.ScanLines: every line is delivered whole, once, LF or CRLF removed")
	}
}

func rulesG5Lines(c *Ctx, r *Report) {
	// (b) fastq: Scanner with the default split function
	nSplit := 0
	for _, f := range formatFuncs(c) {
		instrs(f, func(in ssa.Instruction) {
			if ci, ok := in.(ssa.CallInstruction); ok && methIs(ci.Common().StaticCallee(), "bufio", "Scanner", "Split") {
				nSplit++
				r.violated("G5", fname(f), "Scanner.Split", c.pos(in.Pos()), "the scanner's split function is replaced: bufio.ScanLines' CR stripping can no longer be assumed")
			}
		})
	}
	if nSplit == 0 {
		r.holds("G5", "formats/fastq", "Scanner.Split never called", "", "the fastq scanner keeps bufio.ScanLines, which ends lines at LF and strips one trailing CR")
	}
	// (c) sam, bed: ReadString('\n') lines are stripped of exactly "\n" then "\r" before any other use
	n := rulesLineChain(c, r, "formats/sam") + rulesLineChain(c, r, "formats/bed")
	r.floor("G5-lines", n, 2, "ReadString line readers (sam.ReaderHeader, bed.read)")
}

// rulesLineChain: the ReadString('\n') line readers of one package.
func rulesLineChain(c *Ctx, r *Report, rel string) int {
	nChains := 0
	for _, f := range formatFuncs(c) {
		if funcPkgPath(f) != modPath+"/"+rel {
			continue
		}
		instrs(f, func(in ssa.Instruction) {
			call, ok := in.(*ssa.Call)
			if !ok || !methIs(call.Call.StaticCallee(), "bufio", "Reader", "ReadString") {
				return
			}
			nChains++
			r.analysed(fname(f))
			delim, _ := cInt(constVal(call.Call.Args[1]))
			if delim != '\n' {
				r.violated("G5", fname(f), "ReadString delimiter", c.pos(call.Pos()), fmt.Sprintf("lines are read up to byte %s, not LF", byteStr(int(delim))))
				return
			}
			var text ssa.Value
			for _, ref := range *call.Referrers() {
				if ex, ok := ref.(*ssa.Extract); ok && ex.Index == 0 {
					text = ex
				}
			}
			if text == nil {
				r.undecided("G5", fname(f), "line text", c.pos(call.Pos()), "line text is not used")
				return
			}
			ok2, why := trimChainOK(text)
			r.check(ok2, "G5", fname(f), "line trimming", c.pos(call.Pos()),
				"the line is used only after TrimSuffix \"\\n\" then \"\\r\": LF and CRLF lines give the same text, and nothing else is stripped",
				why)
		})
	}
	return nChains
}

// trimChainOK: text's only use is strings.TrimSuffix(text, "\n"), whose only use is TrimSuffix(_, "\r")
// (or one TrimRight with cutset of exactly LF and CR).
func trimChainOK(text ssa.Value) (bool, string) {
	stripped := map[string]bool{}
	cur := text
	for step := 0; step < 4; step++ {
		var uses []ssa.Instruction
		for _, ref := range *cur.Referrers() {
			if _, ok := ref.(*ssa.DebugRef); ok {
				continue
			}
			uses = append(uses, ref)
		}
		if stripped["\n"] && stripped["\r"] {
			return true, ""
		}
		if len(uses) != 1 {
			return false, fmt.Sprintf("the line text is used %d times before both terminators are stripped (stripped so far: %v): some use sees a trailing CR or LF", len(uses), keysOf(stripped))
		}
		call, ok := uses[0].(*ssa.Call)
		if !ok || call.Call.StaticCallee() == nil {
			return false, "the line text is used before both terminators are stripped"
		}
		qn := qname(call.Call.StaticCallee())
		switch qn {
		case "strings.TrimSuffix":
			k := constVal(call.Call.Args[1])
			if k == nil || k.Kind() != constant.String {
				return false, "TrimSuffix with a non-constant suffix"
			}
			sfx := constant.StringVal(k)
			if sfx != "\n" && sfx != "\r" && sfx != "\r\n" {
				return false, fmt.Sprintf("TrimSuffix removes %q, which is not a line terminator: field content is altered", sfx)
			}
			if sfx == "\r" && !stripped["\n"] {
				return false, "CR is stripped before LF: a CRLF line keeps its CR"
			}
			for _, ch := range sfx {
				stripped[string(ch)] = true
			}
		case "strings.TrimRight":
			k := constVal(call.Call.Args[1])
			if k == nil || k.Kind() != constant.String {
				return false, "TrimRight with a non-constant cut set"
			}
			for _, ch := range constant.StringVal(k) {
				if ch != '\n' && ch != '\r' {
					return false, fmt.Sprintf("TrimRight also removes %q: trailing field content is altered", ch)
				}
				stripped[string(ch)] = true
			}
		default:
			return false, "the line passes through " + qn + " before/instead of stripping exactly LF and CR: either a terminator survives or field content (e.g. trailing blanks) is removed"
		}
		cur = call
	}
	if stripped["\n"] && stripped["\r"] {
		return true, ""
	}
	return false, "line terminators not fully stripped"
}

func keysOf(m map[string]bool) []string {
	var out []string
	for k := range m {
		out = append(out, fmt.Sprintf("%q", k))
	}
	sort.Strings(out)
	return out
}

// rulesNoBufferedPkg (A6-SCHED for one package): no function of the package consults bufio.Reader.Buffered.
func rulesNoBufferedPkg(c *Ctx, r *Report, rel string) {
	var funcs []*ssa.Function
	for _, f := range formatFuncs(c) {
		if funcPkgPath(f) == modPath+"/"+rel {
			funcs = append(funcs, f)
		}
	}
	_, buffered := detectDirectReads(c, funcs)
	pos := ""
	if len(buffered) > 0 {
		pos = c.pos(buffered[0].Pos())
	}
	r.check(len(buffered) == 0, "A6-SCHED", rel, "no Buffered()", pos,
		fmt.Sprintf("none of the %d functions of the package consults bufio.Reader.Buffered: whether more input follows is decided by reading, not by what happens to be buffered", len(funcs)),
		fmt.Sprintf("%d calls of bufio.Reader.Buffered: how much is buffered depends on how the stream was chunked, so records that follow in a later chunk are lost", len(buffered)))
	if len(funcs) == 0 {
		r.undecided("A6-SCHED", rel, "anchor", "", "package has no functions")
	}
}

// instrPathAvoiding: some CFG path leads from just after `from` to `to` without executing `avoid`.
func instrPathAvoiding(from, to, avoid ssa.Instruction) bool {
	idxOf := func(in ssa.Instruction) int {
		for i, x := range in.Block().Instrs {
			if x == in {
				return i
			}
		}
		return -1
	}
	type item struct {
		b *ssa.BasicBlock
		i int
	}
	seen := map[*ssa.BasicBlock]bool{}
	work := []item{{from.Block(), idxOf(from) + 1}}
	for len(work) > 0 {
		it := work[len(work)-1]
		work = work[:len(work)-1]
		stopped := false
		for k := it.i; k < len(it.b.Instrs); k++ {
			in := it.b.Instrs[k]
			if in == to {
				return true
			}
			if in == avoid {
				stopped = true
				break
			}
		}
		if stopped {
			continue
		}
		for _, su := range it.b.Succs {
			if !seen[su] {
				seen[su] = true
				work = append(work, item{su, 0})
			}
		}
	}
	return false
}

// advancesBuffer: the call moves the bufio buffer that a view of the given kind points into (directly, or
// inside a module helper up to two calls deep).
func advancesBuffer(c *Ctx, call ssa.CallInstruction, scanner bool, depth int) bool {
	g := call.Common().StaticCallee()
	if g == nil {
		return false
	}
	if scanner {
		if methIs(g, "bufio", "Scanner", "Scan") {
			return true
		}
	} else if recv := g.Signature.Recv(); recv != nil && strings.HasSuffix(recv.Type().String(), "bufio.Reader") {
		switch g.Name() {
		case "Read", "ReadByte", "ReadBytes", "ReadLine", "ReadRune", "ReadSlice", "ReadString", "Discard", "Peek", "WriteTo", "Reset":
			return true
		}
	}
	if depth < 2 && g.Blocks != nil && c.inModule(g) {
		found := false
		instrs(g, func(in ssa.Instruction) {
			if ci, ok := in.(ssa.CallInstruction); ok && advancesBuffer(c, ci, scanner, depth+1) {
				found = true
			}
		})
		return found
	}
	return false
}

// fdDelegatesSSA is the value-level form of FD3/FD4, used when File does not contain a `for … range Reader(f)`
// statement: after a successful open every path to a return passes an invocation of Reader(opened file) — called
// directly with a body, or handed with the callback to a helper of the package that invokes it — and the body hands
// every item it receives to the callback unchanged.
func fdDelegatesSSA(c *Ctx, sp fileSpec) (bool, string) {
	outer := c.fn(sp.rel, sp.file)
	reader := c.fn(sp.rel, sp.reader)
	if outer == nil || reader == nil || len(outer.AnonFuncs) != 1 {
		return false, "File or " + sp.reader + " not found"
	}
	lit := outer.AnonFuncs[0]
	if len(lit.Params) != 1 {
		return false, "iterator literal without a single callback"
	}
	var open *ssa.Call
	instrs(lit, func(in ssa.Instruction) {
		if cl, ok := in.(*ssa.Call); ok && fnIs(cl.Call.StaticCallee(), gostuffPath+"/aio", "Open") {
			open = cl
		}
	})
	if open == nil {
		return false, "no aio.Open in the iterator literal"
	}
	var h, e *ssa.Extract
	for _, ref := range *open.Referrers() {
		if ex, ok := ref.(*ssa.Extract); ok {
			if ex.Index == 0 {
				h = ex
			} else {
				e = ex
			}
		}
	}
	if h == nil || e == nil {
		return false, "open result not destructured"
	}
	// values that are the handle / the callback in lit (directly or through their captured cells)
	cellOf := func(v ssa.Value) map[ssa.Value]bool {
		cells := map[ssa.Value]bool{}
		for _, ref := range *v.Referrers() {
			if st, ok := ref.(*ssa.Store); ok && st.Val == v {
				if al, ok := st.Addr.(*ssa.Alloc); ok {
					cells[al] = true
				}
			}
		}
		return cells
	}
	hCells, yCells := cellOf(h), cellOf(lit.Params[0])
	isVal := func(v ssa.Value, direct ssa.Value, cells map[ssa.Value]bool) bool {
		v = unwrapIface(v)
		if v == direct {
			return true
		}
		ld, ok := v.(*ssa.UnOp)
		return ok && ld.Op == token.MUL && cells[ld.X]
	}
	isHandle := func(v ssa.Value) bool { return isVal(v, h, hCells) }
	isYield := func(v ssa.Value) bool { return isVal(v, lit.Params[0], yCells) }
	// Reader(handle) calls
	isReaderCall := func(v ssa.Value) bool {
		cl, ok := v.(*ssa.Call)
		return ok && cl.Call.StaticCallee() == reader && len(cl.Call.Args) == 1 && isHandle(cl.Call.Args[0])
	}
	// passThrough: body hands each item it gets to the callback unchanged, on every path to a return
	passThrough := func(body *ssa.Function, isCb func(ssa.Value) bool) (bool, string) {
		nCalls := 0
		okArgs := true
		cbBlocks := map[*ssa.BasicBlock]bool{}
		instrs(body, func(in ssa.Instruction) {
			cl, ok := in.(*ssa.Call)
			if !ok || !isCb(cl.Call.Value) {
				return
			}
			nCalls++
			cbBlocks[cl.Block()] = true
			if len(cl.Call.Args) != len(body.Params) {
				okArgs = false
				return
			}
			for i, a := range cl.Call.Args {
				if a != ssa.Value(body.Params[i]) {
					okArgs = false
				}
			}
		})
		if nCalls == 0 {
			return false, "the loop body never calls the callback"
		}
		if !okArgs {
			return false, "the loop body does not pass the item it received to the callback unchanged"
		}
		seen := map[*ssa.BasicBlock]bool{}
		skip := false
		var walk func(b *ssa.BasicBlock)
		walk = func(b *ssa.BasicBlock) {
			if seen[b] || cbBlocks[b] {
				return
			}
			seen[b] = true
			if _, ok := lastInstr(b).(*ssa.Return); ok {
				skip = true
			}
			for _, su := range b.Succs {
				walk(su)
			}
		}
		walk(body.Blocks[0])
		if skip {
			return false, "the loop body can return without handing the item to the callback"
		}
		return true, ""
	}
	// body functions: a closure value whose captured callback cell is known
	bodyOf := func(v ssa.Value, from *ssa.Function, cbCells map[ssa.Value]bool, cbDirect ssa.Value) (*ssa.Function, func(ssa.Value) bool) {
		mc, ok := v.(*ssa.MakeClosure)
		if !ok {
			return nil, nil
		}
		b := mc.Fn.(*ssa.Function)
		fvCell := map[ssa.Value]bool{}
		fvDirect := map[ssa.Value]bool{}
		for i, bind := range mc.Bindings {
			if i >= len(b.FreeVars) {
				break
			}
			if cbCells[bind] {
				fvCell[b.FreeVars[i]] = true
			}
			if bind == cbDirect {
				fvDirect[b.FreeVars[i]] = true
			}
		}
		return b, func(x ssa.Value) bool {
			if fvDirect[x] {
				return true
			}
			ld, ok := x.(*ssa.UnOp)
			return ok && ld.Op == token.MUL && fvCell[ld.X]
		}
	}
	why := ""
	sites := map[*ssa.BasicBlock]bool{}
	instrs(lit, func(in ssa.Instruction) {
		cl, ok := in.(*ssa.Call)
		if !ok {
			return
		}
		// (a) Reader(f)(body)
		if isReaderCall(cl.Call.Value) && len(cl.Call.Args) == 1 {
			if isYield(cl.Call.Args[0]) {
				sites[cl.Block()] = true // the consumer's callback handed to Reader(f) as it is
				return
			}
			if b, isCb := bodyOf(cl.Call.Args[0], lit, yCells, lit.Params[0]); b != nil {
				if ok, w := passThrough(b, isCb); ok {
					sites[cl.Block()] = true
				} else {
					why = w
				}
			}
			return
		}
		// (b) helper(Reader(f), yield): the helper invokes its sequence parameter with a pass-through body
		g := cl.Call.StaticCallee()
		if g == nil || g.Blocks == nil || g.Pkg != lit.Pkg {
			return
		}
		seqI, cbI := -1, -1
		for i, a := range cl.Call.Args {
			if isReaderCall(a) {
				seqI = i
			}
			if isYield(a) {
				cbI = i
			}
		}
		if seqI < 0 || cbI < 0 || seqI >= len(g.Params) || cbI >= len(g.Params) {
			return
		}
		gCb := g.Params[cbI]
		gCells := cellOf(gCb)
		okG := false
		invoked := map[*ssa.BasicBlock]bool{}
		instrs(g, func(in2 ssa.Instruction) {
			c2, ok := in2.(*ssa.Call)
			if !ok || c2.Call.Value != ssa.Value(g.Params[seqI]) || len(c2.Call.Args) != 1 {
				return
			}
			if b, isCb := bodyOf(c2.Call.Args[0], g, gCells, gCb); b != nil {
				if ok, w := passThrough(b, isCb); ok {
					okG = true
					invoked[c2.Block()] = true
				} else {
					why = w
				}
			}
		})
		if okG {
			// every path through the helper invokes the sequence
			seen := map[*ssa.BasicBlock]bool{}
			skip := false
			var walk func(b *ssa.BasicBlock)
			walk = func(b *ssa.BasicBlock) {
				if seen[b] || invoked[b] {
					return
				}
				seen[b] = true
				if _, ok := lastInstr(b).(*ssa.Return); ok {
					skip = true
				}
				for _, su := range b.Succs {
					walk(su)
				}
			}
			walk(g.Blocks[0])
			if !skip {
				sites[cl.Block()] = true
			} else {
				why = "the helper can return without invoking the sequence"
			}
		}
	})
	if len(sites) == 0 {
		if why == "" {
			why = "no invocation of " + sp.reader + "(opened file) found"
		}
		return false, why
	}
	// must-pass from the successful open
	seen := map[*ssa.BasicBlock]bool{}
	leak := false
	var walk func(b *ssa.BasicBlock)
	walk = func(b *ssa.BasicBlock) {
		if seen[b] || sites[b] {
			return
		}
		seen[b] = true
		if _, ok := lastInstr(b).(*ssa.Return); ok {
			leak = true
		}
		for k, su := range b.Succs {
			if iff, ok := lastInstr(b).(*ssa.If); ok && errNonNilEdge(edgeLit{iff.Cond, k == 0}) == ssa.Value(e) {
				continue
			}
			walk(su)
		}
	}
	if sites[open.Block()] {
		return true, ""
	}
	walk(open.Block())
	if leak {
		return false, "after a successful open a return is reachable without invoking " + sp.reader + "(f)"
	}
	return true, ""
}

// followStructField: the local struct al is only loaded whole and bound as the receiver of method values; the
// stream stored in its field k is followed as field k of the receiver inside those methods.
func (rf *readerFlow) followStructField(al *ssa.Alloc, k int, from *ssa.Function) bool {
	okAll, any := true, false
	for _, ref := range *al.Referrers() {
		switch x := ref.(type) {
		case *ssa.FieldAddr, *ssa.DebugRef:
		case *ssa.UnOp:
			if x.Op != token.MUL {
				okAll = false
				continue
			}
			for _, r2 := range *x.Referrers() {
				mc, ok := r2.(*ssa.MakeClosure)
				if !ok {
					if _, dbg := r2.(*ssa.DebugRef); !dbg {
						okAll = false
					}
					continue
				}
				w, ok := mc.Fn.(*ssa.Function)
				if !ok || !strings.Contains(w.Synthetic, "bound method wrapper") {
					okAll = false
					continue
				}
				var m *ssa.Function
				instrs(w, func(in ssa.Instruction) {
					if ci, ok := in.(ssa.CallInstruction); ok && ci.Common().StaticCallee() != nil {
						m = ci.Common().StaticCallee()
					}
				})
				if m == nil || m.Blocks == nil || len(m.Params) == 0 {
					okAll = false
					continue
				}
				any = true
				recv := m.Params[0]
				for _, r3 := range *recv.Referrers() {
					switch y := r3.(type) {
					case *ssa.Field:
						if y.Field == k {
							rf.follow(y, m)
						}
					case *ssa.Store:
						// spilled receiver: loads of field k of the spill cell
						if cell, ok := y.Addr.(*ssa.Alloc); ok && y.Val == ssa.Value(recv) {
							for _, r4 := range *cell.Referrers() {
								if fa, ok := r4.(*ssa.FieldAddr); ok && fa.Field == k {
									for _, r5 := range *fa.Referrers() {
										if ld, ok := r5.(*ssa.UnOp); ok && ld.Op == token.MUL {
											rf.follow(ld, m)
										}
									}
								}
							}
						}
					}
				}
			}
		default:
			okAll = false
		}
	}
	return okAll && any
}
