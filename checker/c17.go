package main

import (
	"fmt"
	"go/ast"
	"go/token"
	"go/types"
	"regexp"
	"strings"

	"golang.org/x/tools/go/cfg"
	"golang.org/x/tools/go/ssa"
	"golang.org/x/tools/go/types/typeutil"
)

func init() {
	register("C17", "one obligation per typestate clause of the hashing loop, per delegation, per rule of the canonical k-mer iterator, per clause of the distance formula; non-trivial = decided by CFG must-pass-through, provenance of call arguments, or symbolic comparison", rulesC17, nil)
}

func rulesC17(c *Ctx, r *Report) {
	r.explain("Decides: (TS-HASH) in Add, for every k-mer, the hasher is Reset, then written with exactly that k-mer, then Sum64 is pushed — without the reset a k-mer's hash depends on its predecessors and the sketch on input order; every k-mer of every sequence is pushed; (CANON) the k-mers are sequtil.CanonicalSubsequences(bytes.ToUpper(seq), k) for every given sequence unconditionally — strand and case normalisation — and CanonicalSubsequences itself satisfies the C12 rules (count, windows, minimum by whole-window comparison); (SORT-EXIT) every path from a Push to Add's exit passes mh.Sort(); (DELEG) Sequences returns the sketch it created with New(n) and passed to Add(mh, k, seqs...); Distance is FromJaccard(mh1.Jaccard(mh2), k); (SEED-RO) nothing in the module assigns Seed after initialisation; (FJ) FromJaccard returns 1 for j = 0 and otherwise min(·, 1) of -ln(2j/(1+j))/k. Not decided: bottom-n content and the tail property (gostuff minhash), the Jaccard estimator, symmetry, monotonicity as a numeric fact. Added: every return of Distance is the delegation; (T-COMP) the complement table is a case-preserving involution (strand independence rests on it); TS-HASH follows a k-mer hashing helper. DELEG additionally: every return of Sequences hands back the sketch after Add has run and nothing else touches it; the Add rules are decided on SSA when Add is not two nested range statements. The only call Distance makes on its sketches is Jaccard.")
	r.assume("gostuff minhash keeps the n smallest distinct values pushed; murmur3's Hash64 is a function of the bytes written since Reset")
	rulesMashAdd(c, r)
	rulesCanonical(c, r)
	rulesMashDeleg(c, r)
	if g := c.global("mash", "Seed"); g != nil {
		c.ruleWhoMayWrite(r, "SEED-RO", g, "mash", c.initFuncsOf("mash"), c.moduleFuncs())
	} else {
		r.undecided("SEED-RO", "mash.Seed", "anchor", "", "variable not found")
	}
	rulesFromJaccard(c, r)
	rulesComplementTable(c, r) // strand independence of the canonical k-mers rests on the table being a case-preserving involution
}

func isCallTo(info *types.Info, e ast.Expr, full string) *ast.CallExpr {
	call, ok := ast.Unparen(e).(*ast.CallExpr)
	if !ok {
		return nil
	}
	fn, _ := typeutil.Callee(info, call).(*types.Func)
	if fn == nil {
		return nil
	}
	name := fn.FullName()
	if o := fn.Origin(); o != nil {
		name = o.FullName()
	}
	if name == full {
		return call
	}
	return nil
}

// methodCallOn: call of method `name` on identifier bound to obj.
func methodCallOn(info *types.Info, n ast.Node, obj types.Object, name string) *ast.CallExpr {
	var found *ast.CallExpr
	ast.Inspect(n, func(m ast.Node) bool {
		call, ok := m.(*ast.CallExpr)
		if !ok {
			return true
		}
		sel, ok := ast.Unparen(call.Fun).(*ast.SelectorExpr)
		if !ok || sel.Sel.Name != name {
			return true
		}
		if id, ok := ast.Unparen(sel.X).(*ast.Ident); ok && info.ObjectOf(id) == obj {
			found = call
		}
		return true
	})
	return found
}

func rulesMashAdd(c *Ctx, r *Report) {
	p := c.pkg("mash")
	where := "mash.Add"
	if p == nil {
		r.undecided("TS-HASH", where, "anchor", "", "package not found")
		return
	}
	fd := findDecl(p, "Add")
	if fd == nil || len(fd.Type.Params.List) < 3 {
		r.undecided("TS-HASH", where, "anchor", "", "Add(mh, k, seqs...) not found")
		return
	}
	r.analysed(where)
	mark := len(r.Obs)
	info := p.TypesInfo
	mh := info.Defs[fd.Type.Params.List[0].Names[0]]
	kParam := info.Defs[fd.Type.Params.List[1].Names[0]]
	seqs := info.Defs[fd.Type.Params.List[2].Names[0]]
	// a local that is defined once (x := e) and never assigned again stands for e
	resolve := func(body *ast.BlockStmt, e ast.Expr) ast.Expr {
		for depth := 0; depth < 3; depth++ {
			id, ok := ast.Unparen(e).(*ast.Ident)
			if !ok {
				return e
			}
			obj := info.Uses[id]
			if obj == nil {
				return e
			}
			var def ast.Expr
			n := 0
			ast.Inspect(body, func(m ast.Node) bool {
				as, ok := m.(*ast.AssignStmt)
				if !ok {
					return true
				}
				for i, l := range as.Lhs {
					if lid, ok := ast.Unparen(l).(*ast.Ident); ok && (info.Defs[lid] == obj || info.Uses[lid] == obj) {
						n++
						if len(as.Lhs) == len(as.Rhs) && as.Tok == token.DEFINE && info.Defs[lid] == obj {
							def = as.Rhs[i]
						}
					}
				}
				return true
			})
			if n != 1 || def == nil {
				return e
			}
			e = def
		}
		return e
	}
	// outer and inner range
	var outer, inner *ast.RangeStmt
	find := func(body *ast.BlockStmt, seqsObj types.Object) {
		ast.Inspect(body, func(n ast.Node) bool {
			rs, ok := n.(*ast.RangeStmt)
			if !ok {
				return true
			}
			if id, ok := ast.Unparen(rs.X).(*ast.Ident); ok && seqsObj != nil && info.Uses[id] == seqsObj && outer == nil {
				outer = rs
			} else if isCallTo(info, resolve(body, rs.X), modPath+"/sequtil.CanonicalSubsequences") != nil {
				inner = rs
			}
			return true
		})
	}
	find(fd.Body, seqs)
	// the outer loop as the rules below see it: its body, the per-iteration sequence variable, a node that marks it
	var outerBody *ast.BlockStmt
	var outerSeq types.Object
	var outerMark ast.Node
	var outerPos token.Pos
	if outer != nil {
		outerBody, outerSeq, outerMark, outerPos = outer.Body, identObj(info, outer.Value), outer.X, outer.Pos()
	} else if seqs != nil {
		// an index loop over seqs: `for i := 0; i < len(seqs); i++`, `for i := range len(seqs)`, `for i := range seqs`,
		// whose body starts from `seq := seqs[i]` with i not assigned in the body
		seqAt := func(body *ast.BlockStmt, iv types.Object) types.Object {
			var sv types.Object
			assigned := false
			ast.Inspect(body, func(n ast.Node) bool {
				switch x := n.(type) {
				case *ast.AssignStmt:
					for k, l := range x.Lhs {
						if identObj(info, l) == iv {
							assigned = true
						}
						if x.Tok == token.DEFINE && len(x.Lhs) == len(x.Rhs) {
							if ix, ok := ast.Unparen(x.Rhs[k]).(*ast.IndexExpr); ok && identObj(info, ix.X) == seqs && identObj(info, ix.Index) == iv && sv == nil {
								if lid, ok := l.(*ast.Ident); ok {
									sv = info.Defs[lid]
								}
							}
						}
					}
				case *ast.IncDecStmt:
					if identObj(info, x.X) == iv {
						assigned = true
					}
				}
				return true
			})
			if assigned {
				return nil
			}
			return sv
		}
		isLenSeqs := func(e ast.Expr) bool {
			call, ok := ast.Unparen(e).(*ast.CallExpr)
			if !ok || len(call.Args) != 1 {
				return false
			}
			id, ok := ast.Unparen(call.Fun).(*ast.Ident)
			if !ok {
				return false
			}
			b, ok := info.Uses[id].(*types.Builtin)
			return ok && b.Name() == "len" && identObj(info, call.Args[0]) == seqs
		}
		ast.Inspect(fd.Body, func(n ast.Node) bool {
			if outerBody != nil {
				return false
			}
			switch x := n.(type) {
			case *ast.ForStmt:
				as, ok1 := x.Init.(*ast.AssignStmt)
				cond, ok2 := x.Cond.(*ast.BinaryExpr)
				post, ok3 := x.Post.(*ast.IncDecStmt)
				if !ok1 || !ok2 || !ok3 || as.Tok != token.DEFINE || len(as.Lhs) != 1 || len(as.Rhs) != 1 || post.Tok != token.INC || cond.Op != token.LSS {
					return true
				}
				lid, ok := as.Lhs[0].(*ast.Ident)
				if !ok {
					return true
				}
				iv := info.Defs[lid]
				zero, isLit := ast.Unparen(as.Rhs[0]).(*ast.BasicLit)
				if iv == nil || !isLit || zero.Value != "0" || identObj(info, cond.X) != iv || !isLenSeqs(cond.Y) || identObj(info, post.X) != iv {
					return true
				}
				if sv := seqAt(x.Body, iv); sv != nil {
					outerBody, outerSeq, outerMark, outerPos = x.Body, sv, x.Cond, x.Pos()
				}
			case *ast.RangeStmt:
				if x.Value != nil || x.Key == nil || x.Tok != token.DEFINE {
					return true
				}
				if !(isLenSeqs(x.X) || identObj(info, x.X) == seqs) {
					return true
				}
				iv := identObj(info, x.Key)
				if iv == nil {
					return true
				}
				if sv := seqAt(x.Body, iv); sv != nil {
					outerBody, outerSeq, outerMark, outerPos = x.Body, sv, x.X, x.Pos()
				}
			}
			return true
		})
		if outerBody != nil && inner == nil {
			find(outerBody, nil)
		}
	}
	mhAdd := mh          // Add's own sketch parameter (mh may become a helper's parameter below)
	innerBody := fd.Body // the function body the inner loop lives in
	var helperCall *ast.CallExpr
	if outerBody != nil && inner == nil {
		// the per-sequence work in a helper of the package: helper(…, seq, …)
		ast.Inspect(outerBody, func(n ast.Node) bool {
			call, ok := n.(*ast.CallExpr)
			if !ok || inner != nil {
				return true
			}
			fn, _ := typeutil.Callee(info, call).(*types.Func)
			if fn == nil || fn.Pkg() != p.Types {
				return true
			}
			hd := findDecl(p, fn.Name())
			if hd == nil || hd.Body == nil || hd.Recv != nil {
				return true
			}
			find(hd.Body, nil)
			if inner != nil {
				helperCall, innerBody = call, hd.Body
				r.analysed("mash." + fn.Name())
				// parameters of the helper stand for the arguments of the call
				var params []types.Object
				for _, fld := range hd.Type.Params.List {
					for _, nm := range fld.Names {
						params = append(params, info.Defs[nm])
					}
				}
				for i, a := range call.Args {
					if i >= len(params) {
						break
					}
					switch identObj(info, a) {
					case mh:
						mh = params[i]
					case kParam:
						kParam = params[i]
					}
				}
			}
			return true
		})
	}
	if outerBody == nil || inner == nil {
		// not two nested range statements: the same rules on the SSA form (mash_ssa.go)
		r.rollback(mark)
		rulesMashAddSSA(c, r)
		return
	}
	seqVar := outerSeq
	if helperCall != nil {
		// which parameter receives the sequence
		hdFn, _ := typeutil.Callee(info, helperCall).(*types.Func)
		hd := findDecl(p, hdFn.Name())
		var params []types.Object
		for _, fld := range hd.Type.Params.List {
			for _, nm := range fld.Names {
				params = append(params, info.Defs[nm])
			}
		}
		var seqParam types.Object
		for i, a := range helperCall.Args {
			if i < len(params) && identObj(info, a) == seqVar && seqVar != nil {
				seqParam = params[i]
			}
		}
		seqVar = seqParam
	}
	cs := isCallTo(info, resolve(innerBody, inner.X), modPath+"/sequtil.CanonicalSubsequences")
	up := isCallTo(info, resolve(innerBody, cs.Args[0]), "bytes.ToUpper")
	okUp := up != nil && identObj(info, up.Args[0]) == seqVar && seqVar != nil
	okK := identObj(info, cs.Args[1]) == kParam
	r.check(okUp && okK, "CANON", where, "k-mer source", c.pos(cs.Pos()), "the k-mers are CanonicalSubsequences(bytes.ToUpper(seq), k) of the sequence itself", fmt.Sprintf("the iterator is not CanonicalSubsequences(bytes.ToUpper(seq), k) applied directly to each sequence (upper-cased unconditionally: %v, k passed through: %v): case or strand variants give different sketches", okUp, okK))
	// every sequence reaches the inner loop
	og := cfg.New(outerBody, mayReturn(info))
	var innerBlocks []*cfg.Block
	for _, b := range og.Blocks {
		for _, nd := range b.Nodes {
			if nd == ast.Node(inner.X) {
				innerBlocks = append(innerBlocks, b)
			}
			if helperCall != nil {
				ast.Inspect(nd, func(m ast.Node) bool {
					if m == ast.Node(helperCall) {
						innerBlocks = append(innerBlocks, b)
					}
					return true
				})
			}
		}
	}
	if helperCall != nil {
		// and inside the helper every path reaches the k-mer loop
		hg := cfg.New(innerBody, mayReturn(info))
		var hb []*cfg.Block
		for _, b := range hg.Blocks {
			for _, nd := range b.Nodes {
				if nd == ast.Node(inner.X) {
					hb = append(hb, b)
				}
			}
		}
		if len(hg.Blocks) == 0 || cfgReachExitAvoiding(hg.Blocks[0], hb) {
			innerBlocks = nil
		}
	}
	r.check(len(og.Blocks) > 0 && !cfgReachExitAvoiding(og.Blocks[0], innerBlocks), "CANON", where, "every sequence is hashed", c.pos(outerPos), "every iteration over seqs reaches the k-mer loop", "some sequences can skip the k-mer loop (a conditional around it): the sketch no longer depends on the k-mer content alone")
	// hasher protocol inside the inner body
	bVar := identObj(info, inner.Key)
	// the hasher variable: receiver of Sum64 inside the Push argument
	var hObj types.Object
	ast.Inspect(inner.Body, func(n ast.Node) bool {
		if call, ok := n.(*ast.CallExpr); ok {
			if sel, ok := ast.Unparen(call.Fun).(*ast.SelectorExpr); ok && sel.Sel.Name == "Sum64" {
				hObj = identObj(info, sel.X)
			}
		}
		return true
	})
	push := methodCallOn(info, inner.Body, mh, "Push")
	var protoBody ast.Node = inner.Body // where the Reset/Write/Sum64 protocol is carried out
	callerH := hObj                     // the hasher variable in Add
	if hObj == nil && push != nil && len(push.Args) == 1 {
		// a helper of the package that hashes one k-mer: Push(helper(h, b))
		if call, ok := ast.Unparen(push.Args[0]).(*ast.CallExpr); ok && len(call.Args) == 2 {
			if fn, _ := typeutil.Callee(info, call).(*types.Func); fn != nil && fn.Pkg() == p.Types {
				if hd := findDecl(p, fn.Name()); hd != nil && hd.Body != nil && hd.Recv == nil && len(hd.Type.Params.List) == 2 && len(hd.Type.Params.List[0].Names) == 1 && len(hd.Type.Params.List[1].Names) == 1 {
					hp := info.Defs[hd.Type.Params.List[0].Names[0]]
					kp := info.Defs[hd.Type.Params.List[1].Names[0]]
					okRet := false
					ast.Inspect(hd.Body, func(n ast.Node) bool {
						if rs, ok := n.(*ast.ReturnStmt); ok && len(rs.Results) == 1 {
							if rc, ok := ast.Unparen(rs.Results[0]).(*ast.CallExpr); ok {
								if sel, ok := ast.Unparen(rc.Fun).(*ast.SelectorExpr); ok && sel.Sel.Name == "Sum64" && identObj(info, sel.X) == hp {
									okRet = true
								}
							}
						}
						return true
					})
					if okRet && identObj(info, call.Args[1]) == bVar {
						callerH = identObj(info, call.Args[0])
						hObj, bVar, protoBody = hp, kp, hd.Body
						r.analysed("mash." + fn.Name())
					}
				}
			}
		}
	}
	if hObj == nil {
		// the hashing is not written out in the loop body: the same rules on the SSA form (mash_ssa.go)
		r.rollback(mark)
		rulesMashAddSSA(c, r)
		return
	}
	okPush := false
	if push != nil && len(push.Args) == 1 {
		if call, ok := ast.Unparen(push.Args[0]).(*ast.CallExpr); ok {
			if sel, ok := ast.Unparen(call.Fun).(*ast.SelectorExpr); ok && sel.Sel.Name == "Sum64" && identObj(info, sel.X) == hObj {
				okPush = true
			}
			if protoBody != ast.Node(inner.Body) {
				okPush = true // Push(helper(h, b)) with the helper returning h.Sum64(): established above
			}
		}
	}
	r.check(okPush, "TS-HASH", where, "pushed value", c.pos(inner.Pos()), "what is pushed into the sketch is h.Sum64()", "the value pushed is not h.Sum64() of the loop's hasher")
	var bg *cfg.CFG
	if blk, ok := protoBody.(*ast.BlockStmt); ok {
		bg = cfg.New(blk, mayReturn(info))
	}
	blocksWith := func(name string, argObj types.Object) []*cfg.Block {
		var out []*cfg.Block
		for _, b := range bg.Blocks {
			for _, nd := range b.Nodes {
				if call := methodCallOn(info, nd, hObj, name); call != nil {
					if argObj == nil || (len(call.Args) == 1 && identObj(info, call.Args[0]) == argObj) {
						out = append(out, b)
					}
				}
			}
		}
		return out
	}
	resetB, writeB, anyWriteB, sumB := blocksWith("Reset", nil), blocksWith("Write", bVar), blocksWith("Write", nil), blocksWith("Sum64", nil)
	// order inside one block
	orderOK := true
	for _, b := range bg.Blocks {
		iReset, iWrite, iSum := -1, -1, -1
		nWrites := 0
		for i, nd := range b.Nodes {
			if methodCallOn(info, nd, hObj, "Reset") != nil && iReset < 0 {
				iReset = i
			}
			if methodCallOn(info, nd, hObj, "Write") != nil {
				iWrite = i
				nWrites++
			}
			if methodCallOn(info, nd, hObj, "Sum64") != nil {
				iSum = i
			}
		}
		if iSum >= 0 && (iReset < 0 || iWrite < 0 || !(iReset < iWrite && iWrite <= iSum) || nWrites != 1) {
			// fall back to path reasoning below if they are in different blocks
			if iReset >= 0 || iWrite >= 0 {
				orderOK = false
			}
		}
	}
	entry := bg.Blocks[0]
	sameBlock := len(resetB) == 1 && len(writeB) == 1 && len(sumB) == 1 && resetB[0] == writeB[0] && writeB[0] == sumB[0]
	pathOK := sameBlock && orderOK
	if !sameBlock {
		// every path entry -> Sum64 passes Reset, and Reset -> Sum64 passes Write(b)
		reachAvoid := func(from *cfg.Block, avoid, targets []*cfg.Block) bool {
			av := map[*cfg.Block]bool{}
			for _, b := range avoid {
				av[b] = true
			}
			tg := map[*cfg.Block]bool{}
			for _, b := range targets {
				tg[b] = true
			}
			seen := map[*cfg.Block]bool{}
			var dfs func(b *cfg.Block) bool
			dfs = func(b *cfg.Block) bool {
				if av[b] || seen[b] {
					return false
				}
				seen[b] = true
				if tg[b] {
					return true
				}
				for _, s := range b.Succs {
					if dfs(s) {
						return true
					}
				}
				return false
			}
			return dfs(from)
		}
		pathOK = len(resetB) > 0 && len(writeB) > 0 && len(sumB) > 0 && !reachAvoid(entry, resetB, sumB) && !reachAvoid(entry, writeB, sumB)
	}
	r.check(pathOK && len(anyWriteB) == len(writeB), "TS-HASH", where, "Reset -> Write(k-mer) -> Sum64", c.pos(inner.Pos()),
		"for every k-mer the hasher is reset, written with exactly that k-mer, and then summed", "the hasher is not Reset and then written with exactly the current k-mer before Sum64 (reset present: "+fmt.Sprint(len(resetB) > 0)+", write of the loop variable: "+fmt.Sprint(len(writeB) > 0)+"): a k-mer's hash depends on what was hashed before, so the sketch depends on input order")
	// every k-mer is pushed
	var pushBlocks []*cfg.Block
	ig := cfg.New(inner.Body, mayReturn(info))
	for _, b := range ig.Blocks {
		for _, nd := range b.Nodes {
			if methodCallOn(info, nd, mh, "Push") != nil {
				pushBlocks = append(pushBlocks, b)
			}
		}
	}
	r.check(len(ig.Blocks) > 0 && !cfgReachExitAvoiding(ig.Blocks[0], pushBlocks) && len(pushBlocks) > 0, "TS-HASH", where, "every k-mer is pushed", c.pos(inner.Pos()), "every iteration of the k-mer loop reaches mh.Push", "some k-mers can skip mh.Push")
	// the hasher is murmur3.New64WithSeed(Seed)
	if helperCall != nil {
		// the hasher the helper uses is the one Add passes
		hdFn, _ := typeutil.Callee(info, helperCall).(*types.Func)
		if hd := findDecl(p, hdFn.Name()); hd != nil {
			i := 0
			for _, fld := range hd.Type.Params.List {
				for _, nm := range fld.Names {
					if info.Defs[nm] == callerH && i < len(helperCall.Args) {
						callerH = identObj(info, helperCall.Args[i])
					}
					i++
				}
			}
		}
	}
	okSeed := false
	ast.Inspect(fd.Body, func(n ast.Node) bool {
		as, ok := n.(*ast.AssignStmt)
		if !ok || len(as.Lhs) != 1 || len(as.Rhs) != 1 || identObj(info, as.Lhs[0]) != callerH {
			return true
		}
		if call := isCallTo(info, as.Rhs[0], "github.com/spaolacci/murmur3.New64WithSeed"); call != nil {
			if id, ok := ast.Unparen(call.Args[0]).(*ast.Ident); ok && info.Uses[id] != nil && info.Uses[id].Name() == "Seed" && info.Uses[id].Parent() == p.Types.Scope() {
				okSeed = true
			}
		}
		// the hasher made by a helper of the package without parameters whose one statement returns
		// murmur3.New64WithSeed(Seed)
		if call, ok := ast.Unparen(as.Rhs[0]).(*ast.CallExpr); ok && len(call.Args) == 0 {
			if fn, _ := typeutil.Callee(info, call).(*types.Func); fn != nil && fn.Pkg() == p.Types {
				if hd := findDecl(p, fn.Name()); hd != nil && hd.Body != nil && hd.Recv == nil && len(hd.Body.List) == 1 {
					if rs, ok := hd.Body.List[0].(*ast.ReturnStmt); ok && len(rs.Results) == 1 {
						if inner := isCallTo(info, rs.Results[0], "github.com/spaolacci/murmur3.New64WithSeed"); inner != nil {
							if id, ok := ast.Unparen(inner.Args[0]).(*ast.Ident); ok && info.Uses[id] != nil && info.Uses[id].Name() == "Seed" && info.Uses[id].Parent() == p.Types.Scope() {
								okSeed = true
								r.analysed("mash." + fn.Name())
							}
						}
					}
				}
			}
		}
		return true
	})
	r.check(okSeed, "TS-HASH", where, "hasher", c.pos(fd.Pos()), "the hasher is murmur3.New64WithSeed(Seed)", "the hasher is not created as murmur3.New64WithSeed(Seed)")
	// SORT-EXIT
	g := cfg.New(fd.Body, mayReturn(info))
	var sortBlocks, loopBlocks []*cfg.Block
	for _, b := range g.Blocks {
		for _, nd := range b.Nodes {
			if methodCallOn(info, nd, mhAdd, "Sort") != nil {
				sortBlocks = append(sortBlocks, b)
			}
			if nd == ast.Node(inner.X) || nd == outerMark {
				loopBlocks = append(loopBlocks, b)
			}
		}
	}
	okSort := len(sortBlocks) > 0
	for _, lb := range loopBlocks {
		if cfgReachExitAvoiding(lb, sortBlocks) {
			okSort = false
		}
	}
	r.check(okSort, "SORT-EXIT", where, "Sort on every exit", c.pos(fd.Pos()), "every path from the hashing loops to Add's exit passes mh.Sort()", "Add can return after pushing without mh.Sort(): the sketch is left unsorted")
}

func rulesMashDeleg(c *Ctx, r *Report) {
	sq := c.fn("mash", "Sequences")
	add := c.fn("mash", "Add")
	ds := c.fn("mash", "Distance")
	fj := c.fn("mash", "FromJaccard")
	if sq == nil || add == nil || ds == nil || fj == nil {
		r.undecided("DELEG", "mash", "anchor", "", "Sequences, Add, Distance or FromJaccard not found")
		return
	}
	r.analysed(fname(sq))
	r.analysed(fname(ds))
	s := newSymb(sq)
	calls := staticCallsTo(sq, add)
	ok := false
	if len(calls) == 1 {
		a := calls[0].Call.Args
		mh := s.expr(a[0])
		isNew := strings.HasPrefix(mh.String(), "call:gostuff/minhash.New") && strings.HasSuffix(mh.String(), "(P0)")
		okArgs := s.expr(a[1]).String() == "P1" && s.expr(a[2]).String() == "P2"
		okRet := false
		nRet, nGood := 0, 0
		otherUse := false
		instrs(sq, func(in ssa.Instruction) {
			if rt, isRt := in.(*ssa.Return); isRt {
				nRet++
				// every return hands back the sketch, after Add has run
				if len(rt.Results) == 1 && rt.Results[0] == a[0] && instrDominates(calls[0], rt) {
					nGood++
				}
			}
			// nothing else touches the sketch (a fast path that pushes on its own is another construction)
			if cl, isCall := in.(*ssa.Call); isCall && cl != calls[0] && cl != a[0] {
				for _, arg := range cl.Call.Args {
					if arg == a[0] {
						otherUse = true
					}
				}
			}
		})
		okRet = nRet > 0 && nRet == nGood && !otherUse
		ok = isNew && okArgs && okRet
	}
	r.check(ok, "DELEG", fname(sq), "Sequences = New(n) + Add", c.pos(sq.Pos()), "Sequences creates a sketch of size n, passes it with k and all sequences to Add, and returns that sketch", "Sequences is not `mh := New(n); Add(mh, k, seqs...); return mh`: building incrementally with Add differs from one call")
	sd := newSymb(ds)
	ok = true
	seen := ""
	nRet := 0
	for _, rc := range returnCases(sd, ds) {
		nRet++
		e := sd.expr(rc.vals[0]).String()
		if !(strings.HasPrefix(e, "call:mash.FromJaccard(call:gostuff/minhash.") && regexp.MustCompile(`\)\.Jaccard(\[[^\]]*\])?\(P0, P1\), P2\)$`).MatchString(e)) {
			ok = false
			seen = e + " under " + rc.guard
		}
	}
	if nRet == 0 {
		ok = false
	}
	// Distance only reads its sketches: the one call made on them is Jaccard (sorting them "to be safe" writes the
	// caller's sketches and panics on frozen ones)
	var otherCalls []string
	instrs(ds, func(in ssa.Instruction) {
		cl, isCall := in.(*ssa.Call)
		if !isCall {
			return
		}
		g := cl.Call.StaticCallee()
		if g != nil && (g == fj || baseName(g) == "Jaccard" && strings.Contains(funcPkgPath(g), "minhash")) {
			return
		}
		for _, a := range cl.Call.Args {
			if len(ds.Params) >= 2 && (a == ssa.Value(ds.Params[0]) || a == ssa.Value(ds.Params[1])) {
				otherCalls = append(otherCalls, callName(cl)+" at "+c.pos(cl.Pos()))
			}
		}
	})
	r.check(len(otherCalls) == 0, "DELEG", fname(ds), "Distance only reads its sketches", c.pos(ds.Pos()),
		"the only call Distance makes on its sketches is Jaccard", fmt.Sprintf("Distance hands its sketches to %v: they are modified (or the call panics on a frozen sketch) before the comparison", otherCalls))
	r.check(ok, "DELEG", fname(ds), "Distance = FromJaccard(Jaccard)", c.pos(ds.Pos()), "every return of Distance is FromJaccard(mh1.Jaccard(mh2), k)", "a return of Distance is not FromJaccard(mh1.Jaccard(mh2), k): "+seen)
}

func rulesFromJaccard(c *Ctx, r *Report) {
	f := c.fn("mash", "FromJaccard")
	if f == nil {
		return
	}
	r.analysed(fname(f))
	s := newSymb(f)
	okZero, okClamp := false, false
	formula := ""
	nRet := 0
	for _, rc := range returnCases(s, f) {
		if len(rc.vals) != 1 {
			continue
		}
		nRet++
		e := s.expr(rc.vals[0])
		if (rc.guard == "(0 == P0)" || rc.guard == "!(0 != P0)") && e.Op == "const" && e.Leaf == "1" {
			okZero = true
			continue
		}
		if e.Op == "builtin:min" && len(e.Args) == 2 {
			for i := 0; i < 2; i++ {
				if e.Args[i].Op == "const" && e.Args[i].Leaf == "1" {
					okClamp = true
					formula = e.Args[1-i].String()
				}
			}
		}
	}
	r.check(okZero, "FJ", fname(f), "j = 0 gives 1", c.pos(f.Pos()), "FromJaccard returns 1 when the Jaccard similarity is 0", "no `jac == 0 => return 1` case: ln(0) is -Inf")
	r.check(okClamp && nRet == 2, "FJ", fname(f), "clamped to 1", c.pos(f.Pos()), "every other result is min(·, 1): the distance lies in [0, 1] and is continuous with the j = 0 case", "the result is not clamped with min(·, 1): for small non-zero similarities the distance exceeds 1 (and is non-monotone against the j = 0 case)")
	want := "(un:-(call:math.Log(((2 * P0) / (1 + P0)))) / conv:float64(P1))"
	if okClamp {
		if formula == want {
			r.holds("FJ", fname(f), "formula", c.pos(f.Pos()), "the clamped quantity is -ln(2j/(1+j))/k")
		} else {
			r.undecided("FJ", fname(f), "formula", c.pos(f.Pos()), "the clamped quantity is "+formula+", which this rule cannot match against -ln(2j/(1+j))/k")
		}
	}
}
