package main

import (
	"fmt"
	"go/token"
	"go/types"
	"strings"

	"golang.org/x/tools/go/ssa"
)

func init() {
	register("C13", "one obligation per table clause (all 256 entries), per inverse law, per guard; non-trivial = needed table reconstruction from SSA or a finite-domain transfer-function computation", rulesC13, nil)
}

// comparisonDomain: if integer parameter p is used only in comparisons with constants, returns
// representatives of every region those constants cut the integers into.
func comparisonDomain(p *ssa.Parameter) ([]int64, string) {
	set := map[int64]bool{}
	for _, ref := range *p.Referrers() {
		b, ok := ref.(*ssa.BinOp)
		if !ok {
			if _, isDbg := ref.(*ssa.DebugRef); isDbg {
				continue
			}
			return nil, fmt.Sprintf("parameter is used by %T, not only by comparisons with constants", ref)
		}
		var k int64
		var okc bool
		if b.X == ssa.Value(p) {
			k, okc = cInt(constVal(b.Y))
		} else {
			k, okc = cInt(constVal(b.X))
		}
		switch b.Op {
		case token.EQL, token.NEQ, token.LSS, token.LEQ, token.GTR, token.GEQ:
		default:
			okc = false
		}
		if !okc {
			return nil, "parameter takes part in arithmetic or a comparison with a non-constant"
		}
		set[k-1], set[k], set[k+1] = true, true, true
	}
	var out []int64
	for k := range set {
		out = append(out, k)
	}
	return out, ""
}

func rulesC13(c *Ctx, r *Report) {
	r.explain("Decides: (T-NTOI) the ntoi table after init is -1 everywhere except A/a=0, C/c=1, G/g=2, T/t=3, for all 256 entries, and nothing else writes it; Ntoi returns the table entry for every byte (256-point transfer function); Iton maps 0,1,2,3 to A,C,G,T and every other integer to N (all regions its comparisons cut the integers into); hence Ntoi(Iton(k)) = k on 0..3 and Iton(Ntoi(x)) = upper(x) on the eight letters; (N-PANIC) in DNATo2Bit the Ntoi result reaches the packing only on the `!= -1` edge and the other edge panics; (MOD4) the shift is 6,4,2,0 for i mod 4 = 0,1,2,3 and a new byte is appended exactly when i mod 4 = 0 — 'first base in the most significant bits, four bases per byte' as a finite case split; (T-2BIT) the initialiser of the expansion table covers all 256 packed values and stores, for position p of value v, Iton((v >> 2(3-p)) & 3) — decided over all 1024 (v,p) pairs by a two-input transfer function; DNAFrom2Bit appends exactly that table row per source byte; (APPEND-ONLY) DNAFrom2Bit only appends to dst, neither function writes src. Not decided: the byte offset dn + i/4 and `dst[di] |=` read-modify-write as arithmetic on lengths (so 'leaving dst's existing content untouched' for DNATo2Bit is not decided), the two inverse laws as equalities over strings. N-PANIC follows a per-base helper whose body is the validation; T-2BIT accepts rows written by copy or in place. T-NTOI and T-2BIT fall back on constant folding of the package initialiser (E-FOLD) when the initialiser has another shape; APPEND-ONLY accepts a store into the last element of the grown slice when an element has been appended on every way to it.")
	r.assume("package initialisers run before any use")
	funcs := c.moduleFuncs()
	g := c.tableIn(c.fn("sequtil", "Ntoi"), 0)
	where := "sequtil.ntoi"
	if g == nil {
		r.undecided("T-NTOI", where, "anchor", "", "table variable not found")
		return
	}
	t := c.evalSliceInit("sequtil", g)
	if t.err != "" {
		r.undecided("T-NTOI", where, "init-shape", c.pos(g.Pos()), "cannot reconstruct the table from its initialiser: "+t.err)
		return
	}
	tab := intTable(t)
	pos := c.pos(g.Pos())
	r.check(t.size >= 256, "T-NTOI", where, "size", pos, fmt.Sprintf("table has %d entries", t.size), fmt.Sprintf("table has %d entries but is indexed by a byte", t.size))
	want := map[byte]int64{'a': 0, 'A': 0, 'c': 1, 'C': 1, 'g': 2, 'G': 2, 't': 3, 'T': 3}
	var bad []string
	for i, v := range tab {
		w, ok := want[byte(i)]
		if !ok {
			w = -1
		}
		if !t.set[i] {
			v = 0
		}
		if v != w {
			bad = append(bad, fmt.Sprintf("ntoi[%s]=%d want %d", byteStr(i), v, w))
		}
	}
	r.check(len(bad) == 0, "T-NTOI", where, "entries", pos, "A/a=0 C/c=1 G/g=2 T/t=3, -1 for the other 248 bytes", strings.Join(bad[:min(6, len(bad))], "; ")+fmt.Sprintf(" (%d wrong entries)", len(bad)))
	c.ruleWhoMayWrite(r, "T-WMW", g, "sequtil", c.initFuncsOf("sequtil"), funcs)

	// Ntoi over all bytes
	ntoiFn := c.fn("sequtil", "Ntoi")
	var ntoiTab []aval
	if ntoiFn == nil || len(ntoiFn.Params) != 1 {
		r.undecided("VSA-NTOI", "sequtil.Ntoi", "anchor", "", "function not found")
	} else {
		r.analysed(fname(ntoiFn))
		a := newFuncVSA(c, ntoiFn, byteDomain())
		a.sliceTab[g] = tab
		a.run()
		if a.err != "" {
			r.undecided("VSA-NTOI", fname(ntoiFn), "transfer function", c.pos(ntoiFn.Pos()), a.err)
		} else {
			var bad []string
			ntoiTab = make([]aval, 256)
			for k, e := range a.exits {
				w, ok := want[byte(k)]
				if !ok {
					w = -1
				}
				if e.kind != "return" || len(e.result) != 1 || !e.result[0].ok || e.result[0].v != w {
					bad = append(bad, byteStr(k))
				} else {
					ntoiTab[k] = e.result[0]
				}
			}
			r.check(len(bad) == 0, "VSA-NTOI", fname(ntoiFn), "all bytes", c.pos(ntoiFn.Pos()), "Ntoi returns 0..3 for the eight letters and -1 for the other 248 bytes", fmt.Sprintf("Ntoi is wrong for %d bytes: %s", len(bad), strings.Join(bad[:min(8, len(bad))], " ")))
		}
	}
	// Iton over the regions of its comparisons
	itonFn := c.fn("sequtil", "Iton")
	itonOf := map[int64]int64{}
	if itonFn == nil || len(itonFn.Params) != 1 {
		r.undecided("VSA-ITON", "sequtil.Iton", "anchor", "", "function not found")
	} else {
		r.analysed(fname(itonFn))
		dom, why := comparisonDomain(itonFn.Params[0])
		for _, k := range []int64{-1, 0, 1, 2, 3, 4} {
			dom = append(dom, k)
		}
		if why != "" {
			r.undecided("VSA-ITON", fname(itonFn), "domain", c.pos(itonFn.Pos()), why)
		} else {
			a := newFuncVSA(c, itonFn, dom)
			a.run()
			if a.err != "" {
				r.undecided("VSA-ITON", fname(itonFn), "transfer function", c.pos(itonFn.Pos()), a.err)
			} else {
				var bad []string
				wantI := map[int64]int64{0: 'A', 1: 'C', 2: 'G', 3: 'T'}
				for k, e := range a.exits {
					w, ok := wantI[dom[k]]
					if !ok {
						w = 'N'
					}
					if e.kind != "return" || len(e.result) != 1 || !e.result[0].ok || e.result[0].v != w {
						bad = append(bad, fmt.Sprint(dom[k]))
					} else {
						itonOf[dom[k]] = e.result[0].v
					}
				}
				r.check(len(bad) == 0, "VSA-ITON", fname(itonFn), "all integers", c.pos(itonFn.Pos()), fmt.Sprintf("Iton maps 0,1,2,3 to A,C,G,T and every other region of the integers (%d representatives) to N", len(dom)), "Iton is wrong for "+strings.Join(bad, " "))
				// inverse laws
				if ntoiTab != nil && len(bad) == 0 {
					ok1 := true
					for k := int64(0); k < 4; k++ {
						if !ntoiTab[itonOf[k]].ok || ntoiTab[itonOf[k]].v != k {
							ok1 = false
						}
					}
					ok2 := true
					for x := range want {
						up := int64(x)
						if up >= 'a' {
							up -= 32
						}
						if !ntoiTab[x].ok || itonOf[ntoiTab[x].v] != up {
							ok2 = false
						}
					}
					r.check(ok1 && ok2, "INV-NTOI", "sequtil.Ntoi~Iton", "mutually inverse", "", "Ntoi(Iton(k)) = k for k in 0..3 and Iton(Ntoi(x)) = upper(x) on aAcCgGtT", "Ntoi and Iton are not mutually inverse on the four bases")
				}
			}
		}
	}
	rulesDNATo2Bit(c, r, ntoiFn)
	rules2BitTable(c, r, itonFn, itonOf)
	rulesEffC13(c, r)
}

// rulesDNATo2Bit: N-PANIC and MOD4.
func rulesDNATo2Bit(c *Ctx, r *Report, ntoiFn *ssa.Function) {
	f := c.fn("sequtil", "DNATo2Bit")
	where := "sequtil.DNATo2Bit"
	if f == nil || ntoiFn == nil {
		r.undecided("N-PANIC", where, "anchor", "", "function not found")
		return
	}
	r.analysed(where)
	calls := staticCallsTo(f, ntoiFn)
	guardFn := f // the function in which the Ntoi result is tested: DNATo2Bit itself or a helper it calls per base
	var helperCall *ssa.Call
	if len(calls) == 0 {
		instrs(f, func(in ssa.Instruction) {
			if cl, ok := in.(*ssa.Call); ok {
				if g := cl.Call.StaticCallee(); g != nil && g.Blocks != nil && c.inModule(g) && g != ntoiFn && len(g.Params) == 1 && len(staticCallsTo(g, ntoiFn)) > 0 {
					helperCall = cl
				}
			}
		})
		if helperCall != nil {
			guardFn = helperCall.Call.StaticCallee()
			calls = staticCallsTo(guardFn, ntoiFn)
			r.analysed(fname(guardFn))
		}
	}
	if len(calls) == 0 {
		r.violated("N-PANIC", where, "Ntoi call", c.pos(f.Pos()), "no Ntoi call: bases are not validated")
		return
	}
	s := newSymb(f)
	gsy := newSymb(guardFn)
	var call *ssa.Call
	for _, call = range calls {
		// the comparison with -1
		var okBlk *ssa.BasicBlock
		panicsOnEq := false
		for _, ref := range *call.Referrers() {
			b, ok := ref.(*ssa.BinOp)
			if !ok || (b.Op != token.EQL && b.Op != token.NEQ) {
				continue
			}
			k, okc := cInt(constVal(b.Y))
			if b.X != ssa.Value(call) {
				k, okc = cInt(constVal(b.X))
			}
			if !okc || k != -1 {
				continue
			}
			iff, ok := b.Block().Instrs[len(b.Block().Instrs)-1].(*ssa.If)
			if !ok || iff.Cond != ssa.Value(b) {
				continue
			}
			eqSucc, neSucc := b.Block().Succs[0], b.Block().Succs[1]
			if b.Op == token.NEQ {
				eqSucc, neSucc = neSucc, eqSucc
			}
			okBlk = neSucc
			panicsOnEq = blockAlwaysPanics(eqSucc)
		}
		if okBlk == nil {
			r.violated("N-PANIC", where, "guard", c.pos(call.Pos()), "this Ntoi result is not itself tested against -1 before use: a byte outside aAcCgGtT can be packed instead of panicking")
			continue
		}
		r.check(panicsOnEq, "N-PANIC", where, "panic edge", c.pos(call.Pos()), "the `== -1` edge always panics", "the `== -1` edge does not always reach a panic")
		var bad []string
		for _, ref := range *call.Referrers() {
			if b, ok := ref.(*ssa.BinOp); ok && (b.Op == token.EQL || b.Op == token.NEQ) {
				continue
			}
			if _, ok := ref.(*ssa.DebugRef); ok {
				continue
			}
			if !(okBlk.Dominates(ref.Block()) && len(okBlk.Preds) == 1) {
				bad = append(bad, c.pos(ref.Pos()))
			}
		}
		r.check(len(bad) == 0, "N-PANIC", where, "use under guard", c.pos(call.Pos()), "every use of the Ntoi result for packing lies behind the `!= -1` edge", "the Ntoi result is used without the -1 test at "+strings.Join(bad, ", "))
		arg := gsy.expr(call.Call.Args[0])
		if helperCall != nil {
			// the helper validates its own parameter and returns the code only on the valid edge; DNATo2Bit hands it an element of src
			okParam := arg.String() == "P0"
			arg = s.expr(helperCall.Call.Args[0])
			okRet := true
			instrs(guardFn, func(in ssa.Instruction) {
				if rt, ok := in.(*ssa.Return); ok {
					if !(okBlk.Dominates(rt.Block()) && len(okBlk.Preds) == 1) {
						okRet = false
					}
				}
			})
			r.check(okParam && okRet, "N-PANIC", fname(guardFn), "helper validates its argument", c.pos(call.Pos()), "the helper applies Ntoi to its own parameter and returns only behind the `!= -1` edge", "the helper does not validate its own parameter, or can return without passing the `!= -1` edge")
		}
		r.check(arg.Op == "load" && arg.Args[0].Op == "index" && arg.Args[0].Args[0].String() == "P1", "N-PANIC", where, "validated byte", c.pos(call.Pos()), "Ntoi is applied to an element of src", "Ntoi is applied to "+arg.String()+", not to an element of src")
	}
	if len(calls) != 1 {
		r.undecided("MOD4", where, "shape", c.pos(f.Pos()), fmt.Sprintf("%d Ntoi call sites: the packing has a shape the residue analysis does not cover", len(calls)))
		return
	}

	// MOD4: shift as a function of i mod 4
	var shl *ssa.BinOp
	instrs(f, func(in ssa.Instruction) {
		if b, ok := in.(*ssa.BinOp); ok && b.Op == token.SHL {
			shl = b
		}
	})
	if shl == nil {
		r.undecided("MOD4", where, "shift", c.pos(f.Pos()), "no shift found")
		return
	}
	// the shift amount must be a function of (i % 4) only
	shiftSym := s.expr(shl.Y)
	rems := shiftSym.find(func(x *Sym) bool { return x.Op == "bin:%" })
	if conv := shiftSym; conv.Op != "" && len(rems) != 1 {
		r.undecided("MOD4", where, "shift", c.pos(shl.Pos()), "shift amount is not a function of one `i % const`: "+shiftSym.String())
		return
	}
	remV, _ := rems[0].Val.(*ssa.BinOp)
	m, okm := cInt(constVal(remV.Y))
	if !okm || m != 4 {
		r.violated("MOD4", where, "modulus", c.pos(remV.Pos()), "bases are grouped by "+fmt.Sprint(m)+", want 4 per byte")
		return
	}
	// the shift amount and the append decision as functions of i % 4, evaluated for the four residues on their
	// symbolic expressions (so a position helper, a local or a reordered formula make no difference)
	remKey := rems[0].String()
	var shifts []string
	okShift := true
	for k := int64(0); k < 4; k++ {
		v, ok := evalSymInt(shiftSym, map[string]int64{remKey: k})
		if !ok {
			r.undecided("MOD4", where, "residues", c.pos(shl.Pos()), "shift amount is not computed from i%4 by constants: "+shiftSym.String())
			return
		}
		shifts = append(shifts, fmt.Sprint(v))
		if v != 6-2*k {
			okShift = false
		}
	}
	r.check(okShift, "MOD4", where, "shift table", c.pos(shl.Pos()), "shift is 6,4,2,0 for i mod 4 = 0,1,2,3: the first base of each group goes to the most significant bits", "shift for i mod 4 = 0,1,2,3 is "+strings.Join(shifts, ",")+", want 6,4,2,0")
	// append edge: the block that appends a zero byte, and the condition that controls it
	var appendBlk *ssa.BasicBlock
	for _, b := range f.Blocks {
		for _, in := range b.Instrs {
			if cl, ok := in.(*ssa.Call); ok {
				if bi, ok := cl.Call.Value.(*ssa.Builtin); ok && bi.Name() == "append" {
					appendBlk = b
				}
			}
		}
	}
	cs := s // the symb the append's condition is rendered with
	if appendBlk == nil {
		// the new byte opened by a helper of the package that is handed what decides it:
		// dst = openByte(dst, shift) with `if shift == 6 { dst = append(dst, 0) }` inside
		instrs(f, func(in ssa.Instruction) {
			cl, ok := in.(*ssa.Call)
			if !ok || appendBlk != nil {
				return
			}
			h := cl.Call.StaticCallee()
			if h == nil || h.Blocks == nil || h.Pkg != f.Pkg || len(h.Params) != len(cl.Call.Args) {
				return
			}
			var hb *ssa.BasicBlock
			nApp := 0
			instrs(h, func(in2 ssa.Instruction) {
				if c2, ok := in2.(*ssa.Call); ok {
					if bi, ok := c2.Call.Value.(*ssa.Builtin); ok && bi.Name() == "append" {
						hb = c2.Block()
						nApp++
					}
				}
			})
			if nApp != 1 {
				return
			}
			sub := newSymb(h)
			for i, p := range h.Params {
				sub.subst[p] = s.expr(cl.Call.Args[i])
			}
			appendBlk, cs = hb, sub
			r.analysed(fname(h))
		})
	}
	if appendBlk == nil {
		r.undecided("MOD4", where, "append", c.pos(f.Pos()), "no append found")
		return
	}
	var ctl *ssa.BasicBlock
	if len(appendBlk.Preds) == 1 {
		ctl = appendBlk.Preds[0]
	}
	var ctlIf *ssa.If
	if ctl != nil {
		ctlIf, _ = lastInstr(ctl).(*ssa.If)
	}
	if ctlIf == nil {
		r.undecided("MOD4", where, "append", c.pos(appendBlk.Instrs[0].Pos()), "the append of a new byte is not controlled by a single condition")
		return
	}
	condSym := cs.expr(ctlIf.Cond)
	var takes []string
	okApp := true
	for k := int64(0); k < 4; k++ {
		v, ok := evalSymInt(condSym, map[string]int64{remKey: k})
		if !ok {
			r.undecided("MOD4", where, "append", c.pos(appendBlk.Instrs[0].Pos()), "the condition of the append is not a function of i%4: "+condSym.String())
			return
		}
		took := (v != 0) == (ctl.Succs[0] == appendBlk)
		takes = append(takes, fmt.Sprint(took))
		if took != (k == 0) {
			okApp = false
		}
	}
	r.check(okApp, "MOD4", where, "new byte", c.pos(appendBlk.Instrs[0].Pos()), "a new byte is appended exactly when i mod 4 = 0", "the append branch is taken for residues 0..3 = "+strings.Join(takes, ",")+", want true,false,false,false")
	// the packed value is byte(Ntoi result) << shift, OR-ed into the byte
	val := s.expr(shl.X)
	packedOK := strings.Contains(val.String(), "call:sequtil.Ntoi")
	if helperCall != nil && !packedOK {
		// a code helper that is not rendered through its body
		packedOK = strings.Contains(val.String(), "call:"+fname(guardFn)+"(")
	}
	r.check(packedOK, "MOD4", where, "packed value", c.pos(shl.Pos()), "the shifted value is the Ntoi result", "the shifted value is "+val.String())
}

func blockAlwaysPanics(b *ssa.BasicBlock) bool {
	seen := map[*ssa.BasicBlock]bool{}
	var all func(x *ssa.BasicBlock) bool
	all = func(x *ssa.BasicBlock) bool {
		if seen[x] {
			return true
		}
		seen[x] = true
		switch x.Instrs[len(x.Instrs)-1].(type) {
		case *ssa.Panic:
			return true
		case *ssa.Return:
			return false
		}
		for _, s := range x.Succs {
			if !all(s) {
				return false
			}
		}
		return len(x.Succs) > 0
	}
	return all(b)
}

// rules2BitTable (T-2BIT): the initialiser of dnaFrom2bit, over all 256 x 4 (value, iteration) points,
// and DNAFrom2Bit's use of the table.
func rules2BitTable(c *Ctx, r *Report, itonFn *ssa.Function, itonOf map[int64]int64) {
	where := "sequtil.dnaFrom2bit"
	g := c.tableIn(c.fn("sequtil", "DNAFrom2Bit"), 0)
	if g == nil {
		g = c.tableIn(c.fn("sequtil", "DNAFrom2Bit"), 1) // the lookup in a helper that returns the row
	}
	if g == nil {
		r.undecided("T-2BIT", where, "anchor", "", "table variable not found")
		return
	}
	funcs := c.moduleFuncs()
	inits := c.initFuncsOf("sequtil")
	c.ruleWhoMayWrite(r, "T-WMW", g, "sequtil", inits, funcs)
	mark := len(r.Obs)
	tableByShape := func() {
		// find the copy into dnaFrom2bit[i][:]
		var cp *ssa.Call
		var initFn *ssa.Function
		for f := range inits {
			instrs(f, func(in ssa.Instruction) {
				cl, ok := in.(*ssa.Call)
				if !ok {
					return
				}
				if b, ok := cl.Call.Value.(*ssa.Builtin); ok && b.Name() == "copy" {
					if sl, ok := cl.Call.Args[0].(*ssa.Slice); ok {
						if ia, ok := sl.X.(*ssa.IndexAddr); ok && isLoadOf(ia.X, g) {
							cp, initFn = cl, f
						}
					}
				}
			})
		}
		// or the rows are written in place: dnaFrom2bit[i][p] = v
		var direct *ssa.Store
		if cp == nil {
			for f := range inits {
				instrs(f, func(in ssa.Instruction) {
					if st, ok := in.(*ssa.Store); ok {
						if ia, ok := st.Addr.(*ssa.IndexAddr); ok {
							if row, ok := ia.X.(*ssa.IndexAddr); ok && isLoadOf(row.X, g) {
								if direct != nil {
									direct = nil // more than one: not the shape handled here
									return
								}
								direct, initFn = st, f
							}
						}
					}
				})
			}
		}
		// or each row is the array a helper of the package returns for the row's index: table[i] = expand(i)
		var rowCall *ssa.Call
		var rowStore *ssa.Store
		if cp == nil && direct == nil {
			for f := range inits {
				instrs(f, func(in ssa.Instruction) {
					st, ok := in.(*ssa.Store)
					if !ok {
						return
					}
					ia, ok := st.Addr.(*ssa.IndexAddr)
					if !ok || !isLoadOf(ia.X, g) {
						return
					}
					cl, ok := st.Val.(*ssa.Call)
					if !ok || len(cl.Call.Args) != 1 || cl.Call.Args[0] != ia.Index {
						return
					}
					if h := cl.Call.StaticCallee(); h != nil && h.Blocks != nil && h.Pkg == f.Pkg && len(h.Params) == 1 {
						rowCall, rowStore, initFn = cl, st, f
					}
				})
			}
		}
		if cp == nil && direct == nil && rowCall == nil {
			r.undecided("T-2BIT", where, "init-shape", c.pos(g.Pos()), "neither `copy(table[i][:], row)` nor a single in-place store `table[i][p] = v` found in an initialiser")
			return
		}
		r.analysed(fname(initFn))
		var pos string
		var dstIdx ssa.Value
		if cp != nil {
			pos = c.pos(cp.Pos())
			dstIdx = cp.Call.Args[0].(*ssa.Slice).X.(*ssa.IndexAddr).Index
		} else if rowCall != nil {
			pos = c.pos(rowStore.Pos())
			dstIdx = rowStore.Addr.(*ssa.IndexAddr).Index
		} else {
			pos = c.pos(direct.Pos())
			dstIdx = direct.Addr.(*ssa.IndexAddr).X.(*ssa.IndexAddr).Index
		}
		iphi, _ := dstIdx.(*ssa.Phi)
		if iphi == nil {
			r.undecided("T-2BIT", where, "outer loop", pos, "table row index is not a loop variable")
			return
		}
		if why := fullByteLoop(iphi); why != "" {
			r.violated("T-2BIT", where, "outer loop", c.pos(iphi.Pos()), "the initialiser does not visit every packed value 0..255: "+why)
			return
		}
		// table size: the global is initialised with make(..., 256)
		size := int64(0)
		for f := range inits {
			instrs(f, func(in ssa.Instruction) {
				if st, ok := in.(*ssa.Store); ok && st.Addr == ssa.Value(g) {
					if sl, ok := st.Val.(*ssa.Slice); ok {
						size = isConstMake(sl)
					} else if mk, ok := st.Val.(*ssa.MakeSlice); ok {
						size, _ = cInt(constVal(mk.Len))
					}
				}
			})
		}
		if pt, ok := g.Type().Underlying().(*types.Pointer); ok {
			if arr, isArr := pt.Elem().Underlying().(*types.Array); isArr {
				size = arr.Len()
			}
		}
		r.check(size >= 256, "T-2BIT", where, "size", c.pos(g.Pos()), fmt.Sprintf("table has %d rows", size), fmt.Sprintf("table has %d rows but is indexed by a byte", size))
		// the source of the copy: a local 4-byte slice filled by the inner loop
		var stores []*ssa.Store
		evalFn := initFn          // where the row is computed
		var iVal ssa.Value = iphi // what stands for the row index there
		if rowCall != nil {
			// in the helper: a local array filled by the inner loop and returned whole
			h := rowCall.Call.StaticCallee()
			evalFn, iVal = h, h.Params[0]
			r.analysed(fname(h))
			var arr *ssa.Alloc
			okRet := true
			instrs(h, func(in ssa.Instruction) {
				if rt, ok := in.(*ssa.Return); ok {
					ops := retOperands(rt)
					ld, isLd := ops[0].(*ssa.UnOp)
					if len(ops) != 1 || !isLd {
						okRet = false
						return
					}
					al, isAl := ld.X.(*ssa.Alloc)
					if !isAl || (arr != nil && arr != al) {
						okRet = false
						return
					}
					arr = al
				}
			})
			if !okRet || arr == nil {
				r.undecided("T-2BIT", where, "init-shape", pos, "the row helper does not return a local array it filled")
				return
			}
			instrs(h, func(in ssa.Instruction) {
				if st, ok := in.(*ssa.Store); ok {
					if ia, ok := st.Addr.(*ssa.IndexAddr); ok && ia.X == ssa.Value(arr) {
						stores = append(stores, st)
					}
				}
			})
		} else if cp != nil {
			val := cp.Call.Args[1]
			instrs(initFn, func(in ssa.Instruction) {
				if st, ok := in.(*ssa.Store); ok {
					if ia, ok := st.Addr.(*ssa.IndexAddr); ok && ia.X == val {
						stores = append(stores, st)
					}
				}
			})
		} else {
			stores = []*ssa.Store{direct}
		}
		if len(stores) != 1 {
			r.undecided("T-2BIT", where, "inner loop", pos, fmt.Sprintf("expected one store into the row buffer, found %d", len(stores)))
			return
		}
		st := stores[0]
		// inner loop variable: a phi in a loop that contains the store, other than iphi
		var jphi *ssa.Phi
		for _, b := range evalFn.Blocks {
			for _, in := range b.Instrs {
				if ph, ok := in.(*ssa.Phi); ok && ph != iphi && dependsOn(st.Addr.(*ssa.IndexAddr).Index, ph, map[ssa.Value]bool{}) {
					jphi = ph
				}
			}
		}
		if jphi == nil {
			r.undecided("T-2BIT", where, "inner loop", c.pos(st.Pos()), "row position does not depend on an inner loop variable")
			return
		}
		// the values the inner loop variable takes: 0..3 upwards, 3..0 downwards, …
		jvals, why := enumLoopVar(jphi)
		if why != "" {
			jl, why2 := findCountedLoop(jphi)
			if why2 != "" {
				r.undecided("T-2BIT", where, "inner loop", c.pos(jphi.Pos()), why2+" / "+why)
				return
			}
			jn, ok := cInt(constVal(jl.bound))
			if !ok || jn < 0 || jn > 64 {
				r.undecided("T-2BIT", where, "inner loop", c.pos(jphi.Pos()), "inner loop bound is not a small constant")
				return
			}
			jvals = nil
			for v := int64(0); v < jn; v++ {
				jvals = append(jvals, v)
			}
		}
		if len(jvals) != 4 {
			r.violated("T-2BIT", where, "inner loop", c.pos(jphi.Pos()), "the inner loop does not run over the 4 positions of a row")
			return
		}
		// two-input transfer function over (i, j)
		n := 256 * 4
		dom := make([]int64, n)
		it, jt := make([]aval, n), make([]aval, n)
		for k := 0; k < n; k++ {
			dom[k] = int64(k)
			it[k], jt[k] = aval{true, int64(k / 4)}, aval{true, jvals[k%4]}
		}
		a := &vsa{c: c, f: evalFn, dom: dom, entry: st.Block(), region: map[*ssa.BasicBlock]bool{st.Block(): true},
			preset:   map[ssa.Value][]aval{iVal: it, jphi: jt},
			sliceTab: map[*ssa.Global][]int64{}, mapKeys: map[*ssa.Global]map[int64]bool{}, mapVals: map[*ssa.Global]map[int64]int64{}}
		a.run()
		if a.err != "" {
			r.undecided("T-2BIT", where, "transfer function", c.pos(st.Pos()), a.err)
			return
		}
		var rec *vsaStore
		for i := range a.stores {
			if a.stores[i].in == st {
				rec = &a.stores[i]
			}
		}
		if rec == nil {
			r.undecided("T-2BIT", where, "transfer function", c.pos(st.Pos()), "store not evaluated")
			return
		}
		bad := 0
		example := ""
		rows := map[int64]map[int64]int64{}
		for k := 0; k < n; k++ {
			i := int64(k / 4)
			if !rec.idx[k].ok || !rec.val[k].ok {
				r.undecided("T-2BIT", where, "transfer function", c.pos(st.Pos()), fmt.Sprintf("row position or value is not a function of (i, j) for i=%d j=%d", i, k%4))
				return
			}
			if rows[i] == nil {
				rows[i] = map[int64]int64{}
			}
			rows[i][rec.idx[k].v] = rec.val[k].v
		}
		for i := int64(0); i < 256; i++ {
			for p := int64(0); p < 4; p++ {
				want := int64("ACGT"[(i>>uint(6-2*p))&3])
				got, ok := rows[i][p]
				if !ok || got != want {
					bad++
					if example == "" {
						example = fmt.Sprintf("row %d position %d is %s (set: %v), want %s", i, p, byteStr(int(got)), ok, byteStr(int(want)))
					}
				}
			}
		}
		r.check(bad == 0, "T-2BIT", where, "entries", c.pos(st.Pos()), "for all 256 packed values, position p of the row is ACGT[(v >> (6-2p)) & 3]: first base in the most significant bits (1024 (value, position) points)", fmt.Sprintf("%d of 1024 row entries are wrong, e.g. %s", bad, example))
		r.Extra["twobit_points_evaluated"] = n

	}
	tableByShape()
	{
		undecided, violated := 0, 0
		for _, o := range r.Obs[mark:] {
			switch o.Verdict {
			case Undecided:
				undecided++
			case Violated:
				violated++
			}
		}
		if undecided > 0 && violated == 0 {
			// an initialiser of another shape (rows that are slices made in the loop, a helper stage, …): the table's
			// content by constant folding of the package initialiser (E-FOLD), all 256 rows x 4 positions
			if rows, why := c.foldedRows("sequtil", g); why != "" {
				r.Obs[len(r.Obs)-1].Reason += "; constant folding of the initialiser: " + why
			} else {
				r.rollback(mark)
				bad, example := 0, ""
				for i := 0; i < 256 && i < len(rows); i++ {
					for p := 0; p < 4; p++ {
						want := int64("ACGT"[(i>>uint(6-2*p))&3])
						if len(rows[i]) != 4 || rows[i][p] != want {
							bad++
							if example == "" {
								example = fmt.Sprintf("row %d is %v, want position %d to be %s", i, rows[i], p, byteStr(int(want)))
							}
						}
					}
				}
				pos := c.pos(g.Pos())
				r.check(len(rows) >= 256, "T-2BIT", where, "size", pos, fmt.Sprintf("the folded table has %d rows", len(rows)), fmt.Sprintf("the folded table has %d rows but is indexed by a byte", len(rows)))
				r.check(bad == 0, "T-2BIT", where, "entries", pos, "for all 256 packed values, the folded row is the four letters ACGT[(v >> (6-2p)) & 3], p = 0..3: first base in the most significant bits", fmt.Sprintf("%d of 1024 row entries of the folded table are wrong, e.g. %s", bad, example))
			}
		}
	}
	// DNAFrom2Bit appends the row of each source byte
	f := c.fn("sequtil", "DNAFrom2Bit")
	if f == nil {
		r.undecided("T-2BIT", "sequtil.DNAFrom2Bit", "anchor", "", "function not found")
		return
	}
	r.analysed(fname(f))
	s := newSymb(f)
	nApp := 0
	instrs(f, func(in ssa.Instruction) {
		cl, ok := in.(*ssa.Call)
		if !ok {
			return
		}
		if b, ok := cl.Call.Value.(*ssa.Builtin); !ok || b.Name() != "append" {
			return
		}
		nApp++
		arg := s.expr(cl.Call.Args[1])
		okArg := false
		var idxSym *Sym
		if arg.Op == "slice" && arg.Args[1].String() == "_" && arg.Args[2].String() == "_" && arg.Args[0].Op == "index" && (arg.Args[0].Args[0].String() == "load(G:"+g.Name()+")" || arg.Args[0].Args[0].String() == "G:"+g.Name()) {
			el := arg.Args[0].Args[1]
			if el.Op == "load" && el.Args[0].Op == "index" && el.Args[0].Args[0].String() == "P1" {
				okArg, idxSym = true, el.Args[0].Args[1]
			}
		}
		// the row fetched by a helper of the package into a local: quad := row(src[i]); append(dst, quad[:]...)
		if sl, ok := cl.Call.Args[1].(*ssa.Slice); ok && !okArg && sl.Low == nil && sl.High == nil {
			if al, ok := sl.X.(*ssa.Alloc); ok {
				if hc, ok := cellValue(al).(*ssa.Call); ok && len(hc.Call.Args) == 1 {
					if h := hc.Call.StaticCallee(); h != nil && h.Blocks != nil && h.Pkg == f.Pkg && len(h.Blocks) == 1 && len(h.Params) == 1 {
						if rt, ok := lastInstr(h.Blocks[0]).(*ssa.Return); ok && len(rt.Results) == 1 {
							he := newSymb(h).expr(rt.Results[0]).String()
							if he == "load(load(G:"+g.Name()+")[P0])" || he == "load(G:"+g.Name()+"[P0])" {
								el := s.expr(hc.Call.Args[0])
								if el.Op == "load" && el.Args[0].Op == "index" && el.Args[0].Args[0].String() == "P1" {
									okArg, idxSym = true, el.Args[0].Args[1]
									arg = el
									r.analysed(fname(h))
								}
							}
						}
					}
				}
			}
		}
		// rows that are slices: the row itself
		if arg.Op == "load" && len(arg.Args) == 1 && arg.Args[0].Op == "index" && arg.Args[0].Args[0].String() == "load(G:"+g.Name()+")" {
			el := arg.Args[0].Args[1]
			if el.Op == "load" && el.Args[0].Op == "index" && el.Args[0].Args[0].String() == "P1" {
				okArg, idxSym = true, el.Args[0].Args[1]
			}
		}
		r.check(okArg, "T-2BIT", fname(f), "appended row", c.pos(cl.Pos()), "each step appends the whole table row of one source byte", "appended value is "+arg.String()+", want dnaFrom2bit[src[i]][:]")
		// loop over all of src
		for _, e := range arg.find(func(x *Sym) bool { return x.Op == "loop" }) {
			if ph, ok := e.Val.(*ssa.Phi); ok {
				var idxVal ssa.Value = ph
				if idxSym != nil && idxSym.Val != nil {
					idxVal = idxSym.Val
				}
				l, why := findCountedLoopAny(ph, idxVal)
				if why != "" {
					r.undecided("T-2BIT", fname(f), "loop", c.pos(ph.Pos()), why)
				} else {
					b := s.expr(l.bound).String()
					r.check(b == "builtin:len(P1)", "T-2BIT", fname(f), "loop", c.pos(ph.Pos()), "the loop visits every byte of src", "loop bound is "+b+", want len(src)")
				}
			}
		}
	})
	r.floor("T-2BIT-append", nApp, 1, "append sites in DNAFrom2Bit")
}

// evalSymInt evaluates an integer/boolean expression tree under an environment that fixes some subterms (by
// their rendering); booleans are 0/1. Fails on anything it cannot reduce to a number.
func evalSymInt(e *Sym, env map[string]int64) (int64, bool) {
	if v, ok := env[e.String()]; ok {
		return v, true
	}
	if e.Op == "const" {
		if k, ok := e.Val.(*ssa.Const); ok {
			if n, ok := cInt(constVal(k)); ok {
				return n, true
			}
		}
		var n int64
		if _, err := fmt.Sscanf(e.Leaf, "%d", &n); err == nil {
			return n, true
		}
		return 0, false
	}
	if strings.HasPrefix(e.Op, "conv:") && len(e.Args) == 1 {
		return evalSymInt(e.Args[0], env)
	}
	if e.Op == "un:!" && len(e.Args) == 1 {
		v, ok := evalSymInt(e.Args[0], env)
		if !ok {
			return 0, false
		}
		if v == 0 {
			return 1, true
		}
		return 0, true
	}
	if e.Op == "ite" && len(e.Args) == 3 {
		cnd, ok := evalSymInt(e.Args[0], env)
		if !ok {
			return 0, false
		}
		if cnd != 0 {
			return evalSymInt(e.Args[1], env)
		}
		return evalSymInt(e.Args[2], env)
	}
	if strings.HasPrefix(e.Op, "bin:") && len(e.Args) == 2 {
		x, ok1 := evalSymInt(e.Args[0], env)
		y, ok2 := evalSymInt(e.Args[1], env)
		if !ok1 || !ok2 {
			return 0, false
		}
		b2i := func(b bool) (int64, bool) {
			if b {
				return 1, true
			}
			return 0, true
		}
		switch strings.TrimPrefix(e.Op, "bin:") {
		case "+":
			return x + y, true
		case "-":
			return x - y, true
		case "*":
			return x * y, true
		case "/":
			if y == 0 {
				return 0, false
			}
			return x / y, true
		case "%":
			if y == 0 {
				return 0, false
			}
			return x % y, true
		case "<<":
			return x << uint(y), true
		case ">>":
			return x >> uint(y), true
		case "&":
			return x & y, true
		case "|":
			return x | y, true
		case "==":
			return b2i(x == y)
		case "!=":
			return b2i(x != y)
		case "<":
			return b2i(x < y)
		case "<=":
			return b2i(x <= y)
		case ">":
			return b2i(x > y)
		case ">=":
			return b2i(x >= y)
		}
	}
	return 0, false
}

// enumLoopVar lists the values a loop variable takes: a header phi with a constant start, a constant step and a
// header test against a constant (at most 64 iterations).
func enumLoopVar(phi *ssa.Phi) ([]int64, string) {
	if len(phi.Edges) != 2 {
		return nil, "loop variable has more than two definitions"
	}
	hdr := phi.Block()
	var init, step int64
	haveInit, haveStep := false, false
	for k, e := range phi.Edges {
		if hdr.Dominates(hdr.Preds[k]) {
			bo, ok := e.(*ssa.BinOp)
			if !ok || (bo.Op != token.ADD && bo.Op != token.SUB) || bo.X != ssa.Value(phi) {
				return nil, "loop variable is not advanced by a constant"
			}
			d, ok := cInt(constVal(bo.Y))
			if !ok || d == 0 {
				return nil, "loop variable is not advanced by a constant"
			}
			if bo.Op == token.SUB {
				d = -d
			}
			step, haveStep = d, true
		} else if v, ok := cInt(constVal(e)); ok {
			init, haveInit = v, true
		}
	}
	iff, ok := lastInstr(hdr).(*ssa.If)
	if !haveInit || !haveStep || !ok {
		return nil, "loop variable does not start from a constant in a loop tested at its head"
	}
	bo, ok := iff.Cond.(*ssa.BinOp)
	if !ok {
		return nil, "loop test is not a comparison"
	}
	var lim int64
	op := bo.Op
	if bo.X == ssa.Value(phi) {
		lim, ok = cInt(constVal(bo.Y))
	} else if bo.Y == ssa.Value(phi) {
		lim, ok = cInt(constVal(bo.X))
		switch op {
		case token.LSS:
			op = token.GTR
		case token.GTR:
			op = token.LSS
		case token.LEQ:
			op = token.GEQ
		case token.GEQ:
			op = token.LEQ
		}
	} else {
		ok = false
	}
	if !ok {
		return nil, "loop test does not compare the loop variable with a constant"
	}
	// the true edge must stay in the loop
	loop := naturalLoop(hdr)
	if !loop[hdr.Succs[0]] || loop[hdr.Succs[1]] {
		return nil, "loop test does not leave the loop on its false edge"
	}
	var out []int64
	for v := init; len(out) <= 64; v += step {
		res, okc := cmpHolds(op, int(v), int(lim))
		if !okc {
			return nil, "loop test operator not handled"
		}
		if !res {
			return out, ""
		}
		out = append(out, v)
	}
	return nil, "loop runs more than 64 times"
}
