package main

import (
	"fmt"
	"go/constant"
	"go/token"
	"go/types"
	"sort"
	"strings"

	"golang.org/x/tools/go/ssa"
)

func init() {
	register("C05", "one obligation per special byte of the tokenizer, per substitution/quoting pair, per sign class of the distance test, per constant the writer emits, per store into a node's children; non-trivial = needed extraction of byte sets from SSA comparisons and string constants and their set comparison", rulesC05, nil)
}

func constStr(v ssa.Value) (string, bool) {
	k := constVal(v)
	if k == nil || k.Kind() != constant.String {
		return "", false
	}
	return constant.StringVal(k), true
}

func rulesC05(c *Ctx, r *Report) {
	r.explain("Decides: (G3) every byte the tokenizer treats specially (all constants its input byte is compared with) is either in the writer's quoting set or substituted by the writer with a non-special byte; the reader's unquoted substitution only concerns bytes the writer quotes; space<->underscore and quote doubling/undoubling are inverse pairs; the writer quotes exactly when the name contains a byte of the quoting set, the reader unquotes exactly tokens of length >= 2 that start and end with a quote, dropping exactly the first and last byte; the input byte is classified by nothing but those constant comparisons; (DIST0) the ':'+distance suffix is written for negative, positive and NaN distances and omitted exactly for 0; it is written with fmt.Fprint after a string operand (no space inserted); (END) MarshalText ends with ';' after the recursive writer; outside names the writer emits only '(' ')' ',' ':' — condensed, no whitespace; children are written in slice order separated by ',' between '(' and ')'; (CHILD) the reader only ever appends to a node's children; (G1) Write emits exactly MarshalText's bytes; (PASS-ALL) Reader hands on every tree. Not decided: shape and branch-length equality of the round trip; the tokenizer's quote state machine; float formatting/parsing (trusted to fmt/strconv). Added rules: (TOK) all 2048 (inside quotes, after a quote, token pending, byte) transitions of the tokenizer match the Newick token grammar; (PARSE) all 120 (state, token kind, top level, number parses) transitions of the tree parser match the Newick grammar up to state renaming; (NUM-WIDTH); (LINE-WHOLE) no bounded ReadSlice; (A6-SCHED). Entry points (shared with C06/C18, restricted to this package): FD, A6, NIL-HANDLE. (END, extended) the writer never compares Children with nil — an empty non-nil list is a leaf; (LAYER). PARSE additionally: a name is decoded from its token exactly once; END additionally: MarshalText hands its own receiver to the writer; the writer may be split into a node part and a children part, or be a method of a buffer holder.")
	r.assume("strings.ContainsAny/ReplaceAll behave as documented; fmt.Fprint inserts a space only between two non-string operands")
	ruleG1(c, r, "formats/newick", "Node")
	rulesNewickNames(c, r)
	rulesNewickWriter(c, r)
	rulesNewickChildren(c, r)
	rulesNewickTokenizer(c, r)
	rulesNewickParser(c, r)
	rulesPassAllFor(c, r, "formats/newick", 2)
	rulesNoBufferedPkg(c, r, "formats/newick")
	rulesNumWidth(c, r, "formats/newick")
	rulesWholeLines(c, r, "formats/newick", "tokenizer")
	rulesEntryPoints(c, r, "formats/newick")
}

// replaceAllOf finds strings.ReplaceAll(x, from, to) calls reachable (by dominance) on the given edge of cond.
type replSpec struct {
	call     *ssa.Call
	from, to string
}

func replaceAlls(f *ssa.Function) []replSpec {
	var out []replSpec
	instrs(f, func(in ssa.Instruction) {
		cl, ok := in.(*ssa.Call)
		if !ok || !fnIs(cl.Call.StaticCallee(), "strings", "ReplaceAll") {
			return
		}
		from, ok1 := constStr(cl.Call.Args[1])
		to, ok2 := constStr(cl.Call.Args[2])
		if ok1 && ok2 {
			out = append(out, replSpec{cl, from, to})
		}
	})
	return out
}

func rulesNewickNames(c *Ctx, r *Report) {
	tok := c.role("newick.nextToken")
	n2t := c.role("newick.nameToText")
	t2n := c.role("newick.nameFromText")
	qd := c.role("newick.quoted")
	if tok == nil || n2t == nil || t2n == nil {
		r.undecided("G3", "formats/newick", "anchor", "", "nextToken, nameToText or nameFromText not found")
		return
	}
	for _, f := range []*ssa.Function{tok, n2t, t2n, qd} {
		if f != nil {
			r.analysed(fname(f))
		}
	}
	// Specials: constants the ReadByte result is compared with
	var inByte ssa.Value
	instrs(tok, func(in ssa.Instruction) {
		if cl, ok := in.(*ssa.Call); ok && methIs(cl.Call.StaticCallee(), "bufio", "Reader", "ReadByte") {
			for _, ref := range *cl.Referrers() {
				if ex, ok := ref.(*ssa.Extract); ok && ex.Index == 0 {
					inByte = ex
				}
			}
		}
	})
	if inByte == nil {
		r.undecided("G3", fname(tok), "input byte", c.pos(tok.Pos()), "no ReadByte result found")
		return
	}
	specials := map[int64]bool{}
	var otherUses []string
	var classify func(v ssa.Value, depth int)
	classify = func(v ssa.Value, depth int) {
		for _, ref := range *v.Referrers() {
			switch x := ref.(type) {
			case *ssa.BinOp:
				k, ok := cInt(constVal(x.Y))
				if !ok {
					k, ok = cInt(constVal(x.X))
				}
				if ok && (x.Op == token.EQL || x.Op == token.NEQ) {
					specials[k] = true
				} else {
					otherUses = append(otherUses, "comparison "+x.Op.String()+" at "+c.pos(x.Pos()))
				}
			case *ssa.Call:
				if methIs(x.Call.StaticCallee(), "bytes", "Buffer", "WriteByte") {
					continue
				}
				// handed to a helper of the package: what the helper does with it counts the same way
				if g := x.Call.StaticCallee(); g != nil && g.Blocks != nil && g.Pkg == tok.Pkg && depth < 2 && len(g.Params) == len(x.Call.Args) {
					for i, a := range x.Call.Args {
						if a == v {
							r.analysed(fname(g))
							classify(g.Params[i], depth+1)
						}
					}
					continue
				}
				otherUses = append(otherUses, "passed to "+callName(x)+" at "+c.pos(x.Pos()))
			case *ssa.Store: // string([]byte{b})
			case *ssa.DebugRef:
			case *ssa.Convert:
				otherUses = append(otherUses, "converted at "+c.pos(x.Pos()))
			default:
				otherUses = append(otherUses, fmt.Sprintf("%T at %s", ref, c.pos(ref.Pos())))
			}
		}
	}
	classify(inByte, 0)
	r.check(len(otherUses) == 0, "G3", fname(tok), "classification by constants only", c.pos(inByte.Pos()),
		"the input byte is only compared with constants, appended to the token, or returned as a one-byte token",
		"the input byte is also classified by something other than constant comparisons ("+strings.Join(otherUses, "; ")+"): the set of bytes the tokenizer splits on is not the set the writer protects")
	// T: quoting set
	var T string
	var contains *ssa.Call
	instrs(n2t, func(in ssa.Instruction) {
		if cl, ok := in.(*ssa.Call); ok && fnIs(cl.Call.StaticCallee(), "strings", "ContainsAny") {
			if s, ok := constStr(cl.Call.Args[1]); ok && cl.Call.Args[0] == ssa.Value(n2t.Params[0]) {
				T, contains = s, cl
			}
		}
	})
	if contains == nil {
		// the test in a predicate of the package: needsQuotes(name) = strings.ContainsAny(name, constant)
		instrs(n2t, func(in ssa.Instruction) {
			cl, ok := in.(*ssa.Call)
			if !ok || contains != nil || len(cl.Call.Args) != 1 || cl.Call.Args[0] != ssa.Value(n2t.Params[0]) {
				return
			}
			g := cl.Call.StaticCallee()
			if g == nil || g.Blocks == nil || g.Pkg != n2t.Pkg || len(g.Blocks) != 1 || len(g.Params) != 1 {
				return
			}
			rt, ok := lastInstr(g.Blocks[0]).(*ssa.Return)
			if !ok || len(rt.Results) != 1 {
				return
			}
			inner, ok := rt.Results[0].(*ssa.Call)
			if !ok || !fnIs(inner.Call.StaticCallee(), "strings", "ContainsAny") || inner.Call.Args[0] != ssa.Value(g.Params[0]) {
				return
			}
			if s, ok := constStr(inner.Call.Args[1]); ok {
				T, contains = s, cl
				r.analysed(fname(g))
			}
		})
	}
	if contains == nil {
		r.undecided("G3", fname(n2t), "quoting set", c.pos(n2t.Pos()), "no strings.ContainsAny(name, constant) found")
		return
	}
	// branch structure of nameToText: true edge -> quoted form, false edge -> substitution
	var qBlk, uBlk *ssa.BasicBlock
	for _, ref := range *contains.Referrers() {
		if iff, ok := ref.(*ssa.If); ok {
			qBlk, uBlk = iff.Block().Succs[0], iff.Block().Succs[1]
		}
	}
	if qBlk == nil {
		r.undecided("G3", fname(n2t), "quoting branch", c.pos(contains.Pos()), "ContainsAny does not directly select the quoted form")
		return
	}
	var S, Q *replSpec
	for _, rp := range replaceAlls(n2t) {
		rp := rp
		if rp.call.Block() == qBlk || qBlk.Dominates(rp.call.Block()) {
			Q = &rp
		} else if rp.call.Block() == uBlk || uBlk.Dominates(rp.call.Block()) {
			S = &rp
		}
	}
	subst := map[int64]int64{}
	if S != nil && len(S.from) == 1 && len(S.to) == 1 && S.call.Call.Args[0] == ssa.Value(n2t.Params[0]) {
		subst[int64(S.from[0])] = int64(S.to[0])
	}
	// every special is protected
	var ks []int64
	for k := range specials {
		ks = append(ks, k)
	}
	sort.Slice(ks, func(i, j int) bool { return ks[i] < ks[j] })
	for _, k := range ks {
		inT := strings.ContainsRune(T, rune(k))
		to, inS := subst[k]
		ok := inT || (inS && !specials[to])
		how := "is in the writer's quoting set"
		if !inT {
			how = fmt.Sprintf("is substituted by %s, which the tokenizer does not treat specially", byteStr(int(to)))
		}
		r.check(ok, "G3", "formats/newick.nameToText~nextToken", "special byte "+byteStr(int(k)), c.pos(contains.Pos()),
			"the tokenizer's special byte "+byteStr(int(k))+" "+how,
			"the tokenizer treats "+byteStr(int(k))+" specially but the writer emits it raw inside an unquoted name: such a name is split or altered on re-read")
	}
	r.floor("G3-specials", len(ks), 10, "special bytes of the tokenizer (' ( ) , : ; space TAB LF CR)")
	// reader's unquoted substitution
	var R, unQ *replSpec
	var unqSlice *ssa.Slice
	// the two branches of nameFromText: un-quoting works on a sub-slice of the token, the other on the token itself
	var tq, tu *ssa.BasicBlock
	for _, rp := range replaceAlls(t2n) {
		if sl, ok := rp.call.Call.Args[0].(*ssa.Slice); ok && sl.X == ssa.Value(t2n.Params[0]) {
			tq = rp.call.Block()
		} else if rp.call.Call.Args[0] == ssa.Value(t2n.Params[0]) {
			tu = rp.call.Block()
		}
	}
	if tq == nil || tu == nil || tq == tu || tq.Dominates(tu) || tu.Dominates(tq) {
		r.undecided("G3", fname(t2n), "quoted branch", c.pos(t2n.Pos()), "nameFromText does not have a quoted branch (ReplaceAll on a sub-slice of the token) and an unquoted one (ReplaceAll on the token)")
		return
	}
	for _, rp := range replaceAlls(t2n) {
		rp := rp
		if rp.call.Block() == tq || tq.Dominates(rp.call.Block()) {
			unQ = &rp
			unqSlice, _ = rp.call.Call.Args[0].(*ssa.Slice)
		} else if rp.call.Block() == tu || tu.Dominates(rp.call.Block()) {
			R = &rp
		}
	}
	okR := R != nil && len(R.from) == 1 && strings.Contains(T, R.from) && R.call.Call.Args[0] == ssa.Value(t2n.Params[0])
	rfrom := "<none>"
	if R != nil {
		rfrom = R.from
	}
	r.check(okR || R == nil, "G3", "formats/newick.nameFromText~nameToText", "reader substitution is quoted by the writer", c.pos(t2n.Pos()),
		fmt.Sprintf("the byte the reader substitutes in unquoted names (%q) is in the writer's quoting set, so it only occurs there when the writer put it", rfrom),
		fmt.Sprintf("the reader rewrites %q in unquoted names but the writer does not quote names containing it: such names change on re-read", rfrom))
	okInv := S != nil && R != nil && S.from == R.to && S.to == R.from
	r.check(okInv, "G3", "formats/newick.nameFromText~nameToText", "substitution pair inverse", c.pos(t2n.Pos()),
		"the writer's and reader's unquoted substitutions are inverse (space <-> underscore)", "the writer's and reader's unquoted substitutions are not inverse of each other")
	// quote doubling pair and wrapping
	okQ := Q != nil && unQ != nil && Q.from == "'" && Q.to == "''" && unQ.from == "''" && unQ.to == "'" && Q.call.Call.Args[0] == ssa.Value(n2t.Params[0])
	r.check(okQ, "G3", "formats/newick.nameFromText~nameToText", "quote doubling inverse", c.pos(t2n.Pos()),
		"quotes are doubled by the writer and un-doubled by the reader", "quote doubling and un-doubling are not an inverse pair")
	// writer wraps with one quote on each side
	okWrap := false
	if Q != nil {
		s := newSymb(n2t)
		q := s.expr(Q.call).String()
		for _, rc := range returnCases(s, n2t) {
			if len(rc.vals) == 1 && s.expr(rc.vals[0]).String() == "((\"'\" ++ "+q+") ++ \"'\")" {
				// the wrapped text is what the quoting branch returns (directly, or through a result variable)
				if v, ok := rc.vals[0].(ssa.Instruction); ok && (v.Block() == qBlk || qBlk.Dominates(v.Block())) {
					okWrap = true
				}
			}
		}
	}
	// reader drops exactly first and last byte
	okStrip := false
	if unqSlice != nil && unqSlice.X == ssa.Value(t2n.Params[0]) && unqSlice.Low != nil && unqSlice.High != nil {
		s := newSymb(t2n)
		lo, _ := cInt(constVal(unqSlice.Low))
		hi := linOf(s.expr(unqSlice.High)).String()
		okStrip = lo == 1 && hi == "1*builtin:len(P0) + -1"
	}
	r.check(okWrap && okStrip, "G3", "formats/newick.nameFromText~nameToText", "quote wrapping inverse", c.pos(t2n.Pos()),
		"the writer adds one quote on each side; the reader removes exactly the first and the last byte of a quoted token",
		fmt.Sprintf("wrapping/unwrapping disagree (writer adds one quote each side: %v; reader takes s[1:len(s)-1]: %v): names that begin or end with a quote are corrupted", okWrap, okStrip))
	// quoted: len >= 2 && s[0]=='\'' && s[len-1]=='\'' — as a helper, or inline as the guard of the quoted branch
	ts := newSymb(t2n)
	guard := guardOf(ts, tq, nil)
	if qd != nil && strings.HasPrefix(guard, "call:") && !strings.Contains(guard, " && ") {
		rulesQuotedPredicate(c, r, qd)
		return
	}
	conds := strings.Split(guard, " && ")
	sort.Strings(conds)
	want := []string{"(2 <= builtin:len(P0))", "(39 == P0[(builtin:len(P0) - 1)])", "(39 == P0[0])"}
	sort.Strings(want)
	r.check(strings.Join(conds, " && ") == strings.Join(want, " && "), "G3", fname(t2n), "quoted predicate", c.pos(t2n.Pos()),
		"a token counts as quoted iff len >= 2 and its first and last bytes are quotes (tested inline)", "the quoted branch is taken under "+guard+", want len(s) >= 2 && s[0] == quote && s[len(s)-1] == quote")
}

func rulesQuotedPredicate(c *Ctx, r *Report, qd *ssa.Function) {
	s := newSymb(qd)
	// collect the conjuncts that dominate the only `true`-capable return value
	var conds []string
	for _, b := range qd.Blocks {
		iff, ok := b.Instrs[len(b.Instrs)-1].(*ssa.If)
		if ok {
			conds = append(conds, s.expr(iff.Cond).String())
		}
	}
	// the final conjunct is the phi edge that is not a constant false
	instrs(qd, func(in ssa.Instruction) {
		if phi, ok := in.(*ssa.Phi); ok {
			for _, e := range phi.Edges {
				if _, isConst := e.(*ssa.Const); !isConst {
					conds = append(conds, s.expr(e).String())
				}
			}
		}
	})
	sort.Strings(conds)
	want := []string{"(2 <= builtin:len(P0))", "(39 == P0[(builtin:len(P0) - 1)])", "(39 == P0[0])"}
	sort.Strings(want)
	r.check(strings.Join(conds, " && ") == strings.Join(want, " && "), "G3", fname(qd), "quoted predicate", c.pos(qd.Pos()),
		"a token counts as quoted iff len >= 2 and its first and last bytes are quotes", "quoted() is "+strings.Join(conds, " && ")+", want len(s) >= 2 && s[0] == '\\'' && s[len(s)-1] == '\\''")
}

// floatSignClasses evaluates `x op 0` for x negative, zero, positive, NaN.
func cmpZeroClasses(op token.Token) (neg, zero, pos, nan bool, ok bool) {
	switch op {
	case token.NEQ:
		return true, false, true, true, true
	case token.EQL:
		return false, true, false, false, true
	case token.GTR:
		return false, false, true, false, true
	case token.LSS:
		return true, false, false, false, true
	case token.GEQ:
		return false, true, true, false, true
	case token.LEQ:
		return true, true, false, false, true
	}
	return false, false, false, false, false
}

func rulesNewickWriter(c *Ctx, r *Report) {
	w := c.role("newick.writer")
	mt := c.fn("formats/newick", "(*Node).MarshalText")
	n2t := c.role("newick.nameToText")
	if w == nil || mt == nil {
		r.undecided("END", "formats/newick", "anchor", "", "newick or MarshalText not found")
		return
	}
	r.analysed(fname(w))
	s := newSymb(w)
	// the node is the writer's receiver, or its argument when the writer is a method of the type that holds the buffer
	nf := func(fn *ssa.Function, e *Sym) string { return paramFieldName(fn, nodeParamIndex(fn), e) }
	ni := nodeParamIndex(w)
	if ni < 0 {
		r.undecided("END", fname(w), "anchor", c.pos(w.Pos()), "the writer does not take exactly one *Node")
		return
	}
	// the children's part written by a method of the same node that the writer calls and that calls the writer
	// back for each child: the two together are the writer
	type wpart struct {
		fn *ssa.Function
		s  *symb
	}
	parts := []wpart{{w, s}}
	if len(staticCallsTo(w, w)) == 0 && len(w.Params) > 0 {
		instrs(w, func(in ssa.Instruction) {
			cl, ok := in.(*ssa.Call)
			if !ok || len(parts) > 1 {
				return
			}
			h := cl.Call.StaticCallee()
			if h == nil || h.Blocks == nil || h.Pkg != w.Pkg || h == n2t {
				return
			}
			hi := nodeParamIndex(h)
			if hi < 0 || hi >= len(cl.Call.Args) || cl.Call.Args[hi] != ssa.Value(w.Params[ni]) {
				return
			}
			if len(staticCallsTo(h, w)) > 0 {
				parts = append(parts, wpart{h, newSymb(h)})
				r.analysed(fname(h))
			}
		})
	}
	eachPart := func(f func(fn *ssa.Function, s *symb, in ssa.Instruction)) {
		for _, pt := range parts {
			instrs(pt.fn, func(in ssa.Instruction) { f(pt.fn, pt.s, in) })
		}
	}
	// whether a node has children is a matter of their number: an empty non-nil list is a leaf like a nil one
	var nilTests []string
	eachPart(func(w *ssa.Function, s *symb, in ssa.Instruction) {
		bo, ok := in.(*ssa.BinOp)
		if !ok || (bo.Op != token.EQL && bo.Op != token.NEQ) {
			return
		}
		for _, pr := range [][2]ssa.Value{{bo.X, bo.Y}, {bo.Y, bo.X}} {
			if isNilConst(pr[1]) {
				if _, isSlice := pr[0].Type().Underlying().(*types.Slice); isSlice && nf(w, s.expr(pr[0])) == "Children" {
					nilTests = append(nilTests, c.pos(bo.Pos()))
				}
			}
		}
	})
	r.check(len(nilTests) == 0, "END", fname(w), "children tested by number", c.pos(w.Pos()),
		"the writer never compares Children with nil: a node with an empty list is written as the leaf it is",
		fmt.Sprintf("the writer compares Children with nil at %v: a leaf whose list is empty but not nil is written with \"()\" and read back as an inner node with one child", nilTests))
	// DIST0
	var distWrite *ssa.Call
	instrs(w, func(in ssa.Instruction) {
		if cl, ok := in.(*ssa.Call); ok {
			if qn := qname(cl.Call.StaticCallee()); strings.HasPrefix(qn, "fmt.Fprint") {
				distWrite = cl
			}
		}
	})
	ds := s // expressions around the distance write, in terms of the writer's own parameters
	if distWrite == nil {
		// the distance suffix written by a helper the writer calls
		instrs(w, func(in ssa.Instruction) {
			cl, ok := in.(*ssa.Call)
			if !ok || distWrite != nil {
				return
			}
			g := cl.Call.StaticCallee()
			if g == nil || g.Blocks == nil || !c.inModule(g) || g == w || g == n2t {
				return
			}
			var inner *ssa.Call
			instrs(g, func(in2 ssa.Instruction) {
				if c2, ok := in2.(*ssa.Call); ok && strings.HasPrefix(qname(c2.Call.StaticCallee()), "fmt.Fprint") {
					inner = c2
				}
			})
			if inner == nil {
				return
			}
			sub := newSymb(g)
			for i, p := range g.Params {
				if i < len(cl.Call.Args) {
					sub.subst[p] = s.expr(cl.Call.Args[i])
				}
			}
			distWrite, ds = inner, sub
			r.analysed(fname(g))
		})
	}
	if distWrite == nil {
		r.undecided("DIST0", fname(w), "distance write", c.pos(w.Pos()), "no fmt.Fprint* of the distance found")
	} else {
		s := ds
		// dominating condition
		b := distWrite.Block()
		d := b.Idom()
		var okCond bool
		var desc string
		if d != nil {
			if iff, ok := d.Instrs[len(d.Instrs)-1].(*ssa.If); ok && len(b.Preds) == 1 {
				if bo, ok := iff.Cond.(*ssa.BinOp); ok {
					x, y := s.expr(bo.X), s.expr(bo.Y)
					op := bo.Op
					isDist := func(e *Sym) bool { return nf(w, e) == "Distance" }
					isZero := func(e *Sym) bool { return e.Op == "const" && (e.Leaf == "0" || e.Leaf == "0/1") }
					if isZero(x) && isDist(y) {
						x, y = y, x
						switch op {
						case token.LSS:
							op = token.GTR
						case token.GTR:
							op = token.LSS
						case token.LEQ:
							op = token.GEQ
						case token.GEQ:
							op = token.LEQ
						}
					}
					if isDist(x) && isZero(y) {
						neg, zero, pos, nan, ok := cmpZeroClasses(op)
						if d.Succs[1] == b { // written on the false edge
							neg, zero, pos, nan = !neg, !zero, !pos, !nan
						}
						okCond = ok && neg && !zero && pos && nan
						desc = fmt.Sprintf("written for negative:%v zero:%v positive:%v NaN:%v", neg, zero, pos, nan)
					}
				}
			}
		}
		if desc == "" {
			r.undecided("DIST0", fname(w), "distance condition", c.pos(distWrite.Pos()), "the distance write is not guarded by a comparison of Distance with 0")
		} else {
			r.check(okCond, "DIST0", fname(w), "distance condition", c.pos(distWrite.Pos()), "':'+distance is "+desc+" — omitted exactly for 0", "':'+distance is "+desc+"; want it written for every non-zero value (negative, NaN) and omitted only for 0")
		}
		args := orderedVarargs(distWrite.Call.Args[1:])
		okArgs := qname(distWrite.Call.StaticCallee()) == "fmt.Fprint" && len(args) == 2
		if okArgs {
			s0, isStr := constStr(args[0])
			okArgs = isStr && s0 == ":" && nf(w, s.expr(args[1])) == "Distance"
		}
		r.check(okArgs, "DIST0", fname(w), "distance text", c.pos(distWrite.Pos()), "the suffix is Fprint(\":\", Distance): a colon, then the shortest float text that parses back, no space", "the distance suffix is not Fprint(\":\", n.Distance)")
	}
	// END: constants the writer emits
	var consts []int64
	var badWrites []string
	eachPart(func(w *ssa.Function, s *symb, in ssa.Instruction) {
		cl, ok := in.(*ssa.Call)
		if !ok || cl.Call.StaticCallee() == nil {
			return
		}
		switch qname(cl.Call.StaticCallee()) {
		case "(*bytes.Buffer).WriteByte":
			if k, ok := cInt(constVal(cl.Call.Args[1])); ok {
				consts = append(consts, k)
			} else {
				badWrites = append(badWrites, "WriteByte of a computed byte at "+c.pos(cl.Pos()))
			}
		case "(*bytes.Buffer).WriteString":
			if inner, ok := cl.Call.Args[1].(*ssa.Call); !ok || inner.Call.StaticCallee() != n2t {
				badWrites = append(badWrites, "WriteString of something other than nameToText(name) at "+c.pos(cl.Pos()))
			} else if nf(w, s.expr(inner.Call.Args[0])) != "Name" {
				badWrites = append(badWrites, "nameToText applied to something other than n.Name")
			}
		case "(*bytes.Buffer).Write", "(*bytes.Buffer).WriteRune":
			badWrites = append(badWrites, callName(cl)+" at "+c.pos(cl.Pos()))
		}
	})
	// where a ',' is written depends on the child's number only, never on what is in the buffer (an empty child
	// writes nothing)
	var bufDependent []string
	eachPart(func(w *ssa.Function, s *symb, in ssa.Instruction) {
		cl, ok := in.(*ssa.Call)
		if !ok || cl.Call.StaticCallee() == nil || qname(cl.Call.StaticCallee()) != "(*bytes.Buffer).WriteByte" {
			return
		}
		_, atoms := guardOfFull(s, cl.Block(), nil)
		for _, at := range atoms {
			if strings.Contains(at, "bytes.(*Buffer).Len(") || strings.Contains(at, "bytes.(*Buffer).Bytes(") || strings.Contains(at, "bytes.(*Buffer).String(") || strings.Contains(at, "(*bytes.Buffer).Len(") {
				bufDependent = append(bufDependent, c.pos(cl.Pos())+" under "+at)
			}
		}
	})
	r.check(len(bufDependent) == 0, "END", fname(w), "separators by position", c.pos(w.Pos()),
		"no structural byte is written depending on the buffer's content or length: separators follow the children's positions",
		fmt.Sprintf("a structural byte is written depending on what the buffer holds (%v): a child that writes nothing (unnamed, no length, no children) loses its separator and the tree changes shape", bufDependent))
	okConsts := true
	var cs []string
	for _, k := range consts {
		cs = append(cs, byteStr(int(k)))
		if !strings.ContainsRune("(),", rune(k)) {
			okConsts = false
		}
	}
	r.check(okConsts && len(badWrites) == 0 && len(consts) >= 3, "END", fname(w), "structural bytes", c.pos(w.Pos()),
		"outside names and distances the writer emits only "+strings.Join(cs, " ")+": condensed form, no whitespace", "the writer emits other bytes outside quoted names: "+strings.Join(append(cs, badWrites...), "; "))
	// children in slice order with ',' between
	cw, s := w, s // the part that holds the recursive calls
	if len(parts) > 1 {
		cw, s = parts[1].fn, parts[1].s
	}
	rec := staticCallsTo(cw, w)
	okRec := false
	// the first child on its own, then the rest in a loop over Children[1:], after a test that there is a first
	if len(rec) == 2 {
		first, rest := s.expr(rec[0].Call.Args[ni]), s.expr(rec[1].Call.Args[ni])
		if first.Op != "load" || first.Args[0].Op != "index" || first.Args[0].Args[1].String() != "0" {
			first, rest = rest, first
			rec[0], rec[1] = rec[1], rec[0]
		}
		if first.Op == "load" && first.Args[0].Op == "index" && first.Args[0].Args[1].String() == "0" && nf(cw, first.Args[0].Args[0]) == "Children" &&
			rest.Op == "load" && rest.Args[0].Op == "index" && rec[0].Block().Dominates(rec[1].Block()) && rec[0].Block() != rec[1].Block() {
			sl, idx := rest.Args[0].Args[0], rest.Args[0].Args[1]
			if slv, ok := sl.Val.(*ssa.Slice); ok && slv.High == nil && slv.Max == nil && slv.Low != nil && nf(cw, s.expr(slv.X)) == "Children" {
				if k, ok := cInt(constVal(slv.Low)); ok && k == 1 {
					var l *countedLoop
					var why string
					if b, ok := idx.Val.(*ssa.BinOp); ok {
						if phi, ok := b.X.(*ssa.Phi); ok {
							l, why = findCountedLoopAny(phi, b)
						}
					} else if phi, ok := idx.Val.(*ssa.Phi); ok {
						l, why = findCountedLoop(phi)
					}
					if l != nil && why == "" && s.expr(l.bound).String() == "builtin:len("+sl.String()+")" && !naturalLoop(l.phi.Block())[rec[0].Block()] {
						okRec = true
					}
				}
			}
		}
	}
	if len(rec) == 1 {
		w := cw
		arg := s.expr(rec[0].Call.Args[ni])
		// load(load(P0.f2)[idx])
		if arg.Op == "load" && arg.Args[0].Op == "index" && nf(w, arg.Args[0].Args[0]) == "Children" {
			idx := arg.Args[0].Args[1]
			// range index from 0 over len(children)
			if b, ok := idx.Val.(*ssa.BinOp); ok {
				if phi, ok := b.X.(*ssa.Phi); ok {
					if l, why := findCountedLoopAny(phi, b); why == "" {
						okRec = s.expr(l.bound).String() == "builtin:len("+arg.Args[0].Args[0].String()+")"
					}
				}
			} else if phi, ok := idx.Val.(*ssa.Phi); ok {
				if l, why := findCountedLoop(phi); why == "" {
					okRec = s.expr(l.bound).String() == "builtin:len("+arg.Args[0].Args[0].String()+")"
				}
			}
		}
	}
	r.check(okRec, "END", fname(w), "children in order", c.pos(w.Pos()), "the writer recurses into Children[0], Children[1], … in slice order, once each", "the writer does not visit every child once in slice order")
	// MarshalText: newick(buf) then WriteByte(';') last
	r.analysed(fname(mt))
	// the text built by a stage of MarshalText whose result it returns as it is: return n.text(), nil
	if len(staticCallsTo(mt, w)) == 0 && len(mt.Blocks) == 1 {
		if rt, ok := lastInstr(mt.Blocks[0]).(*ssa.Return); ok && len(rt.Results) >= 1 {
			if cl, ok := rt.Results[0].(*ssa.Call); ok {
				if g := cl.Call.StaticCallee(); g != nil && g.Blocks != nil && g.Pkg == mt.Pkg && len(staticCallsTo(g, w)) > 0 && len(cl.Call.Args) == 1 && cl.Call.Args[0] == ssa.Value(mt.Params[0]) {
					mt = g
					r.analysed(fname(g))
				}
			}
		}
	}
	var order []string
	instrs(mt, func(in ssa.Instruction) {
		cl, ok := in.(*ssa.Call)
		if !ok || cl.Call.StaticCallee() == nil {
			return
		}
		switch {
		case cl.Call.StaticCallee() == w:
			// the node written is the receiver itself, not a copy or another node
			if ni < len(cl.Call.Args) && len(mt.Params) > 0 && cl.Call.Args[ni] == ssa.Value(mt.Params[0]) {
				order = append(order, "tree")
			} else {
				order = append(order, "tree of another node")
			}
		case qname(cl.Call.StaticCallee()) == "(*bytes.Buffer).WriteByte":
			k, _ := cInt(constVal(cl.Call.Args[1]))
			order = append(order, "byte"+byteStr(int(k)))
		case strings.HasPrefix(qname(cl.Call.StaticCallee()), "(*bytes.Buffer).Write"):
			order = append(order, "other")
		}
	})
	r.check(strings.Join(order, ",") == "tree,byte';'" && len(mt.Blocks) == 1, "END", fname(mt), "ends with ';'", c.pos(mt.Pos()), "MarshalText writes the tree and then exactly one ';'", "MarshalText's writes are "+strings.Join(order, ",")+", want the tree followed by ';'")
}

// rulesNewickChildren (CHILD): read() only ever appends to Children.
func rulesNewickChildren(c *Ctx, r *Report) {
	rd := c.role("newick.read")
	if rd == nil {
		r.undecided("CHILD", "formats/newick.(*reader).read", "anchor", "", "read not found")
		return
	}
	r.analysed(fname(rd))
	p := c.pkg("formats/newick")
	node, _ := p.Types.Scope().Lookup("Node").(*types.TypeName)
	childIdx := -1
	if node != nil {
		if st, ok := node.Type().Underlying().(*types.Struct); ok {
			for i := 0; i < st.NumFields(); i++ {
				if st.Field(i).Name() == "Children" {
					childIdx = i
				}
			}
		}
	}
	n := 0
	// read() and the helpers of its package it calls (push helpers)
	fns := []*ssa.Function{rd}
	for _, g := range c.calleesIn(rd) {
		if g.Pkg == rd.Pkg && g.Blocks != nil && g != rd {
			fns = append(fns, g)
		}
	}
	for _, fn := range fns {
		instrs(fn, func(in ssa.Instruction) {
			st, ok := in.(*ssa.Store)
			if !ok {
				return
			}
			fa, ok := st.Addr.(*ssa.FieldAddr)
			if !ok || fa.Field != childIdx {
				return
			}
			if fn != rd {
				r.analysed(fname(fn))
			}
			if pt, ok := fa.X.Type().Underlying().(*types.Pointer); !ok || !types.Identical(pt.Elem(), node.Type()) {
				return
			}
			n++
			ok2 := false
			if cl, ok := st.Val.(*ssa.Call); ok {
				if b, ok := cl.Call.Value.(*ssa.Builtin); ok && b.Name() == "append" {
					if ld, ok := cl.Call.Args[0].(*ssa.UnOp); ok && ld.Op == token.MUL {
						if fa2, ok := ld.X.(*ssa.FieldAddr); ok && fa2.Field == childIdx && fa2.X == fa.X {
							ok2 = true
						}
					}
				}
			}
			r.check(ok2, "CHILD", fname(fn), "children only grow", c.pos(st.Pos()), "this store appends one node to the same node's children", "this store replaces or shrinks a node's children: subtrees that the text contains are dropped or reordered")
		})
	}
	r.floor("CHILD", n, 2, "stores into Children in read() ('(' and ',')")
}
