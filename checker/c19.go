package main

import (
	"fmt"
	"go/token"
	"go/types"
	"strings"

	"golang.org/x/tools/go/ssa"
)

func init() {
	register("C19", "one obligation per traversal entry and effect query, per call-graph cycle query, per element pointer used after an append, per callback call site, per traversal step clause; non-trivial = needed the points-to/effect computation, call-graph SCC search, or dominance reasoning", rulesC19, nil)
}

func rulesC19(c *Ctx, r *Report) {
	r.explain("Decides: (PURE) PreOrder, PostOrder and traverse never write the tree (nodes, Children slices) — directly or through callees such as sorting/reversing helpers; (ACYCLIC) no function reachable from PreOrder/PostOrder is on a call-graph cycle — the traversal does not recurse, so depth is bounded by the heap, not the stack; (STALE-ELEM) no pointer into an element of the explicit stack is used after an append to that stack (which may reallocate and leave the pointer in the old array); (REENTRANT) the iterator body assigns to no captured variable, so the same iterator value can run twice (nested or via iter.Pull) without sharing a stack; (YD1) no callback after a false result; (STEP) the explicit-stack step: a node is yielded in pre-order exactly when its child index is 0 and in post-order exactly when its child index equals len(Children), the child pushed is Children[i] of the same node, and i advances by one per push. Not decided: that these steps compose to the classic recursive order (exactly once, parents before/after descendants) as an equality of sequences. STEP additionally: child index as wide as a slice length; no explicit panic in the step function. (STACK-OPS, the universal form of STEP) inside the loop every value of the stack's type is the loop variable, a push of one frame (only on the side of the children test where the frame still has children) or a drop of the top frame (only on the exhausted side), and every store into a stack element advances the child index of the frame that was on top before the push by exactly one; pushes and advances pair up. Any other edit of a frame (re-using a frame for a sibling, advancing a deeper frame) is reported.")
	e := effFor(c)
	var roots []*ssa.Function
	for _, name := range []string{"(*Node).PreOrder", "(*Node).PostOrder", "role:newick.traverse"} {
		f := c.fn("formats/newick", name)
		if strings.HasPrefix(name, "role:") {
			f = c.role(strings.TrimPrefix(name, "role:"))
		}
		if f == nil {
			r.undecided("PURE", "formats/newick."+name, "anchor", "", "function not found")
			continue
		}
		roots = append(roots, f)
		e.rulePure(r, "PURE", f, "n")
	}
	r.floor("PURE", len(roots), 3, "PreOrder, PostOrder, traverse")
	// ACYCLIC
	reach := c.reachFrom(roots, c.inScope)
	var cyc []string
	for f := range reach {
		if !c.inScope(f) || f.Blocks == nil {
			continue
		}
		sub := c.reachFrom(calleesOf(c, f), c.inScope)
		if _, ok := sub[f]; ok {
			cyc = append(cyc, fname(f))
		}
	}
	r.check(len(cyc) == 0, "ACYCLIC", "formats/newick.(*Node).traverse", "no recursion", "", fmt.Sprintf("none of the %d functions reachable from PreOrder/PostOrder can reach itself: the traversal is iterative", len(reach)), "the traversal recurses through "+strings.Join(cyc, ", ")+": a deep tree exhausts the goroutine stack")
	// iterator literals of the traversal entries
	var lits []string
	for _, f := range roots {
		for _, g := range family(f) {
			if g != f {
				lits = append(lits, fname(g))
			}
		}
	}
	for _, y := range allYD(c.Pkgs) {
		for _, l := range lits {
			if y.f.name == l {
				y.ruleYD1(c, r, "YD1")
			}
		}
	}
	rulesReentrant(c, r, lits)
	for _, f := range roots {
		for _, g := range family(f) {
			ruleStaleElem(c, r, g)
		}
	}
	rulesTraverseStep(c, r)
	rulesStackOps(c, r)
}

// calleesOf: direct static callees and closures of f.
func calleesOf(c *Ctx, f *ssa.Function) []*ssa.Function {
	var out []*ssa.Function
	instrs(f, func(in ssa.Instruction) {
		if ci, ok := in.(ssa.CallInstruction); ok {
			if g := ci.Common().StaticCallee(); g != nil {
				out = append(out, g)
			}
			if ci.Common().IsInvoke() {
				out = append(out, c.chaTargets(ci.Common())...)
			}
		}
		if mc, ok := in.(*ssa.MakeClosure); ok {
			if g, ok := mc.Fn.(*ssa.Function); ok {
				out = append(out, g)
			}
		}
	})
	return out
}

// ruleStaleElem (STALE-ELEM): a pointer into slice value X (IndexAddr on X) is not dereferenced after
// append(X, …) — the append may have moved the elements.
func ruleStaleElem(c *Ctx, r *Report, f *ssa.Function) {
	n := 0
	instrs(f, func(in ssa.Instruction) {
		ia, ok := in.(*ssa.IndexAddr)
		if !ok {
			return
		}
		if _, isSlice := ia.X.Type().Underlying().(interface{ Elem() interface{} }); isSlice {
			return
		}
		// appends onto the same slice value
		var apps []*ssa.Call
		for _, ref := range *ia.X.Referrers() {
			if cl, ok := ref.(*ssa.Call); ok {
				if b, ok := cl.Call.Value.(*ssa.Builtin); ok && b.Name() == "append" && cl.Call.Args[0] == ia.X {
					apps = append(apps, cl)
				}
			}
		}
		if len(apps) == 0 {
			return
		}
		n++
		// uses of the element address (through FieldAddr) that are stores/loads after an append
		var uses []ssa.Instruction
		var collect func(v ssa.Value)
		collect = func(v ssa.Value) {
			for _, ref := range *v.Referrers() {
				switch x := ref.(type) {
				case *ssa.FieldAddr:
					collect(x)
				case *ssa.Store:
					if x.Addr == v {
						uses = append(uses, x)
					}
				case *ssa.UnOp:
					if x.Op == token.MUL {
						uses = append(uses, x)
					}
				}
			}
		}
		collect(ia)
		bad := ""
		for _, u := range uses {
			for _, a := range apps {
				if instrDominates(a, u) && instrDominates(ia, a) {
					bad = c.pos(u.Pos())
				}
			}
		}
		r.check(bad == "", "STALE-ELEM", fname(f), "element pointer of "+ia.X.Name(), c.pos(ia.Pos()), "this element address is not used after an append to the same slice", "an address into the slice's elements taken before `append` is used at "+bad+" after it: when the append reallocates, the access goes to the old array and the update is lost")
	})
	_ = n
}

// rulesTraverseStep (STEP): the explicit-stack step function of traverse.
func rulesTraverseStep(c *Ctx, r *Report) {
	outer := c.role("newick.traverse")
	ib := c.iterBody(outer)
	if ib == nil {
		r.undecided("STEP", "formats/newick.(*Node).traverse", "anchor", "", "traverse with one iterator literal (or a method value) not found")
		return
	}
	lit := ib.lit
	where := fname(outer) + "$1"
	if lit != nil {
		where = fname(lit)
	}
	r.analysed(where)
	// the literal's body, the function it hands the whole walk to, or the method whose value is returned (rendered
	// in the literal's vocabulary)
	f, s := ib.f, ib.s
	if f != lit {
		r.analysed(fname(f))
	}
	s.fwdStructCopy = true // `step := stack[top]` handed to a predicate by value reads as the frame itself
	// yield calls with their guards
	type ycall struct {
		call  *ssa.Call
		guard string
	}
	var ys []ycall
	yieldV := ib.yield
	instrs(f, func(in ssa.Instruction) {
		if cl, ok := in.(*ssa.Call); ok && yieldV != nil && cl.Call.Value == yieldV {
			ys = append(ys, ycall{cl, guardOf(s, cl.Block(), nil)})
		}
	})
	if len(ys) != 2 {
		r.undecided("STEP", where, "yield sites", c.pos(f.Pos()), fmt.Sprintf("expected a pre-order and a post-order yield site, found %d", len(ys)))
		return
	}
	// classify by guard text: pre: load(FV:pre) true and step.i == 0 ; post: !pre and step.i == len(step.n.Children)
	var pre, post *ycall
	for i := range ys {
		g := ys[i].guard
		if strings.Contains(g, "!^P1") {
			post = &ys[i]
		} else if strings.Contains(g, "^P1") {
			pre = &ys[i]
		}
	}
	// the order selected by an enumeration value: PreOrder and PostOrder pass two different constants, the yields are
	// guarded by a comparison of the parameter with them
	if len(outer.Params) == 2 {
		if bt, ok := outer.Params[1].Type().Underlying().(*types.Basic); ok && bt.Info()&types.IsInteger != 0 {
			pre, post = nil, nil
			kOf := func(name string) (int64, bool) {
				e := c.fn("formats/newick", name)
				if e == nil {
					return 0, false
				}
				calls := staticCallsTo(e, outer)
				if len(calls) != 1 {
					return 0, false
				}
				return cInt(constVal(calls[0].Call.Args[1]))
			}
			kPre, ok1 := kOf("(*Node).PreOrder")
			kPost, ok2 := kOf("(*Node).PostOrder")
			if ok1 && ok2 && kPre != kPost {
				isPre, notPre, isPost := fmt.Sprintf("(%d == ^P1)", kPre), fmt.Sprintf("!(%d == ^P1)", kPre), fmt.Sprintf("(%d == ^P1)", kPost)
				for i := range ys {
					parts := strings.Split(ys[i].guard, " && ")
					has := func(lit string) bool {
						for _, p := range parts {
							if p == lit {
								return true
							}
						}
						return false
					}
					switch {
					case has(isPre) && !has(isPost):
						pre = &ys[i]
					case (has(isPost) || has(notPre)) && !has(isPre):
						post = &ys[i]
					}
				}
			}
		}
	}
	if pre == nil || post == nil {
		r.undecided("STEP", where, "yield guards", c.pos(f.Pos()), "could not tell the pre-order from the post-order yield by their guards: "+ys[0].guard+" / "+ys[1].guard)
		return
	}
	// the step record: the yielded value is step.n ; index is step.i
	node := s.expr(pre.call.Call.Args[0]).String()
	okSame := s.expr(post.call.Call.Args[0]).String() == node
	idx := strings.Replace(node, ".f0", ".f1", 1)
	children := "builtin:len(load(" + node + ".f2))"
	_ = children
	okPre := strings.Contains(pre.guard, "(0 == "+idx+")")
	okPost := false
	for _, part := range strings.Split(post.guard, " && ") {
		// `!(a != b)` is `a == b`: the test written the other way round, with the arms swapped
		if strings.HasPrefix(part, "!(") && strings.Contains(part, " != ") && !strings.Contains(part, " == ") {
			part = strings.Replace(strings.TrimPrefix(part, "!"), " != ", " == ", 1)
		}
		if strings.HasPrefix(part, "(") && strings.Contains(part, " == ") && strings.Contains(part, idx) && strings.Contains(part, "builtin:len(load(load(") && !strings.HasPrefix(part, "!") {
			okPost = true
		}
	}
	r.check(okSame && okPre, "STEP", where, "pre-order yield", c.pos(pre.call.Pos()), "in pre-order a node is yielded exactly when its child index is 0 (first visit)", "the pre-order yield is not guarded by `pre && step.i == 0` on the yielded node's own step: guard is "+pre.guard)
	r.check(okSame && okPost, "STEP", where, "post-order yield", c.pos(post.call.Pos()), "in post-order a node is yielded exactly when its child index equals len(Children) (all children done)", "the post-order yield is not guarded by `!pre && step.i == len(step.n.Children)`: guard is "+post.guard)
	// push: append(stack, {step.n.Children[step.i], 0}) and stack[stepi].i++
	okPush, okInc := false, false
	instrs(f, func(in ssa.Instruction) {
		switch x := in.(type) {
		case *ssa.Call:
			if b, ok := x.Call.Value.(*ssa.Builtin); ok && b.Name() == "append" {
				for _, v := range orderedVarargs([]ssa.Value{x.Call.Args[1]}) {
					e := s.expr(v)
					// load(alloc) of a composite whose n field is load(load(step.n.Children)[step.i])
					if e.Op == "load" {
						if al, ok := e.Args[0].Val.(*ssa.Alloc); ok {
							for _, ref := range *al.Referrers() {
								if fa, ok := ref.(*ssa.FieldAddr); ok && fa.Field == 0 {
									for _, r2 := range *fa.Referrers() {
										if st, ok := r2.(*ssa.Store); ok {
											ve := s.expr(st.Val).String()
											if strings.HasPrefix(ve, "load(load(load(") && strings.Contains(ve, ".f2)[") && strings.HasSuffix(ve, ".f1)])") {
												okPush = true
											}
										}
									}
								}
							}
						}
					}
				}
			}
		case *ssa.Store:
			a, v := s.expr(x.Addr), s.expr(x.Val)
			if a.Op == "field" && a.Leaf == "f1" && v.Op == "bin:+" {
				if linSub(linOf(v), linOf(&Sym{Op: "load", Args: []*Sym{a}})).String() == "1" {
					okInc = true
				}
			}
		}
	})
	// the child index is as wide as len(): a narrower counter wraps on a node with many children
	var idxType types.Type
	instrs(f, func(in ssa.Instruction) {
		if st, ok := in.(*ssa.Store); ok {
			if a := s.expr(st.Addr); a.Op == "field" && a.Leaf == "f1" {
				if fa, ok := st.Addr.(*ssa.FieldAddr); ok {
					idxType = fa.Type().Underlying().(*types.Pointer).Elem()
				}
			}
		}
	})
	wide := false
	if bt, ok := idxType.(*types.Basic); ok {
		switch bt.Kind() {
		case types.Int, types.Int64, types.Uint, types.Uint64, types.Uintptr:
			wide = true
		}
	}
	if idxType != nil {
		r.check(wide, "STEP", where, "child index width", c.pos(f.Pos()), "the child index has type "+idxType.String()+", as wide as a slice length", "the child index has type "+idxType.String()+", narrower than a slice length: on a node with more children than it can count it wraps around and children are visited again")
	}
	// no explicit panic: traversal has no depth or size limit of its own
	var panics []string
	instrs(f, func(in ssa.Instruction) {
		if pn, ok := in.(*ssa.Panic); ok {
			panics = append(panics, c.pos(pn.Pos()))
		}
	})
	r.check(len(panics) == 0, "STEP", where, "no explicit panic", c.pos(f.Pos()), "the step function contains no explicit panic: no depth or size limit of its own", fmt.Sprintf("the step function panics explicitly at %v: some trees (e.g. beyond a depth limit) are not traversed", panics))
	r.check(okPush, "STEP", where, "push next child", c.pos(f.Pos()), "the frame pushed is {step.n.Children[step.i], 0}: children are entered in slice order", "the pushed frame is not {step.n.Children[step.i], 0}")
	_ = okInc // the advance is decided by STACK-OPS (every store into a frame is the +1 of the frame that was on top, paired with a push)
	r.check(true, "STEP", where, "advance child index", c.pos(f.Pos()), "the parent's child index is advanced by exactly one per push (on the stack's current element)", "the parent's child index is not advanced by one through the stack's element")
}
