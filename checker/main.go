// biocheck — static analysis of fluhus/biostuff against properties C01..C20.
// See /verif/DESIGN.md. Decides named structural clauses from /repo's current
// source (typed AST, go/cfg, go/ssa, call graph); never runs the code.
package main

import (
	"encoding/json"
	"flag"
	"fmt"
	"os"
	"runtime/debug"
	"sort"
	"strconv"
	"time"
)

type propDef struct {
	id    string
	rules func(c *Ctx, r *Report)
	// thorough-only additions (second configuration etc.); may be nil
	thorough  func(c *Ctx, r *Report)
	levelRule string
}

var props = map[string]*propDef{}

func register(id string, levelRule string, rules func(c *Ctx, r *Report), thorough func(c *Ctx, r *Report)) {
	props[id] = &propDef{id: id, rules: rules, thorough: thorough, levelRule: levelRule}
}

func main() {
	prop := flag.String("property", "", "property id (C01..C20)")
	tier := flag.String("tier", "quick", "quick|thorough")
	dir := flag.String("dir", "/repo", "repository working tree to analyse")
	verif := flag.String("verif", "/verif", "verif directory (evidence, KNOWN_FINDINGS.txt)")
	replay := flag.String("replay", "", "replay record to re-evaluate")
	list := flag.Bool("list", false, "list properties")
	flag.Parse()

	if *list {
		ids := []string{}
		for id := range props {
			ids = append(ids, id)
		}
		sort.Strings(ids)
		for _, id := range ids {
			fmt.Println(id)
		}
		return
	}
	replayKey := ""
	if *replay != "" {
		data, err := os.ReadFile(*replay)
		if err != nil {
			fmt.Println("cannot read replay record:", err)
			os.Exit(2)
		}
		var rec struct{ Property, Key string }
		if err := json.Unmarshal(data, &rec); err != nil {
			fmt.Println("bad replay record:", err)
			os.Exit(2)
		}
		*prop, replayKey = rec.Property, rec.Key
	}
	pd := props[*prop]
	if pd == nil {
		fmt.Printf("unknown property %q\n", *prop)
		os.Exit(2)
	}
	if env := os.Getenv("VERIF_TIER"); env != "" && *tier == "" {
		*tier = env
	}
	seed, _ := strconv.ParseInt(os.Getenv("VERIF_SEED"), 10, 64)
	start := time.Now()
	r := newReport(*prop, *tier)
	code := run(pd, r, *dir, *tier)
	_ = code
	os.Exit(r.finish(*verif, seed, start, "other", pd.levelRule, replayKey))
}

// run evaluates the property's rules; any panic of the analyser is an UNDECIDED obligation.
func run(pd *propDef, r *Report, dir, tier string) (code int) {
	defer func() {
		if e := recover(); e != nil {
			r.undecided("ANALYSER", "panic", "", "", fmt.Sprintf("analyser panicked: %v\n%s", e, debug.Stack()))
		}
	}()
	c, err := load(dir, false, "", nil)
	if err != nil {
		r.undecided("LOAD", "load", "", "", err.Error())
		return 1
	}
	c.markRoles()
	r.Extra["packages"] = c.LoadNote
	r.Extra["configs"] = []string{"default (GOARCH of host), module packages without tests"}
	pd.rules(c, r)
	if tier == "thorough" {
		thoroughCommon(pd, c, r, dir)
	}
	return 0
}

// thoroughCommon re-runs the rules under a second configuration (GOARCH=386, tests included)
// and merges the obligations under a "386:" key prefix.
func thoroughCommon(pd *propDef, c *Ctx, r *Report, dir string) {
	if pd.thorough != nil {
		pd.thorough(c, r)
	}
	c2, err := load(dir, false, "386", nil)
	if err != nil {
		r.undecided("LOAD", "load-386", "", "", err.Error())
		return
	}
	c2.markRoles()
	r2 := newReport(r.Property, r.Tier)
	func() {
		defer func() {
			if e := recover(); e != nil {
				r.undecided("ANALYSER", "panic-386", "", "", fmt.Sprintf("analyser panicked under GOARCH=386: %v\n%s", e, debug.Stack()))
			}
		}()
		pd.rules(c2, r2)
	}()
	for _, o := range r2.Obs {
		o.Key = "386:" + o.Key
		r.Obs = append(r.Obs, o)
	}
	for f := range r2.Funcs {
		r.Funcs[f] = true
	}
	r.Extra["configs"] = []string{"default (GOARCH of host), module packages without tests", "GOARCH=386 CGO_ENABLED=0 (32-bit int)"}
}
