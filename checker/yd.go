package main

// E-YD — callback (yield) discipline on go/cfg, with own evaluation of the
// condition tree (go/cfg keeps `a && !f(x)` as one node).

import (
	"fmt"
	"go/ast"
	"go/token"
	"go/types"
	"sort"
	"strings"

	"golang.org/x/tools/go/cfg"
	"golang.org/x/tools/go/packages"
	"golang.org/x/tools/go/types/typeutil"
)

// astFunc is a function declaration or literal with a stable, line-free name.
type astFunc struct {
	pkg  *packages.Package
	name string // rel/pkg.(*T).m or ...$1$2 for literals
	typ  *ast.FuncType
	body *ast.BlockStmt
	node ast.Node
	decl *ast.FuncDecl // enclosing declaration
}

func declName(p *packages.Package, d *ast.FuncDecl) string {
	pk := relPkg(p.PkgPath)
	if d.Recv != nil && len(d.Recv.List) == 1 {
		t := d.Recv.List[0].Type
		star := false
		if s, ok := t.(*ast.StarExpr); ok {
			star = true
			t = s.X
		}
		if ix, ok := t.(*ast.IndexExpr); ok {
			t = ix.X
		}
		if id, ok := t.(*ast.Ident); ok {
			if star {
				return fmt.Sprintf("%s.(*%s).%s", pk, id.Name, d.Name.Name)
			}
			return fmt.Sprintf("%s.%s.%s", pk, id.Name, d.Name.Name)
		}
	}
	return pk + "." + d.Name.Name
}

// astFuncs lists all function declarations and literals of a package (non-test files).
func astFuncs(p *packages.Package) []*astFunc {
	var out []*astFunc
	for _, f := range p.Syntax {
		if strings.HasSuffix(p.Fset.Position(f.Pos()).Filename, "_test.go") {
			continue
		}
		for _, d := range f.Decls {
			fd, ok := d.(*ast.FuncDecl)
			if !ok || fd.Body == nil {
				continue
			}
			top := &astFunc{pkg: p, name: declName(p, fd), typ: fd.Type, body: fd.Body, node: fd, decl: fd}
			out = append(out, top)
			var walk func(parent *astFunc, n ast.Node)
			walk = func(parent *astFunc, n ast.Node) {
				k := 0
				ast.Inspect(n, func(m ast.Node) bool {
					if m == n {
						return true
					}
					if fl, ok := m.(*ast.FuncLit); ok {
						k++
						child := &astFunc{pkg: p, name: fmt.Sprintf("%s$%d", parent.name, k), typ: fl.Type, body: fl.Body, node: fl, decl: fd}
						out = append(out, child)
						walk(child, fl.Body)
						return false
					}
					return true
				})
			}
			walk(top, fd.Body)
		}
	}
	return out
}

// boolCallbacks returns the parameters of type func(...) bool.
func boolCallbacks(f *astFunc) []*types.Var {
	var cbs []*types.Var
	if f.typ.Params == nil {
		return nil
	}
	for _, fld := range f.typ.Params.List {
		for _, nm := range fld.Names {
			v, _ := f.pkg.TypesInfo.Defs[nm].(*types.Var)
			if v == nil {
				continue
			}
			sig, ok := v.Type().Underlying().(*types.Signature)
			if ok && sig.Results().Len() == 1 && types.Identical(sig.Results().At(0).Type(), types.Typ[types.Bool]) {
				cbs = append(cbs, v)
			}
		}
	}
	return cbs
}

func mayReturn(info *types.Info) func(*ast.CallExpr) bool {
	return func(call *ast.CallExpr) bool {
		if id, ok := ast.Unparen(call.Fun).(*ast.Ident); ok {
			if b, ok := info.Uses[id].(*types.Builtin); ok && b.Name() == "panic" {
				return false
			}
		}
		return true
	}
}

type cbSite struct {
	call  *ast.CallExpr
	block *cfg.Block
	idx   int
	// delegation: the callback is handed to a module function (or captured by a literal handed to an iterator)
	deleg    bool
	terminal bool   // the caller cannot tell from the call's value whether the consumer stopped
	what     string // description of the delegate
}

type ydFunc struct {
	f      *astFunc
	cb     *types.Var
	g      *cfg.CFG
	sites  []*cbSite
	delegs []*cbSite // calls that hand the callback on (see buildYD)
	lits   []*ydFunc // literals that capture the callback and are handed to an iterator: disciplines of their own
	escape []string  // uses of cb other than as callee or delegate
}

// ydDecls indexes the module's function declarations by their object (filled by allYD).
var ydDecls = map[types.Object]*astFunc{}

// siteStop: for a delegate call whose bool result tells whether the consumer stopped, the value(s) it has then.
var siteStop = map[*ast.CallExpr]int{}

// paramVar returns the i-th parameter variable of a declared function.
func paramVar(f *astFunc, i int) *types.Var {
	if f.typ.Params == nil {
		return nil
	}
	k := 0
	for _, fld := range f.typ.Params.List {
		if len(fld.Names) == 0 {
			k++
			continue
		}
		for _, nm := range fld.Names {
			if k == i {
				v, _ := f.pkg.TypesInfo.Defs[nm].(*types.Var)
				return v
			}
			k++
		}
	}
	return nil
}

// soleBoolResult: the function type has exactly one result and it is bool.
func soleBoolResult(f *astFunc) bool {
	if f.typ.Results == nil || len(f.typ.Results.List) != 1 || len(f.typ.Results.List[0].Names) > 1 {
		return false
	}
	t := f.pkg.TypesInfo.TypeOf(f.typ.Results.List[0].Type)
	return t != nil && types.Identical(t, types.Typ[types.Bool])
}

// ydSummary: the values g's bool result can have on return after its callback cb returned false (bits mayT/mayF);
// ok is false when that cannot be told (no sole bool result, the callback escapes, a bare return, depth).
func ydSummary(g *astFunc, cb *types.Var, depth int) (int, bool) {
	if depth > 3 || !soleBoolResult(g) {
		return 0, false
	}
	y := buildYDd(g, cb, depth+1)
	if len(y.escape) > 0 {
		return 0, false
	}
	info := g.pkg.TypesInfo
	constBool := func(ret *ast.ReturnStmt) int {
		if len(ret.Results) == 1 {
			if id, ok := ast.Unparen(ret.Results[0]).(*ast.Ident); ok {
				if c, ok := info.Uses[id].(*types.Const); ok && c.Pkg() == nil {
					if id.Name == "true" {
						return mayT
					}
					if id.Name == "false" {
						return mayF
					}
				}
			}
		}
		return mayT | mayF
	}
	bits := 0
	for _, s := range append(append([]*cbSite{}, y.sites...), y.delegs...) {
		if s.terminal {
			return 0, false
		}
		if ret, ok := s.block.Nodes[s.idx].(*ast.ReturnStmt); ok {
			if len(ret.Results) != 1 {
				return 0, false
			}
			o, has := condOutcomes(ret.Results[0], s.call)
			if !has {
				o = mayT | mayF
			}
			bits |= o
			continue
		}
		succs, rest, _ := y.falsySuccs(s)
		returned := false
		if rest {
			for _, nd := range s.block.Nodes[s.idx+1:] {
				if ret, ok := nd.(*ast.ReturnStmt); ok {
					bits |= constBool(ret)
					returned = true
					break
				}
			}
		}
		if returned {
			continue
		}
		for b := range reachable(succs) {
			for _, nd := range b.Nodes {
				if ret, ok := nd.(*ast.ReturnStmt); ok {
					bits |= constBool(ret)
				}
			}
		}
	}
	return bits, true
}

// inspectNoLit walks n without descending into function literals.
func inspectNoLit(n ast.Node, fn func(ast.Node) bool) {
	ast.Inspect(n, func(m ast.Node) bool {
		if _, ok := m.(*ast.FuncLit); ok && m != n {
			return false
		}
		return fn(m)
	})
}

func buildYD(f *astFunc, cb *types.Var) *ydFunc { return buildYDd(f, cb, 0) }

func buildYDd(f *astFunc, cb *types.Var, depth int) *ydFunc {
	info := f.pkg.TypesInfo
	y := &ydFunc{f: f, cb: cb, g: cfg.New(f.body, mayReturn(info))}
	callee := map[*ast.Ident]bool{}
	nLit := 0
	for _, b := range y.g.Blocks {
		if !b.Live {
			continue
		}
		for i, nd := range b.Nodes {
			inspectNoLit(nd, func(m ast.Node) bool {
				c, ok := m.(*ast.CallExpr)
				if !ok {
					return true
				}
				if id, ok := ast.Unparen(c.Fun).(*ast.Ident); ok && info.Uses[id] == cb {
					y.sites = append(y.sites, &cbSite{call: c, block: b, idx: i})
					callee[id] = true
					return true
				}
				for ai, a := range c.Args {
					// (1) the callback handed to a declared module function: g(..., cb, ...)
					if id, ok := ast.Unparen(a).(*ast.Ident); ok && info.Uses[id] == cb {
						fo, _ := typeutil.Callee(info, c).(*types.Func)
						g := ydDecls[fo]
						if fo == nil && len(c.Args) == 1 {
							// handed as it is to an iterator value — seq(yield): the iterator makes the callback calls and
							// stops when told to; nothing may follow the call here
							if sig, ok := info.TypeOf(c.Fun).Underlying().(*types.Signature); ok && sig.Params().Len() == 1 && sig.Results().Len() == 0 {
								y.delegs = append(y.delegs, &cbSite{call: c, block: b, idx: i, deleg: true, terminal: true, what: "iterator value called with the callback itself"})
								callee[id] = true
								continue
							}
						}
						if fo == nil || g == nil || g == f {
							continue
						}
						pv := paramVar(g, ai)
						if pv == nil {
							continue
						}
						s := &cbSite{call: c, block: b, idx: i, deleg: true, what: g.name}
						bits, ok := ydSummary(g, pv, depth)
						switch {
						case ok && bits == 0:
							// the callee never calls it on a path that returns: nothing to stop
						case ok && (bits == mayT || bits == mayF):
							siteStop[c] = bits
						default:
							s.terminal = true
						}
						if !(ok && bits == 0) {
							y.delegs = append(y.delegs, s)
						}
						callee[id] = true
					}
					// (2) a literal that captures the callback, handed to an iterator (or any callee): seq(func(…) bool {…})
					if lit, ok := ast.Unparen(a).(*ast.FuncLit); ok {
						uses := false
						ast.Inspect(lit.Body, func(x ast.Node) bool {
							if id, ok := x.(*ast.Ident); ok && info.Uses[id] == cb {
								uses = true
							}
							return !uses
						})
						if !uses {
							continue
						}
						nLit++
						lf := &astFunc{pkg: f.pkg, name: fmt.Sprintf("%s$lit%d", f.name, nLit), typ: lit.Type, body: lit.Body, node: lit, decl: f.decl}
						bits, ok := ydSummary(lf, cb, depth)
						if !ok || bits&mayT != 0 {
							continue // not a loop-body literal that answers false once stopped: stays an escape
						}
						ly := buildYDd(lf, cb, depth+1)
						y.lits = append(y.lits, ly)
						y.delegs = append(y.delegs, &cbSite{call: c, block: b, idx: i, deleg: true, terminal: true, what: "iterator call with a literal that passes the stop on"})
						ast.Inspect(lit.Body, func(x ast.Node) bool {
							if id, ok := x.(*ast.Ident); ok && info.Uses[id] == cb {
								callee[id] = true
							}
							return true
						})
					}
				}
				return true
			})
		}
	}
	// any other use of cb (including inside nested literals) is an escape
	ast.Inspect(f.body, func(m ast.Node) bool {
		if id, ok := m.(*ast.Ident); ok && info.Uses[id] == cb && !callee[id] {
			y.escape = append(y.escape, f.pkg.Fset.Position(id.Pos()).String())
		}
		return true
	})
	return y
}

// outcomes: bit 1 = may be true, bit 2 = may be false.
const (
	mayT = 1
	mayF = 2
)

// condOutcomes evaluates e under "target returned false and target was evaluated".
// Returns the possible outcomes of e and whether target occurs in e.
func condOutcomes(e ast.Expr, target *ast.CallExpr) (int, bool) {
	switch x := e.(type) {
	case *ast.ParenExpr:
		return condOutcomes(x.X, target)
	case *ast.CallExpr:
		if x == target {
			if v, ok := siteStop[x]; ok {
				return v, true
			}
			return mayF, true
		}
	case *ast.UnaryExpr:
		if x.Op == token.NOT {
			o, has := condOutcomes(x.X, target)
			if !has {
				return mayT | mayF, false
			}
			n := 0
			if o&mayT != 0 {
				n |= mayF
			}
			if o&mayF != 0 {
				n |= mayT
			}
			return n, true
		}
	case *ast.BinaryExpr:
		if x.Op == token.LAND || x.Op == token.LOR {
			lo, lhas := condOutcomes(x.X, target)
			ro, rhas := condOutcomes(x.Y, target)
			switch {
			case rhas && !lhas:
				// target in the right operand was evaluated: left was true (&&) / false (||)
				return ro, true
			case lhas:
				res := 0
				if x.Op == token.LAND {
					if lo&mayF != 0 {
						res |= mayF
					}
					if lo&mayT != 0 {
						res |= mayT | mayF
					}
				} else {
					if lo&mayT != 0 {
						res |= mayT
					}
					if lo&mayF != 0 {
						res |= mayT | mayF
					}
				}
				return res, true
			}
			return mayT | mayF, false
		}
	}
	has := false
	ast.Inspect(e, func(m ast.Node) bool {
		if m == ast.Node(target) {
			has = true
		}
		return !has
	})
	return mayT | mayF, has
}

// falsySuccs returns the CFG successors that may be taken after site s returned false,
// and whether later nodes of the same block are executed too.
func (y *ydFunc) falsySuccs(s *cbSite) (succs []*cfg.Block, restOfBlock bool, kind string) {
	b := s.block
	last := s.idx == len(b.Nodes)-1
	if last && len(b.Succs) == 2 {
		if e, ok := b.Nodes[s.idx].(ast.Expr); ok {
			o, has := condOutcomes(e, s.call)
			if has {
				if o&mayT != 0 {
					succs = append(succs, b.Succs[0])
				}
				if o&mayF != 0 {
					succs = append(succs, b.Succs[1])
				}
				return succs, false, "cond"
			}
		}
	}
	return b.Succs, true, "stmt"
}

func reachable(from []*cfg.Block) map[*cfg.Block]bool {
	seen := map[*cfg.Block]bool{}
	var dfs func(b *cfg.Block)
	dfs = func(b *cfg.Block) {
		if seen[b] {
			return
		}
		seen[b] = true
		for _, s := range b.Succs {
			dfs(s)
		}
	}
	for _, b := range from {
		dfs(b)
	}
	return seen
}

// siteDesc renders a call site without positions: call#k yield(args)
func (y *ydFunc) siteDesc(s *cbSite) string {
	if s.deleg {
		k := 0
		for i, t := range y.delegs {
			if t == s {
				k = i + 1
			}
		}
		return fmt.Sprintf("delegate#%d %s", k, s.what)
	}
	k := 0
	for i, t := range y.sites {
		if t == s {
			k = i + 1
		}
	}
	args := []string{}
	for _, a := range s.call.Args {
		args = append(args, types.ExprString(a))
	}
	return fmt.Sprintf("call#%d %s(%s)", k, y.cb.Name(), strings.Join(args, ","))
}

// ruleYD1: no callback call reachable after a false return.
func (y *ydFunc) ruleYD1(c *Ctx, r *Report, rule string) {
	fset := y.f.pkg.Fset
	sort.Slice(y.sites, func(i, j int) bool { return y.sites[i].call.Pos() < y.sites[j].call.Pos() })
	siteIn := map[*cfg.Block][]*cbSite{}
	all := append(append([]*cbSite{}, y.sites...), y.delegs...)
	sort.Slice(all, func(i, j int) bool { return all[i].call.Pos() < all[j].call.Pos() })
	for _, s := range all {
		siteIn[s.block] = append(siteIn[s.block], s)
	}
	for _, e := range y.escape {
		r.undecided(rule, y.f.name, "escape "+y.cb.Name(), e, "callback parameter is used other than as a callee (passed on, stored or captured); the discipline cannot be decided on this function alone")
	}
	for _, ly := range y.lits {
		ly.ruleYD1(c, r, rule)
	}
	for _, s := range all {
		r.CallSites++
		succs, rest, kind := y.falsySuccs(s)
		if s.terminal {
			// whether the consumer stopped inside the delegate is not visible here: nothing may follow it
			succs, rest, kind = s.block.Succs, true, "delegate"
		}
		var offender *cbSite
		if rest {
			for _, t := range siteIn[s.block] {
				if t.idx > s.idx {
					offender = t
				}
			}
		}
		// the result kept in a variable (`more = yield(x)`, then `for more && …`): follow only the successors that
		// are possible while the variable still holds the value it got from a false result
		if offender == nil && kind == "stmt" && !s.terminal {
			if obj, val, ok := y.resultVar(s); ok {
				off, decided := y.reachWithFlag(s, obj, val, siteIn)
				if decided {
					pos := c.pos(s.call.Pos())
					if off == nil {
						r.holds(rule, y.f.name, y.siteDesc(s), pos, "the result is kept in a variable; no callback call is reachable while that variable holds the value of a false result (flag form)")
					} else {
						r.violated(rule, y.f.name, y.siteDesc(s), pos, fmt.Sprintf("after this call returns false (flag form) the callback call at %s is reachable", c.pos(off.call.Pos())))
					}
					continue
				}
			}
		}
		if offender == nil {
			reach := reachable(succs)
			// `for err == nil && yield(x) { … }`: when the call was evaluated the operands to its left were true;
			// a later test of the same variable, with no assignment to it in between, can only go one way
			if facts := y.leftFacts(s); len(facts) > 0 && kind == "cond" {
				reach = y.reachableUnder(succs, facts)
			}
			for b := range reach {
				if len(siteIn[b]) > 0 {
					if offender == nil || siteIn[b][0].call.Pos() < offender.call.Pos() {
						offender = siteIn[b][0]
					}
				}
			}
		}
		pos := c.pos(s.call.Pos())
		_ = fset
		if offender == nil {
			r.holds(rule, y.f.name, y.siteDesc(s), pos, fmt.Sprintf("no callback call is reachable from the false-result successors (%s form, %d successor(s))", kind, len(succs)))
		} else {
			r.violated(rule, y.f.name, y.siteDesc(s), pos, fmt.Sprintf("after this call returns false (%s form) the callback call at %s is reachable", kind, c.pos(offender.call.Pos())))
		}
	}
}

// allYD builds the yield-discipline view of every function with a called bool callback.
func allYD(pkgs []*packages.Package) []*ydFunc {
	var out []*ydFunc
	for _, p := range pkgs {
		for _, f := range astFuncs(p) {
			if fd, ok := f.node.(*ast.FuncDecl); ok {
				if o := p.TypesInfo.Defs[fd.Name]; o != nil {
					ydDecls[o] = f
				}
			}
		}
	}
	for _, p := range pkgs {
		for _, f := range astFuncs(p) {
			for _, cb := range boolCallbacks(f) {
				y := buildYD(f, cb)
				if len(y.sites) == 0 && len(y.escape) == 0 && len(y.delegs) == 0 {
					continue
				}
				out = append(out, y)
			}
		}
	}
	return out
}

// enclosingRangeVars returns the objects that are the key/value variables of
// range-over-func statements in f (pass-through items).
func rangeFuncVars(f *astFunc) map[types.Object]*ast.RangeStmt {
	out := map[types.Object]*ast.RangeStmt{}
	info := f.pkg.TypesInfo
	inspectNoLit(f.body, func(n ast.Node) bool {
		rs, ok := n.(*ast.RangeStmt)
		if !ok {
			return true
		}
		if _, ok := info.TypeOf(rs.X).Underlying().(*types.Signature); !ok {
			return true
		}
		for _, e := range []ast.Expr{rs.Key, rs.Value} {
			if id, ok := e.(*ast.Ident); ok {
				if o := info.Defs[id]; o != nil {
					out[o] = rs
				} else if o := info.Uses[id]; o != nil {
					out[o] = rs
				}
			}
		}
		return true
	})
	return out
}

// errArg returns the last argument of a callback call if the callback's last parameter is error.
func (y *ydFunc) errArg(s *cbSite) ast.Expr {
	sig := y.cb.Type().Underlying().(*types.Signature)
	n := sig.Params().Len()
	if n == 0 || len(s.call.Args) != n {
		return nil
	}
	if !types.Identical(sig.Params().At(n-1).Type(), types.Universe.Lookup("error").Type()) {
		return nil
	}
	return s.call.Args[n-1]
}

func isNilIdent(info *types.Info, e ast.Expr) bool {
	id, ok := ast.Unparen(e).(*ast.Ident)
	if !ok {
		return false
	}
	_, isNil := info.Uses[id].(*types.Nil)
	return isNil
}

// defsOf collects the right-hand sides assigned to obj anywhere in f (multi-value calls give the call).
func defsOf(f *astFunc, obj types.Object) []ast.Expr {
	info := f.pkg.TypesInfo
	var out []ast.Expr
	ast.Inspect(f.body, func(n ast.Node) bool {
		switch s := n.(type) {
		case *ast.AssignStmt:
			for i, l := range s.Lhs {
				id, ok := l.(*ast.Ident)
				if !ok {
					continue
				}
				if info.Defs[id] != obj && info.Uses[id] != obj {
					continue
				}
				if len(s.Rhs) == len(s.Lhs) {
					out = append(out, s.Rhs[i])
				} else if len(s.Rhs) == 1 {
					out = append(out, s.Rhs[0])
				}
			}
		case *ast.ValueSpec:
			for i, id := range s.Names {
				if info.Defs[id] != obj {
					continue
				}
				if len(s.Values) == len(s.Names) {
					out = append(out, s.Values[i])
				} else if len(s.Values) == 1 {
					out = append(out, s.Values[0])
				} else {
					out = append(out, nil) // zero value
				}
			}
		}
		return true
	})
	return out
}

// ruleYD2: an error item is the last item: after a callback call whose error
// argument is neither nil nor a pass-through range variable, no callback call is reachable.
// filter (optional) restricts which error arguments count.
func (y *ydFunc) ruleYD2(c *Ctx, r *Report, rule string, filter func(arg ast.Expr) (bool, string)) int {
	info := y.f.pkg.TypesInfo
	passthru := rangeFuncVars(y.f)
	siteIn := map[*cfg.Block][]*cbSite{}
	for _, s := range y.sites {
		siteIn[s.block] = append(siteIn[s.block], s)
	}
	n := 0
	for _, s := range y.sites {
		arg := y.errArg(s)
		if arg == nil || isNilIdent(info, arg) {
			continue
		}
		if id, ok := ast.Unparen(arg).(*ast.Ident); ok {
			if _, ok := passthru[info.Uses[id]]; ok {
				continue // the inner layer is its own instance
			}
		}
		why := "error argument " + types.ExprString(arg)
		if filter != nil {
			ok, w := filter(arg)
			if !ok {
				continue
			}
			why = w
		}
		n++
		var offender *cbSite
		for _, t := range siteIn[s.block] {
			if t.idx > s.idx {
				offender = t
			}
		}
		if offender == nil {
			for b := range reachable(s.block.Succs) {
				if len(siteIn[b]) > 0 {
					offender = siteIn[b][0]
				}
			}
		}
		if offender == nil {
			r.holds(rule, y.f.name, y.siteDesc(s), c.pos(s.call.Pos()), "no callback call is reachable after this error item ("+why+")")
		} else {
			r.violated(rule, y.f.name, y.siteDesc(s), c.pos(s.call.Pos()), fmt.Sprintf("after this error item (%s) the callback call at %s is reachable: the error is not the last item", why, c.pos(offender.call.Pos())))
		}
	}
	return n
}

// calleeOfExpr resolves the called function object of a call expression.
func calleeOfExpr(info *types.Info, e ast.Expr) *types.Func {
	call, ok := ast.Unparen(e).(*ast.CallExpr)
	if !ok {
		return nil
	}
	f, _ := typeutil.Callee(info, call).(*types.Func)
	return f
}

// rulePassAll: an iterator layer hands on every item it obtains — no path from obtaining an item
// (a call of the package's read method, or the head of a range-over-func loop) back to obtaining the
// next one without a callback call in between.
func rulePassAll(c *Ctx, r *Report, y *ydFunc, rule string) int {
	info := y.f.pkg.TypesInfo
	n := 0
	delegCall := map[*ast.CallExpr]bool{}
	for _, d := range y.delegs {
		delegCall[d.call] = true
	}
	isYield := func(nd ast.Node) bool {
		has := false
		inspectNoLit(nd, func(m ast.Node) bool {
			if call, ok := m.(*ast.CallExpr); ok {
				if id, ok := ast.Unparen(call.Fun).(*ast.Ident); ok && info.Uses[id] == y.cb {
					has = true
				}
				if delegCall[call] {
					has = true // the item handed, with the callback, to a function that yields it
				}
			}
			return true
		})
		return has
	}
	// (1) explicit loops around a read() call
	var readBlocks, yieldBlocks []*cfg.Block
	for _, b := range y.g.Blocks {
		for _, nd := range b.Nodes {
			if isYield(nd) {
				yieldBlocks = append(yieldBlocks, b)
			}
			inspectNoLit(nd, func(m ast.Node) bool {
				if call, ok := m.(*ast.CallExpr); ok {
					if fo := calleeOfExpr(info, call); fo != nil && fo.Pkg() == y.f.pkg.Types && isRecordReader(fo) {
						readBlocks = append(readBlocks, b)
					}
				}
				return true
			})
		}
	}
	for _, rb := range readBlocks {
		n++
		av := map[*cfg.Block]bool{}
		for _, yb := range yieldBlocks {
			av[yb] = true
		}
		seen := map[*cfg.Block]bool{}
		loops := false
		// the record handed on later in the read's own block: nothing can come between
		readIdx, yieldIdx := -1, -1
		for i, nd := range rb.Nodes {
			isRead := false
			inspectNoLit(nd, func(m ast.Node) bool {
				if call, ok := m.(*ast.CallExpr); ok {
					if fo := calleeOfExpr(info, call); fo != nil && fo.Pkg() == y.f.pkg.Types && isRecordReader(fo) {
						isRead = true
					}
				}
				return true
			})
			if isRead && readIdx < 0 {
				readIdx = i
			}
			if isYield(nd) && i > readIdx && readIdx >= 0 && yieldIdx < 0 {
				yieldIdx = i
			}
		}
		if yieldIdx > readIdx && readIdx >= 0 {
			r.holds(rule, y.f.name, "every record read is yielded", c.pos(rb.Nodes[readIdx].Pos()), "the record is handed on in the block that read it: every decoded record (or its error) reaches the consumer")
			continue
		}
		var dfs func(b *cfg.Block)
		dfs = func(b *cfg.Block) {
			if seen[b] || av[b] {
				return
			}
			seen[b] = true
			for _, s := range b.Succs {
				if s == rb {
					loops = true
				}
				dfs(s)
			}
		}
		for _, s := range rb.Succs {
			if s == rb {
				loops = true
			}
			dfs(s)
		}
		pos := ""
		if len(rb.Nodes) > 0 {
			pos = c.pos(rb.Nodes[0].Pos())
		}
		r.check(!loops, rule, y.f.name, "every record read is yielded", pos,
			"no path leads from one read() to the next without a callback call: every decoded record (or its error) reaches the consumer",
			"a path leads from one read() to the next without a callback call: some decoded records are silently dropped")
	}
	// (2) range-over-func loops: each iteration yields exactly the range variables
	for _, rs := range rangeFuncLoops(y.f) {
		n++
		kObj, vObj := identObj(info, rs.Key), identObj(info, rs.Value)
		nY, okArgs := 0, true
		ast.Inspect(rs.Body, func(nd ast.Node) bool {
			call, ok := nd.(*ast.CallExpr)
			if !ok {
				return true
			}
			if id, ok := ast.Unparen(call.Fun).(*ast.Ident); !ok || info.Uses[id] != y.cb {
				return true
			}
			nY++
			want := []types.Object{kObj, vObj}
			if rs.Value == nil {
				want = want[:1]
			}
			if len(call.Args) != len(want) {
				okArgs = false
				return true
			}
			for i, a := range call.Args {
				if identObj(info, a) != want[i] || want[i] == nil {
					okArgs = false
				}
			}
			return true
		})
		bodyG := cfg.New(rs.Body, mayReturn(info))
		var yb []*cfg.Block
		for _, b := range bodyG.Blocks {
			for _, nd := range b.Nodes {
				if isYield(nd) {
					yb = append(yb, b)
				}
			}
		}
		skip := len(bodyG.Blocks) > 0 && cfgReachExitAvoiding(bodyG.Blocks[0], yb)
		r.check(nY >= 1 && okArgs && !skip, rule, y.f.name, "range loop passes items through", c.pos(rs.Pos()),
			"every iteration hands exactly the inner iterator's values to the consumer",
			fmt.Sprintf("the pass-through loop alters or drops items (yield calls: %d, arguments are the range variables: %v, an iteration can skip the yield: %v)", nY, okArgs, skip))
	}
	return n
}

func rangeFuncLoops(f *astFunc) []*ast.RangeStmt {
	var out []*ast.RangeStmt
	info := f.pkg.TypesInfo
	inspectNoLit(f.body, func(n ast.Node) bool {
		if rs, ok := n.(*ast.RangeStmt); ok {
			if _, ok := info.TypeOf(rs.X).Underlying().(*types.Signature); ok {
				out = append(out, rs)
			}
		}
		return true
	})
	return out
}

// rulesPassAllFor applies PASS-ALL to every iterator literal of one package (whatever it is called).
func rulesPassAllFor(c *Ctx, r *Report, rel string, floor int) {
	n := 0
	for _, y := range allYD(c.Pkgs) {
		if relPkg(y.f.pkg.PkgPath) != rel {
			continue
		}
		r.analysed(y.f.name)
		n += rulePassAll(c, r, y, "PASS-ALL")
		// a literal handed to an iterator as its loop body obtains one item per call: it must hand it on
		for _, ly := range y.lits {
			var sb []*cfg.Block
			for _, s := range append(append([]*cbSite{}, ly.sites...), ly.delegs...) {
				sb = append(sb, s.block)
			}
			if len(ly.g.Blocks) == 0 {
				continue
			}
			n++
			r.check(!cfgReachExitAvoiding(ly.g.Blocks[0], sb), "PASS-ALL", ly.f.name, "every item received is yielded", c.pos(ly.f.node.Pos()),
				"every path through the loop body passes a callback call: each item of the inner iterator is handed on", "a path through the loop body returns without a callback call: some items are silently dropped")
		}
	}
	r.floor("PASS-ALL", n, floor, "iterator layers between read() and the consumer in "+rel)
}

// condOutcomesTrue evaluates a condition node under "target returned true and was evaluated".
func condOutcomesTrue(n ast.Node, target *ast.CallExpr) (int, bool) {
	e, ok := n.(ast.Expr)
	if !ok {
		return mayT | mayF, false
	}
	o, has := condOutcomes(e, target) // outcomes under target == false
	if !has {
		return mayT | mayF, false
	}
	// for the shapes that occur (`!f(x)`, `f(x)`, `a && !f(x)`), flipping the target flips a determined outcome
	switch o {
	case mayT:
		return mayF, true
	case mayF:
		return mayT, true
	}
	return mayT | mayF, true
}

// containsStreamRead: the node calls a method from the stream source table.
func containsStreamRead(info *types.Info, n ast.Node) bool {
	found := false
	inspectNoLit(n, func(m ast.Node) bool {
		if call, ok := m.(*ast.CallExpr); ok {
			if fo := calleeOfExpr(info, call); fo != nil {
				if _, ok := streamSources[fo.FullName()]; ok {
					found = true
				}
				if extraStreamFunc != nil && extraStreamFunc(fo) {
					found = true // a helper of the module that reads the stream and hands its error on
				}
			}
		}
		return true
	})
	return found
}

// isRecordReader: a method of the package with no parameters returning (*Record, error) — the per-record
// decoder an iterator layer loops over (whatever it is called).
func isRecordReader(fo *types.Func) bool {
	sig := fo.Type().(*types.Signature)
	if sig.Recv() == nil || sig.Params().Len() != 0 || sig.Results().Len() != 2 {
		return false
	}
	if _, ok := sig.Results().At(0).Type().(*types.Pointer); !ok {
		return false
	}
	return types.Identical(sig.Results().At(1).Type(), types.Universe.Lookup("error").Type())
}

// resultVar: the site's statement assigns the callback's result (or its negation) to one variable; returns the
// variable and the value it holds after a false result.
func (y *ydFunc) resultVar(s *cbSite) (types.Object, bool, bool) {
	as, ok := s.block.Nodes[s.idx].(*ast.AssignStmt)
	if !ok || len(as.Lhs) != 1 || len(as.Rhs) != 1 {
		return nil, false, false
	}
	id, ok := ast.Unparen(as.Lhs[0]).(*ast.Ident)
	if !ok {
		return nil, false, false
	}
	info := y.f.pkg.TypesInfo
	obj := info.Defs[id]
	if obj == nil {
		obj = info.Uses[id]
	}
	if obj == nil {
		return nil, false, false
	}
	o, has := condOutcomes(as.Rhs[0], s.call)
	if !has || (o != mayT && o != mayF) {
		return nil, false, false
	}
	return obj, o == mayT, true
}

// flagOutcomes evaluates a condition in three-valued logic with the variable obj fixed to val.
func flagOutcomes(e ast.Expr, info *types.Info, obj types.Object, val bool) int {
	switch x := e.(type) {
	case *ast.ParenExpr:
		return flagOutcomes(x.X, info, obj, val)
	case *ast.Ident:
		if info.Uses[x] == obj {
			if val {
				return mayT
			}
			return mayF
		}
	case *ast.UnaryExpr:
		if x.Op == token.NOT {
			o := flagOutcomes(x.X, info, obj, val)
			n := 0
			if o&mayT != 0 {
				n |= mayF
			}
			if o&mayF != 0 {
				n |= mayT
			}
			return n
		}
	case *ast.BinaryExpr:
		if x.Op == token.LAND || x.Op == token.LOR {
			l, r := flagOutcomes(x.X, info, obj, val), flagOutcomes(x.Y, info, obj, val)
			res := 0
			if x.Op == token.LAND {
				if l&mayF != 0 || r&mayF != 0 {
					res |= mayF
				}
				if l&mayT != 0 && r&mayT != 0 {
					res |= mayT
				}
				// both false-only operands make true impossible
				if l == mayF || r == mayF {
					res = mayF
				}
			} else {
				if l&mayT != 0 || r&mayT != 0 {
					res |= mayT
				}
				if l&mayF != 0 && r&mayF != 0 {
					res |= mayF
				}
				if l == mayT || r == mayT {
					res = mayT
				}
			}
			return res
		}
	}
	return mayT | mayF
}

// reachWithFlag walks forward from just after the site while obj keeps val; a reassignment of obj ends the
// knowledge (all successors are then followed). Returns the first callback site reached.
func (y *ydFunc) reachWithFlag(s *cbSite, obj types.Object, val bool, siteIn map[*cfg.Block][]*cbSite) (*cbSite, bool) {
	info := y.f.pkg.TypesInfo
	assigns := func(n ast.Node) bool {
		found := false
		inspectNoLit(n, func(m ast.Node) bool {
			switch x := m.(type) {
			case *ast.AssignStmt:
				for _, l := range x.Lhs {
					if id, ok := ast.Unparen(l).(*ast.Ident); ok && (info.Uses[id] == obj || info.Defs[id] == obj) {
						found = true
					}
				}
			case *ast.IncDecStmt:
				if id, ok := ast.Unparen(x.X).(*ast.Ident); ok && info.Uses[id] == obj {
					found = true
				}
			case *ast.UnaryExpr:
				if x.Op == token.AND {
					if id, ok := ast.Unparen(x.X).(*ast.Ident); ok && info.Uses[id] == obj {
						found = true // address taken
					}
				}
			}
			return true
		})
		return found
	}
	type state struct {
		b     *cfg.Block
		known bool
	}
	seen := map[state]bool{}
	var offender *cbSite
	var walk func(b *cfg.Block, from int, known bool)
	walk = func(b *cfg.Block, from int, known bool) {
		for i := from; i < len(b.Nodes); i++ {
			for _, t := range siteIn[b] {
				if t.idx == i && (offender == nil || t.call.Pos() < offender.call.Pos()) {
					// the condition node itself may contain the call after the flag: `more && yield(x)` is pruned below
					if !(i == len(b.Nodes)-1 && known && len(b.Succs) == 2) {
						offender = t
					} else if e, ok := b.Nodes[i].(ast.Expr); ok {
						// evaluated only if the flag lets it: conservatively an offender unless the flag alone decides
						if o := flagOutcomes(e, info, obj, val); o == (mayT | mayF) {
							offender = t
						}
					}
				}
			}
			if assigns(b.Nodes[i]) && !(b == s.block && i == s.idx) {
				known = false
			}
		}
		succs := b.Succs
		if known && len(b.Succs) == 2 && len(b.Nodes) > 0 {
			if e, ok := b.Nodes[len(b.Nodes)-1].(ast.Expr); ok {
				o := flagOutcomes(e, info, obj, val)
				succs = nil
				if o&mayT != 0 {
					succs = append(succs, b.Succs[0])
				}
				if o&mayF != 0 {
					succs = append(succs, b.Succs[1])
				}
			}
		}
		for _, su := range succs {
			st := state{su, known}
			if !seen[st] {
				seen[st] = true
				walk(su, 0, known)
			}
		}
	}
	walk(s.block, s.idx+1, true)
	return offender, true
}

// nilFact: variable obj is (isNil) / is not nil.
type nilFact struct {
	obj   types.Object
	isNil bool
}

// nilTest: e is `x == nil` / `x != nil` for an identifier x.
func nilTest(info *types.Info, e ast.Expr) (types.Object, bool, bool) {
	be, ok := ast.Unparen(e).(*ast.BinaryExpr)
	if !ok || (be.Op != token.EQL && be.Op != token.NEQ) {
		return nil, false, false
	}
	var id *ast.Ident
	switch {
	case isNilIdent(info, be.Y):
		id, _ = ast.Unparen(be.X).(*ast.Ident)
	case isNilIdent(info, be.X):
		id, _ = ast.Unparen(be.Y).(*ast.Ident)
	}
	if id == nil || info.ObjectOf(id) == nil {
		return nil, false, false
	}
	return info.ObjectOf(id), be.Op == token.EQL, true
}

// leftFacts: the call site is the right-most operand chain of `a && b && call(...)` in a condition: the nil tests
// among the operands to its left held when it was evaluated.
func (y *ydFunc) leftFacts(s *cbSite) []nilFact {
	info := y.f.pkg.TypesInfo
	e, ok := s.block.Nodes[s.idx].(ast.Expr)
	if !ok {
		return nil
	}
	var out []nilFact
	var walk func(e ast.Expr) bool // returns whether the call is inside e
	walk = func(e ast.Expr) bool {
		e = ast.Unparen(e)
		if e == ast.Expr(s.call) {
			return true
		}
		if be, ok := e.(*ast.BinaryExpr); ok && be.Op == token.LAND {
			if walk(be.Y) {
				// be.X was true
				var conj func(x ast.Expr)
				conj = func(x ast.Expr) {
					x = ast.Unparen(x)
					if b2, ok := x.(*ast.BinaryExpr); ok && b2.Op == token.LAND {
						conj(b2.X)
						conj(b2.Y)
						return
					}
					if obj, isNil, ok := nilTest(info, x); ok {
						out = append(out, nilFact{obj, isNil})
					}
				}
				conj(be.X)
				return true
			}
			return walk(be.X)
		}
		return false
	}
	if !walk(e) {
		return nil
	}
	return out
}

// reachableUnder: blocks reachable from the given ones while the facts hold: a fact dies at an assignment to its
// variable (or when its address is taken); a condition that tests a live fact's variable against nil goes one way.
func (y *ydFunc) reachableUnder(from []*cfg.Block, facts []nilFact) map[*cfg.Block]bool {
	info := y.f.pkg.TypesInfo
	type state struct {
		b    *cfg.Block
		mask int
	}
	seen := map[state]bool{}
	out := map[*cfg.Block]bool{}
	kills := func(nd ast.Node, obj types.Object) bool {
		killed := false
		ast.Inspect(nd, func(m ast.Node) bool {
			switch x := m.(type) {
			case *ast.AssignStmt:
				for _, l := range x.Lhs {
					if id, ok := ast.Unparen(l).(*ast.Ident); ok && info.ObjectOf(id) == obj {
						killed = true
					}
				}
			case *ast.UnaryExpr:
				if x.Op == token.AND {
					if id, ok := ast.Unparen(x.X).(*ast.Ident); ok && info.ObjectOf(id) == obj {
						killed = true
					}
				}
			case *ast.RangeStmt:
				for _, l := range []ast.Expr{x.Key, x.Value} {
					if l != nil {
						if id, ok := ast.Unparen(l).(*ast.Ident); ok && info.ObjectOf(id) == obj {
							killed = true
						}
					}
				}
			case *ast.FuncLit:
				// a literal that mentions the variable may assign it
				ast.Inspect(x.Body, func(k ast.Node) bool {
					if id, ok := k.(*ast.Ident); ok && info.ObjectOf(id) == obj {
						killed = true
					}
					return true
				})
				return false
			}
			return true
		})
		return killed
	}
	var eval func(e ast.Expr, mask int) int
	eval = func(e ast.Expr, mask int) int {
		e = ast.Unparen(e)
		if obj, isNil, ok := nilTest(info, e); ok {
			for i, f := range facts {
				if mask&(1<<i) != 0 && f.obj == obj {
					if f.isNil == isNil {
						return mayT
					}
					return mayF
				}
			}
			return mayT | mayF
		}
		switch x := e.(type) {
		case *ast.UnaryExpr:
			if x.Op == token.NOT {
				o := eval(x.X, mask)
				n := 0
				if o&mayT != 0 {
					n |= mayF
				}
				if o&mayF != 0 {
					n |= mayT
				}
				return n
			}
		case *ast.BinaryExpr:
			if x.Op == token.LAND {
				l := eval(x.X, mask)
				if l == mayF {
					return mayF
				}
				r := eval(x.Y, mask)
				if l == mayT {
					return r
				}
				return r | mayF
			}
			if x.Op == token.LOR {
				l := eval(x.X, mask)
				if l == mayT {
					return mayT
				}
				r := eval(x.Y, mask)
				if l == mayF {
					return r
				}
				return r | mayT
			}
		}
		return mayT | mayF
	}
	var dfs func(b *cfg.Block, mask int)
	dfs = func(b *cfg.Block, mask int) {
		if seen[state{b, mask}] {
			return
		}
		seen[state{b, mask}] = true
		out[b] = true
		for _, nd := range b.Nodes {
			for i, f := range facts {
				if mask&(1<<i) != 0 && kills(nd, f.obj) {
					mask &^= 1 << i
				}
			}
		}
		if len(b.Succs) == 2 && len(b.Nodes) > 0 {
			if e, ok := b.Nodes[len(b.Nodes)-1].(ast.Expr); ok {
				o := eval(e, mask)
				if o&mayT != 0 {
					dfs(b.Succs[0], mask)
				}
				if o&mayF != 0 {
					dfs(b.Succs[1], mask)
				}
				return
			}
		}
		for _, su := range b.Succs {
			dfs(su, mask)
		}
	}
	for _, b := range from {
		dfs(b, 1<<len(facts)-1)
	}
	return out
}
