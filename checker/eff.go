package main

// E-EFF — effects, aliasing, freshness: a small inclusion-based points-to analysis,
// field-insensitive and flow-insensitive, per function family (a function with the closures it
// creates), with callee summaries computed on demand for module/gostuff functions.
// Abstract objects: PARAM(i) (everything reachable from reference-typed parameter i, closed under
// loads), LOCAL(site), GLOBAL(g). Write events are recorded on the objects an address may point to.

import (
	"fmt"
	"go/token"
	"go/types"
	"sort"
	"strings"

	"golang.org/x/tools/go/ssa"
)

type effKind int

const (
	okParam effKind = iota
	okLocal
	okGlobal
)

type effObj struct {
	kind  effKind
	idx   int
	site  ssa.Value
	label string
}

type effEvent struct {
	o    *effObj
	kind string // store, mapupdate, append, copy, delete, clear, "<kind> via callee", "write via std"
	ins  ssa.Instruction
	fn   *ssa.Function
}

type effSummary struct {
	writes  map[int][]effEvent
	gwrites []effEvent      // writes on GLOBAL objects
	ret     map[string]bool // fresh, nil, param:i, fresh-containing-param:i, global
	unknown []string
}

type effEngine struct {
	c          *Ctx
	summaries  map[*ssa.Function]*effSummary
	inProgress map[*ssa.Function]bool
}

func newEff(c *Ctx) *effEngine {
	return &effEngine{c: c, summaries: map[*ssa.Function]*effSummary{}, inProgress: map[*ssa.Function]bool{}}
}

func refType(t types.Type) bool {
	switch u := t.Underlying().(type) {
	case *types.Pointer, *types.Slice, *types.Map, *types.Chan, *types.Interface, *types.Signature:
		return true
	case *types.Struct:
		for i := 0; i < u.NumFields(); i++ {
			if refType(u.Field(i).Type()) {
				return true
			}
		}
	case *types.Array:
		return refType(u.Elem())
	case *types.Tuple:
		for i := 0; i < u.Len(); i++ {
			if refType(u.At(i).Type()) {
				return true
			}
		}
	}
	return false
}

func elemRef(t types.Type) bool {
	switch u := t.Underlying().(type) {
	case *types.Slice:
		return refType(u.Elem())
	case *types.Array:
		return refType(u.Elem())
	case *types.Map:
		return refType(u.Elem()) || refType(u.Key())
	case *types.Pointer:
		return refType(u.Elem())
	}
	return true
}

// standard-library summaries
var effPureStd = map[string]bool{
	"bytes.Compare": true, "bytes.Equal": true, "bytes.HasPrefix": true, "bytes.HasSuffix": true, "bytes.Contains": true, "bytes.IndexByte": true,
	"fmt.Sprintf": true, "fmt.Sprint": true, "fmt.Sprintln": true, "fmt.Errorf": true, "fmt.Fprintf": true, "fmt.Fprintln": true, "fmt.Fprint": true,
	"sort.Search": true, "sort.SearchInts": true, "encoding/json.Marshal": true, "errors.New": true,
	"(*strings.Builder).Grow": true, "(*strings.Builder).WriteByte": true, "(*strings.Builder).WriteString": true, "(*strings.Builder).String": true, "(*strings.Builder).Len": true,
	"(*bytes.Buffer).WriteByte": true, "(*bytes.Buffer).WriteString": true, "(*bytes.Buffer).Write": true, "(*bytes.Buffer).String": true, "(*bytes.Buffer).Len": true,
	"(*regexp.Regexp).FindAllString": true, "regexp.MustCompile": true, "math.Log": true, "math.IsNaN": true,
	"slices.Equal": true, "slices.Contains": true, "slices.Index": true, "reflect.DeepEqual": true,
}
var effFreshStd = map[string]bool{"bytes.ToUpper": true, "bytes.ToLower": true, "slices.Clone": true, "bytes.Clone": true, "bytes.Repeat": true, "bytes.NewBuffer": true}
var effWritesArg0 = map[string]bool{"sort.Slice": true, "sort.SliceStable": true, "sort.Ints": true, "sort.Strings": true, "sort.Float64s": true, "slices.Sort": true, "slices.SortFunc": true, "slices.Reverse": true, "sort.Sort": true, "sort.Stable": true,
	"encoding/json.Unmarshal#1": true}

// interface methods that only read their arguments
var effInvokeReadOnly = map[string]bool{
	"hash.Hash64.Write": true, "hash.Hash64.Reset": true, "hash.Hash64.Sum64": true, "hash.Hash.Write": true, "io.Writer.Write": true, "error.Error": true,
	"fmt.Stringer.String": true,
}

type effAnalysis struct {
	e        *effEngine
	root     *ssa.Function
	fns      []*ssa.Function
	pts      map[ssa.Value]map[*effObj]bool
	contents map[*effObj]map[*effObj]bool
	params   map[int]*effObj
	locals   map[ssa.Value]*effObj
	globals  map[ssa.Value]*effObj
	events   map[string]effEvent
	unknown  map[string]bool
	changed  bool
	freeBind map[*ssa.FreeVar]ssa.Value
	nilRet   bool
	inlined  map[*ssa.Function]bool
}

func (a *effAnalysis) local(v ssa.Value, label string) *effObj {
	if o, ok := a.locals[v]; ok {
		return o
	}
	o := &effObj{kind: okLocal, site: v, label: label}
	a.locals[v] = o
	return o
}

func (a *effAnalysis) global(g *ssa.Global) *effObj {
	o := a.globals[g]
	if o == nil {
		o = &effObj{kind: okGlobal, site: g, label: g.Name()}
		a.globals[g] = o
	}
	return o
}

func (a *effAnalysis) add(v ssa.Value, o *effObj) {
	m := a.pts[v]
	if m == nil {
		m = map[*effObj]bool{}
		a.pts[v] = m
	}
	if !m[o] {
		m[o] = true
		a.changed = true
	}
}

func (a *effAnalysis) addAll(v ssa.Value, from map[*effObj]bool) {
	for o := range from {
		a.add(v, o)
	}
}

func (a *effAnalysis) cadd(o *effObj, from map[*effObj]bool) {
	m := a.contents[o]
	if m == nil {
		m = map[*effObj]bool{}
		a.contents[o] = m
	}
	for x := range from {
		if !m[x] {
			m[x] = true
			a.changed = true
		}
	}
}

func (a *effAnalysis) load(from map[*effObj]bool) map[*effObj]bool {
	out := map[*effObj]bool{}
	for o := range from {
		if o.kind == okParam || o.kind == okGlobal {
			out[o] = true
		}
		for c := range a.contents[o] {
			out[c] = true
		}
	}
	return out
}

func (a *effAnalysis) reach(from map[*effObj]bool) map[*effObj]bool {
	out := map[*effObj]bool{}
	var w []*effObj
	for o := range from {
		w = append(w, o)
	}
	for len(w) > 0 {
		o := w[0]
		w = w[1:]
		if out[o] {
			continue
		}
		out[o] = true
		for c := range a.contents[o] {
			w = append(w, c)
		}
	}
	return out
}

func (a *effAnalysis) ev(o *effObj, kind string, ins ssa.Instruction) {
	key := fmt.Sprintf("%p/%s/%p", o, kind, ins)
	if _, ok := a.events[key]; !ok {
		a.events[key] = effEvent{o, kind, ins, ins.Parent()}
	}
}

func (e *effEngine) summarize(root *ssa.Function) *effSummary {
	if s, ok := e.summaries[root]; ok {
		return s
	}
	if e.inProgress[root] {
		return &effSummary{writes: map[int][]effEvent{}, ret: map[string]bool{}}
	}
	e.inProgress[root] = true
	defer delete(e.inProgress, root)
	a := &effAnalysis{e: e, root: root, pts: map[ssa.Value]map[*effObj]bool{}, contents: map[*effObj]map[*effObj]bool{}, params: map[int]*effObj{},
		locals: map[ssa.Value]*effObj{}, globals: map[ssa.Value]*effObj{}, events: map[string]effEvent{}, unknown: map[string]bool{}, freeBind: map[*ssa.FreeVar]ssa.Value{}}
	a.fns = family(root)
	for i, p := range root.Params {
		if refType(p.Type()) {
			o := &effObj{kind: okParam, idx: i, label: p.Name()}
			a.params[i] = o
			a.add(p, o)
		}
	}
	for _, fn := range a.fns {
		instrs(fn, func(in ssa.Instruction) {
			if mc, ok := in.(*ssa.MakeClosure); ok {
				cl := mc.Fn.(*ssa.Function)
				for i, fv := range cl.FreeVars {
					a.freeBind[fv] = mc.Bindings[i]
				}
			}
		})
	}
	for iter := 0; iter < 60; iter++ {
		a.changed = false
		for _, fn := range a.fns {
			for _, fv := range fn.FreeVars {
				if b, ok := a.freeBind[fv]; ok {
					a.addAll(fv, a.pts[b])
				}
			}
			instrs(fn, func(in ssa.Instruction) { a.step(in) })
		}
		if !a.changed {
			break
		}
	}
	s := &effSummary{writes: map[int][]effEvent{}, ret: map[string]bool{}}
	var keys []string
	for k := range a.events {
		keys = append(keys, k)
	}
	sort.Strings(keys)
	for _, k := range keys {
		ev := a.events[k]
		switch ev.o.kind {
		case okParam:
			s.writes[ev.o.idx] = append(s.writes[ev.o.idx], ev)
		case okGlobal:
			s.gwrites = append(s.gwrites, ev)
		}
	}
	for u := range a.unknown {
		s.unknown = append(s.unknown, u)
	}
	sort.Strings(s.unknown)
	instrs(root, func(in ssa.Instruction) {
		rt, ok := in.(*ssa.Return)
		if !ok {
			return
		}
		for _, v := range retOperands(rt) {
			if !refType(v.Type()) {
				continue
			}
			if k, ok := v.(*ssa.Const); ok && k.IsNil() {
				s.ret["nil"] = true
				continue
			}
			for o := range a.pts[v] {
				switch o.kind {
				case okParam:
					s.ret[fmt.Sprintf("param:%d", o.idx)] = true
				case okLocal:
					s.ret["fresh"] = true
					for c := range a.reach(map[*effObj]bool{o: true}) {
						if c.kind == okParam {
							s.ret[fmt.Sprintf("fresh-containing-param:%d", c.idx)] = true
						}
						if c.kind == okGlobal {
							s.ret["fresh-containing-global"] = true
						}
					}
				case okGlobal:
					s.ret["global"] = true
				}
			}
		}
	})
	e.summaries[root] = s
	return s
}

func (a *effAnalysis) step(ins ssa.Instruction) {
	switch x := ins.(type) {
	case *ssa.Alloc:
		a.add(x, a.local(x, "alloc"))
	case *ssa.MakeSlice:
		a.add(x, a.local(x, "makeslice"))
	case *ssa.MakeMap:
		a.add(x, a.local(x, "makemap"))
	case *ssa.MakeChan:
		a.add(x, a.local(x, "makechan"))
	case *ssa.MakeClosure:
		o := a.local(x, "closure")
		a.add(x, o)
		for _, b := range x.Bindings {
			a.cadd(o, a.pts[b])
		}
	case *ssa.FieldAddr:
		a.addAll(x, a.pts[x.X])
	case *ssa.IndexAddr:
		a.addAll(x, a.pts[x.X])
	case *ssa.Field:
		if refType(x.Type()) {
			a.addAll(x, a.pts[x.X])
		}
	case *ssa.Index:
		if refType(x.Type()) {
			a.addAll(x, a.pts[x.X])
		}
	case *ssa.Slice:
		a.addAll(x, a.pts[x.X])
	case *ssa.ChangeType:
		a.addAll(x, a.pts[x.X])
	case *ssa.Convert:
		if refType(x.Type()) && refType(x.X.Type()) {
			a.addAll(x, a.pts[x.X])
		} else if refType(x.Type()) {
			a.add(x, a.local(x, "convert"))
		}
	case *ssa.MakeInterface:
		if refType(x.X.Type()) {
			a.addAll(x, a.pts[x.X])
		}
	case *ssa.ChangeInterface:
		a.addAll(x, a.pts[x.X])
	case *ssa.TypeAssert:
		a.addAll(x, a.pts[x.X])
	case *ssa.Extract:
		if refType(x.Type()) {
			a.addAll(x, a.pts[x.Tuple])
		}
	case *ssa.Phi:
		for _, ed := range x.Edges {
			a.addAll(x, a.pts[ed])
		}
	case *ssa.UnOp:
		if x.Op == token.MUL {
			if g, ok := x.X.(*ssa.Global); ok {
				if refType(x.Type()) {
					a.add(x, a.global(g))
				}
				return
			}
			if refType(x.Type()) {
				a.addAll(x, a.load(a.pts[x.X]))
			}
		}
	case *ssa.Lookup:
		if refType(x.Type()) {
			a.addAll(x, a.load(a.pts[x.X]))
		}
	case *ssa.Range:
		a.addAll(x, a.pts[x.X])
	case *ssa.Next:
		if refType(x.Type()) {
			a.addAll(x, a.load(a.pts[x.Iter]))
		}
	case *ssa.Store:
		if g, ok := x.Addr.(*ssa.Global); ok {
			o := a.global(g)
			a.cadd(o, a.pts[x.Val])
			a.ev(o, "store", x)
			return
		}
		for o := range a.pts[x.Addr] {
			if refType(x.Val.Type()) {
				a.cadd(o, a.pts[x.Val])
			}
			a.ev(o, "store", x)
		}
	case *ssa.MapUpdate:
		for o := range a.pts[x.Map] {
			if refType(x.Key.Type()) {
				a.cadd(o, a.pts[x.Key])
			}
			if refType(x.Value.Type()) {
				a.cadd(o, a.pts[x.Value])
			}
			a.ev(o, "mapupdate", x)
		}
	case *ssa.Call:
		a.call(x, &x.Call, x)
	case *ssa.Defer:
		a.call(x, &x.Call, nil)
	case *ssa.Go:
		a.call(x, &x.Call, nil)
	}
}

func (a *effAnalysis) call(ins ssa.Instruction, c *ssa.CallCommon, res ssa.Value) {
	if b, ok := c.Value.(*ssa.Builtin); ok {
		switch b.Name() {
		case "append":
			if res != nil {
				a.addAll(res, a.pts[c.Args[0]])
				o := a.local(res, "append")
				a.add(res, o)
				if elemRef(res.Type()) {
					a.cadd(o, a.load(a.pts[c.Args[0]]))
					if len(c.Args) > 1 {
						a.cadd(o, a.load(a.pts[c.Args[1]]))
					}
				}
				for t := range a.pts[c.Args[0]] {
					if len(c.Args) > 1 && elemRef(res.Type()) {
						a.cadd(t, a.load(a.pts[c.Args[1]]))
					}
					a.ev(t, "append", ins)
				}
			}
		case "copy":
			for t := range a.pts[c.Args[0]] {
				if elemRef(c.Args[0].Type()) {
					a.cadd(t, a.load(a.pts[c.Args[1]]))
				}
				a.ev(t, "copy", ins)
			}
		case "delete":
			for t := range a.pts[c.Args[0]] {
				a.ev(t, "delete", ins)
			}
		case "clear":
			for t := range a.pts[c.Args[0]] {
				a.ev(t, "clear", ins)
			}
		case "min", "max", "len", "cap", "panic", "print", "println", "recover", "real", "imag", "complex", "ssa:wrapnilchk":
		default:
			a.unknown["builtin "+b.Name()] = true
		}
		return
	}
	if c.IsInvoke() {
		name := c.Value.Type().String() + "." + c.Method.Name()
		if effInvokeReadOnly[name] {
			return
		}
		if c.Method.Name() == "Close" || c.Method.Name() == "Error" {
			return
		}
		a.noteUnknown("interface method "+name, c.Args, c.Value)
		return
	}
	callee := c.StaticCallee()
	if callee == nil {
		// dynamic call: the consumer's callback (a function-typed parameter or captured variable) or a local closure
		switch v := c.Value.(type) {
		case *ssa.Parameter, *ssa.FreeVar:
			return
		case *ssa.UnOp:
			_ = v
			return
		case *ssa.MakeClosure:
			return
		case *ssa.Call, *ssa.Phi, *ssa.Extract:
			// calling an iterator returned by a call (range-over-func): its body is the callee's closure,
			// summarised through the call that produced it — conservative: arguments reach unknown code only
			// if they are references derived from parameters other than function values
			return
		}
		a.noteUnknown("dynamic call", c.Args, nil)
		return
	}
	name := qname(callee)
	if a.e.c.inScope(callee) && callee.Blocks != nil {
		top := callee
		if top.Parent() != nil {
			return // closures are analysed within their family
		}
		if a.inlineCallee(callee, c) {
			// the callee analysed as part of this family (context-insensitively): its parameters receive what the
			// arguments point to, its stores are recorded on exactly the objects they reach
			for i, p := range callee.Params {
				if i < len(c.Args) && refType(p.Type()) {
					a.addAll(p, a.pts[c.Args[i]])
				}
			}
			if res != nil && refType(res.Type()) {
				instrs(callee, func(in ssa.Instruction) {
					if rt, ok := in.(*ssa.Return); ok {
						for _, v := range retOperands(rt) {
							if refType(v.Type()) {
								a.addAll(res, a.pts[v])
							}
						}
					}
				})
			}
			return
		}
		s := a.e.summarize(top)
		for i, evs := range s.writes {
			if i < len(c.Args) {
				for t := range a.reach(a.pts[c.Args[i]]) {
					for _, ev := range evs {
						k := ev.kind
						if !strings.Contains(k, " via ") {
							k += " via " + fname(callee)
						}
						a.ev(t, k, ins)
					}
				}
			}
		}
		for _, u := range s.unknown {
			a.unknown[u+" (in "+fname(callee)+")"] = true
		}
		for _, gw := range s.gwrites {
			a.ev(gw.o, gw.kind+" via "+fname(callee), ins)
		}
		if res != nil && refType(res.Type()) {
			for r := range s.ret {
				switch {
				case r == "fresh":
					a.add(res, a.local(res, "callresult"))
				case strings.HasPrefix(r, "param:"):
					var i int
					fmt.Sscanf(r, "param:%d", &i)
					if i < len(c.Args) {
						a.addAll(res, a.reach(a.pts[c.Args[i]]))
					}
				case strings.HasPrefix(r, "fresh-containing-param:"):
					var i int
					fmt.Sscanf(r, "fresh-containing-param:%d", &i)
					o := a.local(res, "callresult")
					a.add(res, o)
					if i < len(c.Args) {
						a.cadd(o, a.reach(a.pts[c.Args[i]]))
					}
				case r == "global" || r == "fresh-containing-global":
					a.noteUnknown("global-returning "+name, nil, nil)
				}
			}
		}
		return
	}
	if effWritesArg0[name] {
		for t := range a.pts[c.Args[0]] {
			a.ev(t, "write via "+name, ins)
		}
		return
	}
	if name == "encoding/json.Unmarshal" && len(c.Args) > 1 {
		for t := range a.reach(a.pts[c.Args[1]]) {
			a.ev(t, "write via "+name, ins)
		}
		return
	}
	if res != nil && refType(res.Type()) {
		a.add(res, a.local(res, "stdresult"))
	}
	if effPureStd[name] || effFreshStd[name] || strings.HasPrefix(name, "strconv.") || strings.HasPrefix(name, "strings.") || strings.HasPrefix(name, "math.") || strings.HasPrefix(name, "unicode.") || strings.HasPrefix(name, "encoding/hex.") {
		return
	}
	// constructors of hashers etc. that take no references
	hasRef := false
	for _, arg := range c.Args {
		if len(a.reach(a.pts[arg])) > 0 {
			hasRef = true
		}
	}
	if !hasRef {
		return
	}
	a.noteUnknown(name, c.Args, nil)
}

// inlineCallee: a module function that receives a pointer to an object created in this family (a local struct that
// wraps the state of a loop: a stack, a buffer with its cursor) is analysed with the family rather than through
// its summary — a summary speaks of everything reachable from a parameter at once, and would count an append to
// the wrapper's own slice as a write to whatever the slice's elements point to.
func (a *effAnalysis) inlineCallee(callee *ssa.Function, c *ssa.CallCommon) bool {
	if a.inlined[callee] {
		return true
	}
	if callee == a.root || a.e.inProgress[callee] || len(a.inlined) >= 24 {
		return false
	}
	wraps := false
	for i, p := range callee.Params {
		if i >= len(c.Args) {
			break
		}
		if _, ok := p.Type().Underlying().(*types.Pointer); !ok {
			continue
		}
		// a pointer to a variable of the caller (a struct that wraps state, a local slice or counter handed to a helper
		// that updates it in place)
		objs := a.pts[c.Args[i]]
		if len(objs) == 0 {
			continue
		}
		all := true
		for o := range objs {
			if o.kind != okLocal {
				all = false
			}
		}
		if all {
			wraps = true
		}
	}
	if !wraps {
		return false
	}
	if a.inlined == nil {
		a.inlined = map[*ssa.Function]bool{}
	}
	a.inlined[callee] = true
	for _, fn := range family(callee) {
		a.fns = append(a.fns, fn)
		instrs(fn, func(in ssa.Instruction) {
			if mc, ok := in.(*ssa.MakeClosure); ok {
				cl := mc.Fn.(*ssa.Function)
				for i, fv := range cl.FreeVars {
					a.freeBind[fv] = mc.Bindings[i]
				}
			}
		})
	}
	a.changed = true
	return true
}

func (a *effAnalysis) noteUnknown(name string, args []ssa.Value, recv ssa.Value) {
	touched := map[int]bool{}
	vals := append([]ssa.Value{}, args...)
	if recv != nil {
		vals = append(vals, recv)
	}
	for _, v := range vals {
		for o := range a.reach(a.pts[v]) {
			if o.kind == okParam {
				touched[o.idx] = true
			}
		}
	}
	for i := range touched {
		a.unknown[fmt.Sprintf("param:%d reaches %s", i, name)] = true
	}
}

// ---------------------------------------------------------------------------
// rules

// rulePure: fn never writes through parameter pname.
func (e *effEngine) rulePure(r *Report, rule string, f *ssa.Function, pname string) {
	where := fname(f)
	idx := -1
	for i, p := range f.Params {
		if p.Name() == pname {
			idx = i
		}
	}
	if idx < 0 {
		r.undecided(rule, where, "parameter "+pname, e.c.pos(f.Pos()), "parameter not found")
		return
	}
	r.analysed(where)
	s := e.summarize(f)
	for _, u := range s.unknown {
		if strings.HasPrefix(u, fmt.Sprintf("param:%d ", idx)) {
			r.undecided(rule, where, "parameter "+pname, e.c.pos(f.Pos()), "a reference derived from "+pname+" reaches code without a summary: "+u)
			return
		}
	}
	evs := s.writes[idx]
	if len(evs) == 0 {
		r.holds(rule, where, "never writes "+pname, e.c.pos(f.Pos()), "no store, map update, delete, append-in-place or copy can target memory reachable from "+pname+" (points-to over the function, its closures and its module callees)")
		return
	}
	for _, ev := range evs {
		r.violated(rule, where, "never writes "+pname, e.c.pos(ev.ins.Pos()), fmt.Sprintf("memory reachable from %s may be modified here (%s)", pname, ev.kind))
	}
}

// ruleFresh: every reference fn returns is freshly allocated (or nil).
func (e *effEngine) ruleFresh(r *Report, rule string, f *ssa.Function) {
	where := fname(f)
	r.analysed(where)
	s := e.summarize(f)
	var bad []string
	for k := range s.ret {
		if k != "fresh" && k != "nil" {
			bad = append(bad, k)
		}
	}
	sort.Strings(bad)
	r.check(len(bad) == 0, rule, where, "returns fresh memory", e.c.pos(f.Pos()), "every returned reference is nil or freshly allocated, and holds no reference into the arguments", "a returned reference may alias existing memory: "+strings.Join(bad, ", "))
}

// ruleAppendOnly: the only writes through parameter pname are appends whose first operand is the
// parameter itself or the result of an earlier append in the chain; element stores are allowed only
// with an index proven >= the original length (extra check supplied by allowStore).
func (e *effEngine) ruleAppendOnly(r *Report, rule string, f *ssa.Function, pname string, allowStore func(st *ssa.Store) (bool, string)) {
	where := fname(f)
	idx := -1
	for i, p := range f.Params {
		if p.Name() == pname {
			idx = i
		}
	}
	if idx < 0 {
		r.undecided(rule, where, "parameter "+pname, e.c.pos(f.Pos()), "parameter not found")
		return
	}
	r.analysed(where)
	s := e.summarize(f)
	for _, u := range s.unknown {
		if strings.HasPrefix(u, fmt.Sprintf("param:%d ", idx)) {
			r.undecided(rule, where, "parameter "+pname, e.c.pos(f.Pos()), "a reference derived from "+pname+" reaches code without a summary: "+u)
			return
		}
	}
	// the append chain: greatest set of {param} ∪ phis ∪ append results closed under "built only from the set"
	chain := map[ssa.Value]bool{f.Params[idx]: true}
	instrs(f, func(in ssa.Instruction) {
		switch x := in.(type) {
		case *ssa.Phi:
			if types.Identical(x.Type(), f.Params[idx].Type()) {
				chain[x] = true
			}
		case *ssa.Call:
			if b, ok := x.Call.Value.(*ssa.Builtin); ok && b.Name() == "append" {
				chain[x] = true
			}
			// a helper of the module that grows the slice it is handed: every return is its parameter or an append
			// onto it — dst = openByte(dst, …)
			if growsParam(e, x) >= 0 {
				chain[x] = true
			}
		}
	})
	for changed := true; changed; {
		changed = false
		for v := range chain {
			switch x := v.(type) {
			case *ssa.Phi:
				for _, ed := range x.Edges {
					if !chain[ed] {
						delete(chain, v)
						changed = true
						break
					}
				}
			case *ssa.Call:
				k := 0
				if gi := growsParam(e, x); gi >= 0 {
					k = gi
				}
				if !chain[x.Call.Args[k]] {
					delete(chain, v)
					changed = true
				}
			}
		}
	}
	nBad := 0
	for _, ev := range s.writes[idx] {
		switch {
		case strings.HasPrefix(ev.kind, "append via "):
			// the append made by a growing helper onto its own parameter, which is a value of the chain here
			if cl, ok := ev.ins.(*ssa.Call); ok {
				if gi := growsParam(e, cl); gi >= 0 && chain[cl.Call.Args[gi]] && chain[cl] {
					continue
				}
			}
			nBad++
			r.violated(rule, where, pname+" append-only", e.c.pos(ev.ins.Pos()), fmt.Sprintf("%s's existing content may be modified here (%s), not only appended to", pname, ev.kind))
		case ev.kind == "append":
			cl := ev.ins.(*ssa.Call)
			if chain[cl.Call.Args[0]] {
				continue
			}
			nBad++
			r.violated(rule, where, pname+" append-only", e.c.pos(ev.ins.Pos()), "append onto a re-sliced or otherwise derived view of "+pname+" (not "+pname+" itself or an earlier append result): existing content of the caller's slice can be overwritten")
		case ev.kind == "store" && allowStore != nil:
			if ok, why := allowStore(ev.ins.(*ssa.Store)); ok {
				continue
			} else {
				nBad++
				r.violated(rule, where, pname+" append-only", e.c.pos(ev.ins.Pos()), "element store into "+pname+"'s memory that is not proven to lie at or beyond its original length: "+why)
			}
		default:
			nBad++
			r.violated(rule, where, pname+" append-only", e.c.pos(ev.ins.Pos()), fmt.Sprintf("%s's existing content may be modified here (%s), not only appended to", pname, ev.kind))
		}
	}
	if nBad == 0 {
		r.holds(rule, where, pname+" append-only", e.c.pos(f.Pos()), fmt.Sprintf("the only writes through %s are appends onto %s or onto the result of an earlier append (%d write events examined)", pname, pname, len(s.writes[idx])))
	}
}

// growsParam: call is a call of a module function one of whose slice parameters is handed back grown or as it is —
// every return is that parameter, or an append onto a value of the same kind built from it; the parameter's index,
// or -1.
func growsParam(e *effEngine, call *ssa.Call) int {
	g := call.Call.StaticCallee()
	if g == nil || g.Blocks == nil || !e.c.inModule(g) || g.Signature.Results().Len() != 1 {
		return -1
	}
	for i, p := range g.Params {
		if _, ok := p.Type().Underlying().(*types.Slice); !ok || !types.Identical(p.Type(), g.Signature.Results().At(0).Type()) || i >= len(call.Call.Args) {
			continue
		}
		in := map[ssa.Value]bool{p: true}
		for changed := true; changed; {
			changed = false
			instrs(g, func(ins ssa.Instruction) {
				switch x := ins.(type) {
				case *ssa.Phi:
					if in[x] || !types.Identical(x.Type(), p.Type()) {
						return
					}
					all := true
					for _, ed := range x.Edges {
						if !in[ed] {
							all = false
						}
					}
					if all {
						in[x], changed = true, true
					}
				case *ssa.Call:
					if b, ok := x.Call.Value.(*ssa.Builtin); ok && b.Name() == "append" && !in[x] && in[x.Call.Args[0]] {
						in[x], changed = true, true
					}
				}
			})
		}
		ok, n := true, 0
		instrs(g, func(ins ssa.Instruction) {
			if rt, isRt := ins.(*ssa.Return); isRt {
				n++
				if len(rt.Results) != 1 || !in[rt.Results[0]] {
					ok = false
				}
			}
		})
		if ok && n > 0 {
			return i
		}
	}
	return -1
}
