package main

import (
	"fmt"
	"go/constant"
	"go/token"
	"go/types"
	"math"
	"strings"

	"golang.org/x/tools/go/ssa"
)

func init() {
	register("C02", "one obligation per scanner construction, per line of the 4-line layout, per field of the decoded record, per rejection guard, per buffer view; non-trivial = decided by typestate must-pass-through, dominance of the accepting path by the guard's edge, or taint propagation", rulesC02, nil)
}

func rulesC02(c *Ctx, r *Report) {
	r.explain("Decides: (SC-BUF) every bufio.NewScanner in the package gets Buffer(_, max) with constant max ≥ 2^30 before its first Scan on every path — the default 64 KiB token limit rejects exactly the long reads the property quantifies over; (F4L) Write's single constant format is \"@%s\\n%s\\n+\\n%s\\n\" with operands Name, Sequence, Quals in that order; the reader's accepting path makes four Scan calls, each of which must have returned true, and builds the record's Name, Sequence, Quals from the views of scans 1, 2 and 4 (Name without its first byte); (REJECT) the accepting return is dominated by the edge name[0] == '@' with len(name) > 0, by HasPrefix(line3, \"+\") == true, and by len(quals) == len(seq): a record lacking '@', lacking '+', with unequal lengths or cut short cannot reach it; (SCAN-ALIAS) no Scanner.Bytes view reaches the record without a copy; (G1) MarshalText = Write; (PASS-ALL) the iterator layers hand on every record. Error/partial-record discipline of read() is decided under C07. Not decided: equality of the round trip. Added rules: (REJECT io.EOF) no return behind a delivered first line can carry io.EOF; (SCAN-ALIAS) additionally no view is used after a later Scan; no custom split function; (YD1/YD2) the fastq iterators stop after a false callback result and after an error item. Entry points (shared with C06/C18, restricted to this package): (FD) File(path) opens path with aio.Open, yields the open error and otherwise ranges over Reader on the opened bytes; (A6) the stream only enters a buffering reader, never a direct Read (a sniffing Read sees whatever the first chunk holds); (NIL-HANDLE) the handle is touched only behind the error check. (SC-BUF, extended) the initial buffer handed to Scanner.Buffer is nil or allocated at that call — no two readers share scanning memory; (F4L, extended) Name, Sequence and Quals are copies or cuts of the scanner's lines: between the line and the field only slices.Clone/bytes.Clone/append-onto-empty/slicing (also inside package helpers, which are followed) — no Trim*, no rewriting; (LAYER) no decompressor or transcoder in the codec packages.")
	r.assume("bufio.Scanner with ScanLines delivers each line without its terminator; a Scanner's buffer may be reused after the next Scan")
	ruleG1(c, r, "formats/fastq", "Fastq")
	rulesScanBuf(c, r, "formats/fastq")
	rulesFastqLayout(c, r)
	rulesScanAliasPkg(c, r, "formats/fastq")
	rulesPassAllFor(c, r, "formats/fastq", 2)
	rulesNoBufferedPkg(c, r, "formats/fastq")
	rulesNoCustomSplit(c, r)
	rulesEntryPoints(c, r, "formats/fastq")
	{
		// a malformed record's error reaches the consumer: no error of any call in the package is dropped (B0)
		var fs []*ssa.Function
		for _, f := range formatFuncs(c) {
			root := f
			for root.Parent() != nil {
				root = root.Parent()
			}
			// the decoding side: everything but the record's own methods (MarshalText writes into memory)
			if funcPkgPath(f) == modPath+"/formats/fastq" && !strings.Contains(fname(root), "(*Fastq)") {
				fs = append(fs, f)
			}
		}
		rulesNoDroppedErrors(c, r, fs, 2)
	}
	rulesYDPkg(c, r, "formats/fastq") // an error item ends the iteration: reading on after a malformed record re-synchronises on arbitrary lines and fabricates records
}

// rulesScanBuf (SC-BUF): NewScanner -> Buffer(max >= 2^30) before the scanner leaves the constructor / is scanned.
func rulesScanBuf(c *Ctx, r *Report, rel string) {
	n := 0
	for _, f := range formatFuncs(c) {
		if funcPkgPath(f) != modPath+"/"+rel {
			continue
		}
		instrs(f, func(in ssa.Instruction) {
			call, ok := in.(*ssa.Call)
			if !ok || !fnIs(call.Call.StaticCallee(), "bufio", "NewScanner") {
				return
			}
			n++
			r.analysed(fname(f))
			// Buffer calls on this scanner value in the same function
			var bufCalls []*ssa.Call
			var escapes []ssa.Instruction
			var visit func(v ssa.Value)
			visit = func(v ssa.Value) {
				for _, ref := range *v.Referrers() {
					switch x := ref.(type) {
					case *ssa.Call:
						if methIs(x.Call.StaticCallee(), "bufio", "Scanner", "Buffer") && x.Call.Args[0] == v {
							bufCalls = append(bufCalls, x)
							continue
						}
						escapes = append(escapes, x)
					case *ssa.DebugRef:
					case *ssa.Store:
						// kept in a field of a struct made here (rd := &reader{s: NewScanner(r)}): the loads of that field
						// are the scanner; the struct leaving the function is the escape
						if fa, ok := x.Addr.(*ssa.FieldAddr); ok && x.Val == v {
							if al, ok := fa.X.(*ssa.Alloc); ok {
								for _, r2 := range *al.Referrers() {
									switch y := r2.(type) {
									case *ssa.FieldAddr:
										if y.Field == fa.Field && y != fa {
											for _, r3 := range *y.Referrers() {
												if ld, ok := r3.(*ssa.UnOp); ok && ld.Op == token.MUL {
													visit(ld)
												}
											}
										}
									case *ssa.DebugRef:
									default:
										escapes = append(escapes, r2)
									}
								}
								continue
							}
						}
						escapes = append(escapes, ref)
					default:
						escapes = append(escapes, ref)
					}
				}
			}
			visit(call)
			okMax := false
			var maxV int64
			for _, bc := range bufCalls {
				if k, ok := cInt(constVal(bc.Call.Args[2])); ok {
					maxV = k
					if k >= 1<<30 || (k == math.MaxInt32 && c.GOARCH == "386") {
						okMax = true
					}
				}
			}
			// the initial buffer is nil or made here: a buffer shared between scanners (a package variable, a field, a
			// parameter) lets two readers that are alive at once scan inside the same memory
			for _, bc := range bufCalls {
				fresh := false
				switch b := bc.Call.Args[1].(type) {
				case *ssa.Const:
					fresh = b.IsNil()
				case *ssa.MakeSlice:
					fresh = true
				case *ssa.Slice:
					_, fresh = b.X.(*ssa.Alloc)
				}
				r.check(fresh, "SC-BUF", fname(f), "scanner's initial buffer is its own", c.pos(bc.Pos()),
					"the initial buffer handed to Buffer is nil or allocated at this call: no two scanners share memory",
					"the initial buffer handed to Buffer is not nil or freshly allocated here (a package variable, field or parameter): Scanner.Buffer does not copy, so readers that are alive at the same time overwrite each other's lines")
			}
			if len(bufCalls) == 0 {
				r.violated("SC-BUF", fname(f), "scanner token limit", c.pos(call.Pos()), "the scanner keeps bufio's default 64 KiB token limit: a read longer than 65536 bytes fails with 'token too long'")
				return
			}
			// every escape (store into the reader struct, Scan call, return) must be dominated by a Buffer call
			okOrder := true
			for _, e := range escapes {
				dom := false
				for _, bc := range bufCalls {
					if instrDominates(bc, e) {
						dom = true
					}
				}
				if !dom {
					okOrder = false
				}
			}
			r.check(okMax && okOrder, "SC-BUF", fname(f), "scanner token limit", c.pos(call.Pos()),
				fmt.Sprintf("Buffer(_, %d) raises the token limit to at least 2^30 before the scanner is used or stored", maxV),
				fmt.Sprintf("token limit is %d (want a constant ≥ 2^30) or Buffer is not called before the scanner is used/stored (ordered: %v): reads of several MiB are rejected", maxV, okOrder))
		})
	}
	r.floor("SC-BUF", n, 1, "bufio.NewScanner call sites in "+rel)
}

// instrDominates: a executes before b on every path to b.
func instrDominates(a, b ssa.Instruction) bool {
	if a.Block() == b.Block() {
		for _, in := range a.Block().Instrs {
			if in == a {
				return true
			}
			if in == b {
				return false
			}
		}
	}
	return a.Block().Dominates(b.Block())
}

// rulesFastqLayout: F4L and REJECT.
func rulesFastqLayout(c *Ctx, r *Report) {
	w := c.fn("formats/fastq", "(*Fastq).Write")
	where := "formats/fastq.(*Fastq).Write"
	if w == nil {
		r.undecided("F4L", where, "anchor", "", "Write not found")
	} else {
		r.analysed(where)
		ruleFmtConst(c, r, w)
		calls := fmtCallsIn(w)
		s := newSymb(w)
		if len(calls) != 1 || calls[0].format == nil {
			r.undecided("F4L", where, "layout", c.pos(w.Pos()), fmt.Sprintf("expected a single Fprintf with a constant format, found %d writes", len(calls)))
		} else {
			fc := calls[0]
			lines := strings.Split(*fc.format, "\n")
			okFmt := len(lines) == 5 && lines[0] == "@%s" && lines[1] == "%s" && lines[2] == "+" && lines[3] == "%s" && lines[4] == ""
			var fields []string
			for _, a := range fc.args {
				fields = append(fields, recvFieldName(w, s.expr(a)))
			}
			okArgs := strings.Join(fields, ",") == "Name,Sequence,Quals"
			r.check(okFmt && okArgs && fc.w == ssa.Value(w.Params[1]), "F4L", where, "layout", c.pos(fc.call.Pos()),
				"one write of exactly four lines '@'+Name, Sequence, '+', Quals", fmt.Sprintf("layout is %q with operands %v, want \"@%%s\\n%%s\\n+\\n%%s\\n\" with Name, Sequence, Quals", *fc.format, fields))
		}
	}
	// reader
	rd := c.role("fastq.read")
	where = "formats/fastq.(*reader).read"
	if rd == nil {
		r.undecided("F4L", where, "anchor", "", "read not found")
		return
	}
	r.analysed(where)
	s := newSymb(rd)
	// accepting return: non-nil record with nil error
	var acc *ssa.Return
	nAcc := 0
	instrs(rd, func(in ssa.Instruction) {
		if rt, ok := in.(*ssa.Return); ok {
			ops := retOperands(rt)
			if len(ops) == 2 && isNilConst(ops[1]) {
				if k, isC := ops[0].(*ssa.Const); !isC || !k.IsNil() {
					acc = rt
					nAcc++
				}
			}
			// the record filled through an out-parameter: the accepting return is the one with a nil error
			if len(ops) == 1 && isNilConst(ops[0]) && len(rd.Params) == 2 && isErrorType(rd.Signature.Results().At(0).Type()) {
				acc = rt
				nAcc++
			}
		}
	})
	if nAcc != 1 {
		r.undecided("F4L", where, "accepting return", c.pos(rd.Pos()), fmt.Sprintf("expected one accepting return, found %d", nAcc))
		return
	}
	// line reads in dominance order: direct Scan calls, or calls of a helper that wraps one Scan
	type lineRead struct {
		in ssa.Instruction
		ok func(target *ssa.BasicBlock) bool // target is reachable only when this read delivered a line
	}
	var scans []lineRead
	instrs(rd, func(in ssa.Instruction) {
		cl, ok := in.(*ssa.Call)
		if !ok || !instrDominates(cl, acc) {
			return
		}
		if methIs(cl.Call.StaticCallee(), "bufio", "Scanner", "Scan") {
			scans = append(scans, lineRead{cl, func(t *ssa.BasicBlock) bool { return edgeDominates(cl, true, t) }})
			return
		}
		if g := cl.Call.StaticCallee(); g != nil && g.Blocks != nil && c.inModule(g) && scanWrapper(c, g, cl) {
			scans = append(scans, lineRead{cl, func(t *ssa.BasicBlock) bool { return errNilEdgeDominates(cl, t) }})
		}
	})
	for i := range scans {
		for j := i + 1; j < len(scans); j++ {
			if instrDominates(scans[j].in, scans[i].in) {
				scans[i], scans[j] = scans[j], scans[i]
			}
		}
	}
	okScans := len(scans) == 4
	for _, sc := range scans {
		if !sc.ok(acc.Block()) {
			okScans = false
		}
	}
	r.check(okScans, "F4L", where, "four lines read", c.pos(acc.Pos()), "the accepting path passes exactly four line reads (Scan, directly or through a helper), each of which delivered a line: a record cut short before its fourth line cannot be accepted", fmt.Sprintf("the accepting path passes %d line reads (want 4) or a failed read can reach it: a truncated record can be fabricated", len(scans)))
	// REJECT-EOF: once line 1 was delivered, no return may carry io.EOF (the iterator takes io.EOF for a clean end)
	if len(scans) > 0 {
		nLate, nEOF := 0, 0
		var bad []string
		instrs(rd, func(in ssa.Instruction) {
			rt, ok := in.(*ssa.Return)
			if !ok {
				return
			}
			ops := retOperands(rt)
			if len(ops) != 2 && !(len(ops) == 1 && isErrorType(ops[0].Type())) {
				return
			}
			eof := mayBeEOF(c, ops[len(ops)-1], map[ssa.Value]bool{}, 0)
			if eof {
				nEOF++
			}
			if !scans[0].ok(rt.Block()) {
				return
			}
			nLate++
			if eof {
				bad = append(bad, c.pos(rt.Pos()))
			}
		})
		r.check(len(bad) == 0, "REJECT", where, "io.EOF only before line 1", c.pos(rd.Pos()),
			fmt.Sprintf("none of the %d returns behind a delivered first line can carry io.EOF; %d return(s) before it do: a record cut short is an error, not a clean end", nLate, nEOF),
			fmt.Sprintf("a return behind a delivered first line can carry io.EOF (%v), which the iterator takes for a clean end of input: a record cut short is dropped silently", bad))
	}
	// views: for a value, which scan produced it (latest Scan dominating its Bytes() call)
	var altered []string // what find() met on the way from a value to its line, other than copies and cuts
	var scanOfLine func(v ssa.Value) int
	scanOf := func(v ssa.Value) int {
		seen := map[ssa.Value]bool{}
		var find func(v ssa.Value) *ssa.Call
		find = func(v ssa.Value) *ssa.Call {
			if seen[v] {
				return nil
			}
			// a field of the record read back after it was stored (len(fq.Quals) != len(fq.Sequence)): what was stored
			if ld, ok := v.(*ssa.UnOp); ok && ld.Op == token.MUL {
				if fa, ok := ld.X.(*ssa.FieldAddr); ok && len(rd.Params) == 2 && fa.X == ssa.Value(rd.Params[1]) {
					var stored ssa.Value
					n := 0
					for _, ref := range *rd.Params[1].Referrers() {
						if fa2, ok := ref.(*ssa.FieldAddr); ok && fa2.Field == fa.Field {
							for _, r2 := range *fa2.Referrers() {
								if st, ok := r2.(*ssa.Store); ok && st.Addr == ssa.Value(fa2) {
									n++
									if instrDominates(st, ld) {
										stored = st.Val
									}
								}
							}
						}
					}
					if n == 1 && stored != nil {
						seen[v] = true
						return find(stored)
					}
				}
			}
			seen[v] = true
			switch x := v.(type) {
			case *ssa.Call:
				if methIs(x.Call.StaticCallee(), "bufio", "Scanner", "Bytes") || methIs(x.Call.StaticCallee(), "bufio", "Scanner", "Text") {
					return x
				}
				// only copies keep the line what it is: slices.Clone / bytes.Clone / append(empty, line...) / string
				// conversions; a module helper is followed (its result must be such a copy or cut of its parameter);
				// anything else (Trim*, ToUpper, Replace …) makes the field something other than the line
				g := x.Call.StaticCallee()
				if b, isB := x.Call.Value.(*ssa.Builtin); isB && b.Name() == "append" && len(x.Call.Args) == 2 {
					return find(x.Call.Args[1])
				}
				if g == nil {
					return nil
				}
				switch qname(g) {
				case "slices.Clone", "bytes.Clone", "strings.Clone":
					return find(x.Call.Args[0])
				}
				if g.Blocks != nil && g.Pkg != nil && strings.HasPrefix(g.Pkg.Pkg.Path(), modPath) {
					if !returnsCutOfParam(g) {
						altered = append(altered, "passed through "+fname(g)+", which does more than copy or cut it")
					}
					for _, a := range x.Call.Args {
						if r := find(a); r != nil {
							return r
						}
					}
					return nil
				}
				for _, a := range x.Call.Args {
					if r := find(a); r != nil {
						altered = append(altered, "passed through "+qname(g))
						return r
					}
				}
			case *ssa.Slice:
				return find(x.X)
			case *ssa.Extract:
				return find(x.Tuple) // a result of a helper that was handed the line
			case *ssa.Phi:
				for _, e := range x.Edges {
					if r := find(e); r != nil {
						return r
					}
				}
			case *ssa.Convert:
				return find(x.X)
			}
			return nil
		}
		b := find(v)
		if b == nil {
			return 0
		}
		idx := 0
		for i, sc := range scans {
			if instrDominates(sc.in, b) {
				idx = i + 1
			}
		}
		return idx
	}
	scanOfLine = scanOf
	// record fields
	var rec ssa.Value
	if al, ok := retOperands(acc)[0].(*ssa.Alloc); ok {
		rec = al
	} else if len(retOperands(acc)) == 1 && len(rd.Params) == 2 {
		rec = rd.Params[1] // the caller's record, filled in place
	}
	fieldScan := map[int]int{}
	fieldVal := map[int]ssa.Value{}
	if rec != nil && rec.Referrers() != nil {
		for _, ref := range *rec.Referrers() {
			if fa, ok := ref.(*ssa.FieldAddr); ok {
				for _, r2 := range *fa.Referrers() {
					if st, ok := r2.(*ssa.Store); ok && st.Addr == ssa.Value(fa) {
						fieldScan[fa.Field] = scanOf(st.Val)
						fieldVal[fa.Field] = st.Val
					}
				}
			}
		}
	}
	// the fields are the lines themselves (copied, the name cut by its marker): nothing trims or rewrites them
	altered = nil
	for k := 0; k < 3; k++ {
		if fieldVal[k] != nil {
			scanOf(fieldVal[k])
		}
	}
	r.check(len(altered) == 0, "F4L", where, "fields are the lines as read", c.pos(acc.Pos()),
		"Name, Sequence and Quals are copies (or a cut) of the scanner's lines: nothing between the line and the field changes bytes",
		"a record field is its line "+strings.Join(dedupe(altered), "; ")+": bytes the writer emits (blanks, tabs, …) do not come back")
	okFields := rec != nil && fieldScan[0] == 1 && fieldScan[1] == 2 && fieldScan[2] == 4
	r.check(okFields, "F4L", where, "record fields", c.pos(acc.Pos()), "Name, Sequence, Quals come from lines 1, 2 and 4", fmt.Sprintf("Name, Sequence, Quals come from lines %d, %d, %d (want 1, 2, 4)", fieldScan[0], fieldScan[1], fieldScan[2]))
	// Name drops exactly the leading '@': name[1:]
	okName := false
	if v, ok := fieldVal[0].(*ssa.Slice); ok && v.High == nil {
		if k, ok := cInt(constVal(v.Low)); ok && k == 1 {
			okName = true
		}
	}
	if !okName && fieldVal[0] != nil {
		// through a helper that returns line[1:] (nil beside its error): the value as the expression it computes
		e := s.expr(fieldVal[0])
		for e.Op == "ite" && len(e.Args) == 3 {
			switch {
			case e.Args[1].Op == "const" && e.Args[1].Leaf == "nil":
				e = e.Args[2]
			case e.Args[2].Op == "const" && e.Args[2].Leaf == "nil":
				e = e.Args[1]
			default:
				e = &Sym{Op: "?"}
			}
		}
		if e.Op == "slice" && len(e.Args) == 3 && e.Args[1].String() == "1" && e.Args[2].String() == "_" {
			okName = true
		}
	}
	r.check(okName, "F4L", where, "name without '@'", c.pos(acc.Pos()), "Name is line 1 without its first byte", "Name is not line 1 with exactly the leading '@' removed")
	// REJECT guards
	guards := map[string]bool{}
	var collectGuards func(accBlk *ssa.BasicBlock, s *symb, depth int, remap map[ssa.Value]ssa.Value)
	collectGuards = func(accBlk *ssa.BasicBlock, s *symb, depth int, remap map[ssa.Value]ssa.Value) {
		scanOf := func(v ssa.Value) int {
			if w, ok := remap[v]; ok {
				v = w
			}
			return scanOfLine(v)
		}
		_ = scanOf
		for b := accBlk; b != nil && b.Idom() != nil; b = b.Idom() {
			d := b.Idom()
			iff, ok := d.Instrs[len(d.Instrs)-1].(*ssa.If)
			if !ok {
				continue
			}
			onTrue := d.Succs[0].Dominates(accBlk) && !d.Succs[1].Dominates(accBlk) && len(d.Succs[0].Preds) == 1
			onFalse := d.Succs[1].Dominates(accBlk) && !d.Succs[0].Dominates(accBlk) && len(d.Succs[1].Preds) == 1
			if !onTrue && !onFalse {
				continue
			}
			switch x := iff.Cond.(type) {
			case *ssa.BinOp:
				// behind `err == nil` of a validating helper of the package: the guards of the helper's own successful
				// return count, its parameters standing for the arguments
				if ev := errNonNilEdge(edgeLit{x, onFalse}); ev != nil && depth < 2 {
					var evCall ssa.Value = ev
					if ex, ok := ev.(*ssa.Extract); ok {
						evCall = ex.Tuple
					}
					{
						if cl, ok := evCall.(*ssa.Call); ok {
							if h := cl.Call.StaticCallee(); h != nil && h.Blocks != nil && h.Pkg == accBlk.Parent().Pkg && len(h.Params) == len(cl.Call.Args) {
								hs := newSymb(h)
								rm := map[ssa.Value]ssa.Value{}
								for i, p := range h.Params {
									hs.subst[p] = s.expr(cl.Call.Args[i])
									a := cl.Call.Args[i]
									if w, ok := remap[a]; ok {
										a = w
									}
									rm[p] = a
								}
								var okRets []*ssa.Return
								instrs(h, func(in ssa.Instruction) {
									if rt, ok := in.(*ssa.Return); ok {
										ops := retOperands(rt)
										if len(ops) > 0 && isNilConst(ops[len(ops)-1]) {
											okRets = append(okRets, rt)
										}
									}
								})
								if len(okRets) == 1 {
									collectGuards(okRets[0].Block(), hs, depth+1, rm)
								}
							}
						}
					}
				}
				l, rr := s.expr(x.X), s.expr(x.Y)
				// name[0] ? '@'
				for _, pr := range [][2]*Sym{{l, rr}, {rr, l}} {
					if pr[1].Op == "const" && pr[1].Leaf == "64" && pr[0].Op == "load" && pr[0].Args[0].Op == "index" && pr[0].Args[0].Args[1].String() == "0" {
						if scanOf(pr[0].Args[0].Args[0].Val) == 1 && ((x.Op == token.NEQ && onFalse) || (x.Op == token.EQL && onTrue)) {
							guards["at"] = true
						}
					}
				}
				// len(name) == 0 false edge
				if l.Op == "builtin:len" && rr.Op == "const" && rr.Leaf == "0" && scanOf(l.Args[0].Val) == 1 {
					if (x.Op == token.EQL && onFalse) || (x.Op == token.NEQ && onTrue) || (x.Op == token.GTR && onTrue) {
						guards["nonempty"] = true
					}
				}
				// the same two tests on line 3 with '+': the byte-level form of HasPrefix(line3, "+")
				for _, pr := range [][2]*Sym{{l, rr}, {rr, l}} {
					if pr[1].Op == "const" && pr[1].Leaf == "43" && pr[0].Op == "load" && pr[0].Args[0].Op == "index" && pr[0].Args[0].Args[1].String() == "0" {
						if scanOf(pr[0].Args[0].Args[0].Val) == 3 && ((x.Op == token.NEQ && onFalse) || (x.Op == token.EQL && onTrue)) {
							guards["plus0"] = true
						}
					}
				}
				if l.Op == "builtin:len" && rr.Op == "const" && rr.Leaf == "0" && scanOf(l.Args[0].Val) == 3 {
					if (x.Op == token.EQL && onFalse) || (x.Op == token.NEQ && onTrue) || (x.Op == token.GTR && onTrue) {
						guards["plusNonEmpty"] = true
					}
				}
				// len(quals) ? len(seq)
				if l.Op == "builtin:len" && rr.Op == "builtin:len" {
					a, b2 := scanOf(l.Args[0].Val), scanOf(rr.Args[0].Val)
					if (a == 4 && b2 == 2 || a == 2 && b2 == 4) && ((x.Op == token.NEQ && onFalse) || (x.Op == token.EQL && onTrue)) {
						guards["lengths"] = true
					}
				}
			case *ssa.UnOp:
				if x.Op == token.NOT {
					if cl, ok := x.X.(*ssa.Call); ok && fnIs(cl.Call.StaticCallee(), "bytes", "HasPrefix") && onFalse {
						if scanOf(cl.Call.Args[0]) == 3 && isPlusLiteral(cl.Call.Args[1]) {
							guards["plus"] = true
						}
					}
				}
			case *ssa.Call:
				if fnIs(x.Call.StaticCallee(), "bytes", "HasPrefix") && onTrue && scanOf(x.Call.Args[0]) == 3 && isPlusLiteral(x.Call.Args[1]) {
					guards["plus"] = true
				}
			}
		}
	}
	collectGuards(acc.Block(), s, 0, nil)
	r.check(guards["at"] && guards["nonempty"], "REJECT", where, "leading '@'", c.pos(acc.Pos()), "the accepting return lies behind len(line1) > 0 and line1[0] == '@'", "a record whose first line is empty or does not start with '@' can reach the accepting return")
	if guards["plus0"] && guards["plusNonEmpty"] {
		guards["plus"] = true
	}
	r.check(guards["plus"], "REJECT", where, "'+' separator", c.pos(acc.Pos()), "the accepting return lies behind HasPrefix(line3, \"+\")", "a record whose third line does not start with '+' (e.g. is empty) can reach the accepting return")
	r.check(guards["lengths"], "REJECT", where, "equal lengths", c.pos(acc.Pos()), "the accepting return lies behind len(line4) == len(line2)", "a record whose qualities and sequence differ in length can reach the accepting return")
}

// isPlusLiteral: v is []byte("+").
func isPlusLiteral(v ssa.Value) bool {
	if cv, ok := v.(*ssa.Convert); ok {
		if k := constVal(cv.X); k != nil && k.Kind() == constant.String && constant.StringVal(k) == "+" {
			return true
		}
	}
	if sl, ok := v.(*ssa.Slice); ok {
		if al, ok := sl.X.(*ssa.Alloc); ok {
			n, okAll := 0, true
			for _, ref := range *al.Referrers() {
				if ia, ok := ref.(*ssa.IndexAddr); ok {
					for _, r2 := range *ia.Referrers() {
						if st, ok := r2.(*ssa.Store); ok {
							n++
							if k, ok := cInt(constVal(st.Val)); !ok || k != '+' {
								okAll = false
							}
						}
					}
				}
			}
			return n == 1 && okAll
		}
	}
	return false
}

// edgeDominates: target is only reachable from call's block through the edge on which the boolean
// result of call is `want`.
func edgeDominates(call *ssa.Call, want bool, target *ssa.BasicBlock) bool {
	for _, ref := range *call.Referrers() {
		var iff *ssa.If
		neg := false
		switch x := ref.(type) {
		case *ssa.If:
			iff = x
		case *ssa.UnOp:
			if x.Op == token.NOT {
				for _, r2 := range *x.Referrers() {
					if i2, ok := r2.(*ssa.If); ok {
						iff, neg = i2, true
					}
				}
			}
		}
		if iff == nil {
			continue
		}
		b := iff.Block()
		good, bad := b.Succs[0], b.Succs[1]
		if want == neg {
			good, bad = bad, good
		}
		if len(good.Preds) == 1 && good.Dominates(target) && !bad.Dominates(target) {
			// and the bad successor cannot reach target at all
			if !blockReaches(bad, target) && bad != target {
				return true
			}
		}
	}
	return false
}

// rulesScanAliasPkg: SCAN-ALIAS restricted to one package.
func rulesScanAliasPkg(c *Ctx, r *Report, rel string) {
	var funcs []*ssa.Function
	for _, f := range formatFuncs(c) {
		if funcPkgPath(f) == modPath+"/"+rel {
			funcs = append(funcs, f)
		}
	}
	sources, hits := detectScanAlias(c, funcs)
	byCall := map[*ssa.Call][]aliasHit{}
	for _, h := range hits {
		byCall[h.src] = append(byCall[h.src], h)
	}
	for _, sc := range sources {
		f := sc.Parent()
		if hs := byCall[sc]; len(hs) > 0 {
			for _, h := range hs {
				r.violated("SCAN-ALIAS", fname(f), "view "+qname(sc.Call.StaticCallee()), c.pos(h.sink.Pos()), "a view into the scanner's buffer is "+h.why+" without a copy: the next Scan shifts or refills the buffer and silently changes the record")
			}
		} else {
			r.holds("SCAN-ALIAS", fname(f), "view "+qname(sc.Call.StaticCallee()), c.pos(sc.Pos()), "this view is copied or only inspected before the next Scan")
		}
	}
	r.floor("SCAN-ALIAS", len(sources), 1, "Scanner.Bytes call sites")
	withControl(r, "SCAN-ALIAS escaping view", func(cc *Ctx, fs []*ssa.Function) int {
		_, h := detectScanAlias(cc, fs)
		return len(h)
	})
}

// scanWrapper: g calls Scan exactly once, returns a nil error only where that Scan returned true, and every
// return on the Scan-false side is a constructed error or a parameter for which this call passes a non-nil error.
func scanWrapper(c *Ctx, g *ssa.Function, call *ssa.Call) bool {
	if errResultIndex(g.Signature) < 0 || g.Signature.Results().Len() != 1 {
		return false
	}
	var scan *ssa.Call
	n := 0
	instrs(g, func(in ssa.Instruction) {
		if cl, ok := in.(*ssa.Call); ok && methIs(cl.Call.StaticCallee(), "bufio", "Scanner", "Scan") {
			scan = cl
			n++
		}
	})
	if n != 1 {
		return false
	}
	ok := true
	instrs(g, func(in ssa.Instruction) {
		rt, isRt := in.(*ssa.Return)
		if !isRt {
			return
		}
		v := retOperands(rt)[0]
		onTrue := edgeDominates(scan, true, rt.Block())
		switch {
		case isNilConst(v):
			if !onTrue {
				ok = false
			}
		case definitelyNonNilErr(v):
		default:
			if onTrue {
				ok = false // a possibly non-nil error although the line was read: not a pure wrapper
				return
			}
			p, isParam := v.(*ssa.Parameter)
			if !isParam {
				ok = false
				return
			}
			for i, q := range g.Params {
				if q == p {
					a := call.Call.Args[i]
					if !(definitelyNonNilErr(a) || isEOFLoad(a)) {
						ok = false
					}
				}
			}
		}
	})
	return ok
}

// errNilEdgeDominates: target is reachable from call's block only through the edge on which call's error result is nil.
func errNilEdgeDominates(call *ssa.Call, target *ssa.BasicBlock) bool {
	for _, ref := range *call.Referrers() {
		bo, ok := ref.(*ssa.BinOp)
		if !ok || (bo.Op != token.NEQ && bo.Op != token.EQL) {
			continue
		}
		if !(isNilConst(bo.Y) || isNilConst(bo.X)) {
			continue
		}
		for _, r2 := range *bo.Referrers() {
			iff, ok := r2.(*ssa.If)
			if !ok {
				continue
			}
			b := iff.Block()
			nilSucc, errSucc := b.Succs[1], b.Succs[0]
			if bo.Op == token.EQL {
				nilSucc, errSucc = errSucc, nilSucc
			}
			if len(nilSucc.Preds) == 1 && nilSucc.Dominates(target) && !blockReaches(errSucc, target) && errSucc != target {
				return true
			}
		}
	}
	return false
}

// mayBeEOF: the error value can be io.EOF itself: a load of the global, a phi or pass-through of one, or the
// result of a module helper that is handed io.EOF or returns it.
func mayBeEOF(c *Ctx, v ssa.Value, seen map[ssa.Value]bool, depth int) bool {
	if v == nil || seen[v] || depth > 3 {
		return false
	}
	seen[v] = true
	switch x := v.(type) {
	case *ssa.UnOp:
		if g, ok := x.X.(*ssa.Global); ok && x.Op == token.MUL {
			return g.Pkg != nil && g.Pkg.Pkg.Path() == "io" && g.Name() == "EOF"
		}
		if al, ok := x.X.(*ssa.Alloc); ok && x.Op == token.MUL {
			for _, ref := range *al.Referrers() {
				if st, ok := ref.(*ssa.Store); ok && st.Addr == ssa.Value(al) && mayBeEOF(c, st.Val, seen, depth) {
					return true
				}
			}
		}
	case *ssa.Phi:
		for _, e := range x.Edges {
			if mayBeEOF(c, e, seen, depth) {
				return true
			}
		}
	case *ssa.Extract:
		return mayBeEOF(c, x.Tuple, seen, depth)
	case *ssa.ChangeInterface:
		return mayBeEOF(c, x.X, seen, depth)
	case *ssa.Call:
		g := x.Call.StaticCallee()
		if g == nil || g.Blocks == nil || !c.inModule(g) {
			return false
		}
		for _, a := range x.Call.Args {
			if types.Identical(a.Type(), errorType) && mayBeEOF(c, a, seen, depth) {
				return true
			}
		}
		found := false
		instrs(g, func(in ssa.Instruction) {
			if rt, ok := in.(*ssa.Return); ok {
				for _, op := range retOperands(rt) {
					if types.Identical(op.Type(), errorType) && mayBeEOF(c, op, map[ssa.Value]bool{}, depth+1) {
						found = true
					}
				}
			}
		})
		return found
	}
	return false
}

// returnsCutOfParam: every slice/string result the function returns is one of its parameters, copied or cut
// (Slice, Clone, append onto an empty slice), or nil.
func returnsCutOfParam(g *ssa.Function) bool {
	isParam := map[ssa.Value]bool{}
	for _, p := range g.Params {
		isParam[p] = true
	}
	var pure func(v ssa.Value, depth int) bool
	pure = func(v ssa.Value, depth int) bool {
		if depth > 6 {
			return false
		}
		if isParam[v] || isNilConst(v) {
			return true
		}
		switch x := v.(type) {
		case *ssa.Slice:
			return pure(x.X, depth+1)
		case *ssa.Phi:
			for _, e := range x.Edges {
				if e != v && !pure(e, depth+1) {
					return false
				}
			}
			return true
		case *ssa.Convert:
			return pure(x.X, depth+1)
		case *ssa.Call:
			if b, ok := x.Call.Value.(*ssa.Builtin); ok && b.Name() == "append" && len(x.Call.Args) == 2 {
				return pure(x.Call.Args[1], depth+1)
			}
			if h := x.Call.StaticCallee(); h != nil {
				switch qname(h) {
				case "slices.Clone", "bytes.Clone", "strings.Clone":
					return pure(x.Call.Args[0], depth+1)
				}
			}
		}
		return false
	}
	ok := true
	instrs(g, func(in ssa.Instruction) {
		rt, isRt := in.(*ssa.Return)
		if !isRt {
			return
		}
		for _, op := range retOperands(rt) {
			switch op.Type().Underlying().(type) {
			case *types.Slice:
				if !pure(op, 0) {
					ok = false
				}
			case *types.Basic:
				if isStringType(op.Type()) && !pure(op, 0) {
					ok = false
				}
			}
		}
	})
	return ok
}
