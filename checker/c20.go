package main

import (
	"fmt"
	"go/token"
	"go/types"
	"os"
	"regexp"
	"strings"

	"golang.org/x/tools/go/ssa"
)

func init() {
	register("C20", "one obligation per return of ReadNCBI, per bounds goal, per error-returning call, per map update of Symmetrical, per clause of GoString's ordering and formatting; non-trivial = decided by the error-class dataflow, the linear-inequality prover, the points-to/effect computation, or provenance of call arguments", rulesC20, nil)
}

func rulesC20(c *Ctx, r *Report) {
	r.explain("Decides: (ERR=>NIL) every return of ReadNCBI whose error may be non-nil returns a nil matrix — an error, never a partial matrix; the scanner's Err() is consulted after Scan fails (SC1) and no error of any call is dropped (B0: ParseFloat, label extraction); (GRD) every index/slice in ReadNCBI and extractSingleChar is within bounds — in particular chars[i] under the row-length guard and s[0] under the single-character guard, which are also what rejects rows with the wrong number of values and multi-character labels; (STAR) the label \"*\" maps to align.Gap; (CELL) the value stored is ParseFloat(value, 64) of column i+1 under key {row label, column label i}; (COMMENT-RAW) the empty/comment test is applied to the scanner's line itself; (PURE/FRESH) Symmetrical never writes its receiver and returns a freshly made map; (SYM) it stores every pair and its mirror with the original score and panics exactly on the edge `mirror present && mirror score != score` of off-diagonal pairs; (GS) GoString collects all keys, sorts them by bytes.Compare on the key bytes, and prints one `{a,b}:score` line per sorted key with charOrGap(k[0]), charOrGap(k[1]) and m.Get(k[0],k[1]) formatted with %v. Not decided: that the parsed pairs equal the table's as a set equality; regexp whitespace semantics; float formatting by %v (shortest form that parses back). Added rules: (GS) the symbol formatter is {Gap, %q}; sorting by slices.SortFunc(bytes.Compare) accepted; (CELL) value index = column index + 1 on the same value list; (NUM-WIDTH); (GEN) the generator command prints the matrix ReadNCBI returned, adding only {Gap,Gap} = 0. (REJECT-ONLY) in ReadNCBI and its helpers every error constructed lies, on every path, behind a documented rejection reason (row length differs from columns+1; ParseFloat failed; label not one character; Scanner.Err), and no other external error source is consulted: rectangular tables and any row order are never rejected for another reason. (SC-LIMIT) no Scanner.Buffer call in smtext sets a token limit below 64 KiB; table rules fall back on constant folding of the package initialiser (E-FOLD) when its shape is unknown. GS additionally: GoString writes into a buffer allocated by that call.")
	r.assume("regexp `\\S+` finds exactly the whitespace-separated tokens; strconv.ParseFloat and fmt %v round-trip float64")
	e := effFor(c)
	rd := c.fn("formats/smtext", "ReadNCBI")
	ex := c.role("smtext.singleChar")
	if rd == nil {
		r.undecided("ERR=>NIL", "formats/smtext.ReadNCBI", "anchor", "", "ReadNCBI not found")
	} else {
		rulesReadNCBI(c, r, rd, ex)
		rulesNCBITokens(c, r, rd)
		r.floor("REJECT-ONLY", rulesRejectOnly(c, r, rd, "formats/smtext.ReadNCBI", ncbiRejectCfg()), 3, "errors constructed and external error sources in ReadNCBI and its helpers (2 + 1 constructed, ParseFloat, Scanner.Err today)")
	}
	sym := c.fn("align", "SubstitutionMatrix.Symmetrical")
	if sym == nil {
		r.undecided("PURE", "align.SubstitutionMatrix.Symmetrical", "anchor", "", "Symmetrical not found")
	} else {
		e.rulePure(r, "PURE", sym, "m")
		e.ruleFresh(r, "FRESH", sym)
		rulesSymmetrical(c, r, sym)
	}
	gs := c.fn("align", "SubstitutionMatrix.GoString")
	if gs == nil {
		r.undecided("GS", "align.SubstitutionMatrix.GoString", "anchor", "", "GoString not found")
	} else {
		e.rulePure(r, "PURE", gs, "m")
		rulesGoString(c, r, gs)
	}
	rulesGenNCBI(c, r)
}

func rulesReadNCBI(c *Ctx, r *Report, rd, ex *ssa.Function) {
	where := fname(rd)
	r.analysed(where)
	// ex == nil: the label check is written out in ReadNCBI itself (no helper)
	fns := []*ssa.Function{rd}
	if ex != nil {
		r.analysed(fname(ex))
		fns = append(fns, ex)
	}
	// ERR=>NIL
	n := 0
	// a return that hands on both results of a helper of the package (return finish(sc, m)): the helper's returns are
	// the returns
	tailHelper := func(rt *ssa.Return) *ssa.Function {
		ops := retOperands(rt)
		if len(ops) != 2 {
			return nil
		}
		e0, ok0 := ops[0].(*ssa.Extract)
		e1, ok1 := ops[1].(*ssa.Extract)
		if !ok0 || !ok1 || e0.Tuple != e1.Tuple || e0.Index != 0 || e1.Index != 1 {
			return nil
		}
		cl, ok := e0.Tuple.(*ssa.Call)
		if !ok {
			return nil
		}
		h := cl.Call.StaticCallee()
		if h == nil || h.Blocks == nil || funcPkgPath(h) != funcPkgPath(rd) || h == ex {
			return nil
		}
		return h
	}
	retFns := []*ssa.Function{rd}
	instrs(rd, func(in ssa.Instruction) {
		if rt, ok := in.(*ssa.Return); ok {
			if h := tailHelper(rt); h != nil {
				retFns = append(retFns, h)
				r.analysed(fname(h))
			}
		}
	})
	for _, rf := range retFns {
		rf := rf
		instrs(rf, func(in ssa.Instruction) {
			rt, ok := in.(*ssa.Return)
			if !ok {
				return
			}
			if rf == rd && tailHelper(rt) != nil {
				return // judged in the helper
			}
			ops := retOperands(rt)
			if len(ops) != 2 || isNilConst(ops[1]) {
				return
			}
			n++
			k, isConst := ops[0].(*ssa.Const)
			r.check(isConst && k.IsNil(), "ERR=>NIL", where, "error return", c.pos(rt.Pos()), "this return, whose error may be non-nil, returns a nil matrix", "this return may carry an error together with a (partially filled) matrix")
		})
	}
	r.floor("ERR=>NIL", n, 3, "error returns of ReadNCBI")
	// the success return is dominated by the Err() test
	s := newSymb(rd)
	okFinal := false
	for _, rf := range retFns {
		fs := s
		if rf != rd {
			fs = newSymb(rf)
		}
		instrs(rf, func(in ssa.Instruction) {
			rt, ok := in.(*ssa.Return)
			if !ok {
				return
			}
			ops := retOperands(rt)
			if len(ops) == 2 && isNilConst(ops[1]) {
				g := guardOf(fs, rt.Block(), nil)
				if strings.Contains(g, "!(call:bufio.(*Scanner).Err(") && strings.Contains(g, " != nil)") {
					okFinal = true
				}
			}
		})
	}
	r.check(okFinal, "ERR=>NIL", where, "success only after Err() == nil", c.pos(rd.Pos()), "the matrix is returned only on the edge where the scanner's Err() is nil", "the success return is not guarded by the scanner's Err(): a read failure yields a partial matrix with a nil error")
	rulesScanErrFor(c, r, rd)
	// B0 + GRD for both functions
	rulesNoDroppedErrors(c, r, fns, len(fns)+1)
	rulesNumWidth(c, r, "formats/smtext")
	rulesGrdFuncs(c, r, fns, 10, "bounds goals in ReadNCBI and extractSingleChar (row[0], valStrs[0], valStrs[1:], chars[i], s[0])")
	// STAR
	gap, _ := stepConstIn(c, "align", "Gap")
	if ex == nil {
		rulesStarInline(c, r, rd, gap)
	} else {
		se := newSymb(ex)
		okStar := false
		for _, rc := range returnCases(se, ex) {
			if len(rc.vals) != 2 {
				continue
			}
			if strings.Contains(rc.guard, `("*" == P0)`) && !strings.Contains(rc.guard, `!("*" == P0)`) {
				if k, ok := cInt(constVal(rc.vals[0])); ok && k == gap {
					okStar = true
				}
			}
		}
		r.check(okStar, "STAR", fname(ex), "'*' is the gap", c.pos(ex.Pos()), fmt.Sprintf("the label \"*\" returns align.Gap (%d)", gap), "the label \"*\" does not return align.Gap")
		// other labels return s[0]
		okChar := false
		for _, rc := range returnCases(se, ex) {
			if len(rc.vals) == 2 && isNilConst(rc.vals[1]) && se.expr(rc.vals[0]).String() == "P0[0]" {
				okChar = true
			}
		}
		r.check(okChar, "STAR", fname(ex), "other labels are their byte", c.pos(ex.Pos()), "any other single-character label returns that character", "a single-character label other than \"*\" is not returned as its own byte")
	}
	// CELL: m[[2]byte{rowLabel, chars[j]}] = ParseFloat(values[j+1], 64), values[0] being the row label's text
	okCell := false
	cellWhy := "no map update with a ParseFloat value found"
	// the store may live in a helper stage of ReadNCBI: its expressions are read with the helper's parameters
	// replaced by what ReadNCBI passes
	type scope struct {
		fn *ssa.Function
		sy *symb
	}
	scopes := []scope{{rd, s}}
	instrs(rd, func(in ssa.Instruction) {
		if cl, ok := in.(*ssa.Call); ok {
			if g := cl.Call.StaticCallee(); g != nil && g.Blocks != nil && c.inModule(g) && g != ex && funcPkgPath(g) == funcPkgPath(rd) {
				sub := newSymb(g)
				for i, p := range g.Params {
					if i < len(cl.Call.Args) {
						sub.subst[p] = s.expr(cl.Call.Args[i])
					}
				}
				scopes = append(scopes, scope{g, sub})
			}
		}
	})
	for _, sc := range scopes {
		s := sc.sy
		_ = s
		instrs(sc.fn, func(in ssa.Instruction) {
			mu, ok := in.(*ssa.MapUpdate)
			if !ok {
				return
			}
			v := s.expr(mu.Value)
			// the number parsed by a helper of the package that wraps ParseFloat and its error — rendered through its body
			// as `0 if ParseFloat failed, else the number`: the number (the failure is returned as an error, B0)
			if v.Op == "ite" && len(v.Args) == 3 && v.Args[2].Op == "extract:0" && len(v.Args[2].Args) == 1 && strings.HasPrefix(v.Args[2].Args[0].Op, "call:strconv.ParseFloat") &&
				v.Args[0].String() == "(extract:1("+v.Args[2].Args[0].String()+") != nil)" && v.Args[1].Op == "const" {
				v = v.Args[2]
			}
			// value: extract:0(call:strconv.ParseFloat(<elem>, 64))
			if v.Op != "extract:0" || len(v.Args) != 1 || !strings.HasPrefix(v.Args[0].Op, "call:strconv.ParseFloat") || len(v.Args[0].Args) != 2 {
				return
			}
			elem := v.Args[0].Args[0]
			// elem = load(index(BASE, I)) or index(BASE, I); BASE = slice(V, lo, _) or V
			if elem.Op == "load" {
				elem = elem.Args[0]
			}
			if elem.Op != "index" {
				cellWhy = "the parsed text is not an element of the row's value list: " + elem.String()
				return
			}
			base, idx := elem.Args[0], linOf(elem.Args[1])
			if base.Op == "slice" {
				if base.Args[2].String() != "_" {
					cellWhy = "the value list is cut at its end: " + base.String()
					return
				}
				if base.Args[1].String() != "_" {
					lo := linOf(base.Args[1])
					idx = linSub(idx, linSub(linForm{coef: map[string]int64{}}, lo)) // idx + lo
				}
				base = base.Args[0]
			}
			// key array elements
			ld, ok := mu.Key.(*ssa.UnOp)
			if !ok {
				return
			}
			al, ok := ld.X.(*ssa.Alloc)
			if !ok {
				return
			}
			var el [2]*Sym
			for _, ref := range *al.Referrers() {
				if ia, ok := ref.(*ssa.IndexAddr); ok {
					k, _ := cInt(constVal(ia.Index))
					for _, r2 := range *ia.Referrers() {
						if st, ok := r2.(*ssa.Store); ok && k >= 0 && k < 2 {
							el[k] = s.expr(st.Val)
						}
					}
				}
			}
			if el[0] == nil || el[1] == nil {
				cellWhy = "the key is not a two-element array built in place"
				return
			}
			// row label: extract:0(call extractSingleChar(load(index(base, 0))))
			if os.Getenv("BIOCHECK_DEBUG") != "" {
				fmt.Fprintln(os.Stderr, "CELL key:", el[0].String(), "|", el[1].String(), "| base", base.String())
			}
			rowOK := el[0].Op == "extract:0" && len(el[0].Args) == 1 && strings.Contains(el[0].Args[0].Op, "call:") && len(el[0].Args[0].Args) == 1
			if !rowOK && ex == nil {
				// the label computed in place: ite("*" == L, Gap, L[0]) with L element 0 of the same value list
				L := "load(" + base.String() + "[0])"
				want1 := fmt.Sprintf("ite((\"*\" == %s), 255, %s[0])", L, L)
				if el[0].String() == want1 {
					rowOK = true
					el[0] = &Sym{Op: "extract:0", Args: []*Sym{{Op: "call:inline", Args: []*Sym{{Op: "load", Args: []*Sym{{Op: "index", Args: []*Sym{base, {Op: "const", Leaf: "0"}}}}}}}}}
				}
			}
			if rowOK {
				a0 := el[0].Args[0].Args[0]
				if a0.Op == "load" {
					a0 = a0.Args[0]
				}
				rowOK = a0.Op == "index" && a0.Args[0].String() == base.String() && a0.Args[1].String() == "0"
			}
			// column label: load(index(CHARS, J)) with value index = J + 1
			col := el[1]
			if col.Op == "load" {
				col = col.Args[0]
			}
			colOK := col.Op == "index" && linSub(idx, linOf(col.Args[1])).String() == "1"
			if rowOK && colOK {
				okCell = true
			} else {
				cellWhy = fmt.Sprintf("row label from element 0 of the same value list: %v; value index = column index + 1: %v (value %s, column %s)", rowOK, colOK, elem.String(), el[1].String())
			}
		})
	}
	r.check(okCell, "CELL", where, "score cell", c.pos(rd.Pos()), "the score stored under {row label, column label i} is ParseFloat(value i of the row, 64)", "the stored cell is not m[{rowLabel, chars[j]}] = ParseFloat(values[j+1], 64): "+cellWhy)
	// COMMENT-RAW
	okRaw := false
	rawTest := func(fn *ssa.Function, sy *symb) {
		instrs(fn, func(in ssa.Instruction) {
			bo, ok := in.(*ssa.BinOp)
			if !ok || bo.Op != token.EQL {
				return
			}
			l := sy.expr(bo.X).String()
			rr := sy.expr(bo.Y).String()
			for _, pr := range [][2]string{{l, rr}, {rr, l}} {
				if pr[1] == "35" && strings.HasPrefix(pr[0], "call:bufio.(*Scanner).Text(") && strings.HasSuffix(pr[0], ")[0]") && strings.Count(pr[0], "call:") == 2 {
					okRaw = true
				}
			}
		})
	}
	rawTest(rd, s)
	// the test made by a predicate of the package applied to the line: isIgnored(row)
	instrs(rd, func(in ssa.Instruction) {
		cl, ok := in.(*ssa.Call)
		if !ok {
			return
		}
		h := cl.Call.StaticCallee()
		if h == nil || h.Blocks == nil || h.Pkg != rd.Pkg || h == rd || len(h.Params) != len(cl.Call.Args) {
			return
		}
		if res := h.Signature.Results(); res.Len() != 1 || !types.Identical(res.At(0).Type(), types.Typ[types.Bool]) {
			return
		}
		hs := newSymb(h)
		for i, p := range h.Params {
			hs.subst[p] = s.expr(cl.Call.Args[i])
		}
		rawTest(h, hs)
	})
	r.check(okRaw, "COMMENT-RAW", where, "comment test on the raw line", c.pos(rd.Pos()), "a line is a comment iff byte 0 of the scanner's own line is '#'", "the '#' test is not applied to byte 0 of the scanner's line itself (e.g. it is applied after trimming): an indented data row whose first label is '#' is dropped, or an indented comment is parsed")
}

func stepConstIn(c *Ctx, rel, name string) (int64, bool) {
	p := c.pkg(rel)
	if p == nil {
		return 0, false
	}
	k, ok := p.Types.Scope().Lookup(name).(*types.Const)
	if !ok {
		return 0, false
	}
	return cInt(k.Val())
}

// rulesScanErrFor: SC1 for one function whose Scan is a loop condition.
func rulesScanErrFor(c *Ctx, r *Report, f *ssa.Function) {
	sy := newSymb(f)
	n := 0
	instrs(f, func(ins ssa.Instruction) {
		call, ok := ins.(*ssa.Call)
		if !ok || !methIs(call.Call.StaticCallee(), "bufio", "Scanner", "Scan") {
			return
		}
		n++
		recv := sy.expr(call.Call.Args[0]).String()
		var starts []*ssa.BasicBlock
		for _, ref := range *call.Referrers() {
			if iff, ok := ref.(*ssa.If); ok {
				starts = append(starts, iff.Block().Succs[1])
			}
		}
		hasErr := func(b *ssa.BasicBlock) bool {
			for _, x := range b.Instrs {
				if cl, ok := x.(*ssa.Call); ok && methIs(cl.Call.StaticCallee(), "bufio", "Scanner", "Err") && sy.expr(cl.Call.Args[0]).String() == recv {
					return true
				}
				// a helper of the package that is handed the scanner and consults its Err() before each of its returns
				if cl, ok := x.(*ssa.Call); ok {
					if h := cl.Call.StaticCallee(); h != nil && h.Blocks != nil && funcPkgPath(h) == funcPkgPath(f) {
						for i, a := range cl.Call.Args {
							if i >= len(h.Params) || sy.expr(a).String() != recv {
								continue
							}
							var errBlocks []*ssa.BasicBlock
							instrs(h, func(in2 ssa.Instruction) {
								if ec, ok := in2.(*ssa.Call); ok && methIs(ec.Call.StaticCallee(), "bufio", "Scanner", "Err") && ec.Call.Args[0] == ssa.Value(h.Params[i]) {
									errBlocks = append(errBlocks, ec.Block())
								}
							})
							all := len(errBlocks) > 0
							instrs(h, func(in2 ssa.Instruction) {
								if rt, ok := in2.(*ssa.Return); ok {
									dom := false
									for _, eb := range errBlocks {
										if eb == rt.Block() || eb.Dominates(rt.Block()) {
											dom = true
										}
									}
									if !dom {
										all = false
									}
								}
							})
							if all {
								return true
							}
						}
					}
				}
			}
			return false
		}
		bad := len(starts) == 0
		seen := map[*ssa.BasicBlock]bool{}
		var dfs func(b *ssa.BasicBlock)
		dfs = func(b *ssa.BasicBlock) {
			if seen[b] || hasErr(b) {
				return
			}
			seen[b] = true
			if _, ok := b.Instrs[len(b.Instrs)-1].(*ssa.Return); ok {
				bad = true
			}
			for _, s := range b.Succs {
				dfs(s)
			}
		}
		for _, s := range starts {
			dfs(s)
		}
		r.check(!bad, "SC1", fname(f), "Scan", c.pos(call.Pos()), "when Scan returns false, Err() of the same scanner is consulted before every exit", "a path from `Scan() == false` reaches a return without consulting Err()")
	})
	r.floor("SC1", n, 1, "Scan call sites")
	// SC-LIMIT: the scanner's token limit is never set below bufio's default (64 KiB): rows padded with any amount
	// of whitespace, long comment lines and wide alphabets are read
	var low []string
	for _, g := range c.moduleFuncs() {
		if funcPkgPath(g) != funcPkgPath(f) {
			continue
		}
		instrs(g, func(in ssa.Instruction) {
			cl, ok := in.(*ssa.Call)
			if !ok || !methIs(cl.Call.StaticCallee(), "bufio", "Scanner", "Buffer") || len(cl.Call.Args) != 3 {
				return
			}
			if k, ok := cInt(constVal(cl.Call.Args[2])); !ok || k < 64*1024 {
				low = append(low, c.pos(cl.Pos()))
			}
		})
	}
	r.check(len(low) == 0, "SC-LIMIT", fname(f), "token limit not lowered", c.pos(f.Pos()), "no Scanner.Buffer call sets a token limit below bufio's default of 64 KiB (none lowers it)",
		fmt.Sprintf("Scanner.Buffer sets a token limit that is not a constant of at least 64 KiB at %v: lines the default scanner reads (long comments, heavily padded rows, wide alphabets) fail with 'token too long'", low))
}

var keyByteRe = regexp.MustCompile(`^(.*)\[([01])\]\)?$`)

func rulesSymmetrical(c *Ctx, r *Report, f *ssa.Function) {
	where := fname(f)
	s := newSymb(f)
	// map updates on the result: keys k and flip, value v
	var ups []*ssa.MapUpdate
	instrs(f, func(in ssa.Instruction) {
		if mu, ok := in.(*ssa.MapUpdate); ok {
			ups = append(ups, mu)
		}
	})
	nK, nF := 0, 0
	okVal := true
	var v ssa.Value
	for _, mu := range ups {
		if _, ok := mu.Map.(*ssa.MakeMap); !ok {
			okVal = false
		}
		if v == nil {
			v = mu.Value
		} else if mu.Value != v {
			okVal = false
		}
		switch keyKind(mu.Key) {
		case "range key":
			nK++
		case "mirrored":
			nF++
		}
	}
	// the value is the range value (extract #2 of next)
	okRangeVal := false
	if ex, ok := v.(*ssa.Extract); ok && ex.Index == 2 {
		if _, ok := ex.Tuple.(*ssa.Next); ok {
			okRangeVal = true
		}
	}
	okPaths := len(ups) == 2 && nK == 1 && nF == 1
	if !okPaths && nK+nF == len(ups) && nK >= 1 && nF >= 1 {
		// the stores spread over the arms (a diagonal pair stored once and done): every way through the loop body that
		// does not panic stores the pair, and stores the mirror unless it took the `k[0] == k[1]` edge, where the
		// mirror is the pair itself
		var header *ssa.BasicBlock
		instrs(f, func(in ssa.Instruction) {
			if nx, ok := in.(*ssa.Next); ok {
				header = nx.Block()
			}
		})
		if header != nil {
			loop := naturalLoop(header)
			okPaths = true
			nPaths := 0
			var walk func(b *ssa.BasicBlock, hasK, hasF, diag bool, depth int)
			walk = func(b *ssa.BasicBlock, hasK, hasF, diag bool, depth int) {
				if !okPaths || depth > 64 || nPaths > 256 {
					okPaths = false
					return
				}
				for _, in := range b.Instrs {
					if mu, ok := in.(*ssa.MapUpdate); ok {
						switch keyKind(mu.Key) {
						case "range key":
							hasK = true
						case "mirrored":
							hasF = true
						}
					}
				}
				if _, isPanic := lastInstr(b).(*ssa.Panic); isPanic {
					return
				}
				for i, su := range b.Succs {
					d := diag
					if iff, ok := lastInstr(b).(*ssa.If); ok {
						if bo, ok := iff.Cond.(*ssa.BinOp); ok && (bo.Op == token.EQL || bo.Op == token.NEQ) {
							l, rr := s.expr(bo.X).String(), s.expr(bo.Y).String()
							if os.Getenv("BIOCHECK_DEBUG") != "" {
								fmt.Fprintln(os.Stderr, "SYM diag?", l, "|", rr)
							}
							ml, mr := keyByteRe.FindStringSubmatch(l), keyByteRe.FindStringSubmatch(rr)
							if ml != nil && mr != nil && ml[1] == mr[1] && ml[2] != mr[2] {
								if (bo.Op == token.EQL) == (i == 0) {
									d = true
								}
							}
						}
					}
					if su == header {
						nPaths++
						if !hasK || !(hasF || d) {
							if os.Getenv("BIOCHECK_DEBUG") != "" {
								fmt.Fprintln(os.Stderr, "SYM bad path at", b.Index, hasK, hasF, d)
							}
							okPaths = false
						}
						continue
					}
					if !loop[su] {
						if !blockAlwaysPanics(su) {
							okPaths = false // the loop is left from inside the body
						}
						continue
					}
					walk(su, hasK, hasF, d, depth+1)
				}
			}
			for _, su := range header.Succs {
				if loop[su] && su != header {
					walk(su, false, false, false, 0)
				}
			}
			if nPaths == 0 {
				okPaths = false
			}
			if os.Getenv("BIOCHECK_DEBUG") != "" {
				fmt.Fprintln(os.Stderr, "SYM paths", nPaths, okPaths)
			}
		}
	}
	r.check(okPaths && okVal && okRangeVal, "SYM", where, "stores pair and mirror", c.pos(f.Pos()), "every iteration stores the pair and its mirror image into the new map with the pair's own score", fmt.Sprintf("Symmetrical does not store exactly {k: v, flip(k): v} per entry (map updates: %d, original key: %d, mirrored key: %d, same original value into the fresh map: %v)", len(ups), nK, nF, okVal && okRangeVal))
	// the mirrored key is {k[1], k[0]}
	okFlip := false
	flipFns := []*ssa.Function{f}
	for _, g := range c.calleesIn(f) {
		// the mirrored key built by a helper of the package from the key: flipped(k)
		if g.Pkg == f.Pkg && g.Blocks != nil && len(g.Params) == 1 && types.Identical(g.Params[0].Type(), g.Signature.Results().At(0).Type()) && g.Signature.Results().Len() == 1 {
			flipFns = append(flipFns, g)
		}
	}
	for _, ff := range flipFns {
		s := newSymb(ff)
		instrs(ff, func(in ssa.Instruction) {
			al, ok := in.(*ssa.Alloc)
			if !ok {
				return
			}
			var el [2]string
			for _, ref := range *al.Referrers() {
				if ia, ok := ref.(*ssa.IndexAddr); ok {
					k, _ := cInt(constVal(ia.Index))
					for _, r2 := range *ia.Referrers() {
						if st, ok := r2.(*ssa.Store); ok && k >= 0 && k < 2 {
							el[k] = s.expr(st.Val).String()
						}
					}
				}
			}
			if strings.HasSuffix(el[0], "[1])") && strings.HasSuffix(el[1], "[0])") && strings.TrimSuffix(el[0], "[1])") == strings.TrimSuffix(el[1], "[0])") {
				okFlip = true
			}
		})
	}
	r.check(okFlip, "SYM", where, "mirror key", c.pos(f.Pos()), "the mirrored key is {k[1], k[0]}", "the mirrored key is not {k[1], k[0]}")
	// panic exactly on: k[0] != k[1] && ok && v2 != v
	var pn *ssa.Panic
	instrs(f, func(in ssa.Instruction) {
		if p, ok := in.(*ssa.Panic); ok {
			pn = p
		}
	})
	if pn == nil {
		r.violated("SYM", where, "conflict panic", c.pos(f.Pos()), "no panic on conflicting mirrored pairs")
		return
	}
	g := guardOf(s, pn.Block(), nil)
	parts := strings.Split(g, " && ")
	hasOK, hasNe, hasDiag, extra := false, false, false, 0
	for _, p := range parts {
		switch {
		case strings.HasPrefix(p, "extract:1(lookup("):
			hasOK = true
		case strings.HasPrefix(p, "(extract:0(lookup(") && strings.Contains(p, " != extract:2(") || strings.HasPrefix(p, "(extract:2(") && strings.Contains(p, " != extract:0(lookup("):
			hasNe = true
		case strings.Contains(p, "[0]") && strings.Contains(p, "[1]") && strings.Contains(p, " != ") && !strings.HasPrefix(p, "!"):
			hasDiag = true
		case strings.Contains(p, "[0]") && strings.Contains(p, "[1]") && strings.Contains(p, " == ") && strings.HasPrefix(p, "!(") && !strings.Contains(p, "lookup"):
			hasDiag = true // the same test written as !(k[0] == k[1])
		case strings.HasPrefix(p, "extract:0(") && !strings.Contains(p, "lookup"):
			// loop condition (range ok)
		default:
			extra++
		}
	}
	r.check(hasOK && hasNe && hasDiag && extra == 0, "SYM", where, "conflict panic", c.pos(pn.Pos()), "the panic lies exactly on: off-diagonal pair, mirror present in the receiver, mirror's score != this score", "the conflict panic is guarded by ["+g+"], want exactly [k[0] != k[1], mirror present, mirror score != score]")
}

func rulesGoString(c *Ctx, r *Report, f *ssa.Function) {
	where := fname(f)
	// the text is built in a buffer of this call's own: allocated here, not taken from a pool or a package variable
	// (what an earlier call left in a shared buffer would come first)
	{
		var shared []string
		nW := 0
		for _, fc := range fmtCallsIn(f) {
			nW++
			w := fc.w
			for {
				switch x := w.(type) {
				case *ssa.MakeInterface:
					w = x.X
					continue
				case *ssa.ChangeType:
					w = x.X
					continue
				}
				break
			}
			fresh := false
			switch x := w.(type) {
			case *ssa.Alloc:
				fresh = x.Parent() == f || fc.sy != nil
			case *ssa.Call:
				fresh = fnIs(x.Call.StaticCallee(), "bytes", "NewBuffer") || fnIs(x.Call.StaticCallee(), "bytes", "NewBufferString")
			case *ssa.Parameter:
				fresh = x.Parent() != f // a helper's writer parameter: judged at the call in GoString
			}
			if !fresh {
				shared = append(shared, c.pos(fc.call.Pos()))
			}
		}
		r.check(len(shared) == 0 && nW > 0, "GS", where, "a buffer of its own", c.pos(f.Pos()),
			"every write of GoString goes into a buffer allocated by this call", fmt.Sprintf("GoString writes into a buffer that is not allocated by this call (writes at %v): text left there by an earlier call comes out first", shared))
	}
	// the keys may be collected and sorted by a helper stage that receives the matrix
	kf := f
	hasSort := func(g *ssa.Function) bool {
		found := false
		instrs(g, func(in ssa.Instruction) {
			if cl, ok := in.(*ssa.Call); ok && cl.Call.StaticCallee() != nil {
				qn := qname(cl.Call.StaticCallee())
				if qn == "sort.Slice" || strings.HasPrefix(qn, "slices.SortFunc") || strings.HasPrefix(qn, "slices.SortStableFunc") {
					found = true
				}
			}
		})
		return found
	}
	var keyCall *ssa.Call
	if !hasSort(f) {
		instrs(f, func(in ssa.Instruction) {
			if cl, ok := in.(*ssa.Call); ok {
				if g := cl.Call.StaticCallee(); g != nil && g.Blocks != nil && c.inModule(g) && len(cl.Call.Args) == 1 && cl.Call.Args[0] == ssa.Value(f.Params[0]) && hasSort(g) {
					kf, keyCall = g, cl
					r.analysed(fname(g))
				}
			}
		})
	}
	// keys collected from a range over m into a slice, sort.Slice with bytes.Compare(sorted[i], sorted[j]) < 0
	var sortCall *ssa.Call
	instrs(kf, func(in ssa.Instruction) {
		if cl, ok := in.(*ssa.Call); ok && fnIs(cl.Call.StaticCallee(), "sort", "Slice") {
			sortCall = cl
		}
	})
	if sortCall == nil {
		// slices.SortFunc(keys, bytes.Compare): the same order, stated directly
		var sf *ssa.Call
		instrs(kf, func(in ssa.Instruction) {
			if cl, ok := in.(*ssa.Call); ok {
				if g := cl.Call.StaticCallee(); g != nil && g.Pkg == nil || g != nil && g.Pkg != nil && g.Pkg.Pkg.Path() == "slices" {
					if strings.HasPrefix(g.Name(), "SortFunc") || strings.HasPrefix(g.Name(), "SortStableFunc") {
						sf = cl
					}
				}
			}
		})
		if sf != nil && len(sf.Call.Args) == 2 {
			cmp := sf.Call.Args[1]
			if ct, ok := cmp.(*ssa.ChangeType); ok {
				cmp = ct.X
			}
			fn, _ := cmp.(*ssa.Function)
			okCmp := fn != nil && fnIs(fn, "bytes", "Compare")
			r.check(okCmp, "GS", where, "sorted by key", c.pos(sf.Pos()), "keys are sorted with slices.SortFunc by bytes.Compare: ascending key order", "the keys are sorted with a comparison other than bytes.Compare on the key bytes")
			sortCall = sf
		}
	}
	if sortCall == nil {
		r.violated("GS", where, "sorted by key", c.pos(f.Pos()), "the keys are not sorted with sort.Slice before printing: lines appear in map order, or in an order that is not the key order")
		return
	}
	if fnIs(sortCall.Call.StaticCallee(), "sort", "Slice") {
		okLess := false
		// the less function as a method value of the key list under a named type: named(sorted).less
		if mc, ok := sortCall.Call.Args[1].(*ssa.MakeClosure); ok && len(mc.Bindings) == 1 {
			if w, ok := mc.Fn.(*ssa.Function); ok && strings.Contains(w.Synthetic, "bound method wrapper") {
				var m *ssa.Function
				instrs(w, func(in ssa.Instruction) {
					if cl, ok := in.(ssa.CallInstruction); ok && cl.Common().StaticCallee() != nil {
						m = cl.Common().StaticCallee()
					}
				})
				recv := mc.Bindings[0]
				if ct, ok := recv.(*ssa.ChangeType); ok {
					recv = ct.X
				}
				var sorted ssa.Value
				if mi, ok := sortCall.Call.Args[0].(*ssa.MakeInterface); ok {
					sorted = mi.X
				}
				sameCell := recv == sorted && sorted != nil
				if l1, ok := recv.(*ssa.UnOp); ok && !sameCell {
					if l2, ok := sorted.(*ssa.UnOp); ok && l1.Op == token.MUL && l2.Op == token.MUL && l1.X == l2.X && l1.Block() == l2.Block() {
						sameCell = true // two loads of the variable with nothing but the conversion between them
						for _, in := range l1.Block().Instrs {
							if st, ok := in.(*ssa.Store); ok && st.Addr == l1.X {
								sameCell = false
							}
						}
					}
				}
				if m != nil && m.Blocks != nil && c.inModule(m) && len(m.Params) == 3 && sameCell {
					r.analysed(fname(m))
					el := func(v ssa.Value, param int) bool {
						ld, ok := v.(*ssa.UnOp)
						if !ok {
							return false
						}
						ia, ok := ld.X.(*ssa.IndexAddr)
						return ok && ia.X == ssa.Value(m.Params[0]) && ia.Index == ssa.Value(m.Params[1+param])
					}
					instrs(m, func(in ssa.Instruction) {
						rt, ok := in.(*ssa.Return)
						if !ok || len(rt.Results) != 1 || len(m.Blocks) != 1 {
							return
						}
						bo, ok := rt.Results[0].(*ssa.BinOp)
						if !ok || bo.Op != token.LSS {
							return
						}
						k, okk := cInt(constVal(bo.Y))
						cl, okc := bo.X.(*ssa.Call)
						if okk && k == 0 && okc && fnIs(cl.Call.StaticCallee(), "bytes", "Compare") && el(cl.Call.Args[0], 0) && el(cl.Call.Args[1], 1) {
							okLess = true
						}
					})
				}
			}
		}
		if mc, ok := sortCall.Call.Args[1].(*ssa.MakeClosure); ok && !okLess {
			g := mc.Fn.(*ssa.Function)
			// the sorted slice variable: what sort.Slice receives
			var sortedCell ssa.Value
			if mi, ok := sortCall.Call.Args[0].(*ssa.MakeInterface); ok {
				if ld, ok := mi.X.(*ssa.UnOp); ok {
					sortedCell = ld.X
				}
			}
			elemOf := func(v ssa.Value, param int) bool {
				// load(IndexAddr(load(FV bound to sortedCell), P<param>))
				ld, ok := v.(*ssa.UnOp)
				if !ok {
					return false
				}
				ia, ok := ld.X.(*ssa.IndexAddr)
				if !ok || ia.Index != ssa.Value(g.Params[param]) {
					return false
				}
				base, ok := ia.X.(*ssa.UnOp)
				if !ok {
					return false
				}
				fv, ok := base.X.(*ssa.FreeVar)
				return ok && bindingOf(fv) == sortedCell && sortedCell != nil
			}
			instrs(g, func(in ssa.Instruction) {
				rt, ok := in.(*ssa.Return)
				if !ok || len(rt.Results) != 1 {
					return
				}
				bo, ok := rt.Results[0].(*ssa.BinOp)
				if !ok || bo.Op != token.LSS {
					return
				}
				k, okk := cInt(constVal(bo.Y))
				cl, okc := bo.X.(*ssa.Call)
				if okk && k == 0 && okc && fnIs(cl.Call.StaticCallee(), "bytes", "Compare") && len(g.Params) == 2 {
					if elemOf(cl.Call.Args[0], 0) && elemOf(cl.Call.Args[1], 1) {
						okLess = true
					}
				}
			})
		}
		// the keys kept as [2]byte and compared byte by byte: first bytes if they differ, else second bytes — the
		// order bytes.Compare gives
		if mc, ok := sortCall.Call.Args[1].(*ssa.MakeClosure); ok && !okLess {
			g := mc.Fn.(*ssa.Function)
			var sortedCell ssa.Value
			if mi, ok := sortCall.Call.Args[0].(*ssa.MakeInterface); ok {
				if ld, ok := mi.X.(*ssa.UnOp); ok {
					sortedCell = ld.X
				}
			}
			elemK := func(v ssa.Value, param int, k int64) bool {
				ld, ok := v.(*ssa.UnOp)
				if !ok || ld.Op != token.MUL {
					return false
				}
				inner, ok := ld.X.(*ssa.IndexAddr)
				if !ok {
					return false
				}
				if kk, ok := cInt(constVal(inner.Index)); !ok || kk != k {
					return false
				}
				outer, ok := inner.X.(*ssa.IndexAddr)
				if !ok {
					// a local copy of the element: ki := keys[i]
					if al, isAl := inner.X.(*ssa.Alloc); isAl {
						if el, isLd := cellValue(al).(*ssa.UnOp); isLd && el.Op == token.MUL {
							outer, ok = el.X.(*ssa.IndexAddr)
						}
					}
				}
				if !ok || len(g.Params) != 2 || outer.Index != ssa.Value(g.Params[param]) {
					return false
				}
				// bytes: `<` on them is the order bytes.Compare uses
				if bt, ok := ld.Type().Underlying().(*types.Basic); !ok || bt.Kind() != types.Uint8 {
					return false
				}
				base, ok := outer.X.(*ssa.UnOp)
				if !ok {
					return false
				}
				fv, ok := base.X.(*ssa.FreeVar)
				return ok && sortedCell != nil && bindingOf(fv) == sortedCell
			}
			lessAt := func(b *ssa.BasicBlock, k int64) bool {
				rt, ok := lastInstr(b).(*ssa.Return)
				if !ok || len(rt.Results) != 1 {
					return false
				}
				bo, ok := rt.Results[0].(*ssa.BinOp)
				if !ok {
					return false
				}
				return (bo.Op == token.LSS && elemK(bo.X, 0, k) && elemK(bo.Y, 1, k)) || (bo.Op == token.GTR && elemK(bo.X, 1, k) && elemK(bo.Y, 0, k))
			}
			if len(g.Blocks) == 3 {
				if iff, ok := lastInstr(g.Blocks[0]).(*ssa.If); ok {
					if bo, ok := iff.Cond.(*ssa.BinOp); ok && (bo.Op == token.NEQ || bo.Op == token.EQL) &&
						((elemK(bo.X, 0, 0) && elemK(bo.Y, 1, 0)) || (elemK(bo.X, 1, 0) && elemK(bo.Y, 0, 0))) {
						differ, same := g.Blocks[0].Succs[0], g.Blocks[0].Succs[1]
						if bo.Op == token.EQL {
							differ, same = same, differ
						}
						if lessAt(differ, 0) && lessAt(same, 1) {
							okLess = true
						}
					}
				}
			}
		}
		r.check(okLess, "GS", where, "sorted by key", c.pos(sortCall.Pos()), "keys are sorted by bytes.Compare(keys[i], keys[j]) < 0: ascending key order", "the sort's less function is not bytes.Compare(sorted[i], sorted[j]) < 0 on the key bytes: the listing is not in ascending key order for all symbols (e.g. escaped characters sort differently as text)")
	}
	// the sorted slice holds every key: appended in a range over m
	s := newSymb(kf)
	okKeys := false
	instrs(kf, func(in ssa.Instruction) {
		cl, ok := in.(*ssa.Call)
		if !ok {
			return
		}
		if b, ok := cl.Call.Value.(*ssa.Builtin); !ok || b.Name() != "append" {
			return
		}
		for _, v := range orderedVarargs([]ssa.Value{cl.Call.Args[1]}) {
			// the key itself, kept as the [2]byte it is
			if ex, ok := v.(*ssa.Extract); ok && ex.Index == 1 {
				if nx, ok := ex.Tuple.(*ssa.Next); ok {
					if rg, ok := nx.Iter.(*ssa.Range); ok && len(kf.Params) > 0 && rg.X == ssa.Value(kf.Params[0]) {
						okKeys = true
					}
				}
			}
			// a []byte{k[0], k[1]} slice literal of the range key
			if sl, ok := v.(*ssa.Slice); ok {
				if al, ok := sl.X.(*ssa.Alloc); ok {
					var el [2]string
					for _, ref := range *al.Referrers() {
						if ia, ok := ref.(*ssa.IndexAddr); ok {
							k, _ := cInt(constVal(ia.Index))
							for _, r2 := range *ia.Referrers() {
								if st, ok := r2.(*ssa.Store); ok && k >= 0 && k < 2 {
									el[k] = s.expr(st.Val).String()
								}
							}
						}
					}
					if strings.HasSuffix(el[0], "[0])") && strings.HasSuffix(el[1], "[1])") {
						okKeys = true
					}
				}
			}
		}
	})
	r.check(okKeys, "GS", where, "every key collected", c.pos(f.Pos()), "every key of the map is appended as {k[0], k[1]} before sorting", "the key list is not built by appending {k[0], k[1]} for every key of the map")
	// the printing loop: Fprintf(buf, "{%s,%s}:%v,\n", charOrGap(k[0]), charOrGap(k[1]), m.Get(k[0], k[1])) for k in sorted
	if kf != f {
		s = newSymb(f)
		// the helper returns the slice it sorted
		okRet := true
		sortedExpr := ""
		ks := newSymb(kf)
		instrs(kf, func(in ssa.Instruction) {
			if cl, ok := in.(*ssa.Call); ok && cl.Call.StaticCallee() != nil {
				qn := qname(cl.Call.StaticCallee())
				if qn == "sort.Slice" || strings.HasPrefix(qn, "slices.Sort") {
					a0 := cl.Call.Args[0]
					if mi, ok := a0.(*ssa.MakeInterface); ok {
						a0 = mi.X
					}
					sortedExpr = ks.expr(a0).String()
				}
			}
		})
		instrs(kf, func(in ssa.Instruction) {
			if rt, ok := in.(*ssa.Return); ok {
				if ops := retOperands(rt); len(ops) != 1 || ks.expr(ops[0]).String() != sortedExpr {
					okRet = false
				}
			}
		})
		r.check(okRet && keyCall != nil, "GS", fname(kf), "returns the sorted keys", c.pos(kf.Pos()), "the helper returns the key list it sorted", "the helper does not return the list it sorted")
	}
	okLine := false
	for _, fc := range fmtCallsIn(f) {
		if fc.format == nil || *fc.format != "{%s,%s}:%v,\n" || len(fc.args) != 3 {
			continue
		}
		a0, a1, a2 := fc.sy.expr(fc.args[0]).String(), fc.sy.expr(fc.args[1]).String(), fc.sy.expr(fc.args[2]).String()
		if os.Getenv("BIOCHECK_DEBUG") != "" {
			fmt.Fprintln(os.Stderr, "GS line:", a0, "|", a1, "|", a2)
		}
		if strings.HasPrefix(a0, "call:align.charOrGap(") && strings.HasSuffix(a0, "[0]))") && strings.HasPrefix(a1, "call:align.charOrGap(") && strings.HasSuffix(a1, "[1]))") &&
			strings.HasPrefix(a2, "call:align.SubstitutionMatrix.Get(P0, ") && strings.Contains(a2, "[0]), ") && strings.HasSuffix(a2, "[1]))") {
			// all three index the same element of the sorted slice
			base0 := strings.TrimSuffix(strings.TrimPrefix(a0, "call:align.charOrGap("), "[0]))")
			base1 := strings.TrimSuffix(strings.TrimPrefix(a1, "call:align.charOrGap("), "[1]))")
			if base0 == base1 && strings.Contains(a2, base0+"[0]), "+base0+"[1])") {
				okLine = true
			}
		}
		// the score looked up with the key as it is: m[k] is what Get(k[0], k[1]) returns for a key of the map
		if strings.HasPrefix(a0, "call:align.charOrGap(") && strings.HasSuffix(a0, "[0]))") && strings.HasPrefix(a1, "call:align.charOrGap(") && strings.HasSuffix(a1, "[1]))") {
			base0 := strings.TrimSuffix(strings.TrimPrefix(a0, "call:align.charOrGap("), "[0]))")
			base1 := strings.TrimSuffix(strings.TrimPrefix(a1, "call:align.charOrGap("), "[1]))")
			if base0 == base1 && a2 == "lookup(P0, "+base0+"))" {
				okLine = true
			}
		}
	}
	// the symbol formatter: "Gap" for the gap symbol, Go's own %q quoting of the byte otherwise
	var cog *ssa.Function
	for _, fc := range fmtCallsIn(f) {
		if len(fc.args) == 3 {
			if cl, ok := fc.args[0].(*ssa.Call); ok {
				if g := cl.Call.StaticCallee(); g != nil && c.inModule(g) && len(g.Params) == 1 {
					cog = g
				}
			}
		}
	}
	if cog == nil {
		r.undecided("GS", where, "symbol formatter", c.pos(f.Pos()), "the function that formats a symbol for the listing was not found")
	} else {
		r.analysed(fname(cog))
		cs := newSymb(cog)
		okGap, okQuote, nCases := false, false, 0
		var odd []string
		for _, rc := range returnCases(cs, cog) {
			nCases++
			v := rc.vals[0]
			if str, ok := constStr(v); ok {
				if str == "Gap" && strings.Contains(rc.guard, "(255 == P0)") && !strings.Contains(rc.guard, "!(255 == P0)") {
					okGap = true
				} else {
					odd = append(odd, fmt.Sprintf("%q under %s", str, rc.guard))
				}
				continue
			}
			isQ := false
			if cl, ok := v.(*ssa.Call); ok && fnIs(cl.Call.StaticCallee(), "fmt", "Sprintf") {
				if fs, ok := constStr(cl.Call.Args[0]); ok && fs == "%q" {
					args := orderedVarargs(cl.Call.Args[1:])
					if len(args) == 1 && args[0] == ssa.Value(cog.Params[0]) {
						isQ = true
					}
				}
			}
			if cl, ok := v.(*ssa.Call); ok && (fnIs(cl.Call.StaticCallee(), "strconv", "QuoteRune") || fnIs(cl.Call.StaticCallee(), "strconv", "QuoteRuneToASCII")) {
				if cv, ok := cl.Call.Args[0].(*ssa.Convert); ok && cv.X == ssa.Value(cog.Params[0]) {
					isQ = true // the same rendering as %q of an integer
				}
			}
			if isQ && strings.Contains(rc.guard, "!(255 == P0)") && strings.Count(rc.guard, "&&") == 0 {
				okQuote = true
			} else {
				odd = append(odd, cs.expr(v).String()+" under "+rc.guard)
			}
		}
		r.check(okGap && okQuote && len(odd) == 0, "GS", fname(cog), "symbol formatter", c.pos(cog.Pos()),
			"the symbol is written as the identifier Gap for the gap byte and as fmt's %q rendering of the byte for every other value: a Go character literal that denotes the same byte",
			fmt.Sprintf("the symbol formatter is not {Gap for 255, Sprintf(\"%%q\", c) for every other byte} (cases: %d, others: %v): some byte is not written as a Go literal of itself (e.g. a quote or backslash written unescaped)", nCases, odd))
	}
	r.check(okLine, "GS", where, "line format", c.pos(f.Pos()), "each line is {charOrGap(k[0]),charOrGap(k[1])}:m.Get(k[0],k[1]) with %v for one sorted key k", "the line is not \"{%s,%s}:%v,\\n\" of charOrGap(k[0]), charOrGap(k[1]), m.Get(k[0], k[1]) for the same sorted key")
}

// keyKind classifies a map key built in a local array: the range key itself (stored whole from the
// iterator) or an array assembled element by element (the mirrored key).
func keyKind(k ssa.Value) string {
	if ex, ok := k.(*ssa.Extract); ok {
		if _, ok := ex.Tuple.(*ssa.Next); ok && ex.Index == 1 {
			return "range key"
		}
	}
	if cl, ok := k.(*ssa.Call); ok && len(cl.Call.Args) == 1 && keyKind(cl.Call.Args[0]) == "range key" {
		if g := cl.Call.StaticCallee(); g != nil && g.Blocks != nil && g.Pkg != nil && strings.HasPrefix(g.Pkg.Pkg.Path(), modPath) {
			return "mirrored" // built by a helper from the range key; what it builds is judged by the mirror-key rule
		}
	}
	ld, ok := k.(*ssa.UnOp)
	if !ok {
		return ""
	}
	al, ok := ld.X.(*ssa.Alloc)
	if !ok {
		return ""
	}
	whole, elems := 0, 0
	for _, ref := range *al.Referrers() {
		switch x := ref.(type) {
		case *ssa.Store:
			if x.Addr == ssa.Value(al) {
				if ex, ok := x.Val.(*ssa.Extract); ok {
					if _, ok := ex.Tuple.(*ssa.Next); ok && ex.Index == 1 {
						whole++
					}
				}
				// the key built by a helper of the module from the range key: flip := flipped(k) — what the helper
				// builds is judged by the mirror-key rule
				if cl, ok := x.Val.(*ssa.Call); ok && len(cl.Call.Args) == 1 && keyKind(cl.Call.Args[0]) == "range key" {
					if g := cl.Call.StaticCallee(); g != nil && g.Blocks != nil && g.Pkg != nil && strings.HasPrefix(g.Pkg.Pkg.Path(), modPath) {
						return "mirrored"
					}
				}
			}
		case *ssa.IndexAddr:
			for _, r2 := range *x.Referrers() {
				if st, ok := r2.(*ssa.Store); ok && st.Addr == ssa.Value(x) {
					elems++
				}
			}
		}
	}
	if whole == 1 && elems == 0 {
		return "range key"
	}
	if whole == 0 && elems == 2 {
		return "mirrored"
	}
	return ""
}

// rulesGenNCBI (GEN): the generator command prints, with %#v, the very matrix ReadNCBI returned, after adding
// nothing but {Gap,Gap} = 0 — "the Go source generated from it reproduces the matrix".
func rulesGenNCBI(c *Ctx, r *Report) {
	f := c.fn("align/genncbi", "main")
	where := "align/genncbi.main"
	if f == nil {
		r.undecided("GEN", where, "anchor", "", "generator command not found")
		return
	}
	r.analysed(where)
	var read *ssa.Call
	instrs(f, func(in ssa.Instruction) {
		if cl, ok := in.(*ssa.Call); ok && fnIs(cl.Call.StaticCallee(), modPath+"/formats/smtext", "ReadNCBI") {
			read = cl
		}
	})
	if read == nil {
		r.undecided("GEN", where, "source", c.pos(f.Pos()), "no smtext.ReadNCBI call found")
		return
	}
	var m ssa.Value
	for _, ref := range *read.Referrers() {
		if ex, ok := ref.(*ssa.Extract); ok && ex.Index == 0 {
			m = ex
		}
	}
	if m == nil {
		r.undecided("GEN", where, "source", c.pos(read.Pos()), "ReadNCBI's matrix result is not used")
		return
	}
	// the %#v operand
	okPrinted, printed := false, ""
	instrs(f, func(in ssa.Instruction) {
		cl, ok := in.(*ssa.Call)
		if !ok || cl.Call.StaticCallee() == nil || !strings.HasPrefix(qname(cl.Call.StaticCallee()), "fmt.") {
			return
		}
		args := cl.Call.Args
		for i, a := range args {
			if fs, ok := constStr(a); ok && strings.Contains(fs, "%#v") {
				ops := orderedVarargs(args[i+1:])
				// the operand matching %#v: count verbs before it
				idx := strings.Count(fs[:strings.Index(fs, "%#v")], "%")
				if idx < len(ops) {
					printed = newSymb(f).expr(ops[idx]).String()
					okPrinted = ops[idx] == m
				}
			}
		}
	})
	r.check(okPrinted, "GEN", where, "printed matrix", c.pos(read.Pos()), "the value formatted with %#v is the matrix returned by ReadNCBI itself", "the value formatted with %#v is "+printed+", not the matrix ReadNCBI returned: the generated table is not the table that was read")
	// updates of that matrix: only {Gap, Gap} = 0
	var bad []string
	nUpd := 0
	s := newSymb(f)
	instrs(f, func(in ssa.Instruction) {
		mu, ok := in.(*ssa.MapUpdate)
		if !ok || mu.Map != m {
			return
		}
		nUpd++
		key := "?"
		if ld, ok := mu.Key.(*ssa.UnOp); ok {
			if al, ok := ld.X.(*ssa.Alloc); ok {
				el := map[int64]string{}
				for _, ref := range *al.Referrers() {
					if ia, ok := ref.(*ssa.IndexAddr); ok {
						k, _ := cInt(constVal(ia.Index))
						for _, r2 := range *ia.Referrers() {
							if st, ok := r2.(*ssa.Store); ok {
								if kv := constVal(st.Val); kv != nil {
									el[k] = kv.ExactString()
								} else {
									el[k] = "?"
								}
							}
						}
					}
				}
				key = "[" + el[0] + " " + el[1] + "]"
			}
		} else if kc, ok := mu.Key.(*ssa.Const); ok {
			key = kc.String()
		}
		v, okv := cFloat(constVal(mu.Value))
		if key != "[255 255]" || !okv || v != 0 {
			bad = append(bad, s.expr(mu.Key).String()+" = "+s.expr(mu.Value).String()+" (key "+key+")")
		}
	})
	r.check(len(bad) == 0, "GEN", where, "only {Gap,Gap} added", c.pos(read.Pos()), fmt.Sprintf("the only update of the matrix before printing (%d) is {Gap,Gap} = 0", nUpd), "the matrix is modified before printing other than by {Gap,Gap} = 0: "+strings.Join(bad, "; "))
}

// rulesStarInline (STAR without a helper): every label byte ReadNCBI computes is `Gap if the token is "*", else the
// token's byte 0`: each merge of a byte that has align.Gap on one way in gets it only on the true edge of
// `token == "*"` and the token's own byte 0 on the other.
func rulesStarInline(c *Ctx, r *Report, rd *ssa.Function, gap int64) {
	where := fname(rd)
	n, good := 0, 0
	instrs(rd, func(in ssa.Instruction) {
		phi, ok := in.(*ssa.Phi)
		if !ok || len(phi.Edges) != 2 {
			return
		}
		gi := -1
		for i, e := range phi.Edges {
			if k, ok := cInt(constVal(e)); ok && k == gap {
				gi = i
			}
		}
		if gi < 0 {
			return
		}
		n++
		other := phi.Edges[1-gi]
		// other must be tok[0]
		var tok ssa.Value
		switch x := other.(type) {
		case *ssa.Lookup:
			if k, ok := cInt(constVal(x.Index)); ok && k == 0 {
				tok = x.X
			}
		case *ssa.Index:
			if k, ok := cInt(constVal(x.Index)); ok && k == 0 {
				tok = x.X
			}
		}
		if tok == nil {
			return
		}
		// the Gap edge is the true edge of tok == "*"
		p := phi.Block().Preds[gi]
		star := func(iff *ssa.If) bool {
			bo, ok := iff.Cond.(*ssa.BinOp)
			if !ok || bo.Op != token.EQL {
				return false
			}
			for _, pr := range [][2]ssa.Value{{bo.X, bo.Y}, {bo.Y, bo.X}} {
				if s, ok := constStr(pr[1]); ok && s == "*" && (pr[0] == tok || sameFreshElem(pr[0], tok)) {
					return true
				}
			}
			return false
		}
		okGap := false
		if iff, ok := lastInstr(p).(*ssa.If); ok && p.Succs[0] == phi.Block() && star(iff) {
			okGap = true
		} else if len(p.Preds) == 1 {
			if iff, ok := lastInstr(p.Preds[0]).(*ssa.If); ok && p.Preds[0].Succs[0] == p && star(iff) {
				okGap = true
			}
		}
		// and the other edge is its false edge
		q := phi.Block().Preds[1-gi]
		okOther := false
		if iff, ok := lastInstr(q).(*ssa.If); ok && q.Succs[1] == phi.Block() && star(iff) {
			okOther = true
		} else if len(q.Preds) == 1 {
			if iff, ok := lastInstr(q.Preds[0]).(*ssa.If); ok && q.Preds[0].Succs[1] == q && star(iff) {
				okOther = true
			}
		}
		if okGap && okOther {
			good++
		}
	})
	r.check(n >= 2 && good == n, "STAR", where, "'*' is the gap, other labels are their byte", c.pos(rd.Pos()),
		fmt.Sprintf("each of the %d label bytes computed in ReadNCBI is align.Gap exactly on the `token == \"*\"` edge and the token's byte 0 otherwise", n),
		fmt.Sprintf("%d of %d label computations are not `Gap if token == \"*\" else token[0]` (column labels and row labels are both needed)", n-good, n))
}

// sameFreshElem: both values are loads of the same constant element of one slice that a call returned and that the
// function only reads.
func sameFreshElem(a, b ssa.Value) bool {
	elem := func(v ssa.Value) (*ssa.Call, int64, bool) {
		ld, ok := v.(*ssa.UnOp)
		if !ok || ld.Op != token.MUL {
			return nil, 0, false
		}
		ia, ok := ld.X.(*ssa.IndexAddr)
		if !ok {
			return nil, 0, false
		}
		k, ok := cInt(constVal(ia.Index))
		if !ok {
			return nil, 0, false
		}
		cl, ok := ia.X.(*ssa.Call)
		if !ok || !onlyRead(cl, 0) {
			return nil, 0, false
		}
		return cl, k, true
	}
	c1, k1, ok1 := elem(a)
	c2, k2, ok2 := elem(b)
	return ok1 && ok2 && c1 == c2 && k1 == k2
}
