package main

import (
	"fmt"
	"go/constant"
	"go/token"
	"go/types"
	"sort"
	"strings"

	"golang.org/x/tools/go/ssa"
)

var samFields = []string{"Qname", "Flag", "Rname", "Pos", "Mapq", "Cigar", "Rnext", "Pnext", "Tlen", "Seq", "Qual", "Tags"}

// inverse codec pairs for tag values (frozen table)
var tagCodecInverse = map[string]string{
	"strconv.Itoa":                "strconv.Atoi",
	"strconv.FormatFloat":         "strconv.ParseFloat",
	"encoding/hex.EncodeToString": "encoding/hex.DecodeString",
}

func rulesSamCodec(c *Ctx, r *Report) {
	rulesSamWriter(c, r)
	rulesSamParser(c, r)
	rulesTagTable(c, r)
	rulesSplitTag(c, r)
	rulesMapOrderFn(c, r, c.role("sam.tagsToText"), "formats/sam tag list")
	rulesNoCsv(c, r, "formats/sam", []string{"ReaderHeader", "Reader", "File", "FileHeader"}, "(*SAM).Write")
	rulesWholeLines(c, r, "formats/sam")
	nl := rulesLineChain(c, r, "formats/sam")
	r.floor("G5-lines", nl, 1, "ReadString line reader in sam.ReaderHeader")
	rulesSamHeader(c, r)
}

// rulesSamWriter (G1, SAM-COL, FMT-CONST, 1L): the writer side of the SAM codec.
func rulesSamWriter(c *Ctx, r *Report) {
	ruleG1(c, r, "formats/sam", "SAM")
	w := c.fn("formats/sam", "(*SAM).Write")
	where := "formats/sam.(*SAM).Write"
	if w == nil {
		r.undecided("SAM-COL", where, "anchor", "", "Write not found")
		return
	}
	r.analysed(where)
	n := ruleFmtConst(c, r, w)
	r.floor("FMT-CONST", n, 1, "Fprintf calls in SAM.Write")
	recv := w.Signature.Recv().Type().(*types.Pointer).Elem().Underlying().(*types.Struct)
	var decl []string
	for i := 0; i < recv.NumFields(); i++ {
		decl = append(decl, recv.Field(i).Name())
	}
	if strings.Join(decl, ",") != strings.Join(samFields, ",") {
		r.undecided("SAM-COL", where, "struct layout", c.pos(w.Pos()), "SAM's fields are "+strings.Join(decl, ",")+": the column table of this rule no longer applies")
		return
	}
	_ = newSymb
	rpo := rpoIndex(w)
	calls := fmtCallsIn(w)
	sort.SliceStable(calls, func(i, j int) bool { return rpo[calls[i].site.Block()] < rpo[calls[j].site.Block()] })
	// writer column table: the first write
	wcols := map[int]string{}
	if len(calls) < 3 || calls[0].format == nil {
		r.undecided("SAM-COL", where, "first write", c.pos(w.Pos()), "the mandatory fields are not written by one constant-format Fprintf")
		return
	}
	first := calls[0]
	verbs := strings.Split(*first.format, "\t")
	okVerbs := len(verbs) == 11 && len(first.args) == 11
	for k, a := range first.args {
		nm := recvFieldName(w, first.sy.expr(a))
		wcols[k] = nm
		if k < len(verbs) {
			isStr := false
			for i := 0; i < recv.NumFields(); i++ {
				if recv.Field(i).Name() == nm {
					if bt, ok := recv.Field(i).Type().Underlying().(*types.Basic); ok && bt.Info()&types.IsString != 0 {
						isStr = true
					}
				}
			}
			if (isStr && verbs[k] != "%s") || (!isStr && verbs[k] != "%d") {
				okVerbs = false
			}
		}
	}
	for k := 0; k < 11; k++ {
		r.check(okVerbs && wcols[k] == samFields[k], "SAM-COL", where, fmt.Sprintf("writer column %d", k+1), c.pos(first.call.Pos()),
			fmt.Sprintf("column %d of the written line is %s", k+1, samFields[k]),
			fmt.Sprintf("column %d of the written line is %q (verbs ok: %v), the SAM column order wants %s", k+1, wcols[k], okVerbs, samFields[k]))
	}
	// 1L and G6: tabs/newlines in the formats; tags loop
	okTags, okNL := false, false
	for i, fc := range calls {
		if fc.format == nil {
			continue
		}
		if i > 0 && i < len(calls)-1 && *fc.format == "\t%s" {
			okTags = true
		}
		if i == len(calls)-1 && *fc.format == "\n" {
			okNL = true
		}
		if i < len(calls)-1 && strings.Contains(*fc.format, "\n") {
			okNL = false
		}
	}
	last := calls[len(calls)-1]
	lastUnconditional := true
	instrs(w, func(in ssa.Instruction) {
		if rt, ok := in.(*ssa.Return); ok && isNilConst(retOperands(rt)[0]) && !last.site.Block().Dominates(rt.Block()) {
			lastUnconditional = false
		}
	})
	r.check(okNL && lastUnconditional && len(calls) == 3, "1L", where, "one line per record", c.pos(last.call.Pos()),
		"the only newline is the last write, which every successful return passes", "a newline is written elsewhere than at the very end, or a successful return skips it: a record does not occupy exactly one line")
	// tags: each element of tagsToText(s.Tags), prefixed by TAB
	t2t := c.role("sam.tagsToText")
	okTagArg := false
	if okTags && t2t != nil {
		for _, fc := range calls[1 : len(calls)-1] {
			if len(fc.args) == 1 {
				e := fc.sy.expr(fc.args[0])
				if e.Op == "load" && e.Args[0].Op == "index" && strings.HasPrefix(e.Args[0].Args[0].String(), "call:"+fname(t2t)+"(load(P0.f11))") {
					okTagArg = true
				}
			}
		}
	}
	r.check(okTags && okTagArg, "SAM-COL", where, "tags follow, TAB-separated", c.pos(w.Pos()), "every element of tagsToText(s.Tags) is written as TAB + text after the 11 columns", "the optional tags are not written as TAB-prefixed elements of tagsToText(s.Tags)")
}

// rulesSamParser: parser column table.
func rulesSamParser(c *Ctx, r *Report) {
	f := c.role("sam.parseLine")
	where := "formats/sam.parseLine"
	if f == nil || len(f.Params) < 1 || len(f.Params) > 2 {
		r.undecided("SAM-COL", where, "anchor", "", "parseLine(line) not found")
		return
	}
	r.analysed(where)
	line := f.Params[0]
	var rec ssa.Value
	instrs(f, func(in ssa.Instruction) {
		if al, ok := in.(*ssa.Alloc); ok && al.Heap {
			if n, ok := al.Type().(*types.Pointer).Elem().(*types.Named); ok && n.Obj().Name() == "SAM" {
				rec = al
			}
		}
	})
	// the record handed in by the caller to be filled: parseLine(line, s)
	if len(f.Params) == 2 {
		if pt, ok := f.Params[1].Type().(*types.Pointer); ok {
			if n, ok := pt.Elem().(*types.Named); ok && n.Obj().Name() == "SAM" {
				rec = f.Params[1]
			}
		}
	}
	if rec == nil {
		r.undecided("SAM-COL", where, "record", c.pos(f.Pos()), "no SAM record allocation found")
		return
	}
	// the record and the line may be handed to a helper stage: scopes of (function, line value, record value)
	type scope struct {
		fn        *ssa.Function
		line, rec ssa.Value
	}
	scopes := []scope{{f, line, rec}}
	instrs(f, func(in ssa.Instruction) {
		if cl, ok := in.(*ssa.Call); ok {
			if g := cl.Call.StaticCallee(); g != nil && g.Blocks != nil && c.inModule(g) && funcPkgPath(g) == funcPkgPath(f) {
				var gl, gr ssa.Value
				for i, a := range cl.Call.Args {
					if i >= len(g.Params) {
						break
					}
					if a == ssa.Value(line) {
						gl = g.Params[i]
					}
					if a == rec {
						gr = g.Params[i]
					}
				}
				if gl != nil && gr != nil {
					scopes = append(scopes, scope{g, gl, gr})
					r.analysed(fname(g))
				}
			}
		}
	})
	isRec := func(v ssa.Value) bool {
		for _, sc := range scopes {
			if sc.rec == v {
				return true
			}
		}
		return false
	}
	isLine := func(v ssa.Value) bool {
		for _, sc := range scopes {
			if sc.line == v {
				return true
			}
		}
		return false
	}
	fieldOfAddr := func(v ssa.Value) int {
		for {
			switch x := v.(type) {
			case *ssa.ChangeType:
				v = x.X
				continue
			case *ssa.FieldAddr:
				if isRec(x.X) {
					return x.Field
				}
			}
			return -1
		}
	}
	pcols := map[int]int{} // column -> field
	dup := false
	set := func(col int64, field int) {
		if _, ok := pcols[int(col)]; ok {
			dup = true
		}
		pcols[int(col)] = field
	}
	// direct string stores
	for _, sc := range scopes {
		instrs(sc.fn, func(in ssa.Instruction) {
			st, ok := in.(*ssa.Store)
			if !ok {
				return
			}
			fi := fieldOfAddr(st.Addr)
			if fi < 0 {
				return
			}
			if ld, ok := st.Val.(*ssa.UnOp); ok && ld.Op == token.MUL {
				if ia, ok := ld.X.(*ssa.IndexAddr); ok && isLine(ia.X) {
					if k, ok := cInt(constVal(ia.Index)); ok {
						set(k, fi)
					}
				}
			}
		})
	}
	// parseInts(snm.At(line, lit), ptrs...)
	pi := c.role("sam.parseInts")
	okPI, okAt := false, false
	if pi != nil {
		var piCalls []*ssa.Call
		for _, sc := range scopes {
			piCalls = append(piCalls, staticCallsTo(sc.fn, pi)...)
		}
		for _, call := range piCalls {
			at, _ := call.Call.Args[0].(*ssa.Call)
			if at == nil || at.Call.StaticCallee() == nil || at.Call.StaticCallee().Origin() == nil || qname(at.Call.StaticCallee()) != gostuffPath+"/snm.At" || !isLine(at.Call.Args[0]) {
				r.undecided("SAM-COL", where, "integer columns", c.pos(call.Pos()), "parseInts is not fed from snm.At(line, literal indices)")
				continue
			}
			idxs := orderedVarargs([]ssa.Value{at.Call.Args[1]})
			ptrs := orderedVarargs([]ssa.Value{call.Call.Args[1]})
			if len(idxs) != len(ptrs) {
				r.violated("SAM-COL", where, "integer columns", c.pos(call.Pos()), fmt.Sprintf("%d column indices but %d destinations: parseInts panics on every line", len(idxs), len(ptrs)))
				continue
			}
			for i := range idxs {
				k, ok := cInt(constVal(idxs[i]))
				fi := fieldOfAddr(ptrs[i])
				if ok && fi >= 0 {
					set(k, fi)
				}
			}
			okAt = atIndexesByArg(c, at.Call.StaticCallee())
			okPI = parseIntsPairsUp(c, pi)
			r.analysed(fname(pi))
		}
	}
	r.check(okPI, "SAM-COL", "formats/sam.parseInts", "pairs strs[i] with p[i]", "", "parseInts stores Atoi(strs[i]) through p[i] for the same i", "parseInts does not store Atoi(strs[i]) through p[i] for the same i")
	r.check(okAt, "SAM-COL", "gostuff/snm.At", "selects t[at[i]]", "", "snm.At returns the elements of its first argument at the given indices, in order", "snm.At does not return t[at[0]], t[at[1]], … in order")
	for k := 0; k < 11; k++ {
		fi, ok := pcols[k]
		got := "<nothing>"
		if ok && fi >= 0 && fi < len(samFields) {
			got = samFields[fi]
		}
		r.check(ok && fi == k && !dup, "SAM-COL", where, fmt.Sprintf("parser column %d", k+1), c.pos(rec.Pos()),
			fmt.Sprintf("column %d of a line is stored into %s, the field the writer prints there", k+1, samFields[k]),
			fmt.Sprintf("column %d of a line is stored into %s, but the writer prints %s there", k+1, got, samFields[k]))
	}
	// tags: parseTags(line[11:]) into Tags
	pt := c.role("sam.parseTags")
	okT := false
	if pt != nil {
		for _, call := range staticCallsTo(f, pt) {
			if sl, ok := call.Call.Args[0].(*ssa.Slice); ok && sl.X == ssa.Value(line) && sl.High == nil {
				if k, ok := cInt(constVal(sl.Low)); ok && k == 11 {
					for _, ref := range *call.Referrers() {
						if ex, ok := ref.(*ssa.Extract); ok && ex.Index == 0 {
							for _, r2 := range *ex.Referrers() {
								if st, ok := r2.(*ssa.Store); ok && fieldOfAddr(st.Addr) == 11 {
									okT = true
								}
							}
						}
					}
				}
			}
		}
	}
	r.check(okT, "SAM-COL", where, "tag columns", c.pos(rec.Pos()), "Tags receives parseTags(line[11:])", "Tags is not parsed from exactly the columns after the 11th")
}

// parseIntsPairsUp: *p[i] = Atoi(strs[i]).
func parseIntsPairsUp(c *Ctx, f *ssa.Function) bool {
	s := newSymb(f)
	ok := false
	for _, ss := range symStoresOf(f, s) {
		a, v := ss.addr, ss.val
		// addr: load(P1[I]) ; val: extract:0(call:strconv.Atoi(load(P0[I])))
		if a.Op == "load" && a.Args[0].Op == "index" && a.Args[0].Args[0].String() == "P1" {
			i := a.Args[0].Args[1].String()
			want := "extract:0(call:strconv.Atoi(load(P0[" + i + "])))"
			if v.String() == want {
				ok = true
			}
		}
	}
	return ok
}

// atIndexesByArg: snm.At appends t[at[i]] in order.
func atIndexesByArg(c *Ctx, f *ssa.Function) bool {
	s := newSymb(f)
	ok := false
	instrs(f, func(in ssa.Instruction) {
		cl, isCall := in.(*ssa.Call)
		if !isCall {
			return
		}
		if b, isB := cl.Call.Value.(*ssa.Builtin); !isB || b.Name() != "append" {
			return
		}
		for _, v := range orderedVarargs([]ssa.Value{cl.Call.Args[1]}) {
			e := s.expr(v)
			// load(P0[load(P1[I])])
			if e.Op == "load" && e.Args[0].Op == "index" && e.Args[0].Args[0].String() == "P0" {
				inner := e.Args[0].Args[1]
				if inner.Op == "load" && inner.Args[0].Op == "index" && inner.Args[0].Args[0].String() == "P1" {
					ok = true
				}
			}
		}
	})
	return ok
}

// rulesTagTable (G2): writer type->letter, reader letter->type agree; value codecs are inverse pairs.
func rulesTagTable(c *Ctx, r *Report) {
	wf := c.role("sam.tagToText")
	rf := c.role("sam.parseTags")
	if wf == nil {
		// the per-tag formatting written out in the loop of the tag-list function
		if tl := c.role("sam.tagsToText"); tl != nil {
			nTA := 0
			instrs(tl, func(in ssa.Instruction) {
				if ta, ok := in.(*ssa.TypeAssert); ok && ta.CommaOk {
					nTA++
				}
			})
			if nTA >= 3 {
				wf = tl
			}
		}
	}
	if wf == nil || rf == nil {
		r.undecided("G2", "formats/sam", "anchor", "", "tagToText or parseTags not found")
		return
	}
	r.analysed(fname(wf))
	r.analysed(fname(rf))
	type wEntry struct {
		t       types.Type
		letter  string
		enc     string
		encCall *ssa.Call
		pos     token.Pos
	}
	var W []wEntry
	ws := newSymb(wf)
	instrs(wf, func(in ssa.Instruction) {
		ta, ok := in.(*ssa.TypeAssert)
		if !ok || !ta.CommaOk {
			return
		}
		// success block
		var okBlk *ssa.BasicBlock
		for _, ref := range *ta.Referrers() {
			if ex, ok := ref.(*ssa.Extract); ok && ex.Index == 1 {
				for _, r2 := range *ex.Referrers() {
					if iff, ok := r2.(*ssa.If); ok {
						okBlk = iff.Block().Succs[0]
					}
				}
			}
		}
		if okBlk == nil {
			return
		}
		e := wEntry{t: ta.AssertedType, pos: ta.Pos()}
		// one text per type: inside the arm nothing branches on the value (a special spelling for some values of a
		// type — "inf" for both infinities, a short form for zero — is a text the reader's one decoder per letter
		// does not invert); helpers of the module the value is handed to are looked into one level deep
		var armVal ssa.Value
		for _, ref := range *ta.Referrers() {
			if ex, ok := ref.(*ssa.Extract); ok && ex.Index == 0 {
				armVal = ex
			}
		}
		var branches []string
		for _, b := range wf.Blocks {
			if armVal == nil || (b != okBlk && !okBlk.Dominates(b)) {
				continue
			}
			if iff, ok := lastInstr(b).(*ssa.If); ok && dependsOn(iff.Cond, armVal, map[ssa.Value]bool{}) {
				branches = append(branches, c.pos(iff.Cond.Pos()))
			}
			for _, ins := range b.Instrs {
				cl, ok := ins.(*ssa.Call)
				if !ok {
					continue
				}
				g := cl.Call.StaticCallee()
				if g == nil || g.Blocks == nil || !c.inModule(g) {
					continue
				}
				for i, a := range cl.Call.Args {
					if i >= len(g.Params) || !dependsOn(a, armVal, map[ssa.Value]bool{}) {
						continue
					}
					for _, gb := range g.Blocks {
						if giff, ok := lastInstr(gb).(*ssa.If); ok && dependsOn(giff.Cond, g.Params[i], map[ssa.Value]bool{}) {
							branches = append(branches, c.pos(giff.Cond.Pos()))
						}
					}
				}
			}
		}
		if armVal != nil {
			r.check(len(branches) == 0, "G2", "formats/sam.tagToText", "one text per type "+ta.AssertedType.String(), c.pos(ta.Pos()),
				"the text written for a value of this type does not branch on the value: one encoding per type letter, the one the reader inverts",
				fmt.Sprintf("the text written for a value of this type depends on a test of the value (%v): some values get a spelling of their own, which the reader's decoder for the letter does not turn back into the same value", branches))
		}
		for _, b := range wf.Blocks {
			if b != okBlk && !okBlk.Dominates(b) {
				continue
			}
			for _, ins := range b.Instrs {
				switch x := ins.(type) {
				case *ssa.Return:
					for _, cs := range ws.expr(x.Results[0]).find(func(s *Sym) bool { return s.Op == "const" && strings.HasPrefix(s.Leaf, "\":") }) {
						str, _ := constStr(cs.Val)
						if len(str) == 3 && str[0] == ':' && str[2] == ':' {
							e.letter = string(str[1])
						}
					}
				case *ssa.BinOp:
					// text = tag + ":X:" + … assigned in the arm instead of returned
					if x.Op == token.ADD && e.letter == "" {
						for _, o := range []ssa.Value{x.X, x.Y} {
							if str, ok := constStr(o); ok && len(str) == 3 && str[0] == ':' && str[2] == ':' {
								e.letter = string(str[1])
							}
						}
					}
				case *ssa.Call:
					if x.Call.StaticCallee() != nil {
						if _, ok := tagCodecInverse[qname(x.Call.StaticCallee())]; ok {
							e.enc, e.encCall = qname(x.Call.StaticCallee()), x
						}
					}
				}
			}
		}
		if e.letter == "" {
			// the letter chosen in the arm and joined later: typ = "A" … return tag + ":" + typ + ":" + text
			instrs(wf, func(in2 ssa.Instruction) {
				phi, ok := in2.(*ssa.Phi)
				if !ok || !isStringType(phi.Type()) {
					return
				}
				for i, ed := range phi.Edges {
					pb := phi.Block().Preds[i]
					if pb != okBlk && !okBlk.Dominates(pb) {
						continue
					}
					if str, ok := constStr(ed); ok && len(str) == 1 {
						// the merged letter stands between two ':' in what is returned
						joined := false
						instrs(wf, func(in3 ssa.Instruction) {
							if rt, ok := in3.(*ssa.Return); ok && len(rt.Results) == 1 {
								es := ws.expr(rt.Results[0]).String()
								if strings.Contains(es, "\":\"") && strings.Count(es, "\":\"") >= 2 {
									joined = true
								}
							}
						})
						if joined {
							e.letter = str
						}
					}
				}
			})
		}
		W = append(W, e)
	})
	type rEntry struct {
		letter  string
		t       types.Type
		dec     string
		decCall *ssa.Call
		pos     token.Pos
	}
	var R []rEntry
	// the type switch may live in a helper of parseTags that returns the typed value
	letterCompares := func(g *ssa.Function) int {
		n := 0
		instrs(g, func(in ssa.Instruction) {
			if bo, ok := in.(*ssa.BinOp); ok && bo.Op == token.EQL {
				if l, ok := constStr(bo.Y); ok && len(l) == 1 {
					n++
				}
			}
		})
		return n
	}
	if letterCompares(rf) == 0 {
		for _, g := range c.calleesIn(rf) {
			if g.Blocks != nil && c.inModule(g) && letterCompares(g) >= 3 {
				rf = g
				r.analysed(fname(g))
			}
		}
	}
	instrs(rf, func(in ssa.Instruction) {
		bo, ok := in.(*ssa.BinOp)
		if !ok || bo.Op != token.EQL {
			return
		}
		letter, ok := constStr(bo.Y)
		if !ok || len(letter) != 1 {
			return
		}
		iff, ok := bo.Block().Instrs[len(bo.Block().Instrs)-1].(*ssa.If)
		if !ok || iff.Cond != ssa.Value(bo) {
			return
		}
		caseBlk := bo.Block().Succs[0]
		e := rEntry{letter: letter, pos: bo.Pos()}
		for _, b := range rf.Blocks {
			if b != caseBlk && !(caseBlk.Dominates(b) && len(caseBlk.Preds) == 1) {
				continue
			}
			for _, ins := range b.Instrs {
				switch x := ins.(type) {
				case *ssa.MapUpdate:
					if mi, ok := x.Value.(*ssa.MakeInterface); ok {
						e.t = mi.X.Type()
					}
				case *ssa.Return:
					// a helper that returns (value, nil)
					if ops := retOperands(x); len(ops) == 2 && isNilConst(ops[1]) {
						if mi, ok := ops[0].(*ssa.MakeInterface); ok {
							e.t = mi.X.Type()
						}
					}
				case *ssa.Call:
					if x.Call.StaticCallee() != nil {
						qn := qname(x.Call.StaticCallee())
						for _, d := range tagCodecInverse {
							if d == qn {
								e.dec, e.decCall = qn, x
							}
						}
					}
				}
			}
		}
		if e.t != nil {
			R = append(R, e)
		}
	})
	rOf := func(letter string) *rEntry {
		for i := range R {
			if R[i].letter == letter {
				return &R[i]
			}
		}
		return nil
	}
	wOf := func(t types.Type) *wEntry {
		for i := range W {
			if types.Identical(W[i].t, t) {
				return &W[i]
			}
		}
		return nil
	}
	for _, we := range W {
		re := rOf(we.letter)
		ok := re != nil && types.Identical(re.t, we.t)
		got := "nothing"
		if re != nil {
			got = re.t.String()
		}
		r.check(ok && we.letter != "", "G2", "formats/sam.tagToText~parseTags", "type "+we.t.String(), c.pos(we.pos),
			fmt.Sprintf("%s is written as type %q, which the parser reads back as %s", we.t, we.letter, we.t),
			fmt.Sprintf("%s is written as type %q, which the parser reads back as %s: the tag changes type on re-read", we.t, we.letter, got))
		if ok && we.enc != "" {
			r.check(tagCodecInverse[we.enc] == re.dec, "G2", "formats/sam.tagToText~parseTags", "value codec "+we.letter, c.pos(we.pos),
				fmt.Sprintf("values are written with %s and read with its inverse %s", we.enc, re.dec),
				fmt.Sprintf("values are written with %s but read with %q (want %s)", we.enc, re.dec, tagCodecInverse[we.enc]))
			if we.enc == "strconv.FormatFloat" && re.decCall != nil {
				fm, _ := cInt(constVal(we.encCall.Call.Args[1]))
				prec, _ := cInt(constVal(we.encCall.Call.Args[2]))
				wb, _ := cInt(constVal(we.encCall.Call.Args[3]))
				rb, _ := cInt(constVal(re.decCall.Call.Args[1]))
				r.check(prec == -1 && wb == 64 && rb == 64 && strings.ContainsRune("eEfgG", rune(fm)), "G2", "formats/sam.tagToText~parseTags", "float precision", c.pos(we.encCall.Pos()),
					"float64 tags are written with the shortest representation that parses back to the same float64 (precision -1, bit size 64 on both sides)",
					fmt.Sprintf("float tags are written with precision %d, bit size %d and read with bit size %d: values lose precision on re-read", prec, wb, rb))
			}
		}
	}
	for _, re := range R {
		we := wOf(re.t)
		ok := we != nil
		if ok {
			back := rOf(we.letter)
			ok = back != nil && types.Identical(back.t, re.t)
		}
		r.check(ok, "G2", "formats/sam.parseTags~tagToText", "letter "+re.letter, c.pos(re.pos),
			fmt.Sprintf("a tag read as type %q yields a %s, which the writer can write and the parser reads back as %s (fixed point)", re.letter, re.t, re.t),
			fmt.Sprintf("a tag read as type %q yields a %s, which the writer cannot write back to a text that parses to the same value", re.letter, re.t))
	}
	r.floor("G2-writer", len(W), 5, "tag value types in tagToText")
	r.floor("G2-reader", len(R), 6, "tag type letters in parseTags")
	// 'A': single byte on both sides
	okA := false
	for _, we := range W {
		if we.letter == "A" {
			// string([]byte{val})
			instrs(wf, func(in ssa.Instruction) {
				if cv, ok := in.(*ssa.Convert); ok {
					if _, isSl := cv.X.Type().Underlying().(*types.Slice); isSl {
						okA = true
					}
				}
			})
		}
	}
	r.check(okA, "G2", "formats/sam.tagToText", "A is one byte", "", "an 'A' value is written as exactly its one byte", "an 'A' value is not written as exactly one byte")
}

// rulesMapOrderFn (MO): in fn, a slice filled while ranging over a map passes a sort before it is used otherwise.
func rulesMapOrderFn(c *Ctx, r *Report, f *ssa.Function, what string) {
	where := what
	name := what
	if f != nil {
		where = fname(f)
	}
	if f == nil {
		r.undecided("MO", where, "anchor", "", "function not found")
		return
	}
	r.analysed(where)
	n := 0
	instrs(f, func(in ssa.Instruction) {
		rg, ok := in.(*ssa.Range)
		if !ok {
			return
		}
		if _, isMap := rg.X.Type().Underlying().(*types.Map); !isMap {
			return
		}
		n++
		// appends inside the loop: find the slice phi that accumulates
		var sorted, escapedUnsorted bool
		var sortCall *ssa.Call
		instrs(f, func(in2 ssa.Instruction) {
			cl, ok := in2.(*ssa.Call)
			if !ok || cl.Call.StaticCallee() == nil {
				return
			}
			switch qname(cl.Call.StaticCallee()) {
			case "sort.Strings", "sort.Ints", "sort.Slice", "sort.SliceStable", "slices.Sort", "sort.Sort":
				sortCall = cl
			}
		})
		if sortCall != nil {
			sorted = true
			// every path from the loop to a return passes the sort
			seen := map[*ssa.BasicBlock]bool{}
			var walk func(b *ssa.BasicBlock)
			walk = func(b *ssa.BasicBlock) {
				if seen[b] || (b == sortCall.Block() && b != rg.Block()) {
					return
				}
				seen[b] = true
				if _, ok := lastInstr(b).(*ssa.Return); ok {
					escapedUnsorted = true
				}
				for _, su := range b.Succs {
					walk(su)
				}
			}
			if sortCall.Block() == rg.Block() {
				escapedUnsorted = true
			} else {
				walk(rg.Block())
			}
		}
		// what is sorted is what is returned
		if sortCall != nil && !escapedUnsorted {
			sy := newSymb(f)
			arg := sortCall.Call.Args[0]
			if mi, ok := arg.(*ssa.MakeInterface); ok {
				arg = mi.X
			}
			sortedExpr := sy.expr(arg).String()
			okSame := true
			retExpr := ""
			instrs(f, func(in2 ssa.Instruction) {
				if rt, ok := in2.(*ssa.Return); ok && len(rt.Results) >= 1 && (instrDominates(sortCall, rt) || blockReaches(sortCall.Block(), rt.Block())) {
					// a result variable that is nil on the paths around the loop: every other edge is the sorted list
					vals := []ssa.Value{rt.Results[0]}
					if phi, isPhi := rt.Results[0].(*ssa.Phi); isPhi && !instrDominates(sortCall, rt) {
						vals = nil
						for _, e := range phi.Edges {
							if !isNilConst(e) {
								vals = append(vals, e)
							}
						}
					}
					for _, v := range vals {
						retExpr = sy.expr(v).String()
						if v != arg && retExpr != sortedExpr {
							okSame = false
						}
					}
				}
			})
			r.check(okSame, "MO", where, "the sorted list is the result", c.pos(sortCall.Pos()),
				"the list that is sorted is the list that is returned: the result is in sorted order of its own elements",
				"what is sorted ("+sortedExpr+") is not what is returned ("+retExpr+"): the result follows the order of something else (e.g. of the keys), which differs from the order of its own elements when one key is a prefix of another")
		}
		r.check(sorted && !escapedUnsorted, "MO", where, "map order does not reach the result", c.pos(rg.Pos()),
			"the values collected while ranging over the map pass a sort before every return", "values collected in map iteration order reach a return unsorted: output order differs from run to run")
	})
	r.floor("MO-"+name, n, 1, "map range loops")
}

// rulesSamHeader: header lines are re-joined with the separator they were split on.
func rulesSamHeader(c *Ctx, r *Report) {
	outer := c.fn("formats/sam", "ReaderHeader")
	if outer == nil || len(outer.AnonFuncs) == 0 {
		r.undecided("G6", "formats/sam.ReaderHeader", "anchor", "", "ReaderHeader not found")
		return
	}
	f := outer.AnonFuncs[0]
	where := fname(f)
	r.analysed(where)
	var split, join *ssa.Call
	instrs(f, func(in ssa.Instruction) {
		if cl, ok := in.(*ssa.Call); ok && cl.Call.StaticCallee() != nil {
			switch qname(cl.Call.StaticCallee()) {
			case "strings.Split":
				split = cl
			case "strings.Join":
				join = cl
			}
		}
	})
	if split == nil {
		r.undecided("G6", where, "separator", c.pos(f.Pos()), "lines are not split with strings.Split")
		return
	}
	sep, _ := constStr(split.Call.Args[1])
	r.check(sep == "\t", "G6", where, "field separator", c.pos(split.Pos()), "lines are split on TAB, the separator the writer emits", fmt.Sprintf("lines are split on %q but the writer separates fields with TAB", sep))
	okJoin := false
	if join != nil {
		js, _ := constStr(join.Call.Args[1])
		okJoin = join.Call.Args[0] == ssa.Value(split) && js == sep
	}
	r.check(okJoin, "G6", where, "header verbatim", c.pos(split.Pos()), "a header line is the split fields re-joined with the same separator: returned verbatim", "header lines are not re-joined from their own fields with the separator they were split on: headers are not returned verbatim")
	// header test: HasPrefix(line[0], "@")
	okAt := false
	atTest := func(fn *ssa.Function, isFields func(ssa.Value) bool) {
		instrs(fn, func(in ssa.Instruction) {
			if cl, ok := in.(*ssa.Call); ok && fnIs(cl.Call.StaticCallee(), "strings", "HasPrefix") {
				if p, ok := constStr(cl.Call.Args[1]); ok && p == "@" {
					if ld, ok := cl.Call.Args[0].(*ssa.UnOp); ok {
						if ia, ok := ld.X.(*ssa.IndexAddr); ok && isFields(ia.X) {
							if k, ok := cInt(constVal(ia.Index)); ok && k == 0 {
								okAt = true
							}
						}
					}
				}
			}
		})
	}
	atTest(f, func(v ssa.Value) bool { return v == ssa.Value(split) })
	// the test made by a predicate of the package applied to the fields: isHeader(fields)
	instrs(f, func(in ssa.Instruction) {
		cl, ok := in.(*ssa.Call)
		if !ok {
			return
		}
		g := cl.Call.StaticCallee()
		if g == nil || g.Blocks == nil || g.Pkg != f.Pkg || len(g.Params) != len(cl.Call.Args) {
			return
		}
		for i, a := range cl.Call.Args {
			if a == ssa.Value(split) {
				p := g.Params[i]
				atTest(g, func(v ssa.Value) bool { return v == ssa.Value(p) })
			}
		}
	})
	r.check(okAt, "G6", where, "header test", c.pos(split.Pos()), "a line is a header iff its first field starts with '@'", "headers are not recognised by '@' at the start of the first field")
	// nothing else about the line decides whether it is a header
	if join != nil {
		sy := newSymb(f)
		lineExpr := sy.expr(split).String()
		var extra []string
		_, atoms := guardOfFull(sy, join.Block(), nil)
		for _, part := range atoms {
			if !strings.Contains(part, lineExpr) {
				continue
			}
			if strings.Contains(part, "strings.HasPrefix(") {
				continue
			}
			if part == "(0 < builtin:len("+lineExpr+"))" || part == "(0 == builtin:len("+lineExpr+"))" || part == "(0 != builtin:len("+lineExpr+"))" || part == "(1 <= builtin:len("+lineExpr+"))" {
				continue // always true after strings.Split
			}
			extra = append(extra, part)
		}
		r.check(len(extra) == 0, "G6", where, "header test only", c.pos(join.Pos()),
			"the header branch is controlled by the '@' test alone (and the trivially true non-empty test): every '@' line is returned as a header whatever else it contains",
			"whether an '@' line is treated as a header also depends on "+strings.Join(extra, " && ")+": some header lines are parsed as records")
	}
}

var _ = constant.MakeBool

// rulesSplitTag (G2-SPLIT): the value part of a tag is everything after the second colon — a ':' inside the
// value (legal in Z and B values) must not cut it.
func rulesSplitTag(c *Ctx, r *Report) {
	f := c.role("sam.splitTag")
	if f == nil || len(f.Params) != 1 {
		r.undecided("G2-SPLIT", "formats/sam.splitTag", "anchor", "", "the function that splits a tag into name, type and value was not found")
		return
	}
	where := fname(f)
	r.analysed(where)
	var unbounded *ssa.Call
	var splitN *ssa.Call
	instrs(f, func(in ssa.Instruction) {
		cl, ok := in.(*ssa.Call)
		if !ok || cl.Call.StaticCallee() == nil {
			return
		}
		switch qname(cl.Call.StaticCallee()) {
		case "strings.Split", "strings.FieldsFunc", "strings.Fields":
			unbounded = cl
		case "strings.SplitN":
			splitN = cl
		}
	})
	if unbounded != nil {
		r.violated("G2-SPLIT", where, "value is the rest of the tag", c.pos(unbounded.Pos()), "the tag is split at every ':' ("+callName(unbounded)+"): a value that itself contains ':' is cut at its first colon and the remainder is lost")
		return
	}
	if splitN != nil {
		k, _ := cInt(constVal(splitN.Call.Args[2]))
		sep, _ := constStr(splitN.Call.Args[1])
		r.check(k == 3 && sep == ":" && splitN.Call.Args[0] == ssa.Value(f.Params[0]), "G2-SPLIT", where, "value is the rest of the tag", c.pos(splitN.Pos()),
			"the tag is split into at most 3 pieces at ':': the value keeps any further colons", fmt.Sprintf("the tag is split with SplitN(_, %q, %d): not name, type and the whole remaining value", sep, k))
		return
	}
	// hand-written scan: the store into element 2 is a suffix of the parameter
	n, okAll := 0, true
	instrs(f, func(in ssa.Instruction) {
		st, ok := in.(*ssa.Store)
		if !ok {
			return
		}
		ia, ok := st.Addr.(*ssa.IndexAddr)
		if !ok {
			return
		}
		if k, ok := cInt(constVal(ia.Index)); !ok || k != 2 {
			return
		}
		if _, isStr := st.Val.Type().Underlying().(*types.Basic); !isStr {
			return
		}
		n++
		sl, ok := st.Val.(*ssa.Slice)
		if !ok || sl.X != ssa.Value(f.Params[0]) || sl.High != nil {
			okAll = false
		}
	})
	if n == 0 {
		r.undecided("G2-SPLIT", where, "value is the rest of the tag", c.pos(f.Pos()), "no store into the third element of the result found: the split has a shape this rule does not cover")
		return
	}
	r.check(okAll, "G2-SPLIT", where, "value is the rest of the tag", c.pos(f.Pos()), "the third piece is tag[k:], a suffix of the tag: further colons stay in the value", "the third piece is not a suffix tag[k:] of the tag: a value containing ':' is cut")
}
