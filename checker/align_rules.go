package main

// Rules shared by C08 and C09: E-ORD on decideOnStep, E-SYM sibling comparison of Global/Local.

import (
	"fmt"
	"go/constant"
	"go/token"
	"go/types"
	"os"
	"regexp"
	"sort"
	"strings"

	"golang.org/x/tools/go/ssa"
)

// ---------------------------------------------------------------------------
// linear normal form over integer Sym trees

type linForm struct {
	coef map[string]int64
	k    int64
}

func (l linForm) String() string {
	var ks []string
	for a := range l.coef {
		if l.coef[a] != 0 {
			ks = append(ks, a)
		}
	}
	sort.Strings(ks)
	var parts []string
	for _, a := range ks {
		parts = append(parts, fmt.Sprintf("%d*%s", l.coef[a], a))
	}
	parts = append(parts, fmt.Sprint(l.k))
	return strings.Join(parts, " + ")
}

func linOf(s *Sym) linForm {
	out := linForm{coef: map[string]int64{}}
	var add func(s *Sym, f int64)
	add = func(s *Sym, f int64) {
		switch s.Op {
		case "const":
			if c, ok := s.Val.(*ssa.Const); ok && c.Value != nil && c.Value.Kind() == constant.Int {
				n, _ := constant.Int64Val(c.Value)
				out.k += f * n
				return
			}
		case "bin:+":
			add(s.Args[0], f)
			add(s.Args[1], f)
			return
		case "bin:-":
			add(s.Args[0], f)
			add(s.Args[1], -f)
			return
		case "bin:*":
			for i := 0; i < 2; i++ {
				if c, ok := s.Args[i].Val.(*ssa.Const); ok && s.Args[i].Op == "const" && c.Value != nil && c.Value.Kind() == constant.Int {
					n, _ := constant.Int64Val(c.Value)
					add(s.Args[1-i], f*n)
					return
				}
			}
		}
		out.coef[s.String()] += f
	}
	add(s, 1)
	return out
}

func linSub(a, b linForm) linForm {
	out := linForm{coef: map[string]int64{}, k: a.k - b.k}
	for x, c := range a.coef {
		out.coef[x] += c
	}
	for x, c := range b.coef {
		out.coef[x] -= c
	}
	return out
}

// ---------------------------------------------------------------------------
// E-ORD

type ordOutcome struct {
	ordering string
	param    int   // index of returned parameter, -1 unknown
	label    int64 // returned constant
	ranks    [3]int
}

// weakOrderings3 enumerates the 13 weak orderings of three values as rank vectors.
func weakOrderings3() [][3]int {
	seen := map[[3]int]bool{}
	var out [][3]int
	for a := 0; a < 3; a++ {
		for b := 0; b < 3; b++ {
			for c := 0; c < 3; c++ {
				r := [3]int{a, b, c}
				// canonical: ranks must be dense (0..k)
				used := map[int]bool{a: true, b: true, c: true}
				dense := true
				for i := 0; i < len(used); i++ {
					if !used[i] {
						dense = false
					}
				}
				if dense && !seen[r] {
					seen[r] = true
					out = append(out, r)
				}
			}
		}
	}
	return out
}

func cmpHolds(op token.Token, x, y int) (bool, bool) {
	switch op {
	case token.LSS:
		return x < y, true
	case token.LEQ:
		return x <= y, true
	case token.GTR:
		return x > y, true
	case token.GEQ:
		return x >= y, true
	case token.EQL:
		return x == y, true
	case token.NEQ:
		return x != y, true
	}
	return false, false
}

// evalOrd follows f (comparison-only on its three numeric parameters) under one weak ordering: a tiny
// abstract interpreter whose only values are parameters (by rank) and booleans.
func evalOrd(f *ssa.Function, ranks [3]int) (param int, label int64, why string) {
	pidx := func(v ssa.Value) int {
		for i, p := range f.Params {
			if ssa.Value(p) == v {
				return i
			}
		}
		return -1
	}
	bools := map[ssa.Value]bool{}
	var boolOf func(v ssa.Value) (bool, bool)
	boolOf = func(v ssa.Value) (bool, bool) {
		if b, ok := bools[v]; ok {
			return b, true
		}
		if k, ok := v.(*ssa.Const); ok && k.Value != nil && k.Value.Kind() == constant.Bool {
			return constant.BoolVal(k.Value), true
		}
		return false, false
	}
	blk := f.Blocks[0]
	var prev *ssa.BasicBlock
	// what the stores executed on the way have put into local struct variables, field by field (a result variable
	// assigned in the arms and returned once)
	mem := map[*ssa.Alloc]map[int]ssa.Value{}
	// integer results of comparison-only helpers of the package called with the scores (pickStep(mch, del, ins))
	ints := map[ssa.Value]int64{}
	intOf := func(v ssa.Value) (int64, bool) {
		if k, ok := ints[v]; ok {
			return k, true
		}
		return cInt(constVal(v))
	}
	for steps := 0; steps < 200; steps++ {
		for _, in := range blk.Instrs {
			switch x := in.(type) {
			case *ssa.Call:
				if g := x.Call.StaticCallee(); g != nil && g.Blocks != nil && g.Pkg == f.Pkg && len(x.Call.Args) == len(g.Params) {
					var sub []int
					okArgs := true
					for _, a := range x.Call.Args {
						if i := pidx(a); i >= 0 {
							sub = append(sub, ranks[i])
						} else {
							okArgs = false
						}
					}
					if okArgs {
						if k, ok := evalOrdInt(g, sub); ok {
							ints[x] = k
						}
					}
				}
			case *ssa.Store:
				switch ad := x.Addr.(type) {
				case *ssa.FieldAddr:
					if al, ok := ad.X.(*ssa.Alloc); ok {
						if mem[al] == nil {
							mem[al] = map[int]ssa.Value{}
						}
						mem[al][ad.Field] = x.Val
					}
				case *ssa.Alloc:
					if ld, ok := x.Val.(*ssa.UnOp); ok && ld.Op == token.MUL {
						if src, ok := ld.X.(*ssa.Alloc); ok {
							cp := map[int]ssa.Value{}
							for k, v := range mem[src] {
								cp[k] = v
							}
							mem[ad] = cp
						}
					}
				}
			case *ssa.Phi:
				for i, p := range blk.Preds {
					if p == prev {
						if b, ok := boolOf(x.Edges[i]); ok {
							bools[x] = b
						}
					}
				}
			case *ssa.BinOp:
				xi, yi := pidx(x.X), pidx(x.Y)
				if _, isHelperInt := ints[x.X]; isHelperInt || func() bool { _, ok := ints[x.Y]; return ok }() {
					if a, ok1 := intOf(x.X); ok1 {
						if b, ok2 := intOf(x.Y); ok2 {
							if res, ok := cmpHolds(x.Op, int(a), int(b)); ok {
								bools[x] = res
							}
						}
					}
				}
				if xi >= 0 && yi >= 0 {
					if res, ok := cmpHolds(x.Op, ranks[xi], ranks[yi]); ok {
						bools[x] = res
					}
				} else if xb, ok1 := boolOf(x.X); ok1 {
					if yb, ok2 := boolOf(x.Y); ok2 {
						switch x.Op {
						case token.EQL:
							bools[x] = xb == yb
						case token.NEQ:
							bools[x] = xb != yb
						}
					}
				}
			case *ssa.UnOp:
				if x.Op == token.NOT {
					if b, ok := boolOf(x.X); ok {
						bools[x] = !b
					}
				}
			}
		}
		last := blk.Instrs[len(blk.Instrs)-1]
		switch t := last.(type) {
		case *ssa.If:
			res, ok := boolOf(t.Cond)
			if !ok {
				return -1, 0, "a branch depends on something other than comparisons of the three scores (arithmetic on a score?)"
			}
			prev = blk
			if res {
				blk = blk.Succs[0]
			} else {
				blk = blk.Succs[1]
			}
		case *ssa.Jump:
			prev = blk
			blk = blk.Succs[0]
		case *ssa.Return:
			if len(t.Results) != 1 {
				return -1, 0, "unexpected number of results"
			}
			// the returned composite as the path built it
			if ld, ok := t.Results[0].(*ssa.UnOp); ok && ld.Op == token.MUL {
				if al, ok := ld.X.(*ssa.Alloc); ok && len(mem[al]) > 0 {
					param, label, gotLabel := -1, int64(0), false
					for _, v := range mem[al] {
						if p := pidx(v); p >= 0 {
							param = p
						} else if n, ok := intOf(v); ok {
							label, gotLabel = n, true
						} else {
							return -1, 0, "field stored from a computed value"
						}
					}
					if param >= 0 && gotLabel {
						return param, label, ""
					}
					return -1, 0, "could not read (score, step) from the returned composite"
				}
			}
			return readBlockResult(t.Results[0], prev, pidx)
		default:
			return -1, 0, fmt.Sprintf("unexpected terminator %T", last)
		}
	}
	return -1, 0, "loop in a comparison-only function"
}

// evalOrdInt follows a comparison-only function of the package that returns an integer constant (a step label chosen
// from the scores), under the ranks its arguments have: the constant returned, if the walk is decided.
func evalOrdInt(g *ssa.Function, ranks []int) (int64, bool) {
	pidx := func(v ssa.Value) int {
		for i, p := range g.Params {
			if ssa.Value(p) == v {
				return i
			}
		}
		return -1
	}
	bools := map[ssa.Value]bool{}
	boolOf := func(v ssa.Value) (bool, bool) {
		if b, ok := bools[v]; ok {
			return b, true
		}
		if k, ok := v.(*ssa.Const); ok && k.Value != nil && k.Value.Kind() == constant.Bool {
			return constant.BoolVal(k.Value), true
		}
		return false, false
	}
	blk := g.Blocks[0]
	var prev *ssa.BasicBlock
	for steps := 0; steps < 100; steps++ {
		for _, in := range blk.Instrs {
			switch x := in.(type) {
			case *ssa.Phi:
				for i, p := range blk.Preds {
					if p == prev {
						if b, ok := boolOf(x.Edges[i]); ok {
							bools[x] = b
						}
					}
				}
			case *ssa.BinOp:
				xi, yi := pidx(x.X), pidx(x.Y)
				if xi >= 0 && yi >= 0 && xi < len(ranks) && yi < len(ranks) {
					if res, ok := cmpHolds(x.Op, ranks[xi], ranks[yi]); ok {
						bools[x] = res
					}
				} else if xb, ok1 := boolOf(x.X); ok1 {
					if yb, ok2 := boolOf(x.Y); ok2 {
						switch x.Op {
						case token.EQL:
							bools[x] = xb == yb
						case token.NEQ:
							bools[x] = xb != yb
						}
					}
				}
			case *ssa.UnOp:
				if x.Op == token.NOT {
					if b, ok := boolOf(x.X); ok {
						bools[x] = !b
					}
				}
			case *ssa.Store, *ssa.Call, *ssa.MapUpdate:
				return 0, false // not comparison-only
			}
		}
		switch t := lastInstr(blk).(type) {
		case *ssa.If:
			res, ok := boolOf(t.Cond)
			if !ok {
				return 0, false
			}
			prev = blk
			if res {
				blk = blk.Succs[0]
			} else {
				blk = blk.Succs[1]
			}
		case *ssa.Jump:
			prev = blk
			blk = blk.Succs[0]
		case *ssa.Return:
			if len(t.Results) != 1 {
				return 0, false
			}
			v := t.Results[0]
			if phi, ok := v.(*ssa.Phi); ok && phi.Block() == blk {
				for i, p := range blk.Preds {
					if p == prev {
						v = phi.Edges[i]
					}
				}
			}
			return cInt(constVal(v))
		default:
			return 0, false
		}
	}
	return 0, false
}

// readBlockResult reads (score parameter, step constant) from the returned block value: a load of a local
// composite, possibly through a phi selected by the predecessor.
func readBlockResult(v ssa.Value, prev *ssa.BasicBlock, pidx func(ssa.Value) int) (int, int64, string) {
	if phi, ok := v.(*ssa.Phi); ok {
		for i, p := range phi.Block().Preds {
			if p == prev {
				return readBlockResult(phi.Edges[i], nil, pidx)
			}
		}
		return -1, 0, "returned value is a merge that cannot be resolved"
	}
	ld, ok := v.(*ssa.UnOp)
	if !ok {
		return -1, 0, "returned value is not a local composite"
	}
	al, ok := ld.X.(*ssa.Alloc)
	if !ok {
		return -1, 0, "returned value is not a local composite"
	}
	param, label, gotLabel := -1, int64(0), false
	nStores := map[int]int{}
	for _, ref := range *al.Referrers() {
		fa, ok := ref.(*ssa.FieldAddr)
		if !ok {
			continue
		}
		for _, r2 := range *fa.Referrers() {
			st, ok := r2.(*ssa.Store)
			if !ok || st.Addr != ssa.Value(fa) {
				continue
			}
			nStores[fa.Field]++
			if nStores[fa.Field] > 1 {
				return -1, 0, "a field of the returned composite is stored at several places"
			}
			if p := pidx(st.Val); p >= 0 {
				param = p
			} else if n, ok := cInt(constVal(st.Val)); ok {
				label, gotLabel = n, true
			} else {
				return -1, 0, "field stored from a computed value"
			}
		}
	}
	if param < 0 || !gotLabel {
		return -1, 0, "could not read (score, step) from the returned composite"
	}
	return param, label, ""
}

func ordName(r [3]int) string {
	names := []string{"mch", "del", "ins"}
	// group by rank descending
	var groups [3][]string
	for i, x := range r {
		groups[x] = append(groups[x], names[i])
	}
	var parts []string
	for k := 2; k >= 0; k-- {
		if len(groups[k]) > 0 {
			parts = append(parts, strings.Join(groups[k], "="))
		}
	}
	return strings.Join(parts, ">")
}

func stepConst(c *Ctx, name string) (int64, bool) {
	p := c.pkg("align")
	if p == nil {
		return 0, false
	}
	k, ok := p.Types.Scope().Lookup(name).(*types.Const)
	if !ok {
		return 0, false
	}
	return cInt(k.Val())
}

// rulesDecideOnStep: ORD-M (returned score is a maximum) and ORD-L (label matches the chosen candidate).
func rulesDecideOnStep(c *Ctx, r *Report, ordM, ordL bool) {
	f := c.role("align.decideOnStep")
	where := "align.decideOnStep"
	if f == nil || len(f.Params) != 3 {
		r.undecided("ORD", where, "anchor", "", "decideOnStep(mch, del, ins) not found")
		return
	}
	r.analysed(where)
	labels := [3]int64{}
	for i, n := range []string{"Match", "Deletion", "Insertion"} {
		v, ok := stepConst(c, n)
		if !ok {
			r.undecided("ORD", where, "anchor", "", "step constant "+n+" not found")
			return
		}
		labels[i] = v
	}
	n := 0
	for _, ranks := range weakOrderings3() {
		n++
		p, lab, why := evalOrd(f, ranks)
		name := ordName(ranks)
		pos := c.pos(f.Pos())
		if why != "" {
			r.undecided("ORD", where, "ordering "+name, pos, why)
			continue
		}
		maxRank := max(ranks[0], ranks[1], ranks[2])
		pn := []string{"mch", "del", "ins"}[p]
		if ordM {
			r.check(ranks[p] == maxRank, "ORD-M", where, "ordering "+name, pos,
				"returns "+pn+", a maximal candidate", "returns "+pn+", which is not a maximum under this ordering: the cell keeps a sub-optimal score")
		}
		if ordL {
			r.check(lab == labels[p], "ORD-L", where, "ordering "+name, pos,
				fmt.Sprintf("score %s is labelled with step %d, its own kind", pn, lab),
				fmt.Sprintf("score %s is labelled with step %d but its kind is %d: the traceback follows a different predecessor than the score came from", pn, lab, labels[p]))
		}
	}
	r.floor("ORD", n, 13, "weak orderings of three scores")
}

// ---------------------------------------------------------------------------
// sibling recurrence

type alignFn struct {
	entry   *ssa.Function // the exported aligner
	es      *symb         // its expressions
	entryBn *Sym          // row length as the entry function passes it to the traceback
	f       *ssa.Function // the function that fills the table (the entry itself, or a helper stage it calls first)
	s       *symb
	decide  *ssa.Call
	cands   [3]*Sym
	traceFn *ssa.Function
	trace   *ssa.Call
	bn      *Sym // second argument of the trace call
	blocks  *Sym // first argument of the trace call
	idx     *Sym // index expression i used for the decideOnStep store
	zeroGO  bool
	local   *ssa.Alloc    // the cell of the current iteration kept in a local variable, if the fill is written that way
	flush   *ssa.Store    // … and the store that writes it into the table
	clampFn *ssa.Function // the value helper that floors a cell at zero (valueClampHelper), if Local uses one
}

// valueClampHelper: g takes one cell by value and returns it, or the zero cell if its score is negative — the floor
// at zero of a local alignment as a function of the cell's value: `if bl.score < 0 { return block{0, 0} }; return bl`.
func valueClampHelper(c *Ctx, g *ssa.Function) bool {
	if g == nil || g.Blocks == nil || !c.inModule(g) || len(g.Params) != 1 || g.Signature.Results().Len() != 1 {
		return false
	}
	st, ok := g.Params[0].Type().Underlying().(*types.Struct)
	if !ok || st.NumFields() != 2 || !types.Identical(g.Params[0].Type(), g.Signature.Results().At(0).Type()) {
		return false
	}
	gs := newSymb(g)
	cases := returnCases(gs, g)
	if len(cases) != 2 {
		return false
	}
	okZero, okSame := false, false
	for _, rc := range cases {
		if len(rc.vals) != 1 {
			return false
		}
		v := gs.expr(rc.vals[0])
		if os.Getenv("BIOCHECK_DEBUG") != "" {
			fmt.Println("clamp value helper case:", rc.guard, "=>", v.String())
		}
		isZero := false
		if k, isC := rc.vals[0].(*ssa.Const); isC && k.Value == nil {
			isZero = true // block{}
		}
		if v.Op == "load" && v.Args[0].Op == "alloc" && compositeConsts(v.Args[0].Val) == "{f0:0,f1:0}" {
			isZero = true
		}
		neg := rc.guard == "(P0.f0 < 0)" || rc.guard == "(load(P0.f0) < 0)" || rc.guard == "(0 > P0.f0)" || rc.guard == "(0 > load(P0.f0))"
		notNeg := rc.guard == "!(P0.f0 < 0)" || rc.guard == "!(load(P0.f0) < 0)" || rc.guard == "!(0 > P0.f0)" || rc.guard == "!(0 > load(P0.f0))"
		switch {
		case neg && isZero:
			okZero = true
		case notNeg && (v.String() == "P0" || v.String() == "load(P0)"):
			okSame = true
		}
	}
	return okZero && okSame
}

// localCellFlush: al is a struct variable of the loop body that is written into one element of a slice as a whole,
// by one store that every path from a store into al to the next iteration (or to a return) passes; that store.
func localCellFlush(f *ssa.Function, al *ssa.Alloc) *ssa.Store {
	if al.Block() == f.Blocks[0] {
		return nil // declared outside the loop: fields left alone keep the previous iteration's values
	}
	var flush *ssa.Store
	n := 0
	var writes []*ssa.Store
	for _, ref := range *al.Referrers() {
		switch x := ref.(type) {
		case *ssa.UnOp:
			for _, r2 := range *x.Referrers() {
				if st, ok := r2.(*ssa.Store); ok && st.Val == ssa.Value(x) {
					if _, isIdx := st.Addr.(*ssa.IndexAddr); isIdx {
						flush = st
						n++
					}
				}
			}
		case *ssa.Store:
			if x.Addr == ssa.Value(al) {
				writes = append(writes, x)
			}
		case *ssa.FieldAddr:
			for _, r2 := range *x.Referrers() {
				if st, ok := r2.(*ssa.Store); ok && st.Addr == ssa.Value(x) {
					writes = append(writes, st)
				}
			}
		case *ssa.DebugRef:
		default:
			return nil // its address goes elsewhere
		}
	}
	if n != 1 || flush == nil {
		return nil
	}
	for _, w := range writes {
		if w.Block() == flush.Block() {
			if instrDominates(w, flush) {
				continue
			}
			return nil
		}
		seen := map[*ssa.BasicBlock]bool{}
		lost := false
		var dfs func(b *ssa.BasicBlock)
		dfs = func(b *ssa.BasicBlock) {
			if seen[b] || lost || b == flush.Block() {
				return
			}
			seen[b] = true
			if b == al.Block() {
				lost = true
				return
			}
			if _, isRet := lastInstr(b).(*ssa.Return); isRet {
				lost = true
				return
			}
			for _, su := range b.Succs {
				dfs(su)
			}
		}
		for _, su := range w.Block().Succs {
			dfs(su)
		}
		if lost {
			return nil
		}
	}
	return flush
}

// dropGapOpen rewrites a tree with Get(Gap,Gap) := 0, x+0 := x, ITE(c,x,x) := x.
func (a *alignFn) dropGapOpen(s *Sym) *Sym {
	if s == nil || len(s.Args) == 0 {
		return s
	}
	if isGetCall(s) && a.getClass(s) == "gap-open" {
		return &Sym{Op: "zero", Leaf: "0"}
	}
	n := &Sym{Op: s.Op, Leaf: s.Leaf, Val: s.Val}
	for _, x := range s.Args {
		n.Args = append(n.Args, a.dropGapOpen(x))
	}
	if n.Op == "bin:+" {
		if n.Args[0].Op == "zero" {
			return n.Args[1]
		}
		if n.Args[1].Op == "zero" {
			return n.Args[0]
		}
	}
	if n.Op == "ite" && n.Args[1].String() == n.Args[2].String() {
		return n.Args[1]
	}
	return n
}

func staticCallsTo(f *ssa.Function, callee *ssa.Function) []*ssa.Call {
	var out []*ssa.Call
	instrs(f, func(in ssa.Instruction) {
		if c, ok := in.(*ssa.Call); ok && c.Call.StaticCallee() == callee {
			out = append(out, c)
		}
	})
	return out
}

func loadAlign(c *Ctx, r *Report, name, traceName string) *alignFn {
	where := "align." + name
	f := c.fn("align", name)
	dec := c.role("align.decideOnStep")
	tr := c.role(traceName)
	if f == nil || dec == nil || tr == nil {
		r.undecided("SIB", where, "anchor", "", "function, decideOnStep or "+traceName+" not found")
		return nil
	}
	entry := f
	tcalls := staticCallsTo(entry, tr)
	if len(tcalls) != 1 || len(tcalls[0].Call.Args) != 2 {
		r.undecided("SIB", where, "anchor", "", fmt.Sprintf("expected one %s call, found %d", traceName, len(tcalls)))
		return nil
	}
	es := newSymb(entry)
	// a fill stage split off into a helper: entry calls fill(a, b, m) -> (blocks, bn) and hands both to the traceback
	var fillCall *ssa.Call
	if len(staticCallsTo(f, dec)) == 0 {
		for _, arg := range tcalls[0].Call.Args {
			if ex, ok := arg.(*ssa.Extract); ok {
				if cl, ok := ex.Tuple.(*ssa.Call); ok {
					if g := cl.Call.StaticCallee(); g != nil && g.Blocks != nil && c.inModule(g) && len(staticCallsTo(g, dec)) == 1 {
						fillCall = cl
					}
				}
			}
		}
		if fillCall != nil {
			okArgs := len(fillCall.Call.Args) == len(entry.Params)
			for i, a := range fillCall.Call.Args {
				if i >= len(entry.Params) || a != ssa.Value(entry.Params[i]) {
					okArgs = false
				}
			}
			ex0, ok0 := tcalls[0].Call.Args[0].(*ssa.Extract)
			ex1, ok1 := tcalls[0].Call.Args[1].(*ssa.Extract)
			if !okArgs || !ok0 || !ok1 || ex0.Tuple != ssa.Value(fillCall) || ex1.Tuple != ssa.Value(fillCall) || ex0.Index != 0 || ex1.Index != 1 {
				r.undecided("SIB", where, "anchor", "", "the table-filling stage is a helper, but it is not called with the aligner's own parameters in order or its (table, row length) results are not handed straight to the traceback")
				return nil
			}
			f = fillCall.Call.StaticCallee()
			r.analysed(fname(f))
		}
	}
	// the traceback loop may live in a stage of the trace function that takes the table and its width as they are
	if tr != nil && len(tr.Params) >= 2 && traceLoopVar(tr) == nil && traceIndexCell(tr) == nil {
		for _, g := range c.stageFuncs(tr) {
			if g == tr || len(g.Params) < 2 || (traceLoopVar(g) == nil && traceIndexCell(g) == nil) {
				continue
			}
			for _, call := range staticCallsTo(tr, g) {
				if len(call.Call.Args) >= 2 && call.Call.Args[0] == ssa.Value(tr.Params[0]) && call.Call.Args[1] == ssa.Value(tr.Params[1]) {
					tr = g
				}
			}
			if tr == g {
				break
			}
		}
	}
	a := &alignFn{entry: entry, es: es, f: f, s: newSymb(f), traceFn: tr}
	calls := staticCallsTo(f, dec)
	if len(calls) != 1 || len(calls[0].Call.Args) != 3 {
		r.undecided("SIB", where, "anchor", "", fmt.Sprintf("expected one decideOnStep call, found %d", len(calls)))
		return nil
	}
	a.decide = calls[0]
	for i, arg := range calls[0].Call.Args {
		a.cands[i] = a.s.expr(arg)
	}
	a.trace = tcalls[0]
	a.entryBn = es.expr(tcalls[0].Call.Args[1])
	if fillCall == nil {
		a.blocks = a.s.expr(tcalls[0].Call.Args[0])
		a.bn = a.s.expr(tcalls[0].Call.Args[1])
	} else {
		// the table and row length as the fill stage itself computes them: its single return
		var ret *ssa.Return
		nRet := 0
		instrs(f, func(in ssa.Instruction) {
			if rt, ok := in.(*ssa.Return); ok {
				ret = rt
				nRet++
			}
		})
		if nRet != 1 || len(retOperands(ret)) != 2 {
			r.undecided("SIB", where, "anchor", "", "the table-filling helper does not have a single (table, row length) return")
			return nil
		}
		a.blocks = a.s.expr(retOperands(ret)[0])
		a.bn = a.s.expr(retOperands(ret)[1])
	}
	// the store of decideOnStep's result: *(&blocks[i]) = call
	for _, ref := range *a.decide.Referrers() {
		if st, ok := ref.(*ssa.Store); ok && st.Val == a.decide {
			if ia, ok := st.Addr.(*ssa.IndexAddr); ok {
				a.idx = a.s.expr(ia.Index)
			}
		}
	}
	if a.idx == nil {
		// the result floored at zero by a value helper on its way into the table: blocks[i] = floor(decideOnStep(…))
		for _, ref := range *a.decide.Referrers() {
			cl, ok := ref.(*ssa.Call)
			if !ok || len(cl.Call.Args) != 1 || cl.Call.Args[0] != ssa.Value(a.decide) || !valueClampHelper(c, cl.Call.StaticCallee()) {
				continue
			}
			for _, r2 := range *cl.Referrers() {
				if st, ok := r2.(*ssa.Store); ok && st.Val == ssa.Value(cl) {
					if ia, ok := st.Addr.(*ssa.IndexAddr); ok {
						a.idx = a.s.expr(ia.Index)
						a.clampFn = cl.Call.StaticCallee()
					}
				}
			}
		}
	}
	if a.idx == nil {
		// the cell computed in a local variable of the iteration and stored whole at its end:
		// var cur block; …; cur = decideOnStep(…); blocks[i] = cur
		for _, ref := range *a.decide.Referrers() {
			st, ok := ref.(*ssa.Store)
			if !ok || st.Val != ssa.Value(a.decide) {
				continue
			}
			if al, ok := st.Addr.(*ssa.Alloc); ok {
				if flush := localCellFlush(f, al); flush != nil {
					a.local, a.flush = al, flush
					a.idx = a.s.expr(flush.Addr.(*ssa.IndexAddr).Index)
				}
			}
		}
	}
	if a.idx == nil {
		r.undecided("SIB", where, "anchor", "", "decideOnStep's result is not stored into blocks[i]")
		return nil
	}
	r.analysed(where)
	return a
}

// repl: readable names for the recurring leaves.
func (a *alignFn) repl() map[string]string {
	m := map[string]string{a.idx.String(): "i", a.bn.String(): "bn", a.blocks.String(): "blocks"}
	if a.local != nil {
		// the current cell kept in a local variable reads as the cell itself
		m[a.s.expr(a.local).String()] = "blocks[i]"
	}
	return m
}

// getClass classifies a Get call by its argument shapes.
func (a *alignFn) getClass(s *Sym) string {
	if len(s.Args) != 3 {
		return "other"
	}
	cls := func(x *Sym) string {
		if x.Op == "const" && x.Leaf == "255" {
			return "Gap"
		}
		if x.Op == "load" && x.Args[0].Op == "index" {
			base := x.Args[0].Args[0]
			switch base.String() {
			case "P0":
				return "a"
			case "P1":
				return "b"
			}
		}
		return "?"
	}
	switch cls(s.Args[1]) + "," + cls(s.Args[2]) {
	case "a,b":
		return "match"
	case "a,Gap":
		return "deletion"
	case "Gap,b":
		return "insertion"
	case "Gap,Gap":
		return "gap-open"
	}
	return "other(" + cls(s.Args[1]) + "," + cls(s.Args[2]) + ")"
}

func isGetCall(s *Sym) bool { return s.Op == "call:align.SubstitutionMatrix.Get" }

func (a *alignFn) getClasses(s *Sym) []string {
	set := map[string]bool{}
	for _, g := range s.find(isGetCall) {
		set[a.getClass(g)] = true
	}
	var out []string
	for k := range set {
		out = append(out, k)
	}
	sort.Strings(out)
	return out
}

// scoreStores collects (guard, field, value) of every store into blocks[i] or its fields.
func (a *alignFn) cellStores(c *Ctx) []string {
	var out []string
	// stores of the function itself and of helpers that were handed a pointer to a cell (setEdge(&blocks[i], …))
	for _, ss := range symStoresOf(a.f, a.s) {
		st := ss.st
		var field string
		var idx *Sym
		ad := ss.addr
		switch {
		case ad.Op == "index" && len(ad.Args) == 2 && ad.Args[0].String() == a.blocks.String():
			idx, field = ad.Args[1], "*"
		case ad.Op == "field" && len(ad.Args) == 1 && ad.Args[0].Op == "index" && len(ad.Args[0].Args) == 2 && ad.Args[0].Args[0].String() == a.blocks.String():
			idx, field = ad.Args[0].Args[1], ad.Leaf
		case a.local != nil && ad.Op == "alloc" && ad.Val == ssa.Value(a.local):
			idx, field = a.idx, "*"
		case a.local != nil && ad.Op == "field" && len(ad.Args) == 1 && ad.Args[0].Op == "alloc" && ad.Args[0].Val == ssa.Value(a.local):
			idx, field = a.idx, ad.Leaf
		default:
			continue
		}
		if a.flush != nil && st == a.flush {
			continue // the local cell written into the table: its stores have been counted as stores into the cell
		}
		val := ss.val
		if a.zeroGO {
			val = a.dropGapOpen(val)
			// a store that only added the (zero) gap-open is a no-op under this abstraction
			if val.Op == "load" && val.Args[0].String() == ad.String() {
				continue
			}
		}
		guard := guardOf(ss.sy, st.Block(), a.repl())
		if ss.via != nil {
			// the helper's own condition on top of the condition of the call
			guard = joinGuards(guardOf(a.s, ss.via.Block(), a.repl()), guard)
		}
		// the cell floored at zero by a value helper: the store of the value, and the zero clamp under `score < 0`
		if cl, ok := val.Val.(*ssa.Call); ok && field == "*" && len(val.Args) == 1 && valueClampHelper(c, cl.Call.StaticCallee()) {
			cellS := fmt.Sprintf("blocks[%s]", idx.render(a.repl()))
			out = append(out, fmt.Sprintf("[%s] %s.* = composite{f0:0,f1:0}", joinGuards(guard, "(load("+cellS+".f0) < 0)"), cellS))
			val = val.Args[0]
			if val.Op == "load" && val.Args[0].String() == ad.String() {
				continue // the cell as it is
			}
		}
		vs := val.render(a.repl())
		if val.Op == "load" && val.Args[0].Op == "alloc" {
			vs = "composite" + compositeConsts(val.Args[0].Val)
		}
		out = append(out, fmt.Sprintf("[%s] blocks[%s].%s = %s", guard, idx.render(a.repl()), field, vs))
	}
	sort.Strings(out)
	if os.Getenv("BIOCHECK_DEBUG") != "" {
		for _, o := range out {
			fmt.Println("cellStore", a.f.Name(), o)
		}
	}
	return out
}

// joinGuards conjoins two rendered guards (sorted literal lists stay sorted literal lists).
func joinGuards(a, b string) string {
	if a == "" {
		return b
	}
	if b == "" {
		return a
	}
	if strings.HasPrefix(a, "bool[") || strings.HasPrefix(b, "bool[") {
		return a + " && " + b
	}
	parts := append(strings.Split(a, " && "), strings.Split(b, " && ")...)
	sort.Strings(parts)
	var out []string
	for i, p := range parts {
		if i == 0 || parts[i-1] != p {
			out = append(out, p)
		}
	}
	return strings.Join(out, " && ")
}

// compositeConsts renders the constant field stores of a local composite literal.
func compositeConsts(v ssa.Value) string {
	al, ok := v.(*ssa.Alloc)
	if !ok {
		return "{?}"
	}
	var parts []string
	for _, ref := range *al.Referrers() {
		if fa, ok := ref.(*ssa.FieldAddr); ok {
			for _, r2 := range *fa.Referrers() {
				if st, ok := r2.(*ssa.Store); ok && st.Addr == fa {
					if k := constVal(st.Val); k != nil {
						parts = append(parts, fmt.Sprintf("f%d:%s", fa.Field, k.ExactString()))
					} else {
						parts = append(parts, fmt.Sprintf("f%d:?", fa.Field))
					}
				}
			}
		}
	}
	sort.Strings(parts)
	return "{" + strings.Join(parts, ",") + "}"
}

// guardOf renders the branch conditions that dominate blk through a single edge.
// guardOf renders the condition under which blk is reached from the function's entry, as a boolean function
// of the branch conditions on the way (atoms): exact over all forward paths (back edges ignored), whichever
// way the branches are written (nested ifs, early exits that re-merge, tagless switch, value-context && / ||).
// A conjunction of literals is rendered as such ("!(a) && (b)"), anything else as a truth table over the
// sorted atoms.
func guardOf(s *symb, blk *ssa.BasicBlock, repl map[string]string) string {
	g, _ := guardOfFull(s, blk, repl)
	return g
}

var eqConstAtom = regexp.MustCompile(`^\((-?\d+) == (.+)\)$`)

// guardOfFull also returns the atoms (branch conditions) the reaching condition really depends on.
func guardOfFull(s *symb, blk *ssa.BasicBlock, repl map[string]string) (string, []string) {
	atomIdx := map[string]int{}
	var atoms []string
	tooMany := false
	atomOf := func(x *Sym) int {
		k := x.render(repl)
		if i, ok := atomIdx[k]; ok {
			return i
		}
		if len(atoms) >= 12 {
			tooMany = true
			return 0
		}
		atomIdx[k] = len(atoms)
		atoms = append(atoms, k)
		return len(atoms) - 1
	}
	// boolean expressions as closures over an assignment
	type bfn func(asg uint) bool
	var compile func(x *Sym) bfn
	compile = func(x *Sym) bfn {
		switch {
		case x.Op == "ite" && len(x.Args) == 3:
			c, t, e := compile(x.Args[0]), compile(x.Args[1]), compile(x.Args[2])
			return func(a uint) bool {
				if c(a) {
					return t(a)
				}
				return e(a)
			}
		case x.Op == "un:!" && len(x.Args) == 1:
			c := compile(x.Args[0])
			return func(a uint) bool { return !c(a) }
		case x.Op == "const" && x.Leaf == "true":
			return func(uint) bool { return true }
		case x.Op == "const" && x.Leaf == "false":
			return func(uint) bool { return false }
		}
		i := uint(atomOf(x))
		return func(a uint) bool { return a&(1<<i) != 0 }
	}
	memo := map[*ssa.BasicBlock]bfn{}
	var reach func(b *ssa.BasicBlock, depth int) bfn
	reach = func(b *ssa.BasicBlock, depth int) bfn {
		if f, ok := memo[b]; ok {
			return f
		}
		if len(b.Preds) == 0 || depth > 200 {
			f := func(uint) bool { return true }
			memo[b] = f
			return f
		}
		memo[b] = func(uint) bool { return false } // cycle guard (back edges are skipped below anyway)
		var alts []bfn
		for _, p := range b.Preds {
			if b.Dominates(p) {
				continue // back edge
			}
			pr := reach(p, depth+1)
			edge := bfn(func(uint) bool { return true })
			if iff, ok := lastInstr(p).(*ssa.If); ok && len(p.Succs) == 2 && p.Succs[0] != p.Succs[1] {
				c := compile(s.expr(iff.Cond))
				if p.Succs[0] == b {
					edge = c
				} else {
					edge = func(a uint) bool { return !c(a) }
				}
			}
			e := edge
			alts = append(alts, func(a uint) bool { return pr(a) && e(a) })
		}
		f := func(a uint) bool {
			for _, alt := range alts {
				if alt(a) {
					return true
				}
			}
			return false
		}
		memo[b] = f
		return f
	}
	f := reach(blk, 0)
	if tooMany {
		return guardOfDom(s, blk, repl), nil
	}
	n := uint(len(atoms))
	truth := make([]bool, 1<<n)
	any := false
	// assignments that cannot occur: the same value equal to two different constants
	infeasible := make([]bool, 1<<n)
	{
		type eqAtom struct {
			k   string
			rhs string
		}
		eqs := map[int]eqAtom{}
		for i, a := range atoms {
			if m := eqConstAtom.FindStringSubmatch(a); m != nil {
				eqs[i] = eqAtom{m[1], m[2]}
			}
		}
		for i, a := range eqs {
			for j, b := range eqs {
				if i < j && a.rhs == b.rhs && a.k != b.k {
					for asg := uint(0); asg < 1<<n; asg++ {
						if asg&(1<<uint(i)) != 0 && asg&(1<<uint(j)) != 0 {
							infeasible[asg] = true
						}
					}
				}
			}
		}
	}
	for asg := uint(0); asg < 1<<n; asg++ {
		truth[asg] = f(asg) && !infeasible[asg]
		any = any || truth[asg]
	}
	if !any {
		return "false", nil
	}
	implied := map[int]bool{}
	for i := range atoms {
		allT, allF := true, true
		for asg := uint(0); asg < 1<<n; asg++ {
			if truth[asg] {
				if asg&(1<<uint(i)) != 0 {
					allF = false
				} else {
					allT = false
				}
			}
		}
		if allT {
			implied[i] = true
		} else if allF {
			implied[i] = false
		}
	}
	exact := true
	for asg := uint(0); asg < 1<<n; asg++ {
		conj := true
		for i, pol := range implied {
			if (asg&(1<<uint(i)) != 0) != pol {
				conj = false
			}
		}
		if conj != truth[asg] && !infeasible[asg] {
			exact = false
		}
	}
	var parts []string
	if exact {
		for i, pol := range implied {
			if pol {
				parts = append(parts, atoms[i])
			} else {
				parts = append(parts, "!"+atoms[i])
			}
		}
		sort.Strings(parts)
		var used []string
		for i := range implied {
			used = append(used, atoms[i])
		}
		sort.Strings(used)
		return strings.Join(parts, " && "), used
	}
	// drop atoms the function does not depend on, then sorted atoms + truth table
	var dep []int
	for i := range atoms {
		depends := false
		for asg := uint(0); asg < 1<<n; asg++ {
			if truth[asg] != truth[asg^(1<<uint(i))] {
				depends = true
				break
			}
		}
		if depends {
			dep = append(dep, i)
		}
	}
	sort.Slice(dep, func(x, y int) bool { return atoms[dep[x]] < atoms[dep[y]] })
	var sb strings.Builder
	sb.WriteString("bool[")
	for k, i := range dep {
		if k > 0 {
			sb.WriteString(", ")
		}
		sb.WriteString(atoms[i])
	}
	sb.WriteString("]:")
	for asg := uint(0); asg < 1<<uint(len(dep)); asg++ {
		var orig uint
		for k, i := range dep {
			if asg&(1<<uint(k)) != 0 {
				orig |= 1 << uint(i)
			}
		}
		if truth[orig] {
			sb.WriteByte('1')
		} else {
			sb.WriteByte('0')
		}
	}
	var used []string
	for _, i := range dep {
		used = append(used, atoms[i])
	}
	return sb.String(), used
}

func guardOfDom(s *symb, blk *ssa.BasicBlock, repl map[string]string) string {
	type lit struct {
		cond *Sym
		pos  bool
	}
	var lits []lit
	hasBool := false
	for b := blk; b != nil && b.Idom() != nil; b = b.Idom() {
		d := b.Idom()
		iff, ok := d.Instrs[len(d.Instrs)-1].(*ssa.If)
		if !ok || len(b.Preds) != 1 || b.Preds[0] != d {
			continue
		}
		cond := s.expr(iff.Cond)
		if cond.Op == "ite" || cond.Op == "un:!" {
			hasBool = true
		}
		if d.Succs[0] == b && d.Succs[1] != b {
			lits = append(lits, lit{cond, true})
		} else if d.Succs[1] == b && d.Succs[0] != b {
			lits = append(lits, lit{cond, false})
		}
	}
	var parts []string
	if !hasBool {
		for _, l := range lits {
			if l.pos {
				parts = append(parts, l.cond.render(repl))
			} else {
				parts = append(parts, "!"+l.cond.render(repl))
			}
		}
		sort.Strings(parts)
		return strings.Join(parts, " && ")
	}
	// boolean structure inside the conditions (value-context && / ||, negations): canonicalise the conjunction
	// as a boolean function of its atoms; if it is a conjunction of literals, render it as one
	atomIdx := map[string]int{}
	var atoms []string
	var eval func(x *Sym, asg uint) bool
	atomOf := func(x *Sym) int {
		k := x.render(repl)
		if i, ok := atomIdx[k]; ok {
			return i
		}
		atomIdx[k] = len(atoms)
		atoms = append(atoms, k)
		return len(atoms) - 1
	}
	var collect func(x *Sym)
	collect = func(x *Sym) {
		switch {
		case x.Op == "ite" && len(x.Args) == 3:
			collect(x.Args[0])
			collect(x.Args[1])
			collect(x.Args[2])
		case x.Op == "un:!" && len(x.Args) == 1:
			collect(x.Args[0])
		case x.Op == "const" && (x.Leaf == "true" || x.Leaf == "false"):
		default:
			atomOf(x)
		}
	}
	for _, l := range lits {
		collect(l.cond)
	}
	if len(atoms) > 10 {
		for _, l := range lits {
			if l.pos {
				parts = append(parts, l.cond.render(repl))
			} else {
				parts = append(parts, "!"+l.cond.render(repl))
			}
		}
		sort.Strings(parts)
		return strings.Join(parts, " && ")
	}
	eval = func(x *Sym, asg uint) bool {
		switch {
		case x.Op == "ite" && len(x.Args) == 3:
			if eval(x.Args[0], asg) {
				return eval(x.Args[1], asg)
			}
			return eval(x.Args[2], asg)
		case x.Op == "un:!" && len(x.Args) == 1:
			return !eval(x.Args[0], asg)
		case x.Op == "const" && x.Leaf == "true":
			return true
		case x.Op == "const" && x.Leaf == "false":
			return false
		}
		return asg&(1<<uint(atomOf(x))) != 0
	}
	n := uint(len(atoms))
	truth := make([]bool, 1<<n)
	any := false
	for asg := uint(0); asg < 1<<n; asg++ {
		v := true
		for _, l := range lits {
			if eval(l.cond, asg) != l.pos {
				v = false
				break
			}
		}
		truth[asg] = v
		any = any || v
	}
	if !any {
		return "false"
	}
	// implied literals
	implied := map[int]bool{} // atom -> polarity
	for i := range atoms {
		allT, allF := true, true
		for asg := uint(0); asg < 1<<n; asg++ {
			if truth[asg] {
				if asg&(1<<uint(i)) != 0 {
					allF = false
				} else {
					allT = false
				}
			}
		}
		if allT {
			implied[i] = true
		} else if allF {
			implied[i] = false
		}
	}
	// is the function exactly the conjunction of its implied literals?
	exact := true
	for asg := uint(0); asg < 1<<n; asg++ {
		conj := true
		for i, pol := range implied {
			if (asg&(1<<uint(i)) != 0) != pol {
				conj = false
			}
		}
		if conj != truth[asg] {
			exact = false
		}
	}
	if exact {
		for i, pol := range implied {
			if pol {
				parts = append(parts, atoms[i])
			} else {
				parts = append(parts, "!"+atoms[i])
			}
		}
		sort.Strings(parts)
		return strings.Join(parts, " && ")
	}
	// general case: sorted atoms + truth table
	order := make([]int, len(atoms))
	for i := range order {
		order[i] = i
	}
	sort.Slice(order, func(x, y int) bool { return atoms[order[x]] < atoms[order[y]] })
	var sb strings.Builder
	sb.WriteString("bool[")
	for k, i := range order {
		if k > 0 {
			sb.WriteString(", ")
		}
		sb.WriteString(atoms[i])
	}
	sb.WriteString("]:")
	for asg := uint(0); asg < 1<<n; asg++ {
		// re-index the assignment in sorted atom order
		var orig uint
		for k, i := range order {
			if asg&(1<<uint(k)) != 0 {
				orig |= 1 << uint(i)
			}
		}
		if truth[orig] {
			sb.WriteByte('1')
		} else {
			sb.WriteByte('0')
		}
	}
	return sb.String()
}

// rulesSiblingRecurrence compares the Global and Local recurrences. With zeroGapOpen (C09) every
// Get(Gap,Gap) is abstracted to 0, so disagreements that only concern the gap-open term are not reported.
func rulesSiblingRecurrence(c *Ctx, r *Report, zeroGapOpen bool) {
	g := loadAlign(c, r, "Global", "align.traceGlobal")
	l := loadAlign(c, r, "Local", "align.traceLocal")
	if g == nil || l == nil {
		return
	}
	names := []string{"mch", "del", "ins"}
	pos := c.pos(g.decide.Pos())
	if zeroGapOpen {
		for i := 0; i < 3; i++ {
			g.cands[i] = g.dropGapOpen(g.cands[i])
			l.cands[i] = l.dropGapOpen(l.cands[i])
		}
		g.zeroGO, l.zeroGO = true, true
	}
	for i := 0; i < 3; i++ {
		gs, ls := g.cands[i].render(g.repl()), l.cands[i].render(l.repl())
		r.check(gs == ls, "SIB1", "align.Global~Local", "candidate "+names[i], pos,
			"candidate expression is identical in Global and Local: "+gs,
			"the siblings disagree — Global: "+gs+" ; Local: "+ls+" (one of them is wrong)")
	}
	// edge initialisations and all other cell stores
	gst, lst := g.cellStores(c), l.cellStores(c)
	lset := map[string]bool{}
	for _, s := range lst {
		lset[s] = true
	}
	gset := map[string]bool{}
	for _, s := range gst {
		gset[s] = true
	}
	var onlyG, onlyL []string
	for _, s := range gst {
		if !lset[s] {
			onlyG = append(onlyG, s)
		}
	}
	// the zero clamp written field by field (in a helper that is handed the cell): `[… score < 0] blocks[i].fK = 0`
	zeroClampField := regexp.MustCompile(`^\[.*\(load\(blocks\[[^\]]*\]\.f0\) < 0\).*\] blocks\[[^\]]*\]\.f[01] = 0$`)
	for _, s := range lst {
		if !gset[s] && !strings.Contains(s, "= composite{f0:0,f1:0}") && !zeroClampField.MatchString(s) {
			onlyL = append(onlyL, s)
		}
	}
	r.check(len(onlyG) == 0 && len(onlyL) == 0, "SIB1", "align.Global~Local", "cell stores", pos,
		fmt.Sprintf("all %d guarded cell stores of Global occur identically in Local; Local's only extras are the zero clamps", len(gst)),
		fmt.Sprintf("cell stores differ (guard, target, value) — only in Global: %v ; only in Local (other than zero clamps): %v", onlyG, onlyL))
	r.floor("SIB1-stores", len(gst), map[bool]int{true: 5, false: 7}[zeroGapOpen], "guarded stores into the DP table in Global (2 edges x (step, score, gap-open) + decideOnStep)")

	// SIB2: argument order of Get per candidate and edge
	want := [3][]string{{"match"}, {"deletion", "gap-open"}, {"gap-open", "insertion"}}
	if zeroGapOpen {
		want = [3][]string{{"match"}, {"deletion"}, {"insertion"}}
	}
	for _, a := range []*alignFn{g, l} {
		fn := fname(a.f)
		for i := 0; i < 3; i++ {
			got := a.getClasses(a.cands[i])
			r.check(strings.Join(got, ",") == strings.Join(want[i], ","), "SIB2", fn, "candidate "+names[i], c.pos(a.decide.Pos()),
				"score lookups of this candidate are exactly "+strings.Join(got, ","),
				fmt.Sprintf("score lookups are %v, want %v: e.g. Get(a[·],Gap) for a deletion and Get(Gap,b[·]) for an insertion — an asymmetric matrix scores the step wrongly", got, want[i]))
		}
		// every Get call in the function must be one of the four classes
		nGet := 0
		instrs(a.f, func(in ssa.Instruction) {
			call, ok := in.(*ssa.Call)
			if !ok {
				return
			}
			s := a.s.expr(call)
			if !isGetCall(s) {
				return
			}
			nGet++
			cl := a.getClass(s)
			if strings.HasPrefix(cl, "other") {
				r.violated("SIB2", fn, "Get "+cl, c.pos(call.Pos()), "substitution-matrix lookup with arguments in an order no step kind uses: "+s.render(a.repl()))
			}
		})
		r.floor("SIB2-"+a.f.Name(), nGet, 5, "Get call sites (9 today; gap-open lookups may live in a helper)")
		// edge stores: the step label written on an edge matches the class of the score lookup
		a.edgeRule(c, r)
		if !zeroGapOpen {
			a.gapOpenShape(c, r)
		}
		a.indexRule(c, r)
	}
}

// edgeRule: in a block that stores step constant L into blocks[i].step, the Get lookups feeding
// the score store are of L's kind.
func (a *alignFn) edgeRule(c *Ctx, r *Report) {
	fn := fname(a.f)
	del, _ := stepConst(c, "Deletion")
	ins, _ := stepConst(c, "Insertion")
	n := 0
	// stores grouped by the block they are made in, or by the call of the helper that makes them
	type grp struct {
		label   int64
		classes []string
		pos     token.Pos
		nonZero bool // some store of the group is not a constant zero (a group of zeros only is the clamp, not an edge)
	}
	groups := map[any]*grp{}
	var order []any
	for _, ss := range symStoresOf(a.f, a.s) {
		ad := ss.addr
		isLocalCell := a.local != nil && ad.Op == "field" && len(ad.Args) == 1 && ad.Args[0].Op == "alloc" && ad.Args[0].Val == ssa.Value(a.local)
		if !isLocalCell && (ad.Op != "field" || len(ad.Args) != 1 || ad.Args[0].Op != "index") {
			continue
		}
		var key any = ss.st.Block()
		if ss.via != nil {
			key = ss.via
		}
		g := groups[key]
		if g == nil {
			g = &grp{label: -1}
			groups[key] = g
			order = append(order, key)
		}
		if k, ok := cFloat(constVal(ss.val.Val)); !(ss.val.Op == "const" && ok && k == 0) {
			g.nonZero = true
		}
		switch ad.Leaf {
		case "f1":
			if ss.val.Op == "const" {
				if k, ok := cInt(constVal(ss.val.Val)); ok {
					g.label, g.pos = k, ss.st.Pos()
					if ss.via != nil {
						g.pos = ss.via.Pos()
					}
				}
			}
		case "f0":
			for _, cl := range a.getClasses(ss.val) {
				if cl != "gap-open" {
					g.classes = append(g.classes, cl)
				}
			}
		}
	}
	for _, key := range order {
		label, classes, pos := groups[key].label, groups[key].classes, groups[key].pos
		if label < 0 || !groups[key].nonZero {
			continue
		}
		n++
		want := ""
		switch label {
		case del:
			want = "deletion"
		case ins:
			want = "insertion"
		}
		got := strings.Join(classes, ",")
		r.check(want != "" && got == want, "SIB2", fn, fmt.Sprintf("edge step=%d", label), c.pos(pos),
			"edge cells labelled "+want+" add the "+want+" gap score",
			fmt.Sprintf("edge cells labelled with step %d add score lookups %q, want %q", label, got, want))
	}
	r.floor("SIB2-edges-"+a.f.Name(), n, 2, "edge initialisations")
}

// gapOpenShape: del/ins candidates are ITE(blocks[pred].step != L, base + Get(Gap,Gap), base) with L the candidate's own kind.
func (a *alignFn) gapOpenShape(c *Ctx, r *Report) {
	fn := fname(a.f)
	labels := []string{"", "Deletion", "Insertion"}
	for i := 1; i <= 2; i++ {
		name := []string{"mch", "del", "ins"}[i]
		cand := a.cands[i]
		pos := c.pos(a.decide.Pos())
		L, _ := stepConst(c, labels[i])
		if cand.Op != "ite" {
			r.violated("GO-SHAPE", fn, "candidate "+name, pos, "gap candidate is not of the form `base (+ gap-open if the predecessor's step is of another kind)`: "+cand.render(a.repl()))
			continue
		}
		cond, tv, fv := cand.Args[0], cand.Args[1], cand.Args[2]
		// predecessor index used by the base score
		preds := fv.find(func(s *Sym) bool {
			return s.Op == "load" && s.Args[0].Op == "field" && s.Args[0].Leaf == "f0" && s.Args[0].Args[0].Op == "index" && s.Args[0].Args[0].Args[0].String() == a.blocks.String()
		})
		if len(preds) != 1 {
			r.undecided("GO-SHAPE", fn, "candidate "+name, pos, "cannot identify the single predecessor score in "+fv.render(a.repl()))
			continue
		}
		predIdx := preds[0].Args[0].Args[0].Args[1]
		wantCond := fmt.Sprintf("(%d != load(%s[%s].f1))", L, a.blocks.String(), predIdx.String())
		altCond := fmt.Sprintf("(load(%s[%s].f1) != %d)", a.blocks.String(), predIdx.String(), L)
		okCond := cond.String() == wantCond || cond.String() == altCond
		// tv = fv + Get(Gap,Gap)
		okSum := false
		if tv.Op == "bin:+" {
			for k := 0; k < 2; k++ {
				if tv.Args[k].String() == fv.String() && isGetCall(tv.Args[1-k]) && a.getClass(tv.Args[1-k]) == "gap-open" {
					okSum = true
				}
			}
		}
		r.check(okCond && okSum, "GO-SHAPE", fn, "candidate "+name, pos,
			fmt.Sprintf("gap-open is added exactly when the predecessor cell's step is not %s, and the predecessor is the cell the base score came from", labels[i]),
			fmt.Sprintf("gap-open term has the wrong shape: condition %s (want predecessor's step != %s on the same predecessor), opened = %s, base = %s", cond.render(a.repl()), labels[i], tv.render(a.repl()), fv.render(a.repl())))
	}
}

// indexRule: a is indexed by i/bn - 1 and b by i%bn - 1 in every score lookup.
func (a *alignFn) indexRule(c *Ctx, r *Report) {
	fn := fname(a.f)
	wantA := fmt.Sprintf("1*(%s / %s) + -1", a.idx.String(), a.bn.String())
	wantB := fmt.Sprintf("1*(%s %% %s) + -1", a.idx.String(), a.bn.String())
	n, bad := 0, []string{}
	instrs(a.f, func(in ssa.Instruction) {
		ld, ok := in.(*ssa.UnOp)
		if !ok || ld.Op != token.MUL {
			return
		}
		ia, ok := ld.X.(*ssa.IndexAddr)
		if !ok {
			return
		}
		base := a.s.expr(ia.X).String()
		if base != "P0" && base != "P1" {
			return
		}
		n++
		got := linOf(a.s.expr(ia.Index)).String()
		want := wantA
		if base == "P1" {
			want = wantB
		}
		if got != want {
			bad = append(bad, fmt.Sprintf("%s[%s] at %s", map[string]string{"P0": "a", "P1": "b"}[base], a.s.expr(ia.Index).render(a.repl()), c.pos(ld.Pos())))
		}
	})
	r.check(len(bad) == 0, "SIB-IDX", fn, "sequence indices", c.pos(a.f.Pos()),
		fmt.Sprintf("all %d reads of a and b use a[i/bn-1] and b[i%%bn-1]", n),
		"sequence characters are read at other positions than the cell's own row/column: "+strings.Join(bad, "; "))
	r.floor("SIB-IDX-"+a.f.Name(), n, 2, "reads of a and b (6 today; repeated reads may share a local)")
}

// rulesTraceFollowsFill (SIB3, SIB5): C08 only.
func rulesTraceFollowsFill(c *Ctx, r *Report) {
	g := loadAlign(c, r, "Global", "align.traceGlobal")
	l := loadAlign(c, r, "Local", "align.traceLocal")
	if g == nil || l == nil {
		return
	}
	labels := [3]int64{}
	for i, n := range []string{"Match", "Deletion", "Insertion"} {
		labels[i], _ = stepConst(c, n)
	}
	names := []string{"mch", "del", "ins"}
	for _, a := range []*alignFn{g, l} {
		fn := fname(a.f)
		// predecessor offsets of the fill
		var fill [3]string
		okFill := true
		for i := 0; i < 3; i++ {
			preds := a.cands[i].find(func(s *Sym) bool {
				return s.Op == "load" && s.Args[0].Op == "field" && s.Args[0].Leaf == "f0" && s.Args[0].Args[0].Op == "index" && s.Args[0].Args[0].Args[0].String() == a.blocks.String()
			})
			set := map[string]bool{}
			for _, p := range preds {
				set[linSub(linOf(a.idx), linOf(p.Args[0].Args[0].Args[1])).String()] = true
			}
			if len(set) != 1 {
				r.undecided("SIB3", fn, "candidate "+names[i], c.pos(a.decide.Pos()), fmt.Sprintf("candidate reads %d different predecessor scores", len(set)))
				okFill = false
				continue
			}
			for k := range set {
				fill[i] = k
			}
		}
		if !okFill {
			continue
		}
		// trace deltas: in the trace function, with its parameters replaced by the caller's arguments
		ts := newSymb(a.traceFn)
		ts.subst[a.traceFn.Params[0]] = a.blocks
		ts.subst[a.traceFn.Params[1]] = a.bn
		deltas, why := traceDeltas(a.traceFn, ts)
		r.analysed(fname(a.traceFn))
		if why != "" {
			r.undecided("SIB3", fname(a.traceFn), "trace loop", c.pos(a.traceFn.Pos()), why)
			continue
		}
		for i := 0; i < 3; i++ {
			d, ok := deltas[labels[i]]
			pos := c.pos(a.traceFn.Pos())
			if !ok {
				r.violated("SIB3", fname(a.traceFn), "case "+names[i], pos, fmt.Sprintf("the traceback has no arm for step %d", labels[i]))
				continue
			}
			r.check(d == fill[i], "SIB3", fname(a.traceFn), "case "+names[i], pos,
				fmt.Sprintf("the traceback arm for step %d moves back by %s, the predecessor offset of candidate %s in %s", labels[i], d, names[i], fn),
				fmt.Sprintf("the traceback arm for step %d moves back by [%s] but candidate %s in %s was computed from the cell [%s] back: the returned steps are not the ones that were scored", labels[i], d, names[i], fn, fill[i]))
		}
	}
	// SIB5: Local's returned offsets are the fill's sequence indices of the first cell
	rets := []*ssa.Return{}
	instrs(l.entry, func(in ssa.Instruction) {
		if rt, ok := in.(*ssa.Return); ok {
			rets = append(rets, rt)
		}
	})
	if len(rets) != 1 || len(rets[0].Results) != 4 {
		r.undecided("SIB5", "align.Local", "return", "", "expected a single 4-result return")
		return
	}
	var cellSym *Sym
	for _, v := range rets[0].Results[1:3] {
		for _, e := range l.es.expr(v).find(func(s *Sym) bool {
			return s.Op == "extract:1" && len(s.Args) == 1 && s.Args[0].Val == ssa.Value(l.trace)
		}) {
			cellSym = e
		}
	}
	if cellSym == nil {
		r.undecided("SIB5", "align.Local", "return", c.pos(rets[0].Pos()), "returned offsets are not computed from the traceback's first-cell index")
		return
	}
	replRet := map[string]string{cellSym.String(): "CELL", l.entryBn.String(): "bn"}
	replFill := map[string]string{l.idx.String(): "CELL", l.bn.String(): "bn"}
	// the fill's a-index and b-index
	var aIdx, bIdx string
	instrs(l.f, func(in ssa.Instruction) {
		if ia, ok := in.(*ssa.IndexAddr); ok {
			switch l.s.expr(ia.X).String() {
			case "P0":
				aIdx = l.s.expr(ia.Index).render(replFill)
			case "P1":
				bIdx = l.s.expr(ia.Index).render(replFill)
			}
		}
	})
	gotA, gotB := l.es.expr(rets[0].Results[1]).render(replRet), l.es.expr(rets[0].Results[2]).render(replRet)
	r.check(gotA == aIdx, "SIB5", "align.Local", "start offset in a", c.pos(rets[0].Pos()),
		"returned offset "+gotA+" is the index the fill uses to read a for a cell", "returned offset "+gotA+" differs from the index "+aIdx+" the fill reads a at for the first cell")
	r.check(gotB == bIdx, "SIB5", "align.Local", "start offset in b", c.pos(rets[0].Pos()),
		"returned offset "+gotB+" is the index the fill uses to read b for a cell", "returned offset "+gotB+" differs from the index "+bIdx+" the fill reads b at for the first cell")
}

// traceDeltas finds, in a traceback function, the loop variable i that indexes blocks and, per step
// constant L, the amount subtracted from i on the `blocks[i].step == L` arm.
func traceDeltas(f *ssa.Function, s *symb) (map[int64]string, string) {
	out := map[int64]string{}
	var iphi *ssa.Phi
	for _, b := range f.Blocks {
		for _, in := range b.Instrs {
			phi, ok := in.(*ssa.Phi)
			if !ok || !types.Identical(phi.Type(), types.Typ[types.Int]) {
				continue
			}
			// the phi used as index into blocks (param 0) whose .step is loaded
			for _, ref := range *phi.Referrers() {
				if ia, ok := ref.(*ssa.IndexAddr); ok && ia.X == f.Params[0] && ia.Index == phi {
					iphi = phi
				}
			}
		}
	}
	if iphi == nil {
		if out, ok := traceDeltasCell(f, s); ok {
			return out, ""
		}
		return nil, "no loop variable indexing the table found"
	}
	iSym := s.expr(iphi)
	for k, e := range iphi.Edges {
		if e == iphi {
			continue // unchanged (no arm matched)
		}
		pred := iphi.Block().Preds[k]
		if !dependsOn(e, iphi, map[ssa.Value]bool{}) {
			continue // initial value
		}
		// the move chosen in the arms and applied once after them: back := 0; switch step { case L: back = d … };
		// i = i - back — one update whose amount is a merge of the arms' amounts
		if bo, isSub := e.(*ssa.BinOp); isSub && bo.Op == token.SUB && bo.X == ssa.Value(iphi) {
			if dphi, isPhi := bo.Y.(*ssa.Phi); isPhi && (dphi.Block() == pred || dphi.Block().Dominates(pred)) {
				okAll := true
				for j, de := range dphi.Edges {
					if k0, isC := cInt(constVal(de)); isC && k0 == 0 {
						continue // no arm matched: stays
					}
					L, ok := caseConstOf(dphi.Block().Preds[j], f, iphi)
					if !ok {
						okAll = false
						break
					}
					if _, dup := out[L]; dup {
						return nil, fmt.Sprintf("two arms for step %d", L)
					}
					out[L] = linOf(s.expr(de)).String()
				}
				if okAll {
					continue
				}
			}
		}
		// which case constant guards pred?
		L, ok := caseConstOf(pred, f, iphi)
		if !ok {
			return nil, "an update of the loop variable is not guarded by a comparison of blocks[i].step with a constant"
		}
		if _, dup := out[L]; dup {
			return nil, fmt.Sprintf("two arms for step %d", L)
		}
		out[L] = linSub(linOf(iSym), linOf(s.expr(e))).String()
	}
	return out, ""
}

// caseConstOf: blk is reached only through the true edge of `load(blocks[i].step) == L`.
// cellFieldRead: v reads field k of the element base[idx] — through the field's address, or as a field of the
// element loaded whole (cur := blocks[i]; cur.step).
func cellFieldRead(v ssa.Value) (base, idx ssa.Value, field int, ok bool) {
	switch x := v.(type) {
	case *ssa.UnOp:
		if x.Op != token.MUL {
			return nil, nil, 0, false
		}
		fa, ok := x.X.(*ssa.FieldAddr)
		if !ok {
			return nil, nil, 0, false
		}
		ia, ok := fa.X.(*ssa.IndexAddr)
		if !ok {
			// a local copy of the element kept in a variable: cur := blocks[i]
			if al, isAl := fa.X.(*ssa.Alloc); isAl {
				if ld, isLd := cellValue(al).(*ssa.UnOp); isLd && ld.Op == token.MUL {
					if ia2, ok2 := ld.X.(*ssa.IndexAddr); ok2 {
						return ia2.X, ia2.Index, fa.Field, true
					}
				}
			}
			return nil, nil, 0, false
		}
		return ia.X, ia.Index, fa.Field, true
	case *ssa.Field:
		ld, ok := x.X.(*ssa.UnOp)
		if !ok || ld.Op != token.MUL {
			return nil, nil, 0, false
		}
		ia, ok := ld.X.(*ssa.IndexAddr)
		if !ok {
			return nil, nil, 0, false
		}
		return ia.X, ia.Index, x.Field, true
	}
	return nil, nil, 0, false
}

func caseConstOf(blk *ssa.BasicBlock, f *ssa.Function, iphi *ssa.Phi) (int64, bool) {
	if len(blk.Preds) != 1 {
		return 0, false
	}
	d := blk.Preds[0]
	iff, ok := d.Instrs[len(d.Instrs)-1].(*ssa.If)
	if !ok || d.Succs[0] != blk {
		return 0, false
	}
	bo, ok := iff.Cond.(*ssa.BinOp)
	if !ok || bo.Op != token.EQL {
		return 0, false
	}
	for _, pair := range [][2]ssa.Value{{bo.X, bo.Y}, {bo.Y, bo.X}} {
		k, ok := cInt(constVal(pair[1]))
		if !ok {
			continue
		}
		base, idx, field, ok := cellFieldRead(pair[0])
		if !ok || field != 1 || base != ssa.Value(f.Params[0]) || idx != ssa.Value(iphi) {
			continue
		}
		return k, true
	}
	return 0, false
}

// rulesLocalClamp (CLAMP): in Local every path from a store into a cell's score to the next
// iteration passes the test `blocks[i].score < 0` whose true edge zeroes the cell. A cell left
// negative makes the traceback panic and lets an alignment start below zero.
func rulesLocalClamp(c *Ctx, r *Report) {
	a := loadAlign(c, r, "Local", "align.traceLocal")
	if a == nil {
		return
	}
	fn := fname(a.f)
	isCellAddr := func(v ssa.Value) (field string, ok bool) {
		switch ad := v.(type) {
		case *ssa.IndexAddr:
			if a.s.expr(ad.X).String() == a.blocks.String() && a.s.expr(ad.Index).String() == a.idx.String() {
				return "*", true
			}
		case *ssa.FieldAddr:
			if x, ok := ad.X.(*ssa.IndexAddr); ok && a.s.expr(x.X).String() == a.blocks.String() && a.s.expr(x.Index).String() == a.idx.String() {
				return fmt.Sprintf("f%d", ad.Field), true
			}
		}
		return "", false
	}
	clampTest := map[*ssa.BasicBlock]bool{}
	clampArm := map[*ssa.BasicBlock]bool{} // the blocks that zero the cell on the true edge of a clamp test
	for _, b := range a.f.Blocks {
		iff, ok := b.Instrs[len(b.Instrs)-1].(*ssa.If)
		if !ok {
			continue
		}
		cs := a.s.expr(iff.Cond).String()
		want := fmt.Sprintf("(load(%s[%s].f0) < 0)", a.blocks.String(), a.idx.String())
		if cs != want {
			continue
		}
		// true edge must zero the cell
		zeroes := false
		zeroedField := map[string]bool{}
		for _, in := range b.Succs[0].Instrs {
			if st, ok := in.(*ssa.Store); ok {
				// the literal built in place: both fields of the cell set to zero
				if f, ok := isCellAddr(st.Addr); ok && (f == "f0" || f == "f1") {
					if k, isC := st.Val.(*ssa.Const); isC && isZeroConst(k) {
						zeroedField[f] = true
					}
				}
				if f, ok := isCellAddr(st.Addr); ok && f == "*" {
					v := a.s.expr(st.Val)
					if v.Op == "load" && v.Args[0].Op == "alloc" && compositeConsts(v.Args[0].Val) == "{f0:0,f1:0}" {
						zeroes = true
					}
				}
			}
		}
		if zeroes || (zeroedField["f0"] && zeroedField["f1"]) {
			clampTest[b] = true
			clampArm[b.Succs[0]] = true
		}
	}
	// the clamp as a helper: f(&blocks[i]) whose body is `if p.score < 0 { *p = block{0, 0} }` and nothing else
	isClampHelper := func(g *ssa.Function) bool {
		if g == nil || g.Blocks == nil || !c.inModule(g) || len(g.Params) != 1 {
			return false
		}
		gs := newSymb(g)
		okTest, nStores, okStore := false, 0, false
		zeroed := map[int]bool{}
		for _, b := range g.Blocks {
			for _, in := range b.Instrs {
				if st, ok := in.(*ssa.Store); ok {
					if _, local := st.Addr.(*ssa.Alloc); local {
						continue
					}
					if fa, ok := st.Addr.(*ssa.FieldAddr); ok {
						if _, local := fa.X.(*ssa.Alloc); local {
							continue
						}
					}
					nStores++
					v := gs.expr(st.Val)
					if os.Getenv("BIOCHECK_DEBUG") != "" {
						fmt.Printf("  store %s = %s (%T)\n", gs.expr(st.Addr).String(), v.String(), st.Addr)
					}
					onTrueEdge := func() bool {
						for _, p := range b.Preds {
							if iff, ok := lastInstr(p).(*ssa.If); ok && p.Succs[0] == b && gs.expr(iff.Cond).String() == "(load(P0.f0) < 0)" {
								return true
							}
						}
						return false
					}
					// in-place form: both fields of *p set to zero on the true edge
					if fa, ok := st.Addr.(*ssa.FieldAddr); ok && fa.X == ssa.Value(g.Params[0]) {
						if k, isC := st.Val.(*ssa.Const); isC && isZeroConst(k) && onTrueEdge() {
							zeroed[fa.Field] = true
							nStores--
						}
					}
					if st.Addr == ssa.Value(g.Params[0]) && v.Op == "load" && v.Args[0].Op == "alloc" && compositeConsts(v.Args[0].Val) == "{f0:0,f1:0}" {
						// on the true edge of the test
						for _, p := range b.Preds {
							if iff, ok := lastInstr(p).(*ssa.If); ok && p.Succs[0] == b && gs.expr(iff.Cond).String() == "(load(P0.f0) < 0)" {
								okStore = true
							}
						}
					}
				}
			}
			if iff, ok := lastInstr(b).(*ssa.If); ok && gs.expr(iff.Cond).String() == "(load(P0.f0) < 0)" && g.Blocks[0] == b {
				okTest = true
			}
		}
		if os.Getenv("BIOCHECK_DEBUG") != "" {
			fmt.Println("clamp helper?", fname(g), okTest, okStore, nStores)
		}
		if zeroed[0] && zeroed[1] && nStores == 0 {
			return okTest
		}
		return okTest && okStore && nStores == 1
	}
	var clampCalls []*ssa.Call
	clampStore := map[*ssa.Store]bool{} // stores of a cell floored by the value helper: clamped by construction
	instrs(a.f, func(in ssa.Instruction) {
		if cl, ok := in.(*ssa.Call); ok && len(cl.Call.Args) == 1 && valueClampHelper(c, cl.Call.StaticCallee()) {
			// blocks[i] = floor(v): the stored value is never negative; as a clamp of the cell it counts when v is the
			// cell itself or the fresh result of decideOnStep
			for _, ref := range *cl.Referrers() {
				st, ok := ref.(*ssa.Store)
				if !ok || st.Val != ssa.Value(cl) {
					continue
				}
				if f, ok := isCellAddr(st.Addr); ok && f == "*" {
					arg := cl.Call.Args[0]
					isCell := false
					if ld, ok := arg.(*ssa.UnOp); ok && ld.Op == token.MUL {
						if f2, ok2 := isCellAddr(ld.X); ok2 && f2 == "*" {
							isCell = true
						}
					}
					if isCell || arg == ssa.Value(a.decide) {
						clampStore[st] = true
						clampCalls = append(clampCalls, cl)
						clampTest[cl.Block()] = true
					}
				}
			}
		}
		if cl, ok := in.(*ssa.Call); ok && len(cl.Call.Args) == 1 && isClampHelper(cl.Call.StaticCallee()) {
			if f, ok := isCellAddr(cl.Call.Args[0]); ok && f == "*" {
				clampCalls = append(clampCalls, cl)
				clampTest[cl.Block()] = true
			}
		}
	})
	// loop header: block of the loop phi behind idx
	var header *ssa.BasicBlock
	for phi := range a.s.loops {
		if dependsOn(a.decide.Call.Args[0], phi, map[ssa.Value]bool{}) {
			header = phi.Block()
		}
	}
	if header == nil {
		r.undecided("CLAMP", fn, "loop", c.pos(a.f.Pos()), "fill loop header not identified")
		return
	}
	n := 0
	for _, b := range a.f.Blocks {
		for _, in := range b.Instrs {
			st, ok := in.(*ssa.Store)
			if !ok {
				continue
			}
			f, ok := isCellAddr(st.Addr)
			if !ok || f == "f1" {
				continue
			}
			v := a.s.expr(st.Val)
			if v.Op == "load" && v.Args[0].Op == "alloc" && compositeConsts(v.Args[0].Val) == "{f0:0,f1:0}" {
				continue // the clamp itself
			}
			if k, isC := st.Val.(*ssa.Const); isC && isZeroConst(k) && clampArm[b] {
				continue // the clamp itself, written field by field
			}
			if clampStore[st] {
				n++
				r.holds("CLAMP", fn, "store "+guardOf(a.s, b, a.repl()), c.pos(st.Pos()), "the value stored is floored at zero by "+fname(st.Val.(*ssa.Call).Call.StaticCallee())+" (zero cell if its score is negative, else unchanged)")
				continue
			}
			n++
			escaped := false
			laterClamp := false
			for _, cc := range clampCalls {
				if cc.Block() == b && instrDominates(st, cc) {
					laterClamp = true
				}
			}
			isTestBlock := false
			if iff, ok := lastInstr(b).(*ssa.If); ok && clampTest[b] {
				isTestBlock = a.s.expr(iff.Cond).String() == fmt.Sprintf("(load(%s[%s].f0) < 0)", a.blocks.String(), a.idx.String())
			}
			if !laterClamp && !isTestBlock {
				seen := map[*ssa.BasicBlock]bool{}
				var dfs func(x *ssa.BasicBlock)
				dfs = func(x *ssa.BasicBlock) {
					if seen[x] || escaped {
						return
					}
					seen[x] = true
					if x == header {
						escaped = true
						return
					}
					if clampTest[x] {
						return
					}
					for _, s := range x.Succs {
						dfs(s)
					}
				}
				for _, s := range b.Succs {
					dfs(s)
				}
			}
			r.check(!escaped, "CLAMP", fn, "store "+guardOf(a.s, b, a.repl()), c.pos(st.Pos()),
				"every path from this score store to the next iteration passes the `score < 0 => zero cell` clamp",
				"a path from this score store reaches the next iteration without the `score < 0 => zero cell` clamp: a negative cell survives (traceback panics on it / alignments may start below zero)")
		}
	}
	r.floor("CLAMP", n, 3, "score stores in Local (2 edges x (score, gap-open) + decideOnStep)")
}

// traceLoopVar: the integer phi that indexes the table (parameter 0) in a traceback function.
func traceLoopVar(f *ssa.Function) *ssa.Phi {
	var iphi *ssa.Phi
	instrs(f, func(in ssa.Instruction) {
		phi, ok := in.(*ssa.Phi)
		if !ok || !types.Identical(phi.Type(), types.Typ[types.Int]) {
			return
		}
		for _, ref := range *phi.Referrers() {
			if ia, ok := ref.(*ssa.IndexAddr); ok && len(f.Params) > 0 && ia.X == f.Params[0] && ia.Index == phi {
				iphi = phi
			}
		}
	})
	return iphi
}

// rulesTraceStop (STOP): the traceback loops leave only where the algorithm says: Global's when the index
// reaches the origin, Local's additionally at the first cell whose score is 0.
func rulesTraceStop(c *Ctx, r *Report) {
	for _, spec := range []struct {
		name, role string
		local      bool
	}{{"Global", "align.traceGlobal", false}, {"Local", "align.traceLocal", true}} {
		a := loadAlign(c, r, spec.name, spec.role)
		if a == nil {
			continue
		}
		f := a.traceFn
		where := fname(f)
		iphi := traceLoopVar(f)
		cell := traceIndexCell(f)
		isIdx := func(v ssa.Value) bool {
			if iphi != nil {
				return v == ssa.Value(iphi)
			}
			ld, ok := v.(*ssa.UnOp)
			return ok && ld.Op == token.MUL && cell != nil && ld.X == ssa.Value(cell)
		}
		var header *ssa.BasicBlock
		if iphi != nil {
			header = iphi.Block()
		} else if cell != nil {
			// the loop whose header compares the index with 0
			for _, b := range f.Blocks {
				if iff, ok := lastInstr(b).(*ssa.If); ok && isLoopHeader(b) {
					if bo, ok := iff.Cond.(*ssa.BinOp); ok && (isIdx(bo.X) || isIdx(bo.Y)) {
						header = b
					}
				}
			}
		}
		if header == nil {
			r.undecided("STOP", where, "trace loop", c.pos(f.Pos()), "no loop variable indexing the table found")
			continue
		}
		loop := naturalLoop(header)
		isZero := func(v ssa.Value) bool {
			k, ok := v.(*ssa.Const)
			return ok && k.Value != nil && isZeroConst(k)
		}
		isScoreAtI := func(v ssa.Value) bool {
			base, idx, field, ok := cellFieldRead(v)
			return ok && field == 0 && base == ssa.Value(f.Params[0]) && isIdx(idx)
		}
		nIndex, nScore := 0, 0
		var other []string
		for b := range loop {
			iff, ok := lastInstr(b).(*ssa.If)
			if !ok {
				continue
			}
			for k, su := range b.Succs {
				if loop[su] {
					continue
				}
				if _, isPanic := lastInstr(su).(*ssa.Panic); isPanic {
					continue
				}
				bo, ok := iff.Cond.(*ssa.BinOp)
				if !ok {
					other = append(other, "condition "+iff.Cond.Name()+" at "+c.pos(iff.Cond.Pos()))
					continue
				}
				x, y, op := bo.X, bo.Y, bo.Op
				if isZero(x) {
					x, y = y, x
					switch op {
					case token.LSS:
						op = token.GTR
					case token.GTR:
						op = token.LSS
					case token.LEQ:
						op = token.GEQ
					case token.GEQ:
						op = token.LEQ
					}
				}
				switch {
				case isIdx(x) && isZero(y):
					nIndex++
				case spec.local && isScoreAtI(x) && isZero(y) &&
					(k == 0 && (op == token.EQL || op == token.LEQ) || k == 1 && (op == token.NEQ || op == token.GTR)):
					nScore++
				default:
					other = append(other, newSymb(f).expr(bo).String()+" at "+c.pos(bo.Pos()))
				}
			}
		}
		sort.Strings(other)
		if spec.local {
			r.check(len(other) == 0 && nScore > 0 && nIndex > 0, "STOP", where, "loop exits", c.pos(header.Instrs[0].Pos()),
				fmt.Sprintf("the traceback leaves its loop only when the index reaches the origin (%d) or at a cell whose score is 0 (%d): the returned steps start where the best local alignment starts", nIndex, nScore),
				fmt.Sprintf("the traceback leaves its loop on a condition other than index-at-origin or score == 0 at the current cell (other exits: %v; score exits: %d): the steps returned need not add up to the returned score", other, nScore))
		} else {
			r.check(len(other) == 0 && nIndex > 0, "STOP", where, "loop exits", c.pos(header.Instrs[0].Pos()),
				"the traceback leaves its loop only when the index reaches the origin: the steps cover both sequences entirely",
				fmt.Sprintf("the traceback can leave its loop before the origin (exits at %v): the steps need not cover both sequences", other))
		}
	}
}

// traceIndexCell: the table index kept in a variable whose address is taken (e.g. handed to a step helper): the
// local *int whose loads index the table.
func traceIndexCell(f *ssa.Function) *ssa.Alloc {
	var cell *ssa.Alloc
	instrs(f, func(in ssa.Instruction) {
		ia, ok := in.(*ssa.IndexAddr)
		if !ok || len(f.Params) == 0 || ia.X != ssa.Value(f.Params[0]) {
			return
		}
		if ld, ok := ia.Index.(*ssa.UnOp); ok && ld.Op == token.MUL {
			if al, ok := ld.X.(*ssa.Alloc); ok {
				cell = al
			}
		}
	})
	return cell
}

// traceDeltasCell: the per-step moves when the index lives in a cell updated by a helper
// stepBack(&i, bn, blocks[i].step): in the helper, each store `*p = *p - d` sits on the true edge of `s == L`.
func traceDeltasCell(f *ssa.Function, s *symb) (map[int64]string, bool) {
	cell := traceIndexCell(f)
	if cell == nil {
		return nil, false
	}
	var call *ssa.Call
	instrs(f, func(in ssa.Instruction) {
		if cl, ok := in.(*ssa.Call); ok && cl.Call.StaticCallee() != nil && cl.Call.StaticCallee().Blocks != nil {
			for _, a := range cl.Call.Args {
				if a == ssa.Value(cell) {
					call = cl
				}
			}
		}
	})
	if call == nil {
		return nil, false
	}
	h := call.Call.StaticCallee()
	var pI, pS ssa.Value
	hs := newSymb(h)
	for k, a := range call.Call.Args {
		if k >= len(h.Params) {
			break
		}
		switch {
		case a == ssa.Value(cell):
			pI = h.Params[k]
		default:
			// blocks[*i].step
			if ld, ok := a.(*ssa.UnOp); ok && ld.Op == token.MUL {
				if fa, ok := ld.X.(*ssa.FieldAddr); ok && fa.Field == 1 {
					if ia, ok := fa.X.(*ssa.IndexAddr); ok && ia.X == ssa.Value(f.Params[0]) {
						pS = h.Params[k]
						continue
					}
				}
			}
			hs.subst[h.Params[k]] = s.expr(a)
		}
	}
	if pI == nil || pS == nil {
		return nil, false
	}
	out := map[int64]string{}
	okAll := true
	instrs(h, func(in ssa.Instruction) {
		st, ok := in.(*ssa.Store)
		if !ok || st.Addr != pI {
			if ok {
				if _, local := st.Addr.(*ssa.Alloc); !local {
					okAll = false
				}
			}
			return
		}
		b := st.Block()
		if len(b.Preds) != 1 {
			okAll = false
			return
		}
		d := b.Preds[0]
		iff, ok := lastInstr(d).(*ssa.If)
		if !ok || d.Succs[0] != b {
			okAll = false
			return
		}
		bo, ok := iff.Cond.(*ssa.BinOp)
		if !ok || bo.Op != token.EQL {
			okAll = false
			return
		}
		var L int64
		found := false
		for _, pr := range [][2]ssa.Value{{bo.X, bo.Y}, {bo.Y, bo.X}} {
			if pr[0] == pS {
				if k, ok := cInt(constVal(pr[1])); ok {
					L, found = k, true
				}
			}
		}
		if !found {
			okAll = false
			return
		}
		if _, dup := out[L]; dup {
			okAll = false
			return
		}
		cur := &Sym{Op: "load", Args: []*Sym{hs.expr(pI)}}
		out[L] = linSub(linOf(cur), linOf(hs.expr(st.Val))).String()
	})
	if !okAll || len(out) == 0 {
		return nil, false
	}
	return out, true
}
