// Package ctl holds tiny positive examples for rules whose expected match count on /repo is zero.
// biocheck loads this package on every run and requires each detector to fire on its example.
package ctl

import (
	"bufio"
	"compress/gzip"
	"encoding/csv"
	"fmt"
	"io"
)

// DirectRead reads from the caller's io.Reader without a re-assembling layer (A6).
func DirectRead(r io.Reader) []byte {
	buf := make([]byte, 16)
	n, _ := r.Read(buf)
	return buf[:n]
}

// CsvUnderRawWriter: the writer emits raw tab-separated text, the reader un-quotes through encoding/csv (A4).
type Rec struct{ A, B string }

func (r *Rec) Write(w io.Writer) error {
	_, err := fmt.Fprintf(w, "%s\t%s\n", r.A, r.B)
	return err
}

func ReadRec(r io.Reader) (*Rec, error) {
	cr := csv.NewReader(r)
	cr.Comma = '\t'
	f, err := cr.Read()
	if err != nil {
		return nil, err
	}
	return &Rec{f[0], f[1]}, nil
}

// IntToString converts a byte to a string with string(b): two bytes for b >= 0x80 (CONV).
func IntToString(b byte) string { return "x:" + string(b) }

// SchedulePeek lets the amount of buffered data decide control flow (A6-SCHED).
func SchedulePeek(r *bufio.Reader) bool { return r.Buffered() == 0 }

// ScanAlias returns a view into the scanner's buffer (SCAN-ALIAS).
type Line struct{ Text []byte }

func ScanAlias(s *bufio.Scanner) *Line {
	if !s.Scan() {
		return nil
	}
	return &Line{Text: s.Bytes()}
}

// DroppedError ignores a write error (B1/B0).
func DroppedError(w io.Writer) error {
	fmt.Fprintf(w, "x")
	return nil
}

// UnguardedIndex indexes without a length check (GRD).
func UnguardedIndex(f []string) string { return f[3] }

// WritesParam modifies its input slice (PURE).
func WritesParam(a []byte) { a[0] = 1 }

// Gunzip wraps the stream in a decompressor (LAYER).
func Gunzip(r io.Reader) (io.Reader, error) { return gzip.NewReader(r) }

// Trunc converts a float to an int (NUM-KIND).
func Trunc(x float64) int { return int(x) }

// LineScanner: a line-per-record decoder that reads through a bufio.Scanner (SC-WHO).
func LineScanner(r io.Reader) []string {
	var out []string
	sc := bufio.NewScanner(r)
	for sc.Scan() {
		out = append(out, sc.Text())
	}
	return out
}
