module controls

go 1.23
