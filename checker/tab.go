package main

// E-TAB — constant tables: map literals (typed AST), straight-line slice
// initialisers in init (SSA), who-may-write scans.

import (
	"fmt"
	"go/ast"
	"go/constant"
	"go/token"
	"go/types"
	"sort"
	"strings"

	"golang.org/x/tools/go/packages"
	"golang.org/x/tools/go/ssa"
)

// ---------------------------------------------------------------------------
// (a) map literals

type litEntry struct {
	key []constant.Value // flattened key elements (1 for scalar keys)
	val []constant.Value // flattened value elements
	pos token.Pos
}

type litTable struct {
	obj     *types.Var
	lit     *ast.CompositeLit
	entries []litEntry
	where   string // function or "var decl"
	nAssign int    // number of syntactic assignments of any kind to the variable in its package
	err     string
}

func constOf(info *types.Info, e ast.Expr) constant.Value {
	if tv, ok := info.Types[e]; ok && tv.Value != nil {
		return tv.Value
	}
	return nil
}

// flattenConst flattens a constant expression or a composite literal of constants.
func flattenConst(info *types.Info, e ast.Expr) ([]constant.Value, bool) {
	if v := constOf(info, e); v != nil {
		return []constant.Value{v}, true
	}
	if cl, ok := e.(*ast.CompositeLit); ok {
		var out []constant.Value
		for _, el := range cl.Elts {
			if _, ok := el.(*ast.KeyValueExpr); ok {
				return nil, false
			}
			v, ok := flattenConst(info, el)
			if !ok {
				return nil, false
			}
			out = append(out, v...)
		}
		return out, true
	}
	return nil, false
}

// findLitTable locates the single composite-literal assignment of package variable name.
func findLitTable(p *packages.Package, name string) *litTable {
	obj, _ := p.Types.Scope().Lookup(name).(*types.Var)
	if obj == nil {
		return nil
	}
	t := &litTable{obj: obj}
	info := p.TypesInfo
	for _, f := range p.Syntax {
		if strings.HasSuffix(p.Fset.Position(f.Pos()).Filename, "_test.go") {
			continue
		}
		for _, d := range f.Decls {
			where := "var declaration"
			if fd, ok := d.(*ast.FuncDecl); ok {
				where = declName(p, fd)
			}
			ast.Inspect(d, func(n ast.Node) bool {
				switch s := n.(type) {
				case *ast.ValueSpec:
					for i, id := range s.Names {
						if info.Defs[id] == obj && len(s.Values) == len(s.Names) {
							t.nAssign++
							if cl, ok := s.Values[i].(*ast.CompositeLit); ok {
								t.lit, t.where = cl, where
							}
						}
					}
				case *ast.AssignStmt:
					for i, l := range s.Lhs {
						if id, ok := l.(*ast.Ident); ok && info.Uses[id] == obj {
							t.nAssign++
							if len(s.Rhs) == len(s.Lhs) {
								if cl, ok := s.Rhs[i].(*ast.CompositeLit); ok {
									t.lit, t.where = cl, where
								}
							}
						}
					}
				}
				return true
			})
		}
	}
	if t.lit == nil {
		t.err = "no composite-literal assignment found"
		return t
	}
	for _, el := range t.lit.Elts {
		kv, ok := el.(*ast.KeyValueExpr)
		if !ok {
			t.err = "literal element without key"
			return t
		}
		k, ok1 := flattenConst(info, kv.Key)
		v, ok2 := flattenConst(info, kv.Value)
		if !ok1 || !ok2 {
			t.err = "non-constant key or value at " + p.Fset.Position(kv.Pos()).String()
			return t
		}
		t.entries = append(t.entries, litEntry{k, v, kv.Pos()})
	}
	return t
}

func cInt(v constant.Value) (int64, bool) {
	if v == nil {
		return 0, false
	}
	if v.Kind() == constant.Int {
		return constant.Int64Val(v)
	}
	if v.Kind() == constant.Float {
		f, _ := constant.Float64Val(v)
		if f == float64(int64(f)) {
			return int64(f), true
		}
	}
	return 0, false
}

func cFloat(v constant.Value) (float64, bool) {
	if v == nil {
		return 0, false
	}
	switch v.Kind() {
	case constant.Int, constant.Float:
		f, _ := constant.Float64Val(v)
		return f, true
	}
	return 0, false
}

// ---------------------------------------------------------------------------
// who-may-write for package-level variables (SSA scan over the whole module)

type globalWrite struct {
	fn   *ssa.Function
	pos  token.Pos
	kind string // store, map-update, delete, clear, elem-store, addr-escape, passed-to
}

func (c *Ctx) global(rel, name string) *ssa.Global {
	sp := c.ssaPkg(rel)
	if sp == nil {
		return nil
	}
	g, _ := sp.Members[name].(*ssa.Global)
	return g
}

// globalWrites finds every instruction in module code that may modify global g or what it refers to:
// stores to g, and map-update/delete/clear/element stores/append-in-place through a value loaded from g.
// Loads that merely read (index, lookup, range, len, call receivers of non-writing module functions) are ignored.
func (c *Ctx) globalWrites(g *ssa.Global, funcs []*ssa.Function) (writes []globalWrite, reads int, unknown []globalWrite) {
	for _, f := range funcs {
		instrs(f, func(in ssa.Instruction) {
			switch x := in.(type) {
			case *ssa.Store:
				if x.Addr == g {
					writes = append(writes, globalWrite{f, x.Pos(), "store"})
				}
			case *ssa.UnOp:
				if x.Op == token.MUL && x.X == g {
					reads++
					if isRefType(x.Type()) || isArrayOrStruct(x.Type()) {
						c.derivedWrites(f, x, &writes, &unknown, map[ssa.Value]bool{})
					}
				}
			}
		})
		// address of the global taken for anything but load/store
		for _, ref := range safeReferrers(g, f) {
			switch x := ref.(type) {
			case *ssa.Store, *ssa.UnOp:
			case *ssa.IndexAddr:
				c.addrWrites(f, x, &writes, &unknown, map[ssa.Value]bool{})
			case *ssa.FieldAddr:
				c.addrWrites(f, x, &writes, &unknown, map[ssa.Value]bool{})
			default:
				unknown = append(unknown, globalWrite{f, ref.Pos(), "address of the variable escapes"})
			}
		}
	}
	return
}

// safeReferrers lists instructions of f that use global g as an operand (Global has no Referrers()).
func safeReferrers(g *ssa.Global, f *ssa.Function) []ssa.Instruction {
	var out []ssa.Instruction
	instrs(f, func(in ssa.Instruction) {
		var ops []*ssa.Value
		for _, op := range in.Operands(ops) {
			if *op == ssa.Value(g) {
				out = append(out, in)
				return
			}
		}
	})
	return out
}

// derivedWrites follows a reference-typed value v (map, slice, pointer loaded from a global) and records writes through it.
func (c *Ctx) derivedWrites(f *ssa.Function, v ssa.Value, writes, unknown *[]globalWrite, seen map[ssa.Value]bool) {
	if seen[v] {
		return
	}
	seen[v] = true
	refs := v.Referrers()
	if refs == nil {
		return
	}
	for _, ref := range *refs {
		switch x := ref.(type) {
		case *ssa.MapUpdate:
			if x.Map == v {
				*writes = append(*writes, globalWrite{f, x.Pos(), "map-update"})
			}
		case *ssa.IndexAddr:
			if x.X == v {
				// element address: a store through it is a write
				c.addrWrites(f, x, writes, unknown, seen)
			}
		case *ssa.FieldAddr:
			if x.X == v {
				c.addrWrites(f, x, writes, unknown, seen)
			}
		case *ssa.Slice:
			if x.X == v {
				c.derivedWrites(f, x, writes, unknown, seen)
			}
		case *ssa.Phi:
			c.derivedWrites(f, x, writes, unknown, seen)
		case *ssa.ChangeType:
			c.derivedWrites(f, x, writes, unknown, seen)
		case *ssa.Convert:
			// e.g. string(bytes): copies
		case *ssa.MakeInterface:
			c.escapeCheck(f, x, writes, unknown, seen)
		case *ssa.Store:
			if x.Val == v {
				// the reference is stored somewhere: follow only stores into locals that never escape is too
				// much machinery; report as unknown unless it is the global's own initial store
				if _, isG := x.Addr.(*ssa.Global); !isG {
					*unknown = append(*unknown, globalWrite{f, x.Pos(), "reference stored into another location"})
				}
			}
		case *ssa.Call, *ssa.Go, *ssa.Defer:
			c.callWrites(f, ref.(ssa.CallInstruction), v, writes, unknown)
		case *ssa.Return:
			// handing out the table itself
			if isRefType(v.Type()) {
				*unknown = append(*unknown, globalWrite{f, x.Pos(), "reference to the table is returned"})
			}
		}
	}
}

func isRefType(t types.Type) bool {
	switch t.Underlying().(type) {
	case *types.Map, *types.Slice, *types.Pointer, *types.Chan, *types.Signature, *types.Interface:
		return true
	}
	return false
}

func (c *Ctx) escapeCheck(f *ssa.Function, v ssa.Value, writes, unknown *[]globalWrite, seen map[ssa.Value]bool) {
	refs := v.Referrers()
	if refs == nil {
		return
	}
	for _, ref := range *refs {
		if call, ok := ref.(ssa.CallInstruction); ok {
			c.callWrites(f, call, v, writes, unknown)
		}
	}
}

func (c *Ctx) addrWrites(f *ssa.Function, addr ssa.Value, writes, unknown *[]globalWrite, seen map[ssa.Value]bool) {
	refs := addr.Referrers()
	if refs == nil {
		return
	}
	for _, ref := range *refs {
		switch x := ref.(type) {
		case *ssa.Store:
			if x.Addr == addr {
				*writes = append(*writes, globalWrite{f, x.Pos(), "element store"})
			}
		case *ssa.UnOp: // load
			if isRefType(x.Type()) {
				c.derivedWrites(f, x, writes, unknown, seen)
			}
		case *ssa.IndexAddr, *ssa.FieldAddr:
			c.addrWrites(f, ref.(ssa.Value), writes, unknown, seen)
		case *ssa.Slice:
			c.derivedWrites(f, x, writes, unknown, seen)
		case ssa.CallInstruction:
			c.callWrites(f, x, addr, writes, unknown)
		}
	}
}

// pure standard-library callees that never write through their arguments
var readOnlyStd = map[string]bool{
	"bytes.Compare": true, "bytes.Equal": true, "bytes.ToUpper": true, "bytes.ToLower": true, "bytes.HasPrefix": true,
	"strings.ContainsAny": true, "fmt.Sprintf": true, "fmt.Fprintf": true, "fmt.Fprint": true, "fmt.Fprintln": true, "fmt.Sprint": true,
	"encoding/json.Marshal": true, "reflect.DeepEqual": true, "slices.Clone": true, "slices.Equal": true,
}

func (c *Ctx) callWrites(f *ssa.Function, call ssa.CallInstruction, v ssa.Value, writes, unknown *[]globalWrite) {
	cc := call.Common()
	if b, ok := cc.Value.(*ssa.Builtin); ok {
		switch b.Name() {
		case "delete", "clear":
			if len(cc.Args) > 0 && cc.Args[0] == v {
				*writes = append(*writes, globalWrite{f, call.Pos(), b.Name()})
			}
		case "copy":
			if len(cc.Args) > 0 && cc.Args[0] == v {
				*writes = append(*writes, globalWrite{f, call.Pos(), "copy into"})
			}
		case "append":
			if len(cc.Args) > 0 && cc.Args[0] == v {
				*writes = append(*writes, globalWrite{f, call.Pos(), "append onto (may write in place)"})
			}
		}
		return
	}
	callee := cc.StaticCallee()
	if callee == nil {
		*unknown = append(*unknown, globalWrite{f, call.Pos(), "passed to a dynamic call " + callName(call)})
		return
	}
	if callee.Object() != nil && callee.Object().Pkg() != nil {
		if readOnlyStd[callee.Object().Pkg().Path()+"."+callee.Object().Name()] {
			return
		}
	}
	if !c.inScope(callee) || callee.Blocks == nil {
		if callee.Object() != nil && callee.Object().Pkg() != nil && strings.HasPrefix(callee.Object().Pkg().Path(), "testing") {
			return
		}
		*unknown = append(*unknown, globalWrite{f, call.Pos(), "passed to " + callName(call) + " (no summary)"})
		return
	}
	// module/gostuff callee: which parameter receives v?
	for i, a := range cc.Args {
		if a != v {
			continue
		}
		if i < len(callee.Params) {
			var w, u []globalWrite
			c.derivedWrites(callee, callee.Params[i], &w, &u, map[ssa.Value]bool{})
			for _, x := range w {
				x.kind = x.kind + " via " + fname(callee)
				*writes = append(*writes, x)
			}
			for _, x := range u {
				// returning/handing on inside a callee: conservative
				x.kind = x.kind + " via " + fname(callee)
				*unknown = append(*unknown, x)
			}
		}
	}
}

// ruleWhoMayWrite: only the initialiser may write the table.
func (c *Ctx) ruleWhoMayWrite(r *Report, rule string, g *ssa.Global, rel string, initFuncs map[*ssa.Function]bool, funcs []*ssa.Function) {
	name := rel + "." + g.Name()
	writes, reads, unknown := c.globalWrites(g, funcs)
	var bad []string
	nInit := 0
	for _, w := range writes {
		root := w.fn
		for root.Parent() != nil {
			root = root.Parent()
		}
		if initFuncs[root] {
			nInit++
			continue
		}
		bad = append(bad, fmt.Sprintf("%s in %s at %s", w.kind, fname(w.fn), c.pos(w.pos)))
	}
	for _, u := range unknown {
		root := u.fn
		for root.Parent() != nil {
			root = root.Parent()
		}
		if initFuncs[root] {
			continue
		}
		// returning a table element/reading is fine; but a reference leaving our view is undecidable here
		r.undecided(rule, name, "who-may-write", c.pos(u.pos), "cannot decide whether the table is modified: "+u.kind+" in "+fname(u.fn))
	}
	sort.Strings(bad)
	if len(bad) > 0 {
		r.violated(rule, name, "who-may-write", "", "table is written outside its initialiser: "+strings.Join(bad, "; "))
	} else {
		r.holds(rule, name, "who-may-write", "", fmt.Sprintf("no store/map-update/delete/element store through the variable outside its initialiser (%d initialiser writes, %d loads followed in %d functions)", nInit, reads, len(funcs)))
	}
}

// initFuncsOf returns the package initialiser functions (synthetic init and init#k) of a package.
func (c *Ctx) initFuncsOf(rel string) map[*ssa.Function]bool {
	out := map[*ssa.Function]bool{}
	sp := c.ssaPkg(rel)
	if sp == nil {
		return out
	}
	for n, m := range sp.Members {
		if f, ok := m.(*ssa.Function); ok && (n == "init" || strings.HasPrefix(n, "init#")) {
			out[f] = true
		}
	}
	// stages of initialisation: package functions that are called from initialisers only (and from nowhere else
	// in the module, nor used as values) run exactly when the initialisers run
	callers := map[*ssa.Function]map[*ssa.Function]bool{}
	usedAsValue := map[*ssa.Function]bool{}
	for _, f := range c.moduleFuncs() {
		instrs(f, func(in ssa.Instruction) {
			var ops []*ssa.Value
			for _, op := range in.Operands(ops) {
				if g, ok := (*op).(*ssa.Function); ok {
					if ci, isCall := in.(ssa.CallInstruction); isCall && ci.Common().Value == ssa.Value(g) {
						if callers[g] == nil {
							callers[g] = map[*ssa.Function]bool{}
						}
						callers[g][f] = true
					} else {
						usedAsValue[g] = true
					}
				}
			}
		})
	}
	for changed := true; changed; {
		changed = false
		for _, m := range sp.Members {
			g, ok := m.(*ssa.Function)
			if !ok || out[g] || usedAsValue[g] || len(callers[g]) == 0 {
				continue
			}
			if n := g.Name(); n[0] >= 'A' && n[0] <= 'Z' {
				continue
			}
			only := true
			for caller := range callers[g] {
				if !out[caller] {
					only = false
				}
			}
			if only {
				out[g] = true
				changed = true
			}
		}
	}
	return out
}

// ---------------------------------------------------------------------------
// (b) straight-line slice initialisers in init

type sliceTable struct {
	size   int64
	vals   []constant.Value // nil = zero value (never stored)
	set    []bool
	stores int
	err    string
	folded bool // content obtained by constant folding of the initialiser (E-FOLD)
}

// constVal returns the constant behind an SSA value, looking through conversions of constants.
func constVal(v ssa.Value) constant.Value {
	switch x := v.(type) {
	case *ssa.Const:
		return x.Value
	case *ssa.Convert:
		if c, ok := x.X.(*ssa.Const); ok {
			return c.Value
		}
	case *ssa.ChangeType:
		return constVal(x.X)
	}
	return nil
}

// evalSliceInit reconstructs the content of package-level slice g after the package initialisers:
// one `g = make([]T, N)` with constant N, then constant-index constant-value stores, plus the
// "range over g storing one constant into every element" fill idiom.
func (c *Ctx) evalSliceInit(rel string, g *ssa.Global) *sliceTable {
	t := c.evalSliceInitShape(rel, g)
	if t.err == "" {
		return t
	}
	// an initialiser of another shape (loops over constant arrays, computed indices, helper stages): its content by
	// constant folding of the whole package initialiser (E-FOLD)
	vals, why := c.foldedSlice(rel, g)
	if why != "" {
		t.err += "; constant folding of the initialiser: " + why
		return t
	}
	ft := &sliceTable{size: int64(len(vals)), vals: make([]constant.Value, len(vals)), set: make([]bool, len(vals)), stores: len(vals), folded: true}
	for i, v := range vals {
		ft.vals[i], ft.set[i] = constant.MakeInt64(v), true
	}
	return ft
}

func (c *Ctx) evalSliceInitShape(rel string, g *ssa.Global) *sliceTable {
	t := &sliceTable{}
	inits := c.initFuncsOf(rel)
	type st struct {
		in  *ssa.Store
		idx int64 // -1 for fill
		val constant.Value
		blk *ssa.BasicBlock
		ord int
		fn  *ssa.Function
	}
	var stores []st
	var mk *ssa.MakeSlice
	var mkConst int64
	nGlobalStores := 0
	for f := range inits {
		instrs(f, func(in ssa.Instruction) {
			s, ok := in.(*ssa.Store)
			if !ok {
				return
			}
			if s.Addr == g {
				nGlobalStores++
				if m, ok := s.Val.(*ssa.MakeSlice); ok {
					mk = m
				} else if sl, ok := s.Val.(*ssa.Slice); ok && isConstMake(sl) > 0 {
					mkConst = isConstMake(sl)
				} else {
					t.err = "variable assigned from something other than make at " + c.pos(s.Pos())
				}
				return
			}
			ia, ok := s.Addr.(*ssa.IndexAddr)
			if !ok || !(isLoadOf(ia.X, g) || ia.X == ssa.Value(g)) {
				return
			}
			ord := 0
			for i, x := range s.Block().Instrs {
				if x == in {
					ord = i * 1024
				}
			}
			// table[keys[i]] = vals[i] (or a constant) for every i of a loop over a constant string
			if ks, iv, ok := constStringAt(ia.Index); ok {
				if n, ok := fullLoopOver(iv, s.Block()); ok && n == int64(len(ks)) {
					vs, iv2, okV := constStringAt(s.Val)
					kv := constVal(s.Val)
					if (okV && iv2 == iv && len(vs) >= len(ks)) || kv != nil {
						for i := 0; i < len(ks); i++ {
							v := kv
							if kv == nil {
								v = constant.MakeInt64(int64(vs[i]))
							}
							stores = append(stores, st{s, int64(ks[i]), v, s.Block(), ord + i, f})
						}
						return
					}
				}
			}
			val := constVal(s.Val)
			if val == nil {
				t.err = "non-constant value stored at " + c.pos(s.Pos())
				return
			}
			if k := constVal(ia.Index); k != nil {
				n, _ := cInt(k)
				stores = append(stores, st{s, n, val, s.Block(), ord, f})
				return
			}
			if isFullRangeIndex(ia.Index, g) {
				stores = append(stores, st{s, -1, val, s.Block(), ord, f})
				return
			}
			t.err = "store with a computed index at " + c.pos(s.Pos())
		})
	}
	if t.err != "" {
		return t
	}
	var n int64
	if arr, isArr := g.Type().(*types.Pointer).Elem().Underlying().(*types.Array); isArr {
		if nGlobalStores != 0 {
			t.err = "array-typed table is assigned as a whole in an initialiser"
			return t
		}
		n = arr.Len()
	} else {
		if (mk == nil && mkConst == 0) || nGlobalStores != 1 {
			t.err = fmt.Sprintf("expected exactly one `make` assignment in an initialiser, found %d stores", nGlobalStores)
			return t
		}
		if mkConst > 0 {
			n = mkConst
		} else {
			var ok bool
			n, ok = cInt(constVal(mk.Len))
			if !ok {
				t.err = "make with non-constant length"
				return t
			}
		}
	}
	t.size = n
	t.vals = make([]constant.Value, n)
	t.set = make([]bool, n)
	t.stores = len(stores)
	// order: a before b if same block & earlier, or b's block reachable from a's and not vice versa
	before := func(a, b st) (bool, bool) {
		if a.fn != b.fn {
			return false, false
		}
		if a.blk == b.blk {
			return a.ord < b.ord, true
		}
		ab, ba := blockReaches(a.blk, b.blk), blockReaches(b.blk, a.blk)
		if ab && !ba {
			return true, true
		}
		if ba && !ab {
			return false, true
		}
		return false, false
	}
	// apply fills first, then constant stores in order; check that every fill precedes every constant store
	var fills, consts []st
	for _, s := range stores {
		if s.idx < 0 {
			fills = append(fills, s)
		} else {
			consts = append(consts, s)
		}
	}
	if len(fills) > 1 {
		t.err = "more than one fill loop"
		return t
	}
	for _, f := range fills {
		for i := range t.vals {
			t.vals[i], t.set[i] = f.val, true
		}
		for _, s := range consts {
			if b, ok := before(f, s); !ok || !b {
				t.err = "cannot order the fill loop before the store at " + c.pos(s.in.Pos())
				return t
			}
		}
	}
	byIdx := map[int64][]st{}
	for _, s := range consts {
		if s.idx < 0 || s.idx >= n {
			t.err = "constant index out of range at " + c.pos(s.in.Pos())
			return t
		}
		byIdx[s.idx] = append(byIdx[s.idx], s)
	}
	for idx, ss := range byIdx {
		last := ss[0]
		for _, s := range ss[1:] {
			b, ok := before(last, s)
			if !ok {
				t.err = fmt.Sprintf("two unordered stores to index %d", idx)
				return t
			}
			if b {
				last = s
			}
		}
		t.vals[idx], t.set[idx] = last.val, true
	}
	return t
}

func isLoadOf(v ssa.Value, g *ssa.Global) bool {
	if v == ssa.Value(g) {
		// a table declared as an array: it is indexed through the variable itself
		if pt, ok := g.Type().Underlying().(*types.Pointer); ok {
			if _, isArr := pt.Elem().Underlying().(*types.Array); isArr {
				return true
			}
		}
	}
	u, ok := v.(*ssa.UnOp)
	return ok && u.Op == token.MUL && u.X == g
}

func blockReaches(a, b *ssa.BasicBlock) bool {
	seen := map[*ssa.BasicBlock]bool{}
	var dfs func(x *ssa.BasicBlock) bool
	dfs = func(x *ssa.BasicBlock) bool {
		for _, s := range x.Succs {
			if s == b {
				return true
			}
			if !seen[s] {
				seen[s] = true
				if dfs(s) {
					return true
				}
			}
		}
		return false
	}
	return dfs(a)
}

// isFullRangeIndex recognises the index of `for i := range g` (phi(-1, i)+1 bounded by len(g))
// and of `for i := 0; i < len(g)|N; i++`.
func isFullRangeIndex(idx ssa.Value, g *ssa.Global) bool {
	// range form: idx = phi + 1, phi = [-1, idx]
	if b, ok := idx.(*ssa.BinOp); ok && b.Op == token.ADD {
		if k, ok := cInt(constVal(b.Y)); ok && k == 1 {
			if phi, ok := b.X.(*ssa.Phi); ok && len(phi.Edges) == 2 {
				init, back := phi.Edges[0], phi.Edges[1]
				if back != idx {
					init, back = back, init
				}
				if k0, ok := cInt(constVal(init)); ok && k0 == -1 && back == idx {
					return loopBoundIsLen(idx, g)
				}
			}
		}
	}
	// classic form: idx = phi[0, idx+1]
	if phi, ok := idx.(*ssa.Phi); ok && len(phi.Edges) == 2 {
		for i := 0; i < 2; i++ {
			init, back := phi.Edges[i], phi.Edges[1-i]
			k0, ok := cInt(constVal(init))
			if !ok || k0 != 0 {
				continue
			}
			if b, ok := back.(*ssa.BinOp); ok && b.Op == token.ADD && b.X == idx {
				if k, ok := cInt(constVal(b.Y)); ok && k == 1 {
					return loopBoundIsLen(idx, g)
				}
			}
		}
	}
	return false
}

// loopBoundIsLen: idx is compared `idx < len(load g)` in an If that controls the loop.
func loopBoundIsLen(idx ssa.Value, g *ssa.Global) bool {
	refs := idx.Referrers()
	if refs == nil {
		return false
	}
	for _, ref := range *refs {
		b, ok := ref.(*ssa.BinOp)
		if !ok || b.Op != token.LSS || b.X != idx {
			continue
		}
		if call, ok := b.Y.(*ssa.Call); ok {
			if bi, ok := call.Call.Value.(*ssa.Builtin); ok && bi.Name() == "len" && isLoadOf(call.Call.Args[0], g) {
				return true
			}
		}
		// range over an array-typed global: bound is the constant array length
		if arr, ok := g.Type().(*types.Pointer).Elem().Underlying().(*types.Array); ok {
			if k, ok := cInt(constVal(b.Y)); ok && k == arr.Len() {
				return true
			}
		}
	}
	return false
}

func byteStr(b int) string {
	if b >= 32 && b < 127 {
		return fmt.Sprintf("%q", rune(b))
	}
	return fmt.Sprintf("0x%02x", b)
}

// isConstMake recognises go/ssa's lowering of make([]T, N) with constant N: slice of a fresh [N]T; returns N.
func isConstMake(sl *ssa.Slice) int64 {
	al, ok := sl.X.(*ssa.Alloc)
	if !ok || !al.Heap {
		return 0
	}
	arr, ok := al.Type().(*types.Pointer).Elem().Underlying().(*types.Array)
	if !ok || sl.Low != nil {
		return 0
	}
	if sl.High != nil {
		if k, ok := cInt(constVal(sl.High)); !ok || k != arr.Len() {
			return 0
		}
	}
	// the array must not be written except through the slice (fresh)
	for _, ref := range *al.Referrers() {
		if ref != ssa.Instruction(sl) {
			return 0
		}
	}
	return arr.Len()
}

func isArrayOrStruct(t types.Type) bool {
	switch t.Underlying().(type) {
	case *types.Array, *types.Struct:
		return true
	}
	return false
}

// constStringAt: v is s[i] for a constant string s (through conversions); returns s and the index value.
func constStringAt(v ssa.Value) (string, ssa.Value, bool) {
	for {
		if cv, ok := v.(*ssa.Convert); ok {
			v = cv.X
			continue
		}
		break
	}
	ix, ok := v.(*ssa.Index)
	if !ok {
		return "", nil, false
	}
	k, ok := ix.X.(*ssa.Const)
	if !ok || k.Value == nil || k.Value.Kind() != constant.String {
		return "", nil, false
	}
	return constant.StringVal(k.Value), ix.Index, true
}

// fullLoopOver: iv takes exactly the values 0..n-1, once each, and blk runs in every iteration: the key of a
// range over an ASCII constant string, or the variable of a counted loop with a constant bound.
func fullLoopOver(iv ssa.Value, blk *ssa.BasicBlock) (int64, bool) {
	if ex, ok := iv.(*ssa.Extract); ok && ex.Index == 1 {
		nx, ok := ex.Tuple.(*ssa.Next)
		if !ok || !nx.IsString {
			return 0, false
		}
		rg, ok := nx.Iter.(*ssa.Range)
		if !ok {
			return 0, false
		}
		k, ok := rg.X.(*ssa.Const)
		if !ok || k.Value == nil || k.Value.Kind() != constant.String {
			return 0, false
		}
		str := constant.StringVal(k.Value)
		for i := 0; i < len(str); i++ {
			if str[i] >= 0x80 {
				return 0, false
			}
		}
		// blk is the loop body entered on the ok edge
		hdr := nx.Block()
		if len(hdr.Succs) == 2 && hdr.Succs[0] == blk {
			return int64(len(str)), true
		}
		return 0, false
	}
	phi := loopPhiOf(iv)
	if phi == nil {
		return 0, false
	}
	l, why := findCountedLoopAny(phi, iv)
	if why != "" {
		return 0, false
	}
	n, ok := cInt(constVal(l.bound))
	if !ok {
		return 0, false
	}
	// blk is the first body block
	hdr := phi.Block()
	for _, su := range hdr.Succs {
		if su == blk && naturalLoop(hdr)[su] {
			return n, true
		}
	}
	return 0, false
}
