package main

import (
	"fmt"
	"go/constant"
	"go/token"
	"go/types"
	"regexp"
	"sort"
	"strings"

	"golang.org/x/tools/go/ssa"
)

func init() {
	register("C11", "one obligation per bounds goal of every index/slice/make site in the decoders, per reachable panic, per error-returning call, per conversion, per callback site; non-trivial = decided by the linear-inequality prover with dominating facts, the integer-partition dataflow, the error-class dataflow, or call-graph reachability", rulesC11, nil)
}

// decoderEntries: the functions whose reachable code must be total.
func decoderEntries(c *Ctx) []*ssa.Function {
	var out []*ssa.Function
	for _, e := range []struct{ rel, name string }{
		{"formats/fasta", "Reader"}, {"formats/fastq", "Reader"}, {"formats/sam", "Reader"}, {"formats/sam", "ReaderHeader"},
		{"formats/bed", "Reader"}, {"formats/newick", "Reader"}, {"formats/smtext", "ReadNCBI"},
	} {
		if f := c.fn(e.rel, e.name); f != nil {
			out = append(out, f)
		}
	}
	return out
}

// decoderFuncs: the functions in scope that the decoder entries reach (aio excluded), sorted, with the paths.
func decoderFuncs(c *Ctx) ([]*ssa.Function, map[*ssa.Function][]string) {
	reach := c.reachFrom(decoderEntries(c), c.inScope)
	var funcs []*ssa.Function
	for f := range reach {
		if f.Blocks == nil || !c.inScope(f) {
			continue
		}
		p := funcPkgPath(f)
		if strings.HasPrefix(p, gostuffPath+"/aio") {
			continue
		}
		funcs = append(funcs, f)
	}
	sort.Slice(funcs, func(i, j int) bool { return fname(funcs[i]) < fname(funcs[j]) })
	return funcs, reach
}

func rulesC11(c *Ctx, r *Report) {
	r.explain("Decides, for all code reachable from the decoder entries (fasta/fastq/sam/bed/newick Reader, sam.ReaderHeader, smtext.ReadNCBI): (GRD) every constant, sentinel-based or length-bounded index, slice and make is within bounds on every path, from the guards that dominate it (linear length algebra, predicate summaries, inductive stack-depth bounds); computed indices the prover cannot bound are listed as not covered; (PANIC) every explicit panic reachable from a decoder is discharged — the parser-state panic by showing no state value reaches it, parseInts' length panic by its single call site, regexp.MustCompile by compiling its constant pattern; no unchecked type assertion, non-constant integer divisor or write to a possibly-nil map is reachable; (B0) in every reachable function of the codec packages, no error returned by any call (strconv, hex, the package's own parsers, …) is dropped: it is returned, yielded or wrapped on every path; (CONV) no integer-to-string conversion (string(b) is two bytes for b >= 0x80, the parser demands one); (YD4) in sam.ReaderHeader a line's parse error is yielded and, if the consumer continues, the next line is read with no second item for that line; (A4, G2, G3) the fixed-point structure shared with C03/C04/C05: no un-quoting layer under a raw writer, every tag type the reader produces is written back to a text that reads as the same type with inverse value codecs, every special byte of the Newick tokenizer is protected by the writer. Not decided: termination; panics behind indices the prover lists as not covered; nil dereferences; the fixed-point equality itself. Added rules shared with other properties: DIST0/END, SCAN-ALIAS, NUM-WIDTH, G2-SPLIT, LINE-WHOLE, the FASTA automaton, TOK and PARSE for Newick, the SAM parser column table, MAKE-APPEND, YD1 for every codec iterator; E-GRD knows strings/bytes.Index* results, discharges sentinels only on the goal's own symbol, eliminates phi edges ruled out by a dominating != test, and checks make capacities. Writer side shared from C03/C04: (SAM-COL/FMT-CONST/1L) SAM.Write prints the 11 mandatory columns from their own fields with the verbs the parser inverts (%d of an int, not an unsigned rendering); (G4a) BED.Write prints, for every N, exactly the first N fields themselves (no substituted defaults). Also shared: the FASTA writer rules (W-HDR, W80, FMT-CONST) — every accepted FASTA record is written whole, last line included. (ACYCLIC) no module function reachable from a decoder entry can reach itself: stack depth does not grow with the input. BED-SKIP and SAM-SKIP are shared from C04/C03: a record's own text is read back as a record.")
	r.assume("standard library functions do not panic on the arguments the decoders give them; strconv/hex report malformed input through their error result")
	entries := decoderEntries(c)
	if len(entries) < 7 {
		r.undecided("GRD", "decoders", "anchor", "", fmt.Sprintf("only %d of 7 decoder entries found", len(entries)))
	}
	funcs, reach := decoderFuncs(c)
	r.Extra["decoder_reachable_functions"] = len(funcs)
	rulesGrdFuncs(c, r, funcs, 120, "bounds goals proven in decoder-reachable functions (hand-confirmed sites: sam.parseLine 11 columns + line[11:] + snm.At{1,3,4,7,8}, parseInts p[i], splitTag, parseTags parts[2][0], fastq name[0]/name[1:], bed 12 padded columns, ItemRGB[i], BlockSizes/Starts[i], smtext row[0]/valStrs[0]/valStrs[1:]/chars[i]/s[0], newick stack tops, quoted/nameFromText)")
	rulesPanics(c, r, funcs, reach)
	{
		// ACYCLIC: no function of the module that a decoder reaches is on a call-graph cycle — a decoder that
		// recurses per line, token or nesting level exhausts the goroutine stack on a long enough input, which is a
		// fatal error, not even a panic
		var cyc []string
		nMod := 0
		for _, f := range funcs {
			if !c.inModule(f) {
				continue
			}
			nMod++
			sub := c.reachFrom(calleesOf(c, f), c.inScope)
			if _, ok := sub[f]; ok {
				cyc = append(cyc, fname(f))
			}
		}
		sort.Strings(cyc)
		r.check(len(cyc) == 0, "ACYCLIC", "formats/*", "decoders do not recurse", "", fmt.Sprintf("none of the %d module functions reachable from the decoder entries can reach itself: stack depth does not grow with the input", nMod),
			"decoder functions recurse ("+strings.Join(cyc, ", ")+"): a long enough input (many blank lines, deep nesting) exhausts the goroutine stack — a fatal error instead of a result")
	}
	rulesNoDroppedErrors(c, r, funcs, 30)
	rulesPassThroughErrors(c, r)
	rulesNoIntToString(c, r)
	rulesParseErrorContinues(c, r)
	rulesBedSkip(c, r) // shared with C04: a record's own text is read back as a record — only empty and '#' lines are skipped
	rulesSamSkip(c, r) // shared with C03
	rulesNoCsv(c, r, "formats/sam", []string{"ReaderHeader", "Reader"}, "(*SAM).Write")
	rulesNoCsv(c, r, "formats/bed", []string{"Reader"}, "(*BED).Write")
	rulesTagTable(c, r)
	rulesNewickNames(c, r)
	rulesNewickWriter(c, r)
	rulesScanAlias(c, r, true)
	rulesNumWidth(c, r, "formats/sam", "formats/bed", "formats/newick", "formats/smtext")
	rulesSplitTag(c, r)
	rulesWholeLines(c, r, "formats/sam")
	rulesWholeLines(c, r, "formats/bed")
	rulesFastaAutomaton(c, r)
	rulesNewickTokenizer(c, r)
	rulesNewickParser(c, r)
	rulesSamParser(c, r)
	rulesSamWriter(c, r)
	rulesFastaWriter(c, r)
	rulesFileDelegation(c, r) // a malformed line through File: every item of Reader is handed on, the iteration goes on as Reader does
	rulesBedWriterLadder(c, r)
	rulesMakeThenAppend(c, r, "formats/fasta", "formats/fastq", "formats/sam", "formats/bed", "formats/newick", "formats/smtext")
	for _, rel := range []string{"formats/fasta", "formats/fastq", "formats/sam", "formats/bed", "formats/newick"} {
		rulesYDPkg(c, r, rel)
	}
}

// rulesPanics (PANIC).
func rulesPanics(c *Ctx, r *Report, funcs []*ssa.Function, reach map[*ssa.Function][]string) {
	nPanic, nImplicit := 0, 0
	for _, f := range funcs {
		for _, b := range f.Blocks {
			for _, in := range b.Instrs {
				switch x := in.(type) {
				case *ssa.Panic:
					if f.Synthetic != "" {
						continue // range-over-func protocol panics are the language's, discharged by YD1 (C18)
					}
					if strings.Contains(b.Comment, "rangefunc") || strings.Contains(b.Comment, "yield-invalid") {
						continue
					}
					nPanic++
					dischargePanic(c, r, f, x, reach[f])
				case *ssa.TypeAssert:
					if !x.CommaOk {
						nImplicit++
						r.violated("PANIC", fname(f), "unchecked type assertion", c.pos(x.Pos()), "a type assertion without ', ok' is reachable from a decoder ("+strings.Join(reach[f], " -> ")+"): it panics when the dynamic type differs")
					}
				case *ssa.BinOp:
					if x.Op == token.QUO || x.Op == token.REM {
						if bt, ok := x.Type().Underlying().(*types.Basic); ok && bt.Info()&types.IsInteger != 0 {
							if k, ok := cInt(constVal(x.Y)); !ok || k == 0 {
								if !divisorNonZero(c, f, x) {
									nImplicit++
									r.violated("PANIC", fname(f), "integer division", c.pos(x.Pos()), "integer division/remainder by a value that is not a non-zero constant and is not guarded against zero")
								}
							}
						}
					}
				case *ssa.MapUpdate:
					if !mapIsLocalMake(x.Map) && !c.paramAlwaysLocalMake(f, x.Map) {
						nImplicit++
						r.violated("PANIC", fname(f), "map update", c.pos(x.Pos()), "write to a map that is not created in this function: a nil map panics")
					}
				}
			}
		}
		// calls of regexp.MustCompile with constant patterns
		instrs(f, func(in ssa.Instruction) {
			cl, ok := in.(*ssa.Call)
			if !ok || !fnIs(cl.Call.StaticCallee(), "regexp", "MustCompile") {
				return
			}
			nPanic++
			pat, ok := constStr(cl.Call.Args[0])
			if !ok {
				r.violated("PANIC", fname(f), "regexp.MustCompile", c.pos(cl.Pos()), "MustCompile of a pattern that is not a constant: it panics on a malformed pattern")
				return
			}
			_, err := regexp.Compile(pat)
			r.check(err == nil, "PANIC", fname(f), "regexp.MustCompile", c.pos(cl.Pos()), fmt.Sprintf("the constant pattern %q compiles", pat), fmt.Sprintf("the constant pattern %q does not compile: %v", pat, err))
		})
	}
	r.floor("PANIC", nPanic, 3, "explicit panic sites reachable from decoders (newick state, parseInts length, regexp.MustCompile)")
	if nImplicit == 0 {
		r.holds("PANIC", "decoders", "no implicit panic sources", "", fmt.Sprintf("no unchecked type assertion, unguarded integer division or write to a foreign map in the %d reachable functions", len(funcs)))
	}
}

func mapIsLocalMake(m ssa.Value) bool {
	switch x := m.(type) {
	case *ssa.MakeMap:
		return true
	case *ssa.Phi:
		for _, e := range x.Edges {
			if !mapIsLocalMake(e) {
				return false
			}
		}
		return true
	case *ssa.ChangeType:
		return mapIsLocalMake(x.X)
	}
	return false
}

func divisorNonZero(c *Ctx, f *ssa.Function, x *ssa.BinOp) bool {
	p := newProver(c, f)
	fs := p.facts(x.Block())
	ok, _ := p.prove(p.val(x.Y).add(gk(1), -1), fs)
	return ok
}

func dischargePanic(c *Ctx, r *Report, f *ssa.Function, pn *ssa.Panic, path []string) {
	where := fname(f)
	pos := c.pos(pn.Pos())
	// (1) finite-domain discharge: the panic block is guarded by comparisons of one integer term whose
	// possible values are the constants that flow into it
	if term, dom := stateTermOf(f, pn.Block()); term != nil {
		isTerm := func(v ssa.Value) bool { return v == term }
		in := partitionFlow(f, isTerm, dom)
		left := in[pn.Block()].sorted()
		r.check(len(left) == 0, "PANIC", where, "state panic", pos,
			fmt.Sprintf("no value of the parser state (domain %v) reaches this panic: every state is handled before it", dom),
			fmt.Sprintf("parser state values %v reach this panic: some input makes a decoder panic (path %s)", left, strings.Join(path, " -> ")))
		return
	}
	// (2) length-mismatch panic of a variadic helper: every call site passes equal, constant lengths
	if ok, why, decided := lengthPanicDischarged(c, f, pn); decided {
		r.check(ok, "PANIC", where, "length-mismatch panic", pos, "every call site passes a literal index list and the same number of destinations: the mismatch panic is unreachable", why)
		return
	}
	r.violated("PANIC", where, "panic", pos, "an explicit panic is reachable from a decoder and cannot be discharged: "+strings.Join(path, " -> "))
}

// stateTermOf: if the panic block is dominated by an If comparing an integer phi with a constant, and all
// values flowing into that phi web are constants, returns the phi and its domain.
func stateTermOf(f *ssa.Function, blk *ssa.BasicBlock) (ssa.Value, []int64) {
	for b := blk; b != nil && b.Idom() != nil; b = b.Idom() {
		d := b.Idom()
		iff, ok := d.Instrs[len(d.Instrs)-1].(*ssa.If)
		if !ok {
			continue
		}
		bo, ok := iff.Cond.(*ssa.BinOp)
		if !ok {
			continue
		}
		var term ssa.Value
		if _, ok := cInt(constVal(bo.Y)); ok {
			term = bo.X
		} else if _, ok := cInt(constVal(bo.X)); ok {
			term = bo.Y
		}
		phi, ok := term.(*ssa.Phi)
		if !ok {
			continue
		}
		dom := map[int64]bool{}
		if !constDomain(phi, dom, map[ssa.Value]bool{}) {
			continue
		}
		var out []int64
		for k := range dom {
			out = append(out, k)
		}
		sort.Slice(out, func(i, j int) bool { return out[i] < out[j] })
		return phi, out
	}
	return nil, nil
}

func constDomain(v ssa.Value, dom map[int64]bool, seen map[ssa.Value]bool) bool {
	if seen[v] {
		return true
	}
	seen[v] = true
	if k, ok := cInt(constVal(v)); ok {
		dom[k] = true
		return true
	}
	if phi, ok := v.(*ssa.Phi); ok {
		for _, e := range phi.Edges {
			if !constDomain(e, dom, seen) {
				return false
			}
		}
		return true
	}
	return false
}

// lengthPanicDischarged: the panic is guarded by len(P_i) != len(P_j); every static call site passes
// arguments whose lengths are equal constants.
func lengthPanicDischarged(c *Ctx, f *ssa.Function, pn *ssa.Panic) (ok bool, why string, decided bool) {
	b := pn.Block()
	if len(b.Preds) != 1 {
		return false, "", false
	}
	d := b.Preds[0]
	iff, isIf := d.Instrs[len(d.Instrs)-1].(*ssa.If)
	if !isIf {
		return false, "", false
	}
	bo, isBo := iff.Cond.(*ssa.BinOp)
	if !isBo || bo.Op != token.NEQ || d.Succs[0] != b {
		return false, "", false
	}
	pidx := func(v ssa.Value) int {
		cl, ok := v.(*ssa.Call)
		if !ok {
			return -1
		}
		if bi, ok := cl.Call.Value.(*ssa.Builtin); !ok || bi.Name() != "len" {
			return -1
		}
		for i, p := range f.Params {
			if cl.Call.Args[0] == ssa.Value(p) {
				return i
			}
		}
		return -1
	}
	i, j := pidx(bo.X), pidx(bo.Y)
	if i < 0 || j < 0 {
		return false, "", false
	}
	nSites := 0
	for _, g := range c.moduleFuncs() {
		for _, call := range staticCallsTo(g, f) {
			nSites++
			p := newProver(c, g)
			li, lj := p.lenOf(call.Call.Args[i]), p.lenOf(call.Call.Args[j])
			if !(li.isConst() && lj.isConst() && li.c == lj.c) {
				return false, fmt.Sprintf("call at %s passes lengths %s and %s, which are not provably equal: %s panics", c.pos(call.Pos()), p.str(li), p.str(lj), fname(f)), true
			}
		}
	}
	if nSites == 0 {
		return false, "no call site found", true
	}
	return true, "", true
}

// rulesNoDroppedErrors (B0).
func rulesNoDroppedErrors(c *Ctx, r *Report, funcs []*ssa.Function, floor int) {
	e := &fdEngine{c: c, mode: fdAll, derived: map[*ssa.Function]bool{}}
	e.computeDerived(funcs)
	e.mode = fdAll
	n := 0
	for _, f := range funcs {
		if !c.inModule(f) {
			continue
		}
		terms := e.terms(f)
		keys := termKeys(terms)
		for _, t := range terms {
			// `defer func() { f.Close() }()` is `defer f.Close()`: the result of a deferred call is discarded by the
			// language, and what closing an input reports says nothing about the records read
			if t.call != nil && isCloseCall(t.call) && onlyDeferred(f) {
				continue
			}
			n++
			findings, _ := e.analyze(f, t)
			pos := ""
			if t.call != nil {
				pos = c.pos(t.call.Pos())
			}
			if len(findings) == 0 {
				r.holds("B0", fname(f), keys[t], pos, "the error of this call is returned, yielded or wrapped on every path on which it may be non-nil")
			} else {
				for _, fd := range findings {
					r.violated("B0", fname(f), keys[t], c.pos(fd.pos), fd.msg+" — malformed input is accepted as if it were well-formed (e.g. a non-numeric field parses as 0)")
				}
			}
		}
	}
	r.floor("B0", n, floor, "error-returning calls in the analysed functions")
	withControl(r, "B0 dropped error", func(cc *Ctx, fs []*ssa.Function) int {
		e2 := &fdEngine{c: cc, mode: fdAll, noEOF: true, derived: map[*ssa.Function]bool{}}
		hits := 0
		for _, f := range fs {
			if f.Name() != "DroppedError" {
				continue
			}
			for _, t := range e2.terms(f) {
				fd, _ := e2.analyze(f, t)
				hits += len(fd)
			}
		}
		return hits
	})
}

// isCloseCall: a call of a method named Close.
func isCloseCall(cl ssa.CallInstruction) bool {
	cc := cl.Common()
	if cc.IsInvoke() {
		return cc.Method.Name() == "Close"
	}
	g := cc.StaticCallee()
	return g != nil && g.Signature.Recv() != nil && g.Name() == "Close"
}

// onlyDeferred: f is a function literal whose only use is to be deferred where it is created.
func onlyDeferred(f *ssa.Function) bool {
	if f.Parent() == nil {
		return false
	}
	n, ok := 0, true
	instrs(f.Parent(), func(in ssa.Instruction) {
		mc, isMc := in.(*ssa.MakeClosure)
		if !isMc || mc.Fn != ssa.Value(f) {
			return
		}
		n++
		for _, ref := range *mc.Referrers() {
			if d, isDefer := ref.(*ssa.Defer); !isDefer || d.Call.Value != ssa.Value(mc) {
				ok = false
			}
		}
	})
	return n == 1 && ok
}

// detectIntToString: Convert from an integer-kinded type to string with a non-constant operand.
func detectIntToString(funcs []*ssa.Function) []ssa.Instruction {
	var out []ssa.Instruction
	for _, f := range funcs {
		instrs(f, func(in ssa.Instruction) {
			cv, ok := in.(*ssa.Convert)
			if !ok {
				return
			}
			to, ok1 := cv.Type().Underlying().(*types.Basic)
			from, ok2 := cv.X.Type().Underlying().(*types.Basic)
			if ok1 && ok2 && to.Info()&types.IsString != 0 && from.Info()&types.IsInteger != 0 {
				if _, isConst := cv.X.(*ssa.Const); !isConst {
					out = append(out, in)
				}
			}
		})
	}
	return out
}

func rulesNoIntToString(c *Ctx, r *Report) {
	funcs := formatFuncs(c, "formats/smtext")
	hits := detectIntToString(funcs)
	for _, h := range hits {
		r.violated("CONV", fname(h.Parent()), "integer to string", c.pos(h.Pos()), "string(x) of an integer/byte value encodes it as UTF-8: a byte >= 0x80 becomes two bytes, which the parser rejects — an accepted record is not a fixed point")
	}
	if len(hits) == 0 {
		r.holds("CONV", "formats/*", "no integer-to-string conversion", "", fmt.Sprintf("no string(integer) conversion of a non-constant in the %d functions of the codec packages", len(funcs)))
	}
	withControl(r, "CONV string(byte)", func(cc *Ctx, fs []*ssa.Function) int { return len(detectIntToString(fs)) })
}

// rulesParseErrorContinues (YD4): in sam.ReaderHeader the callback call that carries parseLine's error is the
// only item of its line, and after it (consumer continues) the next line is read.
func rulesParseErrorContinues(c *Ctx, r *Report) {
	for _, y := range allYD(c.Pkgs) {
		if y.f.name != "formats/sam.ReaderHeader$1" {
			continue
		}
		r.analysed(y.f.name)
		info := y.f.pkg.TypesInfo
		n := 0
		extraStreamFunc = c.isStreamFunc
		defer func() { extraStreamFunc = nil }()
		for _, s := range y.sites {
			arg := y.errArg(s)
			if arg == nil || isNilIdent(info, arg) {
				continue
			}
			obj := identObj(info, arg)
			fromParse := false
			for _, rhs := range defsOf(y.f, obj) {
				if fo := calleeOfExpr(info, rhs); fo != nil && !c.isStreamFunc(fo) && fo.Pkg() == y.f.pkg.Types && fo.Type().(*types.Signature).Recv() == nil && (fo.Type().(*types.Signature).Results().Len() == 2 && fo.Type().(*types.Signature).Params().Len() == 1 ||
					fo.Type().(*types.Signature).Results().Len() == 1 && fo.Type().(*types.Signature).Params().Len() == 2) { // parseLine(line) (rec, err), or parseLine(line, rec) err
					fromParse = true
				}
			}
			if !fromParse {
				continue
			}
			n++
			// truthy successors: the call sits in `if !yield(...) { break }`
			b := s.block
			var truthy []*cfgBlockT
			_ = truthy
			cont := false
			secondItem := false
			if len(b.Succs) == 2 {
				if e, ok := b.Nodes[s.idx].(interface{ Pos() token.Pos }); ok {
					_ = e
				}
				// which successor is taken when the callback returned true?
				o, has := condOutcomesTrue(b.Nodes[s.idx], s.call)
				var starts []int
				if has {
					if o&mayT != 0 {
						starts = append(starts, 0)
					}
					if o&mayF != 0 {
						starts = append(starts, 1)
					}
				} else {
					starts = []int{0, 1}
				}
				readBlocks := map[int32]bool{}
				for _, blk := range y.g.Blocks {
					for _, nd := range blk.Nodes {
						if containsStreamRead(info, nd) {
							readBlocks[blk.Index] = true
						}
					}
				}
				siteBlocks := map[int32]bool{}
				for _, t := range y.sites {
					siteBlocks[t.block.Index] = true
				}
				seen := map[int32]bool{}
				var dfs func(idx int)
				var blocks = y.g.Blocks
				dfs = func(idx int) {
					blk := blocks[idx]
					if seen[blk.Index] {
						return
					}
					seen[blk.Index] = true
					if readBlocks[blk.Index] {
						cont = true
						return
					}
					if siteBlocks[blk.Index] {
						secondItem = true
						return
					}
					for _, sc := range blk.Succs {
						dfs(int(sc.Index))
					}
				}
				for _, k := range starts {
					dfs(int(b.Succs[k].Index))
				}
			}
			r.check(cont && !secondItem, "YD4", y.f.name, y.siteDesc(s), c.pos(s.call.Pos()),
				"a malformed line yields exactly one error item and, if the consumer continues, the next line is read",
				fmt.Sprintf("after a line's parse error: next line read reachable: %v, a second item for the same line possible: %v — a bad line must yield exactly one error in its position and leave the following records intact", cont, secondItem))
		}
		r.floor("YD4", n, 1, "callback call carrying parseLine's error in sam.ReaderHeader")
	}
}

type cfgBlockT struct{}

var _ = constant.MakeBool

// rulesPassThroughErrors (B0-PASS): in the sam package an error handed up by an inner iterator (the error
// variable of a range-over-func loop) is forwarded to the consumer on every path — Reader and File yield a
// bad line's error in that line's position instead of skipping it.
func rulesPassThroughErrors(c *Ctx, r *Report) {
	e := &fdEngine{c: c, mode: fdStream, derived: map[*ssa.Function]bool{}}
	n := 0
	for _, f := range formatFuncs(c) {
		if funcPkgPath(f) != modPath+"/formats/sam" || !isIterBody(f) {
			continue
		}
		terms := e.terms(f)
		keys := termKeys(terms)
		for _, t := range terms {
			if _, isParam := t.val.(*ssa.Parameter); !isParam {
				continue
			}
			n++
			r.analysed(fname(f))
			findings, _ := e.analyze(f, t)
			if len(findings) == 0 {
				r.holds("B0-PASS", fname(f), keys[t], c.pos(f.Pos()), "an error item of the inner iterator is forwarded to the consumer on every path")
			} else {
				r.violated("B0-PASS", fname(f), keys[t], c.pos(f.Pos()), "an error item of the inner iterator (a malformed line's error) can be swallowed: "+findings[0].msg)
			}
		}
	}
	r.floor("B0-PASS", n, 3, "pass-through error variables in sam (Reader, File, FileHeader)")
}

// paramAlwaysLocalMake: m is a parameter of an unexported function all of whose call sites in the module pass a
// map made in the calling function (and the function is never used as a value).
func (c *Ctx) paramAlwaysLocalMake(f *ssa.Function, m ssa.Value) bool {
	par, ok := m.(*ssa.Parameter)
	if !ok || f.Parent() != nil {
		return false
	}
	if n := f.Name(); n == "" || (n[0] >= 'A' && n[0] <= 'Z') {
		return false
	}
	idx := -1
	for i, p := range f.Params {
		if p == par {
			idx = i
		}
	}
	if idx < 0 {
		return false
	}
	nSites, okAll := 0, true
	for _, g := range c.moduleFuncs() {
		instrs(g, func(in ssa.Instruction) {
			var ops []*ssa.Value
			for _, op := range in.Operands(ops) {
				if *op != ssa.Value(f) {
					continue
				}
				cl, isCall := in.(*ssa.Call)
				if !isCall || cl.Call.Value != ssa.Value(f) || idx >= len(cl.Call.Args) {
					okAll = false
					continue
				}
				nSites++
				if !mapIsLocalMake(cl.Call.Args[idx]) {
					okAll = false
				}
			}
		})
	}
	return okAll && nSites > 0
}
