package main

// E-FD (integer partitions) — forward dataflow of one integer term over a finite set of
// representatives, refined on If edges that compare the term with constants.

import (
	"go/token"
	"sort"

	"golang.org/x/tools/go/ssa"
)

type intSet map[int64]bool

func (s intSet) clone() intSet {
	o := intSet{}
	for k := range s {
		o[k] = true
	}
	return o
}

func (s intSet) sorted() []int64 {
	var out []int64
	for k := range s {
		out = append(out, k)
	}
	sort.Slice(out, func(i, j int) bool { return out[i] < out[j] })
	return out
}

// termConsts collects the constants the term is compared with in f.
func termConsts(f *ssa.Function, isTerm func(ssa.Value) bool) []int64 {
	set := map[int64]bool{}
	instrs(f, func(in ssa.Instruction) {
		b, ok := in.(*ssa.BinOp)
		if !ok {
			return
		}
		if isTerm(b.X) {
			if k, ok := cInt(constVal(b.Y)); ok {
				set[k] = true
			}
		} else if isTerm(b.Y) {
			if k, ok := cInt(constVal(b.X)); ok {
				set[k] = true
			}
		}
	})
	var out []int64
	for k := range set {
		out = append(out, k)
	}
	sort.Slice(out, func(i, j int) bool { return out[i] < out[j] })
	return out
}

// partitionFlow computes, per block, the representatives of the term's value under which the block is reachable.
func partitionFlow(f *ssa.Function, isTerm func(ssa.Value) bool, dom []int64) map[*ssa.BasicBlock]intSet {
	in := map[*ssa.BasicBlock]intSet{}
	all := intSet{}
	for _, k := range dom {
		all[k] = true
	}
	in[f.Blocks[0]] = all
	work := []*ssa.BasicBlock{f.Blocks[0]}
	for len(work) > 0 {
		b := work[0]
		work = work[1:]
		s := in[b]
		outs := make([]intSet, len(b.Succs))
		for i := range outs {
			outs[i] = s
		}
		if iff, ok := b.Instrs[len(b.Instrs)-1].(*ssa.If); ok {
			if bo, ok := iff.Cond.(*ssa.BinOp); ok {
				var k int64
				var okc, flip bool
				if isTerm(bo.X) {
					k, okc = cInt(constVal(bo.Y))
				} else if isTerm(bo.Y) {
					k, okc = cInt(constVal(bo.X))
					flip = true
				}
				if okc {
					t, e := intSet{}, intSet{}
					for v := range s {
						x, y := int(v), int(k)
						if flip {
							x, y = y, x
						}
						if res, ok := cmpHolds(bo.Op, x, y); ok {
							if res {
								t[v] = true
							} else {
								e[v] = true
							}
						} else {
							t[v], e[v] = true, true
						}
					}
					outs[0], outs[1] = t, e
				}
			}
		}
		for i, sb := range b.Succs {
			changed := false
			if in[sb] == nil {
				in[sb] = intSet{}
				changed = true
			}
			for v := range outs[i] {
				if !in[sb][v] {
					in[sb][v] = true
					changed = true
				}
			}
			if changed {
				work = append(work, sb)
			}
		}
	}
	return in
}

// rpoIndex numbers the blocks of f in reverse postorder.
func rpoIndex(f *ssa.Function) map[*ssa.BasicBlock]int {
	seen := map[*ssa.BasicBlock]bool{}
	var post []*ssa.BasicBlock
	var dfs func(b *ssa.BasicBlock)
	dfs = func(b *ssa.BasicBlock) {
		seen[b] = true
		for i := len(b.Succs) - 1; i >= 0; i-- { // exits first, so that loop bodies precede loop exits in RPO
			if s := b.Succs[i]; !seen[s] {
				dfs(s)
			}
		}
		post = append(post, b)
	}
	dfs(f.Blocks[0])
	out := map[*ssa.BasicBlock]int{}
	for i, b := range post {
		out[b] = len(post) - 1 - i
	}
	return out
}

var _ = token.ADD
