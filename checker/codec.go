package main

// Codec agreement rules shared by C01–C05: G1 (MarshalText ≡ Write), FMT-CONST, and helpers to read
// the constant formats and argument provenance of the writers.

import (
	"fmt"
	"go/constant"
	"go/token"
	"go/types"
	"strings"

	"golang.org/x/tools/go/ssa"
)

type fmtCall struct {
	site   *ssa.Call // the call instruction in the analysed function (the fmt call itself, or the call of the helper that contains it)
	sy     *symb     // renders operands in terms of the analysed function (helper parameters substituted)
	call   *ssa.Call
	fn     string      // Fprintf, Fprint, Fprintln
	w      ssa.Value   // destination
	format *string     // constant format, if constant (Fprintf only)
	fmtVal ssa.Value   // the format operand
	args   []ssa.Value // operand values (MakeInterface unwrapped)
}

// fmtCallsIn lists the fmt.Fprint* calls of f in block order, including those made by module helpers that
// f hands its writer to (their operands are rendered with the helper's parameters replaced by f's arguments).
func fmtCallsIn(f *ssa.Function) []*fmtCall {
	return fmtCallsDeep(f, newSymb(f), nil, 0)
}

func fmtCallsDeep(f *ssa.Function, sy *symb, site *ssa.Call, depth int) []*fmtCall {
	var out []*fmtCall
	for _, b := range f.Blocks {
		for _, in := range b.Instrs {
			call, ok := in.(*ssa.Call)
			if !ok {
				continue
			}
			callee := call.Call.StaticCallee()
			if callee == nil {
				continue
			}
			qn := qname(callee)
			// w.WriteString(fmt.Sprintf(format, args...)) and w.WriteString("const") are Fprintf / Fprint on w
			if (callee.Name() == "WriteString" && callee.Signature.Recv() != nil && len(call.Call.Args) == 2 && isWriterType(call.Call.Args[0].Type())) || (qn == "io.WriteString" && len(call.Call.Args) == 2) {
				top := site
				if top == nil {
					top = call
				}
				arg := call.Call.Args[1]
				if sp, ok := arg.(*ssa.Call); ok && fnIs(sp.Call.StaticCallee(), "fmt", "Sprintf") && len(*sp.Referrers()) == 1 {
					fc := &fmtCall{site: top, sy: sy, call: call, fn: "Fprintf", w: call.Call.Args[0], fmtVal: sp.Call.Args[0]}
					if k := constVal(sp.Call.Args[0]); k != nil && k.Kind() == constant.String {
						s := constant.StringVal(k)
						fc.format = &s
					}
					fc.args = orderedVarargs(sp.Call.Args[1:])
					out = append(out, fc)
					continue
				}
				if k := constVal(arg); k != nil && k.Kind() == constant.String {
					out = append(out, &fmtCall{site: top, sy: sy, call: call, fn: "Fprint", w: call.Call.Args[0], args: []ssa.Value{arg}})
					continue
				}
			}
			if qn != "fmt.Fprintf" && qn != "fmt.Fprint" && qn != "fmt.Fprintln" {
				// a module helper that receives an io.Writer: look inside
				if depth < 2 && callee.Blocks != nil && callee.Pkg == f.Pkg && callee != f {
					passesWriter := false
					for _, a := range call.Call.Args {
						if n, ok := a.Type().(*types.Named); ok && n.Obj().Pkg() != nil && n.Obj().Pkg().Path() == "io" && n.Obj().Name() == "Writer" {
							passesWriter = true
						}
						if isWriterType(a.Type()) {
							passesWriter = true // *strings.Builder, *bytes.Buffer, …
						}
					}
					if passesWriter {
						sub := newSymb(callee)
						for i, p := range callee.Params {
							if i < len(call.Call.Args) {
								sub.subst[p] = sy.expr(call.Call.Args[i])
							}
						}
						top := site
						if top == nil {
							top = call
						}
						for _, fc := range fmtCallsDeep(callee, sub, top, depth+1) {
							// the writer: map the helper's parameter back to the caller's argument
							for i, p := range callee.Params {
								if fc.w == ssa.Value(p) && i < len(call.Call.Args) {
									fc.w = call.Call.Args[i]
								}
							}
							out = append(out, fc)
						}
					}
				}
				continue
			}
			top := site
			if top == nil {
				top = call
			}
			fc := &fmtCall{site: top, sy: sy, call: call, fn: strings.TrimPrefix(qn, "fmt."), w: call.Call.Args[0]}
			rest := call.Call.Args[1:]
			if fc.fn == "Fprintf" {
				fc.fmtVal = rest[0]
				if k := constVal(rest[0]); k != nil && k.Kind() == constant.String {
					s := constant.StringVal(k)
					fc.format = &s
				}
				rest = rest[1:]
			}
			fc.args = orderedVarargs(rest)
			out = append(out, fc)
		}
	}
	return out
}

// orderedVarargs returns the elements of a varargs slice in index order (MakeInterface unwrapped).
func orderedVarargs(args []ssa.Value) []ssa.Value {
	var out []ssa.Value
	for _, a := range args {
		sl, ok := a.(*ssa.Slice)
		if !ok {
			if c, ok := a.(*ssa.Const); ok && c.IsNil() {
				continue
			}
			out = append(out, a)
			continue
		}
		al, ok := sl.X.(*ssa.Alloc)
		if !ok {
			out = append(out, a)
			continue
		}
		arr := al.Type().(*types.Pointer).Elem().Underlying().(*types.Array)
		elems := make([]ssa.Value, arr.Len())
		for _, r := range *al.Referrers() {
			ia, ok := r.(*ssa.IndexAddr)
			if !ok {
				continue
			}
			idx, ok := cInt(constVal(ia.Index))
			if !ok {
				continue
			}
			for _, r2 := range *ia.Referrers() {
				if st, ok := r2.(*ssa.Store); ok {
					v := st.Val
					if mi, ok := v.(*ssa.MakeInterface); ok {
						v = mi.X
					}
					elems[idx] = v
				}
			}
		}
		out = append(out, elems...)
	}
	return out
}

// recvFieldName renders a Sym that loads a field of the receiver (P0) as the field's name, or "".
func recvFieldName(f *ssa.Function, s *Sym) string {
	if f.Signature.Recv() == nil {
		return ""
	}
	return paramFieldName(f, 0, s)
}

// paramFieldName: s is a load of a field of the struct that parameter k of f points to; the field's name.
func paramFieldName(f *ssa.Function, k int, s *Sym) string {
	if s == nil || s.Op != "load" || s.Args[0].Op != "field" || s.Args[0].Args[0].String() != fmt.Sprintf("P%d", k) || k >= len(f.Params) {
		return ""
	}
	t := f.Params[k].Type()
	if p, ok := t.(*types.Pointer); ok {
		t = p.Elem()
	}
	st, ok := t.Underlying().(*types.Struct)
	if !ok {
		return ""
	}
	var idx int
	fmt.Sscanf(s.Args[0].Leaf, "f%d", &idx)
	if idx < st.NumFields() {
		return st.Field(idx).Name()
	}
	return ""
}

// ruleFmtConst: every Fprintf in the writer has a constant format string (no data in the format).
func ruleFmtConst(c *Ctx, r *Report, f *ssa.Function) int {
	n := 0
	for _, fc := range fmtCallsIn(f) {
		if fc.fn != "Fprintf" {
			continue
		}
		n++
		ok := fc.format != nil
		if !ok {
			// a choice between constants (a merge, or a helper that returns one of several constants) is still
			// constant text
			_, ok = constFormats(fc.fmtVal, 0)
		}
		r.check(ok, "FMT-CONST", fname(f), "format", c.pos(fc.call.Pos()),
			"the format string is a compile-time constant: field content is only ever an operand",
			"the format string is built from data: a '%' in a field is interpreted as a verb and the field is not written verbatim")
	}
	return n
}

// ruleG1 (MarshalText ≡ Write): MarshalText obtains its bytes only from Write into a fresh buffer.
func ruleG1(c *Ctx, r *Report, rel, tname string) {
	where := rel + ".(*" + tname + ").MarshalText"
	mt := c.fn(rel, "(*"+tname+").MarshalText")
	wr := c.fn(rel, "(*"+tname+").Write")
	if mt == nil || wr == nil {
		r.undecided("G1", where, "anchor", "", "MarshalText or Write not found")
		return
	}
	r.analysed(fname(mt))
	// dual form: Write emits MarshalText's result with one w.Write
	if calls := staticCallsTo(wr, mt); len(calls) == 1 {
		ruleG1Dual(c, r, where, wr, calls[0])
		return
	}
	calls := staticCallsTo(mt, wr)
	if len(calls) != 1 {
		r.undecided("G1", where, "delegation", c.pos(mt.Pos()), "neither MarshalText calls Write once nor Write calls MarshalText once: the two are not a single source of bytes")
		return
	}
	wcall := calls[0]
	// the writer argument: MakeInterface of a *bytes.Buffer from bytes.NewBuffer(empty)
	mi, _ := wcall.Call.Args[1].(*ssa.MakeInterface)
	var buf *ssa.Call
	if mi != nil {
		buf, _ = mi.X.(*ssa.Call)
	}
	if buf == nil || !fnIs(buf.Call.StaticCallee(), "bytes", "NewBuffer") || wcall.Call.Args[0] != ssa.Value(mt.Params[0]) {
		r.violated("G1", where, "fresh buffer", c.pos(wcall.Pos()), "Write is not called on the receiver with a buffer created by bytes.NewBuffer in this function")
		return
	}
	empty := false
	switch a := buf.Call.Args[0].(type) {
	case *ssa.Const:
		empty = a.IsNil()
	case *ssa.MakeSlice:
		k, ok := cInt(constVal(a.Len))
		empty = ok && k == 0
	}
	r.check(empty, "G1", where, "fresh buffer", c.pos(buf.Pos()), "the buffer starts empty (nil or make([]byte, 0, n))", "the buffer does not start empty: MarshalText returns bytes Write did not produce")
	// other uses of the buffer
	var bad []string
	var bytesCall *ssa.Call
	for _, ref := range *buf.Referrers() {
		switch x := ref.(type) {
		case *ssa.MakeInterface:
			for _, r2 := range *x.Referrers() {
				if r2 != ssa.Instruction(wcall) {
					if _, ok := r2.(*ssa.DebugRef); !ok {
						bad = append(bad, "buffer passed on at "+c.pos(r2.Pos()))
					}
				}
			}
		case *ssa.Call:
			switch qname(x.Call.StaticCallee()) {
			case "(*bytes.Buffer).Len":
			case "(*bytes.Buffer).Bytes":
				bytesCall = x
			default:
				bad = append(bad, callName(x)+" at "+c.pos(x.Pos()))
			}
		case *ssa.DebugRef:
		default:
			bad = append(bad, fmt.Sprintf("%T at %s", ref, c.pos(ref.Pos())))
		}
	}
	r.check(len(bad) == 0, "G1", where, "no other writer", c.pos(mt.Pos()), "nothing but Write puts bytes into the buffer", "the buffer is also modified by: "+strings.Join(bad, "; "))
	// returned slice is buf.Bytes() unsliced, after Write
	okRet := bytesCall != nil
	instrs(mt, func(in ssa.Instruction) {
		rt, ok := in.(*ssa.Return)
		if !ok {
			return
		}
		ops := retOperands(rt)
		if len(ops) != 2 {
			okRet = false
			return
		}
		if isNilConst(ops[1]) || !definitelyNonNilErr(ops[1]) {
			// success (or possibly-success) return
			if k, isConst := ops[0].(*ssa.Const); isConst && k.IsNil() {
				return // error return with nil data
			}
			if ops[0] != ssa.Value(bytesCall) {
				okRet = false
			}
		}
	})
	okOrder := bytesCall != nil && wcall.Block().Dominates(bytesCall.Block())
	r.check(okRet && okOrder, "G1", where, "returns the buffer", c.pos(mt.Pos()), "the success return is exactly buf.Bytes(), taken after Write ran", "the returned slice is not exactly buf.Bytes() taken after Write: MarshalText and Write can differ")
}

func ruleG1Dual(c *Ctx, r *Report, where string, wr *ssa.Function, mcall *ssa.Call) {
	// txt, err := MarshalText(); if err != nil {return err}; _, err = w.Write(txt); return err
	var txt ssa.Value
	for _, ref := range *mcall.Referrers() {
		if ex, ok := ref.(*ssa.Extract); ok && ex.Index == 0 {
			txt = ex
		}
	}
	nWrites, okArg := 0, true
	instrs(wr, func(in ssa.Instruction) {
		ci, ok := in.(ssa.CallInstruction)
		if !ok {
			return
		}
		cc := ci.Common()
		if cc.IsInvoke() && cc.Value == ssa.Value(wr.Params[1]) {
			nWrites++
			if cc.Method.Name() != "Write" || len(cc.Args) != 1 || cc.Args[0] != txt {
				okArg = false
			}
			return
		}
		// any other use of w
		for _, a := range cc.Args {
			if a == ssa.Value(wr.Params[1]) {
				nWrites++
				okArg = false
			}
		}
	})
	r.check(nWrites == 1 && okArg && txt != nil, "G1", where, "dual delegation", c.pos(mcall.Pos()),
		"Write emits exactly MarshalText's result with a single w.Write", fmt.Sprintf("Write does not emit exactly MarshalText's bytes (writes to w: %d, argument is MarshalText's result: %v)", nWrites, okArg))
}

// rulesNumWidth (NUM-WIDTH): a number parsed with strconv.ParseInt/ParseUint/ParseFloat is parsed at the
// width of the type it is stored in — a narrower bitSize rejects (or rounds) values the writer can print.
func rulesNumWidth(c *Ctx, r *Report, rels ...string) {
	want := map[string]bool{}
	for _, rel := range rels {
		want[modPath+"/"+rel] = true
	}
	intBits := int64(c.sizes().Sizeof(types.Typ[types.Int]) * 8)
	n := 0
	for _, f := range c.moduleFuncs() {
		if !want[funcPkgPath(f)] {
			continue
		}
		instrs(f, func(in ssa.Instruction) {
			cl, ok := in.(*ssa.Call)
			if !ok || cl.Call.StaticCallee() == nil {
				return
			}
			qn := qname(cl.Call.StaticCallee())
			var bitArg ssa.Value
			switch qn {
			case "strconv.ParseInt", "strconv.ParseUint":
				bitArg = cl.Call.Args[2]
			case "strconv.ParseFloat":
				bitArg = cl.Call.Args[1]
			default:
				return
			}
			n++
			where := fname(f)
			b, okB := cInt(constVal(bitArg))
			if !okB {
				r.undecided("NUM-WIDTH", where, qn, c.pos(cl.Pos()), "bitSize is not a constant")
				return
			}
			if qn == "strconv.ParseFloat" {
				r.check(b == 64, "NUM-WIDTH", where, qn, c.pos(cl.Pos()), "floats are parsed at 64 bits, the width they are stored and printed at", fmt.Sprintf("floats are parsed with bitSize %d but stored as float64: values the writer prints do not read back exactly", b))
				return
			}
			if b == 0 {
				b = intBits
			}
			// the type the value is converted to (or int64/uint64 itself)
			var targets []types.Type
			for _, ref := range *cl.Referrers() {
				ex, ok := ref.(*ssa.Extract)
				if !ok || ex.Index != 0 {
					continue
				}
				direct := false
				for _, r2 := range *ex.Referrers() {
					switch y := r2.(type) {
					case *ssa.Convert:
						targets = append(targets, y.Type())
					case *ssa.DebugRef:
					default:
						direct = true
					}
				}
				if direct {
					targets = append(targets, ex.Type())
				}
			}
			bad := ""
			for _, t := range targets {
				bt, ok := t.Underlying().(*types.Basic)
				if !ok || bt.Info()&types.IsInteger == 0 {
					continue
				}
				w := c.sizes().Sizeof(bt) * 8
				if w != b {
					bad = fmt.Sprintf("parsed with bitSize %d, stored as %s (%d bits)", b, t.String(), w)
				}
			}
			r.check(bad == "", "NUM-WIDTH", where, qn, c.pos(cl.Pos()), fmt.Sprintf("the %d-bit parse matches the width of the type the value is stored in", b),
				"integer "+bad+": values the writer can print are rejected as out of range (or silently truncated)")
		})
	}
	r.Extra["num_width_sites"] = n
}

// isWriterType: the (pointer) type has a method Write([]byte) (int, error).
func isWriterType(t types.Type) bool {
	ms := types.NewMethodSet(t)
	for i := 0; i < ms.Len(); i++ {
		m := ms.At(i).Obj()
		if m.Name() != "Write" {
			continue
		}
		sig, ok := m.Type().(*types.Signature)
		if ok && sig.Params().Len() == 1 && sig.Results().Len() == 2 {
			if sl, ok := sig.Params().At(0).Type().(*types.Slice); ok {
				if b, ok := sl.Elem().(*types.Basic); ok && b.Kind() == types.Byte {
					return true
				}
			}
		}
	}
	return false
}

// constFormats: the constant strings v can be: a constant, a merge of constants, or the result of a module function
// every return of which is such a choice.
func constFormats(v ssa.Value, depth int) ([]string, bool) {
	if v == nil || depth > 3 {
		return nil, false
	}
	if s, ok := constStr(v); ok {
		return []string{s}, true
	}
	switch x := v.(type) {
	case *ssa.Phi:
		var out []string
		for _, e := range x.Edges {
			if e == v {
				continue
			}
			fs, ok := constFormats(e, depth+1)
			if !ok {
				return nil, false
			}
			out = append(out, fs...)
		}
		return uniq(out), len(out) > 0
	case *ssa.BinOp:
		// a constant choice joined with a constant: sep + "%v" with sep one of "", ","
		if x.Op != token.ADD {
			return nil, false
		}
		ls, ok1 := constFormats(x.X, depth+1)
		rs, ok2 := constFormats(x.Y, depth+1)
		if !ok1 || !ok2 || len(ls)*len(rs) > 16 {
			return nil, false
		}
		var out []string
		for _, l := range ls {
			for _, r := range rs {
				out = append(out, l+r)
			}
		}
		return uniq(out), len(out) > 0
	case *ssa.Call:
		g := x.Call.StaticCallee()
		if g == nil || g.Blocks == nil || g.Pkg == nil || !strings.HasPrefix(g.Pkg.Pkg.Path(), modPath) || g.Signature.Results().Len() != 1 {
			return nil, false
		}
		var out []string
		okAll := true
		instrs(g, func(in ssa.Instruction) {
			if rt, ok := in.(*ssa.Return); ok {
				fs, ok := constFormats(retOperands(rt)[0], depth+1)
				if !ok {
					okAll = false
				}
				out = append(out, fs...)
			}
		})
		return uniq(out), okAll && len(out) > 0
	}
	return nil, false
}
