package main

import (
	"fmt"
	"go/token"
	"go/types"
	"sort"
	"strings"

	"golang.org/x/tools/go/ssa"
)

func init() {
	register("C04", "one obligation per value of N (writer ladder), per struct field (parser column), per writer call, per reachability query; non-trivial = decided by the integer-partition dataflow on N combined with provenance slicing, or by call-graph reachability", rulesC04, nil)
}

func rulesC04(c *Ctx, r *Report) {
	r.explain("Decides: (G4a) for every N in 3..12 separately, the writes of BED.Write that are enabled under N (integer-partition dataflow on b.N) print exactly the first N struct fields in declaration order, separated by exactly N-1 TABs, list elements joined by ',', and end with one newline; under N < 3 or N > 12 no write is enabled and the only return carries a non-nil error; (G4b) in parseLine every struct field receives a value whose backward data slice contains exactly its own column of the padded field slice, N receives len(fields), and the accepting return is reachable only with 3..12 fields; (FMT-CONST) all formats are constants; (A4) no function reachable from the BED reader calls encoding/csv's Reader (the writer emits raw text, a reader that un-quotes cannot return fields containing '\"' verbatim); (LINE-WHOLE) lines are obtained whole (no ReadLine with a discarded isPrefix); (G1) MarshalText = Write; (PASS-ALL) Reader hands on every record. Not decided: value equality of the round trip; integer formatting (strconv); block-list/count consistency. Added rules: refusal for every representative N outside 3..12 (0 and negatives included); (G4b guard) the emptiness test that controls an optional field is on the field's own column; (G4b RGB) exactly 0..255 reaches ItemRGB; (BED-SKIP) only whole-line emptiness/'#' tests, the read error and the field count decide whether a line is parsed; (G5) line trimming chain; (NUM-WIDTH); (A6-SCHED). Entry points (shared with C06/C18, restricted to this package): (FD) File(path) opens path with aio.Open inside the iterator, yields the open error and otherwise ranges over Reader on the opened bytes, so each pass re-reads the file; (A6); (NIL-HANDLE). (NUM-KIND) no float-to-integer conversion in the package (an integer column parsed through a float loses values beyond 2^53); (W-ERR) every error Write returns is nil, the error of a call that was handed the writer, or the documented refusal N outside 3..12, on every path to the constructor (all-paths form, so `N < 3 || N > 12` counts); (LAYER).")
	r.assume("fmt's %v prints ints, bytes and strings in a form strconv/ParseUint read back; struct declaration order is the BED column order")
	ruleG1(c, r, "formats/bed", "BED")
	rulesBedWriterLadder(c, r)
	rulesBedParserColumns(c, r)
	rulesNoCsv(c, r, "formats/bed", []string{"Reader", "File"}, "(*BED).Write")
	rulesWholeLines(c, r, "formats/bed")
	r.floor("G5-lines", rulesLineChain(c, r, "formats/bed"), 1, "ReadString line reader of bed")
	rulesPassAllFor(c, r, "formats/bed", 2)
	rulesNoBufferedPkg(c, r, "formats/bed")
	rulesBedSkip(c, r)
	rulesEntryPoints(c, r, "formats/bed")
	rulesNoFloatToInt(c, r, "formats/bed")
	{
		// the refusal of a bad N is an error, not a panic: every index, slice and make of the writer side is in bounds for
		// every record, N included (a buffer pre-sized from N before N is checked)
		var ws []*ssa.Function
		for _, name := range []string{"(*BED).Write", "(*BED).MarshalText"} {
			if f := c.fn("formats/bed", name); f != nil {
				ws = append(ws, f)
			}
		}
		rulesGrdFuncs(c, r, ws, 0, "bounds goals in BED.Write and MarshalText")
	}
	rulesSplitters(c, r, "formats/bed", ",", "\t")
	rulesWriterErrOrigin(c, r, "formats/bed", "(*BED).Write", bedNRange)
	rulesNumWidth(c, r, "formats/bed")
}

var bedFields = []string{"N", "Chrom", "ChromStart", "ChromEnd", "Name", "Score", "Strand", "ThickStart", "ThickEnd", "ItemRGB", "BlockCount", "BlockSizes", "BlockStarts"}

func rulesBedWriterLadder(c *Ctx, r *Report) {
	w := c.fn("formats/bed", "(*BED).Write")
	where := "formats/bed.(*BED).Write"
	if w == nil {
		r.undecided("G4a", where, "anchor", "", "Write not found")
		return
	}
	r.analysed(where)
	n := ruleFmtConst(c, r, w)
	r.floor("FMT-CONST", n, 3, "Fprintf calls in BED.Write")
	// struct declaration order must be the one this rule was written for
	recv := w.Signature.Recv().Type().(*types.Pointer).Elem().Underlying().(*types.Struct)
	var decl []string
	for i := 0; i < recv.NumFields(); i++ {
		decl = append(decl, recv.Field(i).Name())
	}
	if strings.Join(decl, ",") != strings.Join(bedFields, ",") {
		r.undecided("G4a", where, "struct layout", c.pos(w.Pos()), "BED's fields are "+strings.Join(decl, ",")+": the column table of this rule no longer applies")
		return
	}
	s := newSymb(w)
	isN := func(v ssa.Value) bool { return recvFieldName(w, s.expr(v)) == "N" }
	// N is never written in Write
	okNoStore := true
	instrs(w, func(in ssa.Instruction) {
		if st, ok := in.(*ssa.Store); ok {
			if fa, ok := st.Addr.(*ssa.FieldAddr); ok && fa.X == ssa.Value(w.Params[0]) {
				okNoStore = false
			}
		}
	})
	if !okNoStore {
		r.undecided("G4a", where, "receiver written", c.pos(w.Pos()), "Write stores into its receiver: b.N is not a single term")
		return
	}
	dom := []int64{2, 3, 4, 5, 6, 7, 8, 9, 10, 11, 12, 13}
	for _, k := range termConsts(w, isN) {
		if k < 2 || k > 13 {
			dom = append(dom, k-1, k, k+1)
		}
	}
	in := partitionFlow(w, isN, dom)
	rpo := rpoIndex(w)
	calls := fmtCallsIn(w)
	sort.SliceStable(calls, func(i, j int) bool {
		if calls[i].site.Block() != calls[j].site.Block() {
			return rpo[calls[i].site.Block()] < rpo[calls[j].site.Block()]
		}
		if calls[i].site == calls[j].site {
			return false // same helper call: keep the helper's own order
		}
		return instrDominates(calls[i].site, calls[j].site)
	})
	// label of each write: format with verbs replaced by field labels
	label := func(fc *fmtCall) (string, string) {
		var ops []string
		for _, a := range fc.args {
			e := fc.sy.expr(a)
			if nm := recvFieldName(w, e); nm != "" {
				ops = append(ops, nm)
				continue
			}
			// ItemRGB[k]: load(index(field ItemRGB of P0, k)) ; list element: load(index(load(field), loopidx))
			if e.Op == "load" && e.Args[0].Op == "index" {
				base, idx := e.Args[0].Args[0], e.Args[0].Args[1]
				if base.Op == "field" && base.Args[0].String() == "P0" {
					// array field addressed in place
					nm := recvFieldName(w, &Sym{Op: "load", Args: []*Sym{base}})
					ops = append(ops, nm+"["+idx.String()+"]")
					continue
				}
				if nm := recvFieldName(w, base); nm != "" {
					ops = append(ops, nm+"[*]")
					continue
				}
			}
			ops = append(ops, "?"+e.String())
		}
		var fmts []string
		if fc.format != nil {
			fmts = []string{*fc.format}
		} else if fs, ok := constFormats(fc.fmtVal, 0); ok {
			fmts = fs
			sort.Strings(fmts)
		}
		if len(fmts) == 0 {
			return "", "non-constant format"
		}
		if len(fmts) == 2 {
			// list element: "%v" first, ",%v" later
			if fmts[0] == "%v" && fmts[1] == ",%v" && len(ops) == 1 && strings.HasSuffix(ops[0], "[*]") {
				return "{" + strings.TrimSuffix(ops[0], "[*]") + " joined by ','}", ""
			}
			return "", "list element formats are " + strings.Join(fmts, "|")
		}
		out := fmts[0]
		for _, o := range ops {
			if !strings.Contains(out, "%v") && !strings.Contains(out, "%s") && !strings.Contains(out, "%d") {
				return "", "more operands than verbs"
			}
			i := strings.Index(out, "%")
			out = out[:i] + "<" + o + ">" + out[i+2:]
		}
		if strings.Contains(out, "%") {
			return "", "more verbs than operands"
		}
		return out, ""
	}
	labels := map[*fmtCall]string{}
	for _, fc := range calls {
		l, why := label(fc)
		if why != "" {
			r.undecided("G4a", where, "write shape", c.pos(fc.call.Pos()), why)
			return
		}
		labels[fc] = l
		if fc.w != ssa.Value(w.Params[1]) {
			r.violated("G4a", where, "destination", c.pos(fc.call.Pos()), "a write goes to something other than the io.Writer parameter")
		}
	}
	// list-element writes must sit in a loop over all elements of the field — checked by label only ([*] = range element)
	// refusal outside 3..12
	var outside []int64
	seenN := map[int64]bool{}
	for _, N := range dom {
		if (N < 3 || N > 12) && !seenN[N] {
			seenN[N] = true
			outside = append(outside, N)
		}
	}
	sort.Slice(outside, func(i, j int) bool { return outside[i] < outside[j] })
	for _, side := range []string{"N < 3", "N > 12"} {
		var enabled, badVals []string
		okRet := true
		nRet := 0
		for _, N := range outside {
			if (side == "N < 3") != (N < 3) {
				continue
			}
			for _, fc := range calls {
				if in[fc.site.Block()][N] {
					enabled = append(enabled, fmt.Sprintf("N=%d: %s", N, c.pos(fc.call.Pos())))
				}
			}
			instrs(w, func(ins ssa.Instruction) {
				if rt, ok := ins.(*ssa.Return); ok && in[rt.Block()][N] {
					nRet++
					if !definitelyNonNilErr(retOperands(rt)[0]) {
						okRet = false
						badVals = append(badVals, fmt.Sprint(N))
					}
				}
			})
		}
		r.check(len(enabled) == 0 && okRet && nRet > 0, "G4a", where, "refuses "+side, c.pos(w.Pos()),
			"for every representative value with "+side+" (the boundary value and every constant N is compared with, with its neighbours) no write is enabled and every reachable return carries a constructed error: emits nothing",
			fmt.Sprintf("with %s: writes enabled at %v; values of N reaching a return without an error: %v", side, enabled, uniq(badVals)))
	}
	// per N
	want := func(N int64) string {
		parts := []string{}
		for i := int64(1); i <= N; i++ {
			f := bedFields[i]
			switch f {
			case "ItemRGB":
				parts = append(parts, "<ItemRGB[0]>,<ItemRGB[1]>,<ItemRGB[2]>")
			case "BlockSizes", "BlockStarts":
				parts = append(parts, "{"+f+" joined by ','}")
			default:
				parts = append(parts, "<"+f+">")
			}
		}
		return strings.Join(parts, "\t") + "\n"
	}
	for N := int64(3); N <= 12; N++ {
		var sb strings.Builder
		for _, fc := range calls {
			if in[fc.site.Block()][N] {
				sb.WriteString(labels[fc])
			}
		}
		got := sb.String()
		r.check(got == want(N), "G4a", where, fmt.Sprintf("N=%d", N), c.pos(w.Pos()),
			fmt.Sprintf("the writes enabled under N=%d produce exactly the first %d fields, %d TABs, one trailing newline", N, N, N-1),
			fmt.Sprintf("under N=%d the line is %q, want %q", N, got, want(N)))
	}
	r.Extra["bed_ladder_values_of_N"] = 10
}

// columnsOf: the constant columns of `padded` in the backward data slice of v.
func columnsOf(v ssa.Value, padded ssa.Value, seen map[ssa.Value]bool, out map[int64]bool, other *[]string) {
	if v == nil || seen[v] {
		return
	}
	seen[v] = true
	if ld, ok := v.(*ssa.UnOp); ok && ld.Op == token.MUL {
		if ia, ok := ld.X.(*ssa.IndexAddr); ok && ia.X == padded {
			if k, ok := cInt(constVal(ia.Index)); ok {
				out[k] = true
			} else {
				*other = append(*other, "computed column")
			}
			return
		}
	}
	in, ok := v.(ssa.Instruction)
	if !ok {
		return
	}
	var ops []*ssa.Value
	for _, op := range in.Operands(ops) {
		if *op != nil {
			columnsOf(*op, padded, seen, out, other)
		}
	}
}

func rulesBedParserColumns(c *Ctx, r *Report) {
	f := c.role("bed.parseLine")
	where := "formats/bed.parseLine"
	if f == nil || len(f.Params) != 1 {
		r.undecided("G4b", where, "anchor", "", "parseLine(fields) not found")
		return
	}
	r.analysed(where)
	s := newSymb(f)
	// the padded slice: append(fields, make(12-n)...)
	var padded ssa.Value
	instrs(f, func(in ssa.Instruction) {
		if cl, ok := in.(*ssa.Call); ok {
			if b, ok := cl.Call.Value.(*ssa.Builtin); ok && b.Name() == "append" && cl.Call.Args[0] == ssa.Value(f.Params[0]) {
				padded = cl
			}
		}
	})
	if padded == nil {
		padded = f.Params[0]
	}
	// the record
	var rec *ssa.Alloc
	instrs(f, func(in ssa.Instruction) {
		if al, ok := in.(*ssa.Alloc); ok && al.Heap {
			if n, ok := al.Type().(*types.Pointer).Elem().(*types.Named); ok && n.Obj().Name() == "BED" {
				rec = al
			}
		}
	})
	if rec == nil {
		r.undecided("G4b", where, "record", c.pos(f.Pos()), "no BED record allocation found")
		return
	}
	cols := map[int]map[int64]bool{}
	others := map[int][]string{}
	storeBlocks := map[int][]*ssa.BasicBlock{}
	nLen := false
	var walkAddr func(addr ssa.Value, field int)
	walkAddr = func(addr ssa.Value, field int) {
		for _, ref := range *addr.Referrers() {
			switch x := ref.(type) {
			case *ssa.Store:
				if x.Addr != addr {
					continue
				}
				if field == 0 {
					if s.expr(x.Val).String() == "builtin:len(P0)" {
						nLen = true
					} else {
						others[0] = append(others[0], s.expr(x.Val).String())
					}
					continue
				}
				if cols[field] == nil {
					cols[field] = map[int64]bool{}
				}
				storeBlocks[field] = append(storeBlocks[field], x.Block())
				var oth []string
				columnsOf(x.Val, padded, map[ssa.Value]bool{}, cols[field], &oth)
				others[field] = append(others[field], oth...)
			case *ssa.Call:
				// the field's address handed to a helper of the package that parses into it: parseInto(fields[k], &bed.X)
				g := x.Call.StaticCallee()
				if g == nil || g.Blocks == nil || g.Pkg != f.Pkg || len(g.Params) != len(x.Call.Args) || field == 0 {
					continue
				}
				pj := -1
				for i, a := range x.Call.Args {
					if a == addr {
						pj = i
					}
				}
				if pj < 0 {
					continue
				}
				stores := 0
				instrs(g, func(in ssa.Instruction) {
					if st, ok := in.(*ssa.Store); ok && st.Addr == ssa.Value(g.Params[pj]) {
						stores++
					}
				})
				if stores == 0 {
					continue
				}
				if cols[field] == nil {
					cols[field] = map[int64]bool{}
				}
				storeBlocks[field] = append(storeBlocks[field], x.Block())
				for i, a := range x.Call.Args {
					if i == pj {
						continue
					}
					var oth []string
					columnsOf(a, padded, map[ssa.Value]bool{}, cols[field], &oth)
					others[field] = append(others[field], oth...)
				}
			case *ssa.IndexAddr:
				walkAddr(x, field)
			case *ssa.UnOp: // load of a slice field, then element stores through it
				if x.Op == token.MUL {
					for _, r2 := range *x.Referrers() {
						if ia, ok := r2.(*ssa.IndexAddr); ok && ia.X == ssa.Value(x) {
							walkAddr(ia, field)
						}
					}
				}
			}
		}
	}
	for _, ref := range *rec.Referrers() {
		if fa, ok := ref.(*ssa.FieldAddr); ok {
			walkAddr(fa, fa.Field)
		}
	}
	r.check(nLen && len(others[0]) == 0, "G4b", where, "field N", c.pos(rec.Pos()), "N receives len(fields) of the unpadded line", fmt.Sprintf("N is not len(fields): %v", others[0]))
	for j := 1; j <= 12; j++ {
		var got []string
		for k := range cols[j] {
			got = append(got, fmt.Sprint(k))
		}
		sort.Strings(got)
		ok := len(cols[j]) == 1 && cols[j][int64(j-1)] && len(others[j]) == 0
		r.check(ok, "G4b", where, "field "+bedFields[j], c.pos(rec.Pos()),
			fmt.Sprintf("%s is computed from column %d only — the column the writer puts it in", bedFields[j], j-1),
			fmt.Sprintf("%s is computed from column(s) [%s] %v, want exactly column %d: writer and parser disagree on where the field lives", bedFields[j], strings.Join(got, ","), others[j], j-1))
	}
	// the presence guard of an optional field tests the field's own column
	emptyTestColumn := func(cond ssa.Value) (int64, bool) {
		b, ok := cond.(*ssa.BinOp)
		if !ok || (b.Op != token.NEQ && b.Op != token.EQL) {
			return 0, false
		}
		x, y := b.X, b.Y
		if str, ok := constStr(x); ok && str == "" {
			x, y = y, x
		}
		if str, ok := constStr(y); !ok || str != "" {
			return 0, false
		}
		ld, ok := x.(*ssa.UnOp)
		if !ok || ld.Op != token.MUL {
			return 0, false
		}
		ia, ok := ld.X.(*ssa.IndexAddr)
		if !ok || ia.X != padded {
			return 0, false
		}
		return cInt(constVal(ia.Index))
	}
	nGuards := 0
	for j := 1; j <= 12; j++ {
		guardCols := map[int64]bool{}
		for _, sb := range storeBlocks[j] {
			for _, b := range f.Blocks {
				iff, ok := lastInstr(b).(*ssa.If)
				if !ok || !b.Dominates(sb) {
					continue
				}
				k, ok := emptyTestColumn(iff.Cond)
				if !ok {
					continue
				}
				for _, su := range b.Succs {
					if len(su.Preds) == 1 && su.Dominates(sb) {
						guardCols[k] = true
					}
				}
			}
		}
		if len(guardCols) == 0 {
			continue
		}
		nGuards++
		var got []string
		for k := range guardCols {
			got = append(got, fmt.Sprint(k))
		}
		sort.Strings(got)
		r.check(len(guardCols) == 1 && guardCols[int64(j-1)], "G4b", where, "presence guard of "+bedFields[j], c.pos(rec.Pos()),
			fmt.Sprintf("the store into %s is controlled by the emptiness test of column %d, its own column", bedFields[j], j-1),
			fmt.Sprintf("the store into %s is controlled by the emptiness test of column(s) [%s], not of its own column %d: the field is parsed or skipped depending on a different column", bedFields[j], strings.Join(got, ","), j-1))
	}
	// ItemRGB: each component accepts exactly 0..255
	instrs(f, func(in ssa.Instruction) {
		st, ok := in.(*ssa.Store)
		if !ok {
			return
		}
		ia, ok := st.Addr.(*ssa.IndexAddr)
		if !ok {
			return
		}
		fa, ok := ia.X.(*ssa.FieldAddr)
		if !ok || fa.X != ssa.Value(rec) || fa.Field >= len(bedFields) || bedFields[fa.Field] != "ItemRGB" {
			return
		}
		cv, ok := st.Val.(*ssa.Convert)
		if !ok {
			r.undecided("G4b", where, "RGB component range", c.pos(st.Pos()), "the stored component is not a conversion of a parsed number")
			return
		}
		src := cv.X
		if ex, ok := src.(*ssa.Extract); ok && ex.Index == 0 {
			if cl, ok := ex.Tuple.(*ssa.Call); ok && fnIs(cl.Call.StaticCallee(), "strconv", "ParseUint") {
				b, _ := cInt(constVal(cl.Call.Args[2]))
				r.check(b == 8, "G4b", where, "RGB component range", c.pos(st.Pos()), "components are parsed with ParseUint(_, _, 8): exactly 0..255 is accepted", fmt.Sprintf("components are parsed with ParseUint bitSize %d and then cut to a byte", b))
				return
			}
		}
		dom := []int64{-1, 0, 1, 127, 128, 254, 255, 256}
		reach := partitionFlow(f, func(v ssa.Value) bool { return v == src }, dom)
		got := reach[st.Block()].sorted()
		want := []int64{0, 1, 127, 128, 254, 255}
		r.check(fmt.Sprint(got) == fmt.Sprint(want), "G4b", where, "RGB component range", c.pos(st.Pos()),
			"of the representative values -1, 0, 1, 127, 128, 254, 255, 256 exactly those in 0..255 reach the store: every byte value is accepted, nothing else",
			fmt.Sprintf("the values that reach the store into ItemRGB are %v of the representatives -1..256, want exactly 0..255: some component values the writer prints are rejected, or out-of-range values are truncated", got))
	})
	r.floor("G4b-guard", nGuards, 2, "optional numeric/list fields whose parse is guarded by a non-empty test")
	// accepting return only with 3..12 fields
	isLen := func(v ssa.Value) bool { return s.expr(v).String() == "builtin:len(P0)" }
	in := partitionFlow(f, isLen, []int64{0, 1, 2, 3, 4, 5, 6, 7, 8, 9, 10, 11, 12, 13, 14})
	okRange := true
	var accN []int64
	instrs(f, func(ins ssa.Instruction) {
		if rt, ok := ins.(*ssa.Return); ok {
			ops := retOperands(rt)
			if len(ops) == 2 && isNilConst(ops[1]) {
				accN = in[rt.Block()].sorted()
				for _, v := range accN {
					if v < 3 || v > 12 {
						okRange = false
					}
				}
				for v := int64(3); v <= 12; v++ {
					if !in[rt.Block()][v] {
						okRange = false
					}
				}
			}
		}
	})
	r.check(okRange && len(accN) > 0, "G4b", where, "accepted field counts", c.pos(f.Pos()), "the accepting return is reachable exactly with 3..12 fields", fmt.Sprintf("the accepting return is reachable with field counts %v, want exactly 3..12", accN))
}

// rulesNoCsv (A4): if the writer does not use csv.Writer, nothing reachable from the readers uses csv.Reader.
func rulesNoCsv(c *Ctx, r *Report, rel string, entries []string, writer string) {
	detect := func(cc *Ctx, roots []*ssa.Function) (map[*ssa.Function][]string, []string) {
		reach := cc.reachFrom(roots, func(f *ssa.Function) bool { return cc.inScope(f) || strings.HasPrefix(funcPkgPath(f), "controls/") })
		var hits []string
		for f, path := range reach {
			qn := qname(f)
			if qn == "(*encoding/csv.Reader).Read" || qn == "(*encoding/csv.Reader).ReadAll" || qn == "encoding/csv.NewReader" {
				hits = append(hits, strings.Join(path, " -> "))
			}
		}
		sort.Strings(hits)
		return reach, hits
	}
	var roots []*ssa.Function
	for _, e := range entries {
		if f := c.fn(rel, e); f != nil {
			roots = append(roots, f)
		} else {
			r.undecided("A4", rel+"."+e, "anchor", "", "decoder entry not found")
		}
	}
	wf := c.fn(rel, writer)
	writerCsv := false
	if wf != nil {
		for f := range c.reachFrom([]*ssa.Function{wf}, c.inScope) {
			if strings.HasPrefix(qname(f), "(*encoding/csv.Writer)") {
				writerCsv = true
			}
		}
	}
	reach, hits := detect(c, roots)
	for f := range reach {
		if c.inScope(f) {
			r.analysed(fname(f))
		}
	}
	if writerCsv {
		r.holds("A4", rel, "no quoting layer", "", "the writer itself goes through encoding/csv: quoting is symmetric")
	} else {
		r.check(len(hits) == 0, "A4", rel, "no quoting layer", "", fmt.Sprintf("none of the %d functions reachable from %v calls encoding/csv's reader; the writer emits raw text", len(reach), entries),
			"the writer emits raw text but the reader un-quotes through encoding/csv: a field that starts with '\"' swallows what follows, a '\"' inside a field is an error — "+strings.Join(hits, " ; "))
	}
	withControl(r, "A4 csv reader under raw writer", func(cc *Ctx, fs []*ssa.Function) int {
		sp := cc.SSA["controls/ctl"]
		if sp == nil {
			return 0
		}
		_, h := detect(cc, []*ssa.Function{sp.Func("ReadRec")})
		return len(h)
	})
}

// rulesWholeLines (LINE-WHOLE): no ReadLine whose isPrefix result is discarded.
func rulesWholeLines(c *Ctx, r *Report, rel string, opts ...string) {
	tokenizer := len(opts) > 0 && opts[0] == "tokenizer" // a byte-level tokenizer may Peek/Discard; a line reader may not
	n := 0
	for _, f := range formatFuncs(c) {
		if funcPkgPath(f) != modPath+"/"+rel {
			continue
		}
		instrs(f, func(in ssa.Instruction) {
			cl, ok := in.(*ssa.Call)
			if !ok || !methIs(cl.Call.StaticCallee(), "bufio", "Reader", "ReadLine") {
				return
			}
			n++
			used := false
			for _, ref := range *cl.Referrers() {
				if ex, ok := ref.(*ssa.Extract); ok && ex.Index == 1 && ex.Referrers() != nil && len(*ex.Referrers()) > 0 {
					used = true
				}
			}
			r.check(used, "LINE-WHOLE", fname(f), "ReadLine isPrefix", c.pos(cl.Pos()), "isPrefix is consulted", "ReadLine's isPrefix result is discarded: a line longer than the buffer (4096 bytes) is delivered in pieces, i.e. as several truncated records")
		})
	}
	if n == 0 {
		r.holds("LINE-WHOLE", rel, "no ReadLine", "", "lines are not read with bufio.Reader.ReadLine (which splits long lines)")
	}
	// no input bytes are thrown away outside the line parser
	nd := 0
	for _, f := range formatFuncs(c) {
		if funcPkgPath(f) != modPath+"/"+rel || tokenizer {
			continue
		}
		instrs(f, func(in ssa.Instruction) {
			if ci, ok := in.(ssa.CallInstruction); ok && methIs(ci.Common().StaticCallee(), "bufio", "Reader", "Discard") {
				nd++
				r.violated("LINE-WHOLE", fname(f), "Discard", c.pos(in.Pos()), "input bytes are discarded before they reach the line parser: content that a record legitimately starts with (e.g. the bytes EF BB BF) is lost")
			}
		})
	}
	if nd == 0 && !tokenizer {
		r.holds("LINE-WHOLE", rel, "no Discard", "", "no input bytes are discarded outside the line parser")
	}
	// ReadSlice fails with ErrBufferFull once a token outgrows the buffer
	ns := 0
	for _, f := range formatFuncs(c) {
		if funcPkgPath(f) != modPath+"/"+rel {
			continue
		}
		handlesFull := false
		instrs(f, func(in ssa.Instruction) {
			if u, ok := in.(*ssa.UnOp); ok {
				if g, ok := u.X.(*ssa.Global); ok && g.Pkg != nil && g.Pkg.Pkg.Path() == "bufio" && g.Name() == "ErrBufferFull" {
					handlesFull = true
				}
			}
		})
		instrs(f, func(in ssa.Instruction) {
			if ci, ok := in.(ssa.CallInstruction); ok && methIs(ci.Common().StaticCallee(), "bufio", "Reader", "ReadSlice") && !handlesFull {
				ns++
				r.violated("LINE-WHOLE", fname(f), "ReadSlice", c.pos(in.Pos()), "ReadSlice is used without handling bufio.ErrBufferFull: a token longer than the buffer (4096 bytes) is an error instead of being read whole")
			}
		})
	}
	if ns == 0 {
		r.holds("LINE-WHOLE", rel, "no bounded ReadSlice", "", "no token is read with a buffer-bounded ReadSlice: tokens of any length are read whole")
	}
}

// rulesBedSkip (BED-SKIP): whether a line is skipped or parsed depends on the line's own text only — empty, or
// starting with '#' — plus the read error and the field-count bookkeeping; never on what a field holds.
func rulesBedSkip(c *Ctx, r *Report) {
	rd := c.role("bed.read")
	pl := c.role("bed.parseLine")
	where := "formats/bed.(*reader).read"
	if rd == nil || pl == nil {
		r.undecided("BED-SKIP", where, "anchor", "", "read or parseLine not found")
		return
	}
	calls := staticCallsTo(rd, pl)
	if len(calls) != 1 {
		r.undecided("BED-SKIP", where, "parse call", c.pos(rd.Pos()), fmt.Sprintf("expected one parseLine call, found %d", len(calls)))
		return
	}
	s := newSymb(rd)
	_, atoms := guardOfFull(s, calls[0].Block(), nil)
	// the line text: what strings.Split receives
	text := ""
	lineArg := calls[0].Call.Args[0]
	// the fields kept in a field of the reader between the split and the parse: r.line = strings.Split(…) …
	// parseLine(r.line) — the one store into that field in this function, made before the call
	if ld, ok := lineArg.(*ssa.UnOp); ok && ld.Op == token.MUL {
		if fa, ok := ld.X.(*ssa.FieldAddr); ok && len(rd.Params) > 0 && fa.X == ssa.Value(rd.Params[0]) {
			var stored ssa.Value
			n := 0
			instrs(rd, func(in ssa.Instruction) {
				if st, ok := in.(*ssa.Store); ok {
					if fa2, ok := st.Addr.(*ssa.FieldAddr); ok && fa2.X == fa.X && fa2.Field == fa.Field {
						n++
						if instrDominates(st, calls[0]) {
							stored = st.Val
						}
					}
				}
			})
			if n == 1 && stored != nil {
				lineArg = stored
			}
		}
	}
	instrs(rd, func(in ssa.Instruction) {
		if cl, ok := in.(*ssa.Call); ok && fnIs(cl.Call.StaticCallee(), "strings", "Split") && ssa.Value(cl) == lineArg {
			text = s.expr(cl.Call.Args[0]).String()
		}
	})
	if text == "" {
		r.undecided("BED-SKIP", where, "line text", c.pos(calls[0].Pos()), "parseLine does not receive strings.Split(text, …) directly")
		return
	}
	var bad []string
	sawEmpty, sawHash := false, false
	for _, a := range atoms {
		a = strings.TrimPrefix(a, "!")
		switch {
		case a == "(\"\" == "+text+")" || a == "(\"\" != "+text+")" || a == "(0 == builtin:len("+text+"))" || a == "(0 != builtin:len("+text+"))" || a == "(0 < builtin:len("+text+"))":
			sawEmpty = true
		case a == "(35 == "+text+"[0])" || a == "(35 != "+text+"[0])":
			sawHash = true
		case strings.Contains(a, "ReadString(") && (strings.Contains(a, "nil") || strings.Contains(a, "G:EOF")):
			// the read error
		case strings.Contains(a, "builtin:len(call:strings.Split("+text) || strings.Contains(a, "P0.f1"):
			// field-count bookkeeping (r.n)
		default:
			// a predicate helper applied to the whole line text
			okHelper := false
			for _, g := range c.calleesIn(rd) {
				if g.Blocks == nil || !c.inModule(g) || len(g.Params) != 1 || !effectFree(g, 0) {
					continue
				}
				if a != "call:"+fname(g)+"("+text+")" {
					continue
				}
				gs := newSymb(g)
				he, hh, other := false, false, false
				instrs(g, func(in ssa.Instruction) {
					bo, ok := in.(*ssa.BinOp)
					if !ok {
						return
					}
					switch gs.expr(bo).String() {
					case "(\"\" == P0)", "(0 == builtin:len(P0))", "(0 < builtin:len(P0))":
						he = true
					case "(35 == P0[0])":
						hh = true
					default:
						other = true
					}
				})
				if he && hh && !other {
					okHelper, sawEmpty, sawHash = true, true, true
				}
			}
			if !okHelper {
				bad = append(bad, a)
			}
		}
	}
	r.check(len(bad) == 0 && sawEmpty && sawHash, "BED-SKIP", where, "what decides skipping", c.pos(calls[0].Pos()),
		"a line reaches the parser unless it is empty or starts with '#' (tested on the whole line), subject only to the read error and the field count",
		fmt.Sprintf("whether a line is parsed also depends on %v (empty-line test on the line: %v, '#' test on the line: %v): records with particular field contents (e.g. an empty first column) are dropped silently", bad, sawEmpty, sawHash))
}
