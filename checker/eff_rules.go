package main

import (
	"go/constant"
	"go/token"
	"go/types"

	"golang.org/x/tools/go/ssa"
)

var effCache = map[*Ctx]*effEngine{}

func effFor(c *Ctx) *effEngine {
	if e, ok := effCache[c]; ok {
		return e
	}
	e := newEff(c)
	effCache[c] = e
	return e
}

func rulesPureAlign(c *Ctx, r *Report) {
	e := effFor(c)
	for _, name := range []string{"Global", "Local"} {
		f := c.fn("align", name)
		if f == nil {
			r.undecided("PURE", "align."+name, "anchor", "", "function not found")
			continue
		}
		for _, p := range []string{"a", "b", "m"} {
			e.rulePure(r, "PURE", f, p)
		}
	}
}

func rulesEffC12(c *Ctx, r *Report) {
	e := effFor(c)
	if f := c.fn("sequtil", "ReverseComplement"); f != nil {
		e.rulePure(r, "PURE", f, "src")
		e.ruleAppendOnly(r, "APPEND-ONLY", f, "dst", nil)
	} else {
		r.undecided("PURE", "sequtil.ReverseComplement", "anchor", "", "function not found")
	}
	if f := c.fn("sequtil", "CanonicalSubsequences"); f != nil {
		e.rulePure(r, "PURE", f, "seq")
	} else {
		r.undecided("PURE", "sequtil.CanonicalSubsequences", "anchor", "", "function not found")
	}
}

func rulesEffC13(c *Ctx, r *Report) {
	e := effFor(c)
	if f := c.fn("sequtil", "DNAFrom2Bit"); f != nil {
		e.rulePure(r, "PURE", f, "src")
		e.ruleAppendOnly(r, "APPEND-ONLY", f, "dst", nil)
	} else {
		r.undecided("PURE", "sequtil.DNAFrom2Bit", "anchor", "", "function not found")
	}
	if f := c.fn("sequtil", "DNATo2Bit"); f != nil {
		e.rulePure(r, "PURE", f, "src")
		s := newSymb(f)
		e.ruleAppendOnly(r, "APPEND-ONLY", f, "dst", func(st *ssa.Store) (bool, string) {
			ia, ok := st.Addr.(*ssa.IndexAddr)
			if !ok {
				return false, "store through something other than an element address"
			}
			// dst[len(dst)-1] with dst the slice as it is now (the parameter, grown by appends only): at or beyond the
			// original length if an element has been appended on every way from the entry to this store
			if lastOfGrown(s, ia) {
				if ok, why := appendedOnEveryWayTo(f, st, ia.X); ok {
					return true, ""
				} else {
					return false, "index is the last element of the grown slice, but " + why
				}
			}
			d := linSub(linOf(s.expr(ia.Index)), linOf(&Sym{Op: "builtin:len", Args: []*Sym{{Op: "param", Leaf: "P0"}}}))
			// every remaining atom must be provably non-negative with a positive coefficient
			if d.k < 0 {
				return false, "index is " + linOf(s.expr(ia.Index)).String()
			}
			for atom, coef := range d.coef {
				if coef == 0 {
					continue
				}
				if coef < 0 || !atomNonNeg(s, ia.Index, atom) {
					return false, "index is " + linOf(s.expr(ia.Index)).String() + ", not provably >= len(dst)"
				}
			}
			return true, ""
		})
	} else {
		r.undecided("PURE", "sequtil.DNATo2Bit", "anchor", "", "function not found")
	}
}

// atomNonNeg: the atom (a sub-expression string of idx) is a non-negative quantity: a range index, or a
// quotient/remainder of a non-negative value by a positive constant.
func atomNonNeg(s *symb, idx ssa.Value, atom string) bool {
	found := s.expr(idx).find(func(x *Sym) bool { return x.String() == atom })
	if len(found) == 0 {
		return false
	}
	return symNonNeg(found[0])
}

func symNonNeg(x *Sym) bool {
	switch {
	case x.Op == "const":
		k, ok := cInt(constVal(x.Val))
		return ok && k >= 0
	case x.Op == "builtin:len":
		return true
	case x.Op == "bin:/" || x.Op == "bin:%":
		k, ok := cInt(constVal(x.Args[1].Val))
		return ok && k > 0 && symNonNeg(x.Args[0])
	case x.Op == "bin:+" || x.Op == "bin:*":
		// range index: (LOOP + 1) with LOOP = phi[-1, LOOP+1]
		if x.Op == "bin:+" {
			for i := 0; i < 2; i++ {
				if x.Args[i].Op == "loop" {
					if k, ok := cInt(constVal(x.Args[1-i].Val)); ok && k == 1 {
						if phi, ok := x.Args[i].Val.(*ssa.Phi); ok && phiLowerBound(phi) >= -1 {
							return true
						}
					}
				}
			}
		}
		return symNonNeg(x.Args[0]) && symNonNeg(x.Args[1])
	case x.Op == "loop":
		if phi, ok := x.Val.(*ssa.Phi); ok {
			return phiLowerBound(phi) >= 0
		}
	}
	return false
}

// phiLowerBound: for a loop variable phi[c, phi+k] with k >= 0 returns c; otherwise a very negative number.
func phiLowerBound(phi *ssa.Phi) int64 {
	lb := int64(1 << 40)
	for _, e := range phi.Edges {
		if k, ok := cInt(constVal(e)); ok {
			if k < lb {
				lb = k
			}
			continue
		}
		if b, ok := e.(*ssa.BinOp); ok && b.Op == token.ADD && b.X == ssa.Value(phi) {
			if k, ok := cInt(constVal(b.Y)); ok && k >= 0 {
				continue
			}
		}
		return -(1 << 40)
	}
	return lb
}

func rulesEffC14(c *Ctx, r *Report) {
	e := effFor(c)
	if f := c.fn("sequtil", "Translate"); f != nil {
		e.rulePure(r, "PURE", f, "src")
		e.ruleAppendOnly(r, "APPEND-ONLY", f, "dst", nil)
	} else {
		r.undecided("PURE", "sequtil.Translate", "anchor", "", "function not found")
	}
	if f := c.fn("sequtil", "TranslateReadingFrames"); f != nil {
		e.rulePure(r, "PURE", f, "seq")
	}
}

// lastOfGrown: the element address is x[len(x)-1] for one and the same slice value x.
func lastOfGrown(s *symb, ia *ssa.IndexAddr) bool {
	bo, ok := ia.Index.(*ssa.BinOp)
	if !ok || bo.Op != token.SUB {
		return false
	}
	if k, ok := cInt(constVal(bo.Y)); !ok || k != 1 {
		return false
	}
	cl, ok := bo.X.(*ssa.Call)
	if !ok {
		return false
	}
	if b, ok := cl.Call.Value.(*ssa.Builtin); !ok || b.Name() != "len" {
		return false
	}
	return cl.Call.Args[0] == ia.X
}

// appendedOnEveryWayTo: on every path from f's entry to the store st, at least one element has been appended to
// the slice that cur continues (the parameter, merges of it and appends onto it). The first trip through the
// innermost loop around the store is followed with the loop's variables at their initial values, so that a branch
// such as `if i%4 == 0 { dst = append(dst, 0) }` is known to be taken when i is 0; once an element has been
// appended it stays appended.
func appendedOnEveryWayTo(f *ssa.Function, st *ssa.Store, cur ssa.Value) (bool, string) {
	// the chain: values that are the parameter grown by appends
	isAppend1 := func(v ssa.Value) (*ssa.Call, bool) {
		cl, ok := v.(*ssa.Call)
		if !ok {
			return nil, false
		}
		b, ok := cl.Call.Value.(*ssa.Builtin)
		if !ok || b.Name() != "append" || len(cl.Call.Args) != 2 {
			return nil, false
		}
		return cl, len(orderedVarargs([]ssa.Value{cl.Call.Args[1]})) >= 1
	}
	appendBlocks := map[*ssa.BasicBlock][]*ssa.Call{}
	instrs(f, func(in ssa.Instruction) {
		if v, ok := in.(ssa.Value); ok {
			if cl, one := isAppend1(v); cl != nil && one && types.Identical(cl.Type(), cur.Type()) {
				appendBlocks[cl.Block()] = append(appendBlocks[cl.Block()], cl)
			}
		}
	})
	// innermost loop around the store
	var header *ssa.BasicBlock
	for _, b := range f.Blocks {
		if isLoopHeader(b) && naturalLoop(b)[st.Block()] {
			if header == nil || naturalLoop(header)[b] {
				header = b
			}
		}
	}
	if header == nil {
		// straight-line: an append must dominate the store
		for _, cls := range appendBlocks {
			for _, cl := range cls {
				if instrDominates(cl, st) {
					return true, ""
				}
			}
		}
		return false, "no append comes before it on every path"
	}
	loop := naturalLoop(header)
	// first trip: header phis at their initial constants
	env := map[ssa.Value]int64{}
	for _, in := range header.Instrs {
		phi, ok := in.(*ssa.Phi)
		if !ok {
			break
		}
		for i, p := range header.Preds {
			if !loop[p] {
				if k, ok := cInt(constVal(phi.Edges[i])); ok {
					env[phi] = k
				}
			}
		}
	}
	var eval func(v ssa.Value, depth int) (int64, bool)
	eval = func(v ssa.Value, depth int) (int64, bool) {
		if depth > 8 {
			return 0, false
		}
		if k, ok := env[v]; ok {
			return k, true
		}
		if k, ok := cInt(constVal(v)); ok {
			return k, true
		}
		if c, ok := v.(*ssa.Const); ok && c.Value != nil && c.Value.Kind() == constant.Bool {
			if constant.BoolVal(c.Value) {
				return 1, true
			}
			return 0, true
		}
		if bo, ok := v.(*ssa.BinOp); ok {
			l, ok1 := eval(bo.X, depth+1)
			r, ok2 := eval(bo.Y, depth+1)
			if ok1 && ok2 {
				if (bo.Op == token.QUO || bo.Op == token.REM) && r == 0 {
					return 0, false
				}
				res := evalBin(bo.Op, l, r, bo.X.Type(), bo.Type())
				return res.v, res.ok
			}
		}
		return 0, false
	}
	// walk: state = appended so far (must); first = still on the first trip through the loop
	type key struct {
		b     *ssa.BasicBlock
		first bool
	}
	state := map[key]int{} // 0 unseen, 1 appended on all ways seen so far, 2 not appended on some way
	bad := ""
	var visit func(b *ssa.BasicBlock, first, appended bool, depth int)
	visit = func(b *ssa.BasicBlock, first, appended bool, depth int) {
		if bad != "" || depth > 400 {
			return
		}
		k := key{b, first}
		want := 1
		if !appended {
			want = 2
		}
		if state[k] >= want {
			return // already seen in a state at least as weak
		}
		state[k] = want
		for _, in := range b.Instrs {
			if in == ssa.Instruction(st) {
				if !appended {
					bad = "a way to it passes no append of an element"
				}
				break
			}
			if v, ok := in.(ssa.Value); ok {
				if cl, one := isAppend1(v); cl != nil && one && types.Identical(cl.Type(), cur.Type()) {
					appended = true
				}
			}
		}
		succs := b.Succs
		if iff, ok := lastInstr(b).(*ssa.If); ok && first && loop[b] {
			if c, ok := eval(iff.Cond, 0); ok {
				if c != 0 {
					succs = b.Succs[:1]
				} else {
					succs = b.Succs[1:2]
				}
			}
		}
		for _, su := range succs {
			nf := first
			if su == header && loop[b] {
				nf = false // a second trip: the loop variables have moved on
			}
			if !loop[su] && loop[b] {
				continue // leaving the loop: the store is inside
			}
			visit(su, nf, appended, depth+1)
		}
	}
	// ways into the loop: from the entry, without peeling (appended stays as the must-analysis finds it)
	entryAppended := false
	for _, cls := range appendBlocks {
		for _, cl := range cls {
			if !loop[cl.Block()] && cl.Block().Dominates(header) {
				entryAppended = true
			}
		}
	}
	visit(header, true, entryAppended, 0)
	if bad != "" {
		return false, bad
	}
	return true, ""
}
