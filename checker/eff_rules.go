package main

import (
	"go/token"

	"golang.org/x/tools/go/ssa"
)

var effCache = map[*Ctx]*effEngine{}

func effFor(c *Ctx) *effEngine {
	if e, ok := effCache[c]; ok {
		return e
	}
	e := newEff(c)
	effCache[c] = e
	return e
}

func rulesPureAlign(c *Ctx, r *Report) {
	e := effFor(c)
	for _, name := range []string{"Global", "Local"} {
		f := c.fn("align", name)
		if f == nil {
			r.undecided("PURE", "align."+name, "anchor", "", "function not found")
			continue
		}
		for _, p := range []string{"a", "b", "m"} {
			e.rulePure(r, "PURE", f, p)
		}
	}
}

func rulesEffC12(c *Ctx, r *Report) {
	e := effFor(c)
	if f := c.fn("sequtil", "ReverseComplement"); f != nil {
		e.rulePure(r, "PURE", f, "src")
		e.ruleAppendOnly(r, "APPEND-ONLY", f, "dst", nil)
	} else {
		r.undecided("PURE", "sequtil.ReverseComplement", "anchor", "", "function not found")
	}
	if f := c.fn("sequtil", "CanonicalSubsequences"); f != nil {
		e.rulePure(r, "PURE", f, "seq")
	} else {
		r.undecided("PURE", "sequtil.CanonicalSubsequences", "anchor", "", "function not found")
	}
}

func rulesEffC13(c *Ctx, r *Report) {
	e := effFor(c)
	if f := c.fn("sequtil", "DNAFrom2Bit"); f != nil {
		e.rulePure(r, "PURE", f, "src")
		e.ruleAppendOnly(r, "APPEND-ONLY", f, "dst", nil)
	} else {
		r.undecided("PURE", "sequtil.DNAFrom2Bit", "anchor", "", "function not found")
	}
	if f := c.fn("sequtil", "DNATo2Bit"); f != nil {
		e.rulePure(r, "PURE", f, "src")
		s := newSymb(f)
		e.ruleAppendOnly(r, "APPEND-ONLY", f, "dst", func(st *ssa.Store) (bool, string) {
			ia, ok := st.Addr.(*ssa.IndexAddr)
			if !ok {
				return false, "store through something other than an element address"
			}
			d := linSub(linOf(s.expr(ia.Index)), linOf(&Sym{Op: "builtin:len", Args: []*Sym{{Op: "param", Leaf: "P0"}}}))
			// every remaining atom must be provably non-negative with a positive coefficient
			if d.k < 0 {
				return false, "index is " + linOf(s.expr(ia.Index)).String()
			}
			for atom, coef := range d.coef {
				if coef == 0 {
					continue
				}
				if coef < 0 || !atomNonNeg(s, ia.Index, atom) {
					return false, "index is " + linOf(s.expr(ia.Index)).String() + ", not provably >= len(dst)"
				}
			}
			return true, ""
		})
	} else {
		r.undecided("PURE", "sequtil.DNATo2Bit", "anchor", "", "function not found")
	}
}

// atomNonNeg: the atom (a sub-expression string of idx) is a non-negative quantity: a range index, or a
// quotient/remainder of a non-negative value by a positive constant.
func atomNonNeg(s *symb, idx ssa.Value, atom string) bool {
	found := s.expr(idx).find(func(x *Sym) bool { return x.String() == atom })
	if len(found) == 0 {
		return false
	}
	return symNonNeg(found[0])
}

func symNonNeg(x *Sym) bool {
	switch {
	case x.Op == "const":
		k, ok := cInt(constVal(x.Val))
		return ok && k >= 0
	case x.Op == "builtin:len":
		return true
	case x.Op == "bin:/" || x.Op == "bin:%":
		k, ok := cInt(constVal(x.Args[1].Val))
		return ok && k > 0 && symNonNeg(x.Args[0])
	case x.Op == "bin:+" || x.Op == "bin:*":
		// range index: (LOOP + 1) with LOOP = phi[-1, LOOP+1]
		if x.Op == "bin:+" {
			for i := 0; i < 2; i++ {
				if x.Args[i].Op == "loop" {
					if k, ok := cInt(constVal(x.Args[1-i].Val)); ok && k == 1 {
						if phi, ok := x.Args[i].Val.(*ssa.Phi); ok && phiLowerBound(phi) >= -1 {
							return true
						}
					}
				}
			}
		}
		return symNonNeg(x.Args[0]) && symNonNeg(x.Args[1])
	case x.Op == "loop":
		if phi, ok := x.Val.(*ssa.Phi); ok {
			return phiLowerBound(phi) >= 0
		}
	}
	return false
}

// phiLowerBound: for a loop variable phi[c, phi+k] with k >= 0 returns c; otherwise a very negative number.
func phiLowerBound(phi *ssa.Phi) int64 {
	lb := int64(1 << 40)
	for _, e := range phi.Edges {
		if k, ok := cInt(constVal(e)); ok {
			if k < lb {
				lb = k
			}
			continue
		}
		if b, ok := e.(*ssa.BinOp); ok && b.Op == token.ADD && b.X == ssa.Value(phi) {
			if k, ok := cInt(constVal(b.Y)); ok && k >= 0 {
				continue
			}
		}
		return -(1 << 40)
	}
	return lb
}

func rulesEffC14(c *Ctx, r *Report) {
	e := effFor(c)
	if f := c.fn("sequtil", "Translate"); f != nil {
		e.rulePure(r, "PURE", f, "src")
		e.ruleAppendOnly(r, "APPEND-ONLY", f, "dst", nil)
	} else {
		r.undecided("PURE", "sequtil.Translate", "anchor", "", "function not found")
	}
	if f := c.fn("sequtil", "TranslateReadingFrames"); f != nil {
		e.rulePure(r, "PURE", f, "seq")
	}
}
