package main

import (
	"fmt"

	"golang.org/x/tools/go/ssa"
)

// rulesGrdFuncs applies E-GRD to the given functions (with closures).
func rulesGrdFuncs(c *Ctx, r *Report, funcs []*ssa.Function, floor int, note string) {
	st := &grdStats{}
	seen := map[*ssa.Function]bool{}
	for _, f := range funcs {
		if f == nil || seen[f] || f.Blocks == nil {
			continue
		}
		seen[f] = true
		grdFunction(c, r, "GRD", f, st)
	}
	r.floor("GRD", st.proven+st.belief, floor, note)
	r.Extra["grd_goals"] = map[string]int{"proven": st.proven, "accepted_on_sentinel_guard": st.belief, "not_covered": st.notCovered, "violated": st.violated}
	withControl(r, "GRD unguarded index", func(cc *Ctx, fs []*ssa.Function) int {
		rr := newReport("control", "quick")
		s2 := &grdStats{}
		for _, f := range fs {
			if f.Name() == "UnguardedIndex" {
				grdFunction(cc, rr, "GRD", f, s2)
			}
		}
		return s2.violated
	})
}

// rulesGrdPkg applies E-GRD to every function of the given module packages.
func rulesGrdPkg(c *Ctx, r *Report, rels []string, floor int) {
	want := map[string]bool{}
	for _, rel := range rels {
		want[modPath+"/"+rel] = true
	}
	var funcs []*ssa.Function
	for _, f := range c.moduleFuncs() {
		if want[funcPkgPath(f)] {
			funcs = append(funcs, f)
		}
	}
	rulesGrdFuncs(c, r, funcs, floor, fmt.Sprintf("index/slice/make goals in %v", rels))
}
