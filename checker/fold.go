package main

// E-FOLD — constant folding of a package's initialiser. A package initialiser is closed code: it has no
// parameters and reads nothing but constants and the variables it has itself initialised, so the content of the
// tables it builds is a compile-time constant however the initialiser is written (straight-line stores, loops
// over constant arrays or strings, arithmetic on loop counters, helper stages). The folder propagates constants
// through the initialiser's SSA form with loops unrolled completely, under a step bound; whatever depends on
// something that is not a constant (a call outside the module, a variable of another package, a map iteration
// order) becomes "unknown", and a branch on an unknown value, or a store through an unknown address, gives the
// fold up. The result is the content of the package's variables after initialisation; the table rules compare it
// with the reference tables entry by entry. Only initialisers are folded: no function that takes input is ever
// evaluated this way.

import (
	"fmt"
	"go/constant"
	"go/token"
	"go/types"
	"math"
	"sort"
	"strings"
	"unicode/utf8"

	"golang.org/x/tools/go/ssa"
)

type cval interface{}

type cUnknown struct{}

type cCell struct{ v cval }

type cAgg struct{ els []cval } // array or struct value

type cPtr struct {
	base  *cCell
	path  []int
	fuzzy bool // somewhere inside base (an index that is not a constant)
}

type cSlice struct {
	arr      *cCell // holds *cAgg; nil for a nil slice
	off      int
	len, cap int
}

type cMapEntry struct{ k, v cval }

type cMap struct {
	entries map[string]cMapEntry
	unknown bool
}

type cIter struct {
	str  string
	pos  int
	keys []cMapEntry
}

type cFunc struct{ fn *ssa.Function }

type foldResult struct {
	globals map[*ssa.Global]*cCell
	err     string
	steps   int
}

type folder struct {
	c       *Ctx
	pkg     *ssa.Package
	globals map[*ssa.Global]*cCell
	steps   int
	max     int
	err     string
}

type foldAbort struct{ why string }

func (fo *folder) abort(format string, args ...interface{}) {
	panic(foldAbort{fmt.Sprintf(format, args...)})
}

// foldPackageInit folds the synthetic initialiser of the module package rel (variable initialisers in dependency
// order, then the init functions in source order). Cached per package.
func (c *Ctx) foldPackageInit(rel string) *foldResult {
	if c.foldCache == nil {
		c.foldCache = map[string]*foldResult{}
	}
	if r, ok := c.foldCache[rel]; ok {
		return r
	}
	res := &foldResult{globals: map[*ssa.Global]*cCell{}}
	c.foldCache[rel] = res
	sp := c.ssaPkg(rel)
	if sp == nil {
		res.err = "package not found"
		return res
	}
	init, _ := sp.Members["init"].(*ssa.Function)
	if init == nil || init.Blocks == nil {
		res.err = "no initialiser"
		return res
	}
	fo := &folder{c: c, pkg: sp, globals: res.globals, max: 40_000_000}
	func() {
		defer func() {
			if x := recover(); x != nil {
				if a, ok := x.(foldAbort); ok {
					res.err = a.why
					return
				}
				panic(x)
			}
		}()
		fo.call(init, nil, 0)
	}()
	res.steps = fo.steps
	return res
}

func zeroOf(t types.Type) cval {
	switch u := t.Underlying().(type) {
	case *types.Basic:
		switch {
		case u.Info()&types.IsBoolean != 0:
			return false
		case u.Info()&types.IsInteger != 0:
			return int64(0)
		case u.Info()&types.IsFloat != 0:
			return float64(0)
		case u.Info()&types.IsString != 0:
			return ""
		}
		return cUnknown{}
	case *types.Array:
		if u.Len() > 1<<20 {
			return cUnknown{}
		}
		a := &cAgg{els: make([]cval, u.Len())}
		for i := range a.els {
			a.els[i] = zeroOf(u.Elem())
		}
		return a
	case *types.Struct:
		a := &cAgg{els: make([]cval, u.NumFields())}
		for i := range a.els {
			a.els[i] = zeroOf(u.Field(i).Type())
		}
		return a
	case *types.Pointer:
		return (*cPtr)(nil)
	case *types.Slice:
		return &cSlice{}
	case *types.Map:
		return (*cMap)(nil)
	}
	return cUnknown{}
}

func copyVal(v cval) cval {
	if a, ok := v.(*cAgg); ok && a != nil {
		out := &cAgg{els: make([]cval, len(a.els))}
		for i, e := range a.els {
			out.els[i] = copyVal(e)
		}
		return out
	}
	return v
}

func isUnknown(v cval) bool {
	_, ok := v.(cUnknown)
	return ok
}

// keyOf renders a map key (comparable constants and arrays/structs of them).
func keyOf(v cval) (string, bool) {
	switch x := v.(type) {
	case int64:
		return fmt.Sprintf("i%d", x), true
	case bool:
		return fmt.Sprintf("b%v", x), true
	case string:
		return "s" + x, true
	case float64:
		return fmt.Sprintf("f%v", x), true
	case *cAgg:
		var parts []string
		for _, e := range x.els {
			k, ok := keyOf(e)
			if !ok {
				return "", false
			}
			parts = append(parts, k)
		}
		return "[" + strings.Join(parts, ",") + "]", true
	}
	return "", false
}

func foldWrap(x int64, t types.Type) int64 {
	b, ok := t.Underlying().(*types.Basic)
	if !ok {
		return x
	}
	switch b.Kind() {
	case types.Int8:
		return int64(int8(x))
	case types.Int16:
		return int64(int16(x))
	case types.Int32:
		return int64(int32(x))
	case types.Uint8:
		return int64(uint8(x))
	case types.Uint16:
		return int64(uint16(x))
	case types.Uint32:
		return int64(uint32(x))
	}
	return x
}

func isUnsigned64(t types.Type) bool {
	b, ok := t.Underlying().(*types.Basic)
	return ok && (b.Kind() == types.Uint64 || b.Kind() == types.Uint || b.Kind() == types.Uintptr)
}

func (fo *folder) constOf(k *ssa.Const) cval {
	if k.Value == nil {
		return zeroOf(k.Type())
	}
	switch k.Value.Kind() {
	case constant.Bool:
		return constant.BoolVal(k.Value)
	case constant.String:
		return constant.StringVal(k.Value)
	case constant.Int:
		if b, ok := k.Type().Underlying().(*types.Basic); ok && b.Info()&types.IsFloat != 0 {
			f, _ := constant.Float64Val(k.Value)
			return f
		}
		if x, ok := constant.Int64Val(k.Value); ok {
			return x
		}
		if x, ok := constant.Uint64Val(k.Value); ok {
			return int64(x)
		}
	case constant.Float:
		if b, ok := k.Type().Underlying().(*types.Basic); ok && b.Info()&types.IsInteger != 0 {
			if x, ok := constant.Int64Val(constant.ToInt(k.Value)); ok {
				return x
			}
		}
		f, _ := constant.Float64Val(k.Value)
		return f
	}
	return cUnknown{}
}

func (fo *folder) globalCell(g *ssa.Global) *cCell {
	if cell, ok := fo.globals[g]; ok {
		return cell
	}
	cell := &cCell{}
	if g.Pkg == fo.pkg {
		cell.v = zeroOf(g.Type().(*types.Pointer).Elem())
	} else {
		cell.v = cUnknown{} // a variable of another package: not folded here
	}
	fo.globals[g] = cell
	return cell
}

// at navigates from a cell along a path of element/field numbers; nil when the path leaves known memory.
func at(cell *cCell, path []int) (get func() cval, set func(cval), ok bool) {
	if cell == nil {
		return nil, nil, false
	}
	if len(path) == 0 {
		return func() cval { return cell.v }, func(v cval) { cell.v = v }, true
	}
	cur := cell.v
	for i, k := range path {
		a, isAgg := cur.(*cAgg)
		if !isAgg || a == nil || k < 0 || k >= len(a.els) {
			return nil, nil, false
		}
		if i == len(path)-1 {
			return func() cval { return a.els[k] }, func(v cval) { a.els[k] = v }, true
		}
		cur = a.els[k]
	}
	return nil, nil, false
}

func (fo *folder) load(p cval) cval {
	ptr, ok := p.(*cPtr)
	if !ok || ptr == nil || ptr.fuzzy {
		if ok && ptr == nil {
			fo.abort("load through a nil pointer")
		}
		return cUnknown{}
	}
	get, _, ok := at(ptr.base, ptr.path)
	if !ok {
		return cUnknown{}
	}
	return copyVal(get())
}

func (fo *folder) store(p, v cval) {
	ptr, ok := p.(*cPtr)
	if !ok {
		fo.abort("store through an address that is not a constant")
	}
	if ptr == nil {
		fo.abort("store through a nil pointer")
	}
	if ptr.fuzzy {
		ptr.base.v = cUnknown{}
		return
	}
	_, set, ok := at(ptr.base, ptr.path)
	if !ok {
		// inside memory that is already unknown: stays unknown
		return
	}
	set(copyVal(v))
}

func (fo *folder) havoc(v cval) {
	switch x := v.(type) {
	case *cPtr:
		if x != nil {
			x.base.v = cUnknown{}
		}
	case *cSlice:
		if x != nil && x.arr != nil {
			x.arr.v = cUnknown{}
		}
	case *cMap:
		if x != nil {
			x.unknown = true
		}
	case *cAgg:
		if x != nil {
			for _, e := range x.els {
				fo.havoc(e)
			}
		}
	}
}

func (fo *folder) call(fn *ssa.Function, args []cval, depth int) []cval {
	if depth > 12 {
		fo.abort("initialiser calls nest too deep")
	}
	env := map[ssa.Value]cval{}
	for i, p := range fn.Params {
		if i < len(args) {
			env[p] = args[i]
		} else {
			env[p] = cUnknown{}
		}
	}
	val := func(v ssa.Value) cval {
		switch x := v.(type) {
		case *ssa.Const:
			return fo.constOf(x)
		case *ssa.Global:
			return &cPtr{base: fo.globalCell(x)}
		case *ssa.Function:
			return &cFunc{x}
		}
		if r, ok := env[v]; ok {
			return r
		}
		return cUnknown{}
	}
	var prev *ssa.BasicBlock
	blk := fn.Blocks[0]
	for {
		var next *ssa.BasicBlock
		// phis read their operands simultaneously
		var phiVals []cval
		var phis []*ssa.Phi
		for _, in := range blk.Instrs {
			phi, ok := in.(*ssa.Phi)
			if !ok {
				break
			}
			for i, p := range blk.Preds {
				if p == prev {
					phis = append(phis, phi)
					phiVals = append(phiVals, val(phi.Edges[i]))
					break
				}
			}
		}
		for i, phi := range phis {
			env[phi] = phiVals[i]
		}
		for _, in := range blk.Instrs {
			fo.steps++
			if fo.steps > fo.max {
				fo.abort("the initialiser does not finish within %d steps", fo.max)
			}
			switch x := in.(type) {
			case *ssa.Phi:
			case *ssa.DebugRef:
			case *ssa.Alloc:
				env[x] = &cPtr{base: &cCell{v: zeroOf(x.Type().(*types.Pointer).Elem())}}
			case *ssa.Store:
				fo.store(val(x.Addr), val(x.Val))
			case *ssa.UnOp:
				env[x] = fo.unop(x, val(x.X))
			case *ssa.BinOp:
				env[x] = fo.binop(x.Op, val(x.X), val(x.Y), x.X.Type(), x.Type())
			case *ssa.Convert:
				env[x] = fo.convert(val(x.X), x.X.Type(), x.Type())
			case *ssa.ChangeType:
				env[x] = val(x.X)
			case *ssa.MakeInterface, *ssa.ChangeInterface, *ssa.TypeAssert, *ssa.MakeClosure, *ssa.MakeChan, *ssa.Select, *ssa.Send, *ssa.Go, *ssa.Defer, *ssa.RunDefers, *ssa.SliceToArrayPointer:
				if v, ok := in.(ssa.Value); ok {
					env[v] = cUnknown{}
				}
				var ops []*ssa.Value
				for _, op := range in.Operands(ops) {
					if *op != nil {
						fo.havoc(val(*op))
					}
				}
			case *ssa.FieldAddr:
				env[x] = fo.sub(val(x.X), x.Field)
			case *ssa.Field:
				if a, ok := val(x.X).(*cAgg); ok && a != nil && x.Field < len(a.els) {
					env[x] = copyVal(a.els[x.Field])
				} else {
					env[x] = cUnknown{}
				}
			case *ssa.IndexAddr:
				env[x] = fo.indexAddr(val(x.X), val(x.Index))
			case *ssa.Index:
				env[x] = fo.index(val(x.X), val(x.Index))
			case *ssa.Lookup:
				env[x] = fo.lookup(x, val(x.X), val(x.Index))
			case *ssa.MakeSlice:
				n, ok1 := val(x.Len).(int64)
				cp, ok2 := val(x.Cap).(int64)
				if !ok1 || !ok2 || n < 0 || cp < n || cp > 1<<22 {
					env[x] = cUnknown{}
					break
				}
				et := x.Type().Underlying().(*types.Slice).Elem()
				a := &cAgg{els: make([]cval, cp)}
				for i := range a.els {
					a.els[i] = zeroOf(et)
				}
				env[x] = &cSlice{arr: &cCell{v: a}, len: int(n), cap: int(cp)}
			case *ssa.MakeMap:
				env[x] = &cMap{entries: map[string]cMapEntry{}}
			case *ssa.MapUpdate:
				m, ok := val(x.Map).(*cMap)
				if !ok {
					fo.abort("update of a map that is not a constant at %s", fo.c.pos(x.Pos()))
				}
				if m == nil {
					fo.abort("update of a nil map at %s", fo.c.pos(x.Pos()))
				}
				k, okK := keyOf(val(x.Key))
				if !okK {
					m.unknown = true
					break
				}
				m.entries[k] = cMapEntry{copyVal(val(x.Key)), copyVal(val(x.Value))}
			case *ssa.Slice:
				env[x] = fo.slice(x, val(x.X), x.Low, x.High, x.Max, val)
			case *ssa.Range:
				switch src := val(x.X).(type) {
				case string:
					env[x] = &cIter{str: src}
				case *cMap:
					// the order of a map iteration is not a constant
					fo.abort("the initialiser ranges over a map at %s: what it builds may depend on the iteration order", fo.c.pos(x.Pos()))
				default:
					fo.abort("range over a value that is not a constant at %s", fo.c.pos(x.Pos()))
				}
			case *ssa.Next:
				it, ok := val(x.Iter).(*cIter)
				if !ok {
					fo.abort("iteration that is not a constant at %s", fo.c.pos(x.Pos()))
				}
				if it.pos >= len(it.str) {
					env[x] = &cAgg{els: []cval{false, int64(0), int64(0)}}
				} else {
					r, w := utf8.DecodeRuneInString(it.str[it.pos:])
					env[x] = &cAgg{els: []cval{true, int64(it.pos), int64(r)}}
					it.pos += w
				}
			case *ssa.Extract:
				if a, ok := val(x.Tuple).(*cAgg); ok && a != nil && x.Index < len(a.els) {
					env[x] = a.els[x.Index]
				} else {
					env[x] = cUnknown{}
				}
			case *ssa.Call:
				env[x] = fo.doCall(x, val, depth)
			case *ssa.If:
				cnd, ok := val(x.Cond).(bool)
				if !ok {
					fo.abort("a branch of the initialiser depends on a value that is not a constant at %s", fo.c.pos(x.Cond.Pos()))
				}
				if cnd {
					next = blk.Succs[0]
				} else {
					next = blk.Succs[1]
				}
			case *ssa.Jump:
				next = blk.Succs[0]
			case *ssa.Return:
				var out []cval
				for _, r := range x.Results {
					out = append(out, val(r))
				}
				return out
			case *ssa.Panic:
				fo.abort("the initialiser panics at %s", fo.c.pos(x.Pos()))
			default:
				fo.abort("instruction the folder does not know: %T at %s", in, fo.c.pos(in.Pos()))
			}
		}
		if next == nil {
			fo.abort("block without a terminator")
		}
		prev, blk = blk, next
	}
}

func (fo *folder) sub(p cval, k int) cval {
	ptr, ok := p.(*cPtr)
	if !ok || ptr == nil {
		return cUnknown{}
	}
	if ptr.fuzzy {
		return ptr
	}
	return &cPtr{base: ptr.base, path: append(append([]int{}, ptr.path...), k)}
}

func (fo *folder) indexAddr(base, idx cval) cval {
	i, okI := idx.(int64)
	switch b := base.(type) {
	case *cPtr: // pointer to array
		if b == nil {
			fo.abort("index through a nil array pointer")
		}
		if !okI {
			return &cPtr{base: b.base, fuzzy: true}
		}
		if get, _, ok := at(b.base, b.path); ok {
			if a, isAgg := get().(*cAgg); isAgg && (i < 0 || int(i) >= len(a.els)) {
				fo.abort("index %d out of range in the initialiser", i)
			}
		}
		return fo.sub(b, int(i))
	case *cSlice:
		if b.arr == nil {
			fo.abort("index into a nil slice in the initialiser")
		}
		if !okI {
			return &cPtr{base: b.arr, fuzzy: true}
		}
		if i < 0 || int(i) >= b.len {
			fo.abort("index %d out of range (length %d) in the initialiser", i, b.len)
		}
		return &cPtr{base: b.arr, path: []int{b.off + int(i)}}
	}
	return cUnknown{}
}

func (fo *folder) index(base, idx cval) cval {
	i, ok := idx.(int64)
	if !ok {
		return cUnknown{}
	}
	switch b := base.(type) {
	case *cAgg:
		if b != nil && i >= 0 && int(i) < len(b.els) {
			return copyVal(b.els[i])
		}
	case string:
		if i >= 0 && int(i) < len(b) {
			return int64(b[i])
		}
		fo.abort("string index %d out of range in the initialiser", i)
	}
	return cUnknown{}
}

func (fo *folder) lookup(x *ssa.Lookup, m, k cval) cval {
	wrap := func(v cval, ok bool) cval {
		if x.CommaOk {
			return &cAgg{els: []cval{v, ok}}
		}
		return v
	}
	switch mm := m.(type) {
	case string:
		if i, ok := k.(int64); ok {
			if i < 0 || int(i) >= len(mm) {
				fo.abort("string index %d out of range in the initialiser", i)
			}
			return int64(mm[i])
		}
		return cUnknown{}
	case *cMap:
		zero := zeroOf(x.X.Type().Underlying().(*types.Map).Elem())
		if mm == nil {
			return wrap(zero, false)
		}
		if mm.unknown {
			if x.CommaOk {
				return &cAgg{els: []cval{cUnknown{}, cUnknown{}}}
			}
			return cUnknown{}
		}
		ks, ok := keyOf(k)
		if !ok {
			if x.CommaOk {
				return &cAgg{els: []cval{cUnknown{}, cUnknown{}}}
			}
			return cUnknown{}
		}
		if e, ok := mm.entries[ks]; ok {
			return wrap(copyVal(e.v), true)
		}
		return wrap(zero, false)
	}
	if x.CommaOk {
		return &cAgg{els: []cval{cUnknown{}, cUnknown{}}}
	}
	return cUnknown{}
}

func (fo *folder) slice(x *ssa.Slice, base cval, lo, hi, mx ssa.Value, val func(ssa.Value) cval) cval {
	bound := func(v ssa.Value, def int) (int, bool) {
		if v == nil {
			return def, true
		}
		i, ok := val(v).(int64)
		return int(i), ok
	}
	switch b := base.(type) {
	case string:
		l, ok1 := bound(lo, 0)
		h, ok2 := bound(hi, len(b))
		if !ok1 || !ok2 {
			return cUnknown{}
		}
		if l < 0 || h < l || h > len(b) {
			fo.abort("slice bounds out of range in the initialiser at %s", fo.c.pos(x.Pos()))
		}
		return b[l:h]
	case *cPtr: // pointer to array
		if b == nil || b.fuzzy {
			return cUnknown{}
		}
		get, _, ok := at(b.base, b.path)
		if !ok {
			return cUnknown{}
		}
		a, isAgg := get().(*cAgg)
		if !isAgg {
			return cUnknown{}
		}
		// the array must be a cell of its own for the slice to alias it
		cell := b.base
		if len(b.path) != 0 {
			return cUnknown{}
		}
		l, ok1 := bound(lo, 0)
		h, ok2 := bound(hi, len(a.els))
		m, ok3 := bound(mx, len(a.els))
		if !ok1 || !ok2 || !ok3 {
			cell.v = cUnknown{}
			return cUnknown{}
		}
		if l < 0 || h < l || m < h || m > len(a.els) {
			fo.abort("slice bounds out of range in the initialiser at %s", fo.c.pos(x.Pos()))
		}
		return &cSlice{arr: cell, off: l, len: h - l, cap: m - l}
	case *cSlice:
		l, ok1 := bound(lo, 0)
		h, ok2 := bound(hi, b.len)
		m, ok3 := bound(mx, b.cap)
		if !ok1 || !ok2 || !ok3 {
			fo.havoc(b)
			return cUnknown{}
		}
		if l < 0 || h < l || m < h || m > b.cap {
			fo.abort("slice bounds out of range in the initialiser at %s", fo.c.pos(x.Pos()))
		}
		if b.arr == nil {
			return &cSlice{}
		}
		return &cSlice{arr: b.arr, off: b.off + l, len: h - l, cap: m - l}
	}
	return cUnknown{}
}

func (fo *folder) unop(x *ssa.UnOp, v cval) cval {
	switch x.Op {
	case token.MUL:
		return fo.load(v)
	case token.NOT:
		if b, ok := v.(bool); ok {
			return !b
		}
	case token.SUB:
		switch n := v.(type) {
		case int64:
			return foldWrap(-n, x.Type())
		case float64:
			return -n
		}
	case token.XOR:
		if n, ok := v.(int64); ok {
			return foldWrap(^n, x.Type())
		}
	}
	return cUnknown{}
}

func (fo *folder) binop(op token.Token, a, b cval, opType, resType types.Type) cval {
	if isUnknown(a) || isUnknown(b) {
		return cUnknown{}
	}
	switch x := a.(type) {
	case int64:
		y, ok := b.(int64)
		if !ok {
			return cUnknown{}
		}
		uns := isUnsigned64(opType)
		switch op {
		case token.ADD:
			return foldWrap(x+y, resType)
		case token.SUB:
			return foldWrap(x-y, resType)
		case token.MUL:
			return foldWrap(x*y, resType)
		case token.QUO:
			if y == 0 {
				fo.abort("division by zero in the initialiser")
			}
			if uns {
				return int64(uint64(x) / uint64(y))
			}
			return foldWrap(x/y, resType)
		case token.REM:
			if y == 0 {
				fo.abort("division by zero in the initialiser")
			}
			if uns {
				return int64(uint64(x) % uint64(y))
			}
			return foldWrap(x%y, resType)
		case token.AND:
			return foldWrap(x&y, resType)
		case token.OR:
			return foldWrap(x|y, resType)
		case token.XOR:
			return foldWrap(x^y, resType)
		case token.AND_NOT:
			return foldWrap(x&^y, resType)
		case token.SHL:
			if y < 0 || y > 63 {
				return foldWrap(0, resType)
			}
			return foldWrap(x<<uint(y), resType)
		case token.SHR:
			if y < 0 {
				fo.abort("negative shift in the initialiser")
			}
			if y > 63 {
				y = 63
			}
			if uns {
				return int64(uint64(x) >> uint(y))
			}
			return foldWrap(x>>uint(y), resType)
		case token.EQL:
			return x == y
		case token.NEQ:
			return x != y
		case token.LSS:
			if uns {
				return uint64(x) < uint64(y)
			}
			return x < y
		case token.LEQ:
			if uns {
				return uint64(x) <= uint64(y)
			}
			return x <= y
		case token.GTR:
			if uns {
				return uint64(x) > uint64(y)
			}
			return x > y
		case token.GEQ:
			if uns {
				return uint64(x) >= uint64(y)
			}
			return x >= y
		}
	case float64:
		y, ok := b.(float64)
		if !ok {
			return cUnknown{}
		}
		f32 := false
		if bt, ok := resType.Underlying().(*types.Basic); ok && bt.Kind() == types.Float32 {
			f32 = true
		}
		rnd := func(f float64) cval {
			if f32 {
				return float64(float32(f))
			}
			return f
		}
		switch op {
		case token.ADD:
			return rnd(x + y)
		case token.SUB:
			return rnd(x - y)
		case token.MUL:
			return rnd(x * y)
		case token.QUO:
			return rnd(x / y)
		case token.EQL:
			return x == y
		case token.NEQ:
			return x != y
		case token.LSS:
			return x < y
		case token.LEQ:
			return x <= y
		case token.GTR:
			return x > y
		case token.GEQ:
			return x >= y
		}
	case string:
		y, ok := b.(string)
		if !ok {
			return cUnknown{}
		}
		switch op {
		case token.ADD:
			return x + y
		case token.EQL:
			return x == y
		case token.NEQ:
			return x != y
		case token.LSS:
			return x < y
		case token.LEQ:
			return x <= y
		case token.GTR:
			return x > y
		case token.GEQ:
			return x >= y
		}
	case bool:
		y, ok := b.(bool)
		if !ok {
			return cUnknown{}
		}
		switch op {
		case token.EQL:
			return x == y
		case token.NEQ:
			return x != y
		}
	case *cAgg:
		ka, ok1 := keyOf(a)
		kb, ok2 := keyOf(b)
		if ok1 && ok2 {
			switch op {
			case token.EQL:
				return ka == kb
			case token.NEQ:
				return ka != kb
			}
		}
	case *cSlice:
		// comparison with nil
		if y, ok := b.(*cSlice); ok && y.arr == nil && y.len == 0 {
			switch op {
			case token.EQL:
				return x.arr == nil
			case token.NEQ:
				return x.arr != nil
			}
		}
	case *cMap:
		if y, ok := b.(*cMap); ok && y == nil {
			switch op {
			case token.EQL:
				return x == nil
			case token.NEQ:
				return x != nil
			}
		}
	}
	return cUnknown{}
}

func (fo *folder) convert(v cval, from, to types.Type) cval {
	if isUnknown(v) {
		return v
	}
	tb, _ := to.Underlying().(*types.Basic)
	fb, _ := from.Underlying().(*types.Basic)
	switch x := v.(type) {
	case int64:
		switch {
		case tb != nil && tb.Info()&types.IsInteger != 0:
			return foldWrap(x, to)
		case tb != nil && tb.Info()&types.IsFloat != 0:
			if fb != nil && isUnsigned64(from) {
				return float64(uint64(x))
			}
			if tb.Kind() == types.Float32 {
				return float64(float32(x))
			}
			return float64(x)
		case tb != nil && tb.Info()&types.IsString != 0:
			return string(rune(x))
		}
	case float64:
		switch {
		case tb != nil && tb.Info()&types.IsFloat != 0:
			if tb.Kind() == types.Float32 {
				return float64(float32(x))
			}
			return x
		case tb != nil && tb.Info()&types.IsInteger != 0:
			if math.IsNaN(x) || math.IsInf(x, 0) || math.Abs(x) > 1<<62 {
				return cUnknown{}
			}
			return foldWrap(int64(x), to)
		}
	case string:
		if tb != nil && tb.Info()&types.IsString != 0 {
			return x
		}
		if sl, ok := to.Underlying().(*types.Slice); ok {
			if eb, ok := sl.Elem().Underlying().(*types.Basic); ok && eb.Kind() == types.Uint8 {
				a := &cAgg{els: make([]cval, len(x))}
				for i := 0; i < len(x); i++ {
					a.els[i] = int64(x[i])
				}
				return &cSlice{arr: &cCell{v: a}, len: len(x), cap: len(x)}
			}
			if eb, ok := sl.Elem().Underlying().(*types.Basic); ok && eb.Kind() == types.Int32 {
				rs := []rune(x)
				a := &cAgg{els: make([]cval, len(rs))}
				for i, r := range rs {
					a.els[i] = int64(r)
				}
				return &cSlice{arr: &cCell{v: a}, len: len(rs), cap: len(rs)}
			}
		}
	case *cSlice:
		if tb != nil && tb.Info()&types.IsString != 0 {
			if x.arr == nil {
				return ""
			}
			a, ok := x.arr.v.(*cAgg)
			if !ok {
				return cUnknown{}
			}
			var sb strings.Builder
			fsl, isBytes := from.Underlying().(*types.Slice)
			if !isBytes {
				return cUnknown{}
			}
			eb, _ := fsl.Elem().Underlying().(*types.Basic)
			for i := 0; i < x.len; i++ {
				n, ok := a.els[x.off+i].(int64)
				if !ok {
					return cUnknown{}
				}
				if isBytes && eb != nil && eb.Kind() == types.Uint8 {
					sb.WriteByte(byte(n))
				} else {
					sb.WriteRune(rune(n))
				}
			}
			return sb.String()
		}
		return x
	}
	if _, ok := to.Underlying().(*types.Pointer); ok {
		return v
	}
	return cUnknown{}
}

func (fo *folder) doCall(x *ssa.Call, val func(ssa.Value) cval, depth int) cval {
	var args []cval
	for _, a := range x.Call.Args {
		args = append(args, val(a))
	}
	result := func(vs []cval) cval {
		switch len(vs) {
		case 0:
			return nil
		case 1:
			return vs[0]
		}
		return &cAgg{els: vs}
	}
	if b, ok := x.Call.Value.(*ssa.Builtin); ok {
		switch b.Name() {
		case "len", "cap":
			switch a := args[0].(type) {
			case string:
				return int64(len(a))
			case *cSlice:
				if b.Name() == "cap" {
					return int64(a.cap)
				}
				return int64(a.len)
			case *cMap:
				if a == nil {
					return int64(0)
				}
				if a.unknown {
					return cUnknown{}
				}
				return int64(len(a.entries))
			case *cAgg:
				return int64(len(a.els))
			case *cPtr:
				if pt, ok := x.Call.Args[0].Type().Underlying().(*types.Pointer); ok {
					if arr, ok := pt.Elem().Underlying().(*types.Array); ok {
						return arr.Len()
					}
				}
			}
			if arr, ok := x.Call.Args[0].Type().Underlying().(*types.Array); ok {
				return arr.Len()
			}
			return cUnknown{}
		case "min", "max":
			best := args[0]
			for _, a := range args[1:] {
				lt := fo.binop(token.LSS, a, best, x.Call.Args[0].Type(), types.Typ[types.Bool])
				l, ok := lt.(bool)
				if !ok {
					return cUnknown{}
				}
				if (b.Name() == "min") == l {
					best = a
				}
			}
			return best
		case "append":
			dst, ok := args[0].(*cSlice)
			if !ok {
				for _, a := range args {
					fo.havoc(a)
				}
				return cUnknown{}
			}
			var add []cval
			if len(args) > 1 {
				switch src := args[1].(type) {
				case *cSlice:
					if src.arr != nil {
						a, ok := src.arr.v.(*cAgg)
						if !ok {
							fo.havoc(dst)
							return cUnknown{}
						}
						for i := 0; i < src.len; i++ {
							add = append(add, copyVal(a.els[src.off+i]))
						}
					}
				case string:
					for i := 0; i < len(src); i++ {
						add = append(add, int64(src[i]))
					}
				default:
					fo.havoc(dst)
					return cUnknown{}
				}
			}
			if len(add) == 0 {
				return dst
			}
			if dst.arr != nil && dst.len+len(add) <= dst.cap {
				a, ok := dst.arr.v.(*cAgg)
				if !ok {
					return cUnknown{}
				}
				for i, v := range add {
					a.els[dst.off+dst.len+i] = v
				}
				return &cSlice{arr: dst.arr, off: dst.off, len: dst.len + len(add), cap: dst.cap}
			}
			n := dst.len + len(add)
			ncap := n
			if 2*dst.cap > ncap {
				ncap = 2 * dst.cap
			}
			et := x.Type().Underlying().(*types.Slice).Elem()
			na := &cAgg{els: make([]cval, ncap)}
			if dst.arr != nil {
				a, ok := dst.arr.v.(*cAgg)
				if !ok {
					return cUnknown{}
				}
				for i := 0; i < dst.len; i++ {
					na.els[i] = copyVal(a.els[dst.off+i])
				}
			}
			for i, v := range add {
				na.els[dst.len+i] = v
			}
			for i := n; i < ncap; i++ {
				na.els[i] = zeroOf(et)
			}
			// capacity after growth is the runtime's business: nothing may depend on it
			return &cSlice{arr: &cCell{v: na}, len: n, cap: ncap}
		case "copy":
			dst, ok := args[0].(*cSlice)
			if !ok {
				fo.havoc(args[0])
				return cUnknown{}
			}
			var src []cval
			switch s := args[1].(type) {
			case *cSlice:
				if s.arr != nil {
					a, ok := s.arr.v.(*cAgg)
					if !ok {
						fo.havoc(dst)
						return cUnknown{}
					}
					for i := 0; i < s.len; i++ {
						src = append(src, copyVal(a.els[s.off+i]))
					}
				}
			case string:
				for i := 0; i < len(s); i++ {
					src = append(src, int64(s[i]))
				}
			default:
				fo.havoc(dst)
				return cUnknown{}
			}
			n := len(src)
			if dst.len < n {
				n = dst.len
			}
			if n > 0 {
				a, ok := dst.arr.v.(*cAgg)
				if !ok {
					return cUnknown{}
				}
				for i := 0; i < n; i++ {
					a.els[dst.off+i] = src[i]
				}
			}
			return int64(n)
		case "delete":
			if m, ok := args[0].(*cMap); ok && m != nil {
				if k, ok := keyOf(args[1]); ok {
					delete(m.entries, k)
				} else {
					m.unknown = true
				}
			}
			return nil
		case "ssa:wrapnilchk":
			return args[0]
		case "panic":
			fo.abort("the initialiser panics at %s", fo.c.pos(x.Pos()))
		}
		for _, a := range args {
			fo.havoc(a)
		}
		return cUnknown{}
	}
	callee := x.Call.StaticCallee()
	if callee != nil && callee.Blocks != nil && callee.Pkg != nil && fo.c.inModule(callee) {
		if callee.Name() == "init" && callee.Pkg != fo.pkg {
			return nil // a dependency's initialiser: its variables are not folded here
		}
		if callee.Pkg == fo.pkg {
			return result(fo.call(callee, args, depth+1))
		}
	}
	if callee != nil && callee.Name() == "init" && len(args) == 0 {
		return nil
	}
	// code outside the package: its result is not a constant; what it is handed may be modified, unless it is known
	// to read only
	name := ""
	if callee != nil {
		name = qname(callee)
	}
	readOnly := effPureStd[name] || effFreshStd[name] || strings.HasPrefix(name, "strconv.") || strings.HasPrefix(name, "strings.") || strings.HasPrefix(name, "math.") || strings.HasPrefix(name, "unicode.")
	if !readOnly {
		for _, a := range args {
			fo.havoc(a)
		}
	}
	n := x.Call.Signature().Results().Len()
	if n <= 1 {
		return cUnknown{}
	}
	out := &cAgg{els: make([]cval, n)}
	for i := range out.els {
		out.els[i] = cUnknown{}
	}
	return out
}

// foldedSlice: the content of the package-level slice or array variable g after initialisation, as integers.
func (c *Ctx) foldedSlice(rel string, g *ssa.Global) ([]int64, string) {
	res := c.foldPackageInit(rel)
	if res.err != "" {
		return nil, res.err
	}
	cell, ok := res.globals[g]
	if !ok {
		return nil, "the initialiser never touches the variable"
	}
	var els []cval
	switch v := cell.v.(type) {
	case *cSlice:
		if v.arr == nil {
			return nil, "the variable is nil after initialisation"
		}
		a, ok := v.arr.v.(*cAgg)
		if !ok {
			return nil, "the table's content is not a constant"
		}
		els = a.els[v.off : v.off+v.len]
	case *cAgg:
		els = v.els
	default:
		return nil, "the variable's value after initialisation is not a constant"
	}
	out := make([]int64, len(els))
	for i, e := range els {
		n, ok := e.(int64)
		if !ok {
			return nil, fmt.Sprintf("element %d is not a constant", i)
		}
		out[i] = n
	}
	return out, ""
}

// foldedMap: the entries of the package-level map variable g after initialisation, sorted by key rendering.
func (c *Ctx) foldedMap(rel string, g *ssa.Global) ([]cMapEntry, string) {
	res := c.foldPackageInit(rel)
	if res.err != "" {
		return nil, res.err
	}
	cell, ok := res.globals[g]
	if !ok {
		return nil, "the initialiser never touches the variable"
	}
	m, ok := cell.v.(*cMap)
	if !ok || m == nil {
		return nil, "the variable's value after initialisation is not a constant map"
	}
	if m.unknown {
		return nil, "the map has entries whose keys are not constants"
	}
	var keys []string
	for k := range m.entries {
		keys = append(keys, k)
	}
	sort.Strings(keys)
	out := make([]cMapEntry, 0, len(keys))
	for _, k := range keys {
		out = append(out, m.entries[k])
	}
	return out, ""
}

// foldedRows: the content of a package-level table of byte rows (a slice or array of arrays or slices) after
// initialisation.
func (c *Ctx) foldedRows(rel string, g *ssa.Global) ([][]int64, string) {
	res := c.foldPackageInit(rel)
	if res.err != "" {
		return nil, res.err
	}
	cell, ok := res.globals[g]
	if !ok {
		return nil, "the initialiser never touches the variable"
	}
	elems := func(v cval) ([]cval, bool) {
		switch x := v.(type) {
		case *cSlice:
			if x.arr == nil {
				return nil, x.len == 0
			}
			a, ok := x.arr.v.(*cAgg)
			if !ok {
				return nil, false
			}
			return a.els[x.off : x.off+x.len], true
		case *cAgg:
			return x.els, true
		}
		return nil, false
	}
	outer, ok := elems(cell.v)
	if !ok {
		return nil, "the variable's value after initialisation is not a constant table"
	}
	var rows [][]int64
	for i, rv := range outer {
		inner, ok := elems(rv)
		if !ok {
			return nil, fmt.Sprintf("row %d is not a constant", i)
		}
		row := make([]int64, len(inner))
		for j, e := range inner {
			n, ok := e.(int64)
			if !ok {
				return nil, fmt.Sprintf("row %d position %d is not a constant", i, j)
			}
			row[j] = n
		}
		rows = append(rows, row)
	}
	return rows, ""
}
