package main

import (
	"fmt"
	"go/ast"
	"go/token"
	"go/types"
	"sort"
	"strings"

	"golang.org/x/tools/go/ssa"
)

func init() {
	register("C07", "one obligation per error term (source call result, pass-through error variable or merge) per function, per data result of a fallible read, per writer call, per Scan site, per error item; non-trivial = decided by the error-class dataflow with edge refinement or by CFG reachability", rulesC07, nil)
}

var formatPkgs = []string{"formats/fasta", "formats/fastq", "formats/sam", "formats/bed", "formats/newick"}

// formatFuncs lists all functions (with closures and synthetic range bodies) of the five codec packages.
func formatFuncs(c *Ctx, extra ...string) []*ssa.Function {
	want := map[string]bool{}
	for _, p := range append(append([]string{}, formatPkgs...), extra...) {
		want[modPath+"/"+p] = true
	}
	var out []*ssa.Function
	for _, f := range c.moduleFuncs() {
		if want[funcPkgPath(f)] && inScopeRel(strings.TrimPrefix(funcPkgPath(f), modPath+"/")) {
			out = append(out, f)
		}
	}
	return out
}

func rulesC07(c *Ctx, r *Report) {
	r.explain("Decides, for every fault offset at once (the offset only selects which dynamic instance of a read fails): (B2) in every function of the five codec packages, no error that may come from the underlying stream (bufio/csv/io reads, Scanner.Err, aio.Open, module functions that return such an error, pass-through error variables of range-over-func loops) can be in class 'other than nil/EOF' and unreported — not returned, yielded, wrapped into a returned error or panicked — at a return or when the same read is executed again; (B4) data read together with such an error is used only where the error's class excludes 'other' (no record from a truncated read), and a return whose error may be non-nil carries a nil record; (SC1) after Scan() returns false, Err() of the same scanner is consulted on every path to an exit; (YD2/YD3) after a callback call carrying a stream error no further callback call is reachable — the iteration ends after finitely many items even if the reader keeps failing; (B1) in every Write(w io.Writer) method every call that may return an error (writes to w, and anything else) has its error returned on every path, including deferred calls. Not decided: equality of the delivered records with the leading records of the fault-free decode; the Scanner case of B4 (a Scanner hands out the truncated last line before reporting the error — fastq survives through its length check); 'returns nil when everything was accepted'. Added rules: errors.Is(err, io.EOF) keeps class 'other' on its true edge; (F4L/REJECT) fastq's layout guards, which are what keeps a truncated last line out of a record. (W-ERR) for the five Write methods: every error returned is nil, the error of a call that was handed the writer (helpers of the package are followed with their writer parameter; module functions that never saw the writer are judged the same way), or a documented refusal (BED: N outside 3..12) — no sentinel such as io.ErrShortWrite, no constructed error elsewhere: Write returns nil when the writer accepted everything. (SC-WHO) bufio.NewScanner is called only in fastq and smtext, whose decoders cannot deliver a record built from the unfinished line a Scanner hands out when the stream fails; (B0-PASS) an error item of the inner iterator is forwarded by the sam Reader layers.")
	r.assume("bufio, csv and Scanner report the first error of the underlying reader through the calls in the source table; UnreadByte directly after a successful ReadByte cannot fail; bytes.Buffer and strings.Builder never fail; Close of a file opened for reading is not a data error")
	funcs := withReachedDeps(c, formatFuncs(c))
	e := &fdEngine{c: c, mode: fdStream}
	e.computeDerived(funcs)
	var derivedNames []string
	for f := range e.derived {
		derivedNames = append(derivedNames, fname(f))
	}
	r.Extra["derived_stream_sources"] = sortedStrings(derivedNames)
	nTerms, nData := 0, 0
	for _, f := range funcs {
		terms := e.terms(f)
		if len(terms) == 0 {
			continue
		}
		r.analysed(fname(f))
		keys := termKeys(terms)
		for _, t := range terms {
			nTerms++
			findings, in := e.analyze(f, t)
			pos := ""
			if t.def != nil {
				pos = c.pos(t.def.Pos())
				if pos == "" && t.call != nil {
					pos = c.pos(t.call.Pos())
				}
			} else {
				pos = c.pos(f.Pos())
			}
			if len(findings) == 0 {
				r.holds("B2", fname(f), keys[t], pos, "in every path the error is returned, yielded, wrapped into a returned error, or known to be nil/EOF before it goes out of scope or the read is repeated")
			} else {
				for _, fd := range findings {
					r.violated("B2", fname(f), keys[t], c.pos(fd.pos), fd.msg)
				}
			}
			_, isPhiTerm := t.val.(*ssa.Phi)
			if (t.call != nil && t.call.Call.Signature().Results().Len() > 1 && t.val != nil && !onlyPhiUses(t.val)) || isPhiTerm {
				nData++
				cu := e.companionUses(f, t, in)
				if len(cu) == 0 {
					r.holds("B4", fname(f), keys[t], pos, "the data results of this read are used only where the error is known not to be a stream failure")
				} else {
					for _, fd := range cu {
						r.violated("B4", fname(f), keys[t], c.pos(fd.pos), fd.msg)
					}
				}
			}
		}
	}
	r.floor("B2", nTerms, 20, "stream error terms in the codec packages (hand count on the repaired tree: 33)")
	r.floor("B4", nData, 8, "fallible reads with data results")
	rulesErrNilRecord(c, r, funcs, e)
	rulesScanErr(c, r, []string{"formats/fastq"})
	rulesStreamErrorLast(c, r)
	rulesWriters(c, r)
	rulesFastqLayout(c, r) // the Scanner hands out a truncated last line before it reports the error: only the layout guards (four lines read, equal lengths) keep such a line out of a record
}

func sortedStrings(s []string) []string {
	out := append([]string{}, s...)
	for i := range out {
		for j := i + 1; j < len(out); j++ {
			if out[j] < out[i] {
				out[i], out[j] = out[j], out[i]
			}
		}
	}
	return out
}

// rulesErrNilRecord (B4b): in derived decoder functions returning (record, error), a return whose
// error operand may be non-nil has a nil/zero record operand.
func rulesErrNilRecord(c *Ctx, r *Report, funcs []*ssa.Function, e *fdEngine) {
	n := 0
	for _, f := range funcs {
		if !e.derived[f] || f.Signature.Results().Len() != 2 {
			continue
		}
		if isErrT(f.Signature.Results().At(0).Type()) {
			continue
		}
		instrs(f, func(in ssa.Instruction) {
			ret, ok := in.(*ssa.Return)
			if !ok || len(ret.Results) != 2 {
				return
			}
			ops := retOperands(ret)
			errV, dataV := ops[1], ops[0]
			if isNilConst(errV) {
				return
			}
			// both results forwarded from one call: the callee's own obligation
			if e1, ok := errV.(*ssa.Extract); ok {
				if e0, ok := dataV.(*ssa.Extract); ok && e0.Tuple == e1.Tuple {
					return
				}
			}
			// a return reached only with the error nil or io.EOF: the last, unterminated piece of data together with
			// the end of the input is data, not a failure
			if valClassAtBlock(errV, ret.Block(), cNil|cEOF|cOther)&cOther == 0 {
				return
			}
			n++
			zero := false
			if k, ok := dataV.(*ssa.Const); ok && (k.Value == nil || k.IsNil() || isZeroConst(k)) {
				zero = true
			}
			r.check(zero, "B4", fname(f), "return with error carries no record", c.pos(ret.Pos()),
				"a return whose error may be non-nil returns a nil/zero record", "a return whose error may be non-nil also returns a record: a partial record can be delivered together with (or instead of) the error")
		})
	}
	r.floor("B4-returns", n, 12, "error returns in decoder functions")
}

func isZeroConst(k *ssa.Const) bool {
	if k.Value == nil {
		return true
	}
	s := k.Value.ExactString()
	return s == "0" || s == `""` || s == "false"
}

// rulesScanErr (SC1): after Scan() returns false, Err() on the same scanner is called on every path to an exit.
func rulesScanErr(c *Ctx, r *Report, pkgs []string) {
	n := 0
	for _, f := range formatFuncs(c, "formats/smtext") {
		in := false
		for _, p := range pkgs {
			if funcPkgPath(f) == modPath+"/"+p {
				in = true
			}
		}
		if !in {
			continue
		}
		sy := newSymb(f)
		instrs(f, func(ins ssa.Instruction) {
			call, ok := ins.(*ssa.Call)
			if !ok || !methIs(call.Call.StaticCallee(), "bufio", "Scanner", "Scan") {
				return
			}
			n++
			recv := sy.expr(call.Call.Args[0]).String()
			// false successors of the branch on Scan's result
			var starts []*ssa.BasicBlock
			for _, ref := range *call.Referrers() {
				switch x := ref.(type) {
				case *ssa.If:
					starts = append(starts, x.Block().Succs[1])
				case *ssa.UnOp:
					if x.Op == token.NOT {
						for _, r2 := range *x.Referrers() {
							if iff, ok := r2.(*ssa.If); ok {
								starts = append(starts, iff.Block().Succs[0])
							}
						}
					}
				}
			}
			if len(starts) == 0 {
				r.undecided("SC1", fname(f), "Scan", c.pos(call.Pos()), "the result of Scan is not branched on directly")
				return
			}
			// must-pass-through: exits reachable from starts without a block calling Err() on the same scanner
			hasErr := func(b *ssa.BasicBlock) bool {
				for _, x := range b.Instrs {
					if cl, ok := x.(*ssa.Call); ok && methIs(cl.Call.StaticCallee(), "bufio", "Scanner", "Err") && sy.expr(cl.Call.Args[0]).String() == recv {
						return true
					}
				}
				return false
			}
			bad := false
			seen := map[*ssa.BasicBlock]bool{}
			var dfs func(b *ssa.BasicBlock)
			dfs = func(b *ssa.BasicBlock) {
				if seen[b] || hasErr(b) {
					return
				}
				seen[b] = true
				if _, ok := b.Instrs[len(b.Instrs)-1].(*ssa.Return); ok {
					bad = true
				}
				for _, s := range b.Succs {
					dfs(s)
				}
			}
			for _, s := range starts {
				dfs(s)
			}
			r.check(!bad, "SC1", fname(f), "Scan", c.pos(call.Pos()), "when Scan returns false, Err() of the same scanner is consulted before every exit", "a path from `Scan() == false` reaches a return without consulting Err(): a read failure is mistaken for the end of the data")
		})
	}
	r.floor("SC1", n, 1, "Scan call sites in fastq (4 today; one if wrapped in a helper)")
	rulesScannerOwners(c, r)
	rulesPassThroughErrors(c, r) // shared with C11: an error item of the inner iterator (a stream failure reported by ReaderHeader) is forwarded by Reader/File/FileHeader
}

// rulesStreamErrorLast: YD2 for fasta/fastq/bed/newick, YD3 for sam (stream-error provenance).
func rulesStreamErrorLast(c *Ctx, r *Report) {
	n2, n3 := 0, 0
	for _, y := range allYD(c.Pkgs) {
		rel := relPkg(y.f.pkg.PkgPath)
		if yd2Formats[rel] {
			r.analysed(y.f.name)
			n2 += y.ruleYD2(c, r, "YD2", nil)
		}
		if rel == "formats/sam" {
			r.analysed(y.f.name)
			info := y.f.pkg.TypesInfo
			n3 += y.ruleYD2(c, r, "YD3", func(arg ast.Expr) (bool, string) {
				id, ok := ast.Unparen(arg).(*ast.Ident)
				if !ok {
					return false, ""
				}
				obj := info.Uses[id]
				for _, rhs := range defsOf(y.f, obj) {
					if fo := calleeOfExpr(info, rhs); fo != nil {
						full := fo.FullName()
						if c.isStreamFunc(fo) {
							return true, "error of " + full
						}
					}
				}
				return false, ""
			})
		}
	}
	r.floor("YD2", n2, 6, "error items in fasta/fastq/bed/newick")
	r.floor("YD3", n3, 3, "stream-error items in sam (ReaderHeader read failure, File and FileHeader open failure)")
}

// rulesWriters (B1): every error in a Write(w io.Writer) method is returned.
func rulesWriters(c *Ctx, r *Report) {
	e := &fdEngine{c: c, mode: fdAll, noEOF: true, derived: map[*ssa.Function]bool{}}
	nCalls, nFuncs := 0, 0
	iow := ioWriterType(c)
	for _, f := range formatFuncs(c) {
		root := f
		for root.Parent() != nil {
			root = root.Parent()
		}
		if !hasParamOfType(root, iow) {
			continue
		}
		if len(family(root)) > 0 && f == root {
			nFuncs++
		}
		r.analysed(fname(f))
		terms := e.terms(f)
		keys := termKeys(terms)
		for _, t := range terms {
			nCalls++
			findings, _ := e.analyze(f, t)
			pos := ""
			if t.call != nil {
				pos = c.pos(t.call.Pos())
			} else if t.def != nil {
				pos = c.pos(t.def.Pos())
			}
			if len(findings) == 0 {
				r.holds("B1", fname(f), keys[t], pos, "the error of this call is returned on every path on which it may be non-nil")
			} else {
				for _, fd := range findings {
					r.violated("B1", fname(f), keys[t], c.pos(fd.pos), strings.Replace(fd.msg, "state {", "state {", 1)+" — Write can return nil although the writer failed")
				}
			}
		}
		// deferred / go calls that return an error: always discarded
		instrs(f, func(in ssa.Instruction) {
			var cc *ssa.CallCommon
			switch x := in.(type) {
			case *ssa.Defer:
				cc = &x.Call
			case *ssa.Go:
				cc = &x.Call
			default:
				return
			}
			if errResultIndex(cc.Signature()) < 0 {
				return
			}
			nCalls++
			r.violated("B1", fname(f), "deferred "+callName(in.(ssa.CallInstruction)), c.pos(in.Pos()), "the error result of a deferred call is discarded: a failure of the writer at this point (e.g. a buffered Flush) is not returned")
		})
	}
	r.floor("B1", nCalls, 10, "error-returning calls in the five Write methods")
	rulesFileDelegation(c, r) // File hands on every item of Reader, error items included (a failure of the stream is not swallowed by the File layer)
	// 'returns nil when everything was accepted': the errors Write returns are the writer's (or a documented refusal)
	for _, sp := range []struct {
		rel, method string
		doc         func(l edgeLit) (string, bool)
	}{{"formats/fasta", "(*Fasta).Write", nil}, {"formats/fastq", "(*Fastq).Write", nil}, {"formats/sam", "(*SAM).Write", nil}, {"formats/bed", "(*BED).Write", bedNRange}, {"formats/newick", "(*Node).Write", nil}} {
		rulesWriterErrOrigin(c, r, sp.rel, sp.method, sp.doc)
	}
	r.floor("B1-functions", nFuncs, 5, "Write methods with an io.Writer parameter")
}

func ioWriterType(c *Ctx) types.Type {
	if p := c.All["io"]; p != nil {
		if o := p.Types.Scope().Lookup("Writer"); o != nil {
			return o.Type()
		}
	}
	return nil
}

func hasParamOfType(f *ssa.Function, t types.Type) bool {
	if t == nil {
		return false
	}
	for _, p := range f.Params {
		if types.Identical(p.Type(), t) {
			return true
		}
	}
	return false
}

var _ = fmt.Sprint

func onlyPhiUses(v ssa.Value) bool {
	refs := v.Referrers()
	if refs == nil || len(*refs) == 0 {
		return false
	}
	for _, r := range *refs {
		switch r.(type) {
		case *ssa.Phi, *ssa.DebugRef:
		default:
			return false
		}
	}
	return true
}

// withReachedDeps adds the gostuff functions (with closures) that the given functions reach through
// static calls and closure creation; package aio is excluded (aio.Open is an opaque, trusted source).
func withReachedDeps(c *Ctx, funcs []*ssa.Function) []*ssa.Function {
	seen := map[*ssa.Function]bool{}
	for _, f := range funcs {
		seen[f] = true
	}
	out := append([]*ssa.Function{}, funcs...)
	work := append([]*ssa.Function{}, funcs...)
	for len(work) > 0 {
		f := work[0]
		work = work[1:]
		add := func(g *ssa.Function) {
			if g == nil || seen[g] || g.Blocks == nil {
				return
			}
			p := funcPkgPath(g)
			if !strings.HasPrefix(p, gostuffPath+"/") || p == gostuffPath+"/aio" {
				return
			}
			for _, x := range family(g) {
				if !seen[x] {
					seen[x] = true
					out = append(out, x)
					work = append(work, x)
				}
			}
		}
		instrs(f, func(in ssa.Instruction) {
			switch x := in.(type) {
			case ssa.CallInstruction:
				add(x.Common().StaticCallee())
			case *ssa.MakeClosure:
				if g, ok := x.Fn.(*ssa.Function); ok {
					add(g)
				}
			}
		})
	}
	return out
}

// rulesScannerOwners (SC-WHO): a bufio.Scanner hands out the unfinished last line of a failing stream as a token
// before it reports the failure. Only decoders that cannot turn that token into a delivered record may read
// through one: fastq (a record needs four lines and equal lengths — F4L/REJECT) and smtext (one result, returned
// only after Err() — SC1 under C20). A decoder that delivers one record per line (bed, sam) or per token would
// deliver a record built from the cut line.
func rulesScannerOwners(c *Ctx, r *Report) {
	allowed := map[string]string{
		modPath + "/formats/fastq":  "a record needs four complete lines of matching lengths (F4L, REJECT)",
		modPath + "/formats/smtext": "the one result is returned only after Scanner.Err() (SC1 under C20)",
	}
	var bad []string
	n := 0
	for _, f := range formatFuncs(c) {
		instrs(f, func(in ssa.Instruction) {
			cl, ok := in.(*ssa.Call)
			if !ok || !fnIs(cl.Call.StaticCallee(), "bufio", "NewScanner") {
				return
			}
			n++
			if _, ok := allowed[funcPkgPath(f)]; !ok {
				bad = append(bad, fname(f)+" at "+c.pos(cl.Pos()))
			}
		})
	}
	sort.Strings(bad)
	r.check(len(bad) == 0, "SC-WHO", "formats/*", "who reads through a Scanner", "",
		fmt.Sprintf("bufio.NewScanner is called only in fastq and smtext (%d sites), whose decoders cannot deliver a record built from the unfinished line a Scanner hands out when the stream fails", n),
		fmt.Sprintf("a line-per-record decoder reads through bufio.Scanner (%v): when the stream fails inside a line, the Scanner first hands out the cut line as a token, and a record built from it is delivered before the error", bad))
	withControl(r, "SC-WHO scanner in a line decoder", func(cc *Ctx, fs []*ssa.Function) int {
		hits := 0
		for _, f := range fs {
			instrs(f, func(in ssa.Instruction) {
				if cl, ok := in.(*ssa.Call); ok && fnIs(cl.Call.StaticCallee(), "bufio", "NewScanner") {
					hits++
				}
			})
		}
		return hits
	})
}
