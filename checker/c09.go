package main

import (
	"fmt"
	"go/constant"
	"go/token"
	"sort"
	"strings"

	"golang.org/x/tools/go/ssa"
)

func init() {
	register("C09", "one obligation per table and clause (each decided over all of its entries), per weak ordering of decideOnStep's arguments, per sibling expression pair; non-trivial = needed constant evaluation of a literal, an SSA shape match or an ordering enumeration", rulesC09, nil)
}

var shippedTables = []string{"PAM120", "PAM160", "PAM250", "BLOSUM45", "BLOSUM62", "BLOSUM80"}

const gapByte = 255
const standardResidues = "ARNDCQEGHILKMFPSTWYV"

func rulesC09(c *Ctx, r *Report) {
	r.explain("Decides: (T1-T3) each shipped matrix PAM120/160/250, BLOSUM45/62/80 is assigned exactly once, in an init, from a literal whose constant entries are complete over its alphabet (which contains the 20 standard residues and Gap), symmetric, with {Gap,Gap}=0, and nothing else in the module writes it — the property's last sentence for every entry; (T4) Levenshtein's initialiser stores 0 on the i==j edge and -1 on the other for all byte pairs, by SSA shape; (ORD-M) decideOnStep returns a maximal argument in all 13 weak orderings; (SIB1/SIB2) the Global and Local recurrences agree symbolically. Not decided: optimality itself, equality with the edit distance. Added rules: (CLAMP) Local's clamp on every store path (optimality of Local needs the floor at zero); T4 accepts counted and range-int loops over 0..255 with no other exit. (REV) shared from C08: steps completely reversed, or back-filled into a buffer that holds the longest path — the traceback cannot panic on long alignments; (PURE) Global/Local and what they call keep no state between calls and write none of a, b, m (a score table cached across calls answers for an edited matrix with stale scores); (T4, extended) the Levenshtein map is never stored into another variable (an alias edited later edits the table). (T-START) shared from C08: Local's walk starts at a best cell of the whole table (the optimum of a local alignment is the maximum over all cells). T4 falls back on constant folding of the package initialiser (E-FOLD) when the initialiser has another shape. (T0, extended) no initialiser edits a shipped matrix after its literal; (AS-TRACED) shared from C08.")
	r.assume("compile-time constant evaluation by go/types; SubstitutionMatrix.Get is the only reader of the tables in the aligners")
	rulesLocalClamp(c, r)
	rulesTraceFollowsFill(c, r) // the traceback moves as the fill read, and Local's start offsets are those of its first cell: the steps returned have the score returned
	rulesFillAllCells(c, r)     // every cell of the table is computed: no early stop of the fill on a "good enough" score
	rulesStepsAsTraced(c, r)    // the steps and score returned are the traceback's own, unchanged
	rulesTraceStart(c, r)       // Local's walk starts at a best cell of the whole table (the optimum is the maximum over all cells)
	rulesStepsReversed(c, r)    // the steps come out in order and their buffer holds the longest path (no panic on long alignments)
	rulesPureAlign(c, r)        // the score lookups read the matrix as it is now: no state kept between calls, no writes
	p := c.pkg("align")
	if p == nil {
		r.undecided("T1", "align", "anchor", "", "package align not found")
		return
	}
	funcs := c.moduleFuncs()
	inits := c.initFuncsOf("align")
	entries := 0
	nTables := 0
	for _, name := range shippedTables {
		where := "align." + name
		t := findLitTable(p, name)
		g := c.global("align", name)
		if t == nil || g == nil {
			r.undecided("T1", where, "anchor", "", "shipped matrix variable not found")
			continue
		}
		if t.err != "" {
			r.undecided("T1", where, "literal", "", t.err)
			continue
		}
		nTables++
		pos := c.pos(t.lit.Pos())
		r.analysed(t.where)
		r.check(t.nAssign == 1 && strings.Contains(t.where, "init"), "T0", where, "single-assignment", pos,
			"assigned exactly once, in "+t.where+", from a literal", fmt.Sprintf("assigned %d times (last in %s): the literal is not the only source of the table", t.nAssign, t.where))
		// … and nothing edits the table after the literal, not even its own initialiser: the entries checked below
		// are the entries the table has
		{
			var initList []*ssa.Function
			for f := range inits {
				initList = append(initList, f)
			}
			ws, _, unk := c.globalWrites(g, initList)
			var edits []string
			for _, w := range ws {
				if w.kind != "store" {
					edits = append(edits, w.kind+" in "+fname(w.fn)+" at "+c.pos(w.pos))
				}
			}
			for _, w := range unk {
				edits = append(edits, w.kind+" in "+fname(w.fn)+" at "+c.pos(w.pos))
			}
			sort.Strings(edits)
			r.check(len(edits) == 0, "T0", where, "literal is the whole table", pos,
				"no initialiser edits the table after the literal is assigned: its entries are the literal's entries",
				fmt.Sprintf("an initialiser edits the table after the literal (%v): pairs are added or changed that the completeness and symmetry checks of the literal do not see (a symbol added without its gap scores panics in Get)", edits))
		}
		m := map[[2]int]float64{}
		alpha := map[int]bool{}
		bad := ""
		for _, e := range t.entries {
			if len(e.key) != 2 || len(e.val) != 1 {
				bad = "entry is not a [2]byte -> number pair at " + c.pos(e.pos)
				break
			}
			a, _ := cInt(e.key[0])
			b, _ := cInt(e.key[1])
			v, ok := cFloat(e.val[0])
			if !ok {
				bad = "non-numeric value at " + c.pos(e.pos)
				break
			}
			m[[2]int{int(a), int(b)}] = v
			alpha[int(a)], alpha[int(b)] = true, true
		}
		if bad != "" {
			r.undecided("T1", where, "literal", pos, bad)
			continue
		}
		entries += len(m)
		var letters []int
		for a := range alpha {
			letters = append(letters, a)
		}
		sort.Ints(letters)
		// alphabet contains the standard residues and the gap
		missingStd := ""
		for _, ch := range standardResidues {
			if !alpha[int(ch)] {
				missingStd += string(ch)
			}
		}
		r.check(missingStd == "" && alpha[gapByte], "T1", where, "alphabet", pos,
			fmt.Sprintf("alphabet of %d symbols contains the 20 standard residues and Gap", len(letters)),
			fmt.Sprintf("alphabet lacks %q (gap present: %v): aligning protein sequences would panic in Get", missingStd, alpha[gapByte]))
		var missing, asym []string
		for _, a := range letters {
			for _, b := range letters {
				v, ok := m[[2]int{a, b}]
				if !ok {
					missing = append(missing, fmt.Sprintf("{%s,%s}", byteStr(a), byteStr(b)))
					continue
				}
				if w, ok := m[[2]int{b, a}]; ok && w != v && a < b {
					asym = append(asym, fmt.Sprintf("{%s,%s}=%v but {%s,%s}=%v", byteStr(a), byteStr(b), v, byteStr(b), byteStr(a), w))
				}
			}
		}
		r.check(len(missing) == 0, "T1", where, "complete", pos,
			fmt.Sprintf("all %d pairs over the alphabet (incl. Gap) are present", len(letters)*len(letters)),
			fmt.Sprintf("%d pairs missing, e.g. %s: Get panics on them", len(missing), strings.Join(missing[:min(3, len(missing))], " ")))
		r.check(len(asym) == 0, "T2", where, "symmetric", pos,
			fmt.Sprintf("table[x,y] = table[y,x] for all %d unordered pairs", len(letters)*(len(letters)-1)/2),
			fmt.Sprintf("%d asymmetric pairs, e.g. %s", len(asym), strings.Join(asym[:min(3, len(asym))], "; ")))
		gg, ok := m[[2]int{gapByte, gapByte}]
		r.check(ok && gg == 0, "T3", where, "gap-open", pos, "{Gap,Gap} = 0", fmt.Sprintf("{Gap,Gap} = %v (present: %v): gap-open is not zero", gg, ok))
		c.ruleWhoMayWrite(r, "T-WMW", g, "align", inits, funcs)
	}
	r.Extra["table_entries_evaluated"] = entries
	r.floor("T1", nTables, 6, "shipped matrices")
	r.floor("T-entries", entries, 6*576, "constant entries (24x24 each)")
	ruleLevenshtein(c, r, funcs)
	rulesDecideOnStep(c, r, true, false)
	rulesSiblingRecurrence(c, r, true)
}

// ruleLevenshtein (T4): shape of Levenshtein's initialiser.
func ruleLevenshtein(c *Ctx, r *Report, funcs []*ssa.Function) {
	where := "align.Levenshtein"
	g := c.global("align", "Levenshtein")
	if g == nil {
		r.undecided("T4", where, "anchor", "", "variable not found")
		return
	}
	inits := c.initFuncsOf("align")
	c.ruleWhoMayWrite(r, "T-WMW", g, "align", inits, funcs)
	// all map updates through the variable, in initialisers
	type upd struct {
		mu *ssa.MapUpdate
		fn *ssa.Function
	}
	var ups []upd
	for f := range inits {
		instrs(f, func(in ssa.Instruction) {
			if mu, ok := in.(*ssa.MapUpdate); ok {
				if isLoadOf(mu.Map, g) {
					ups = append(ups, upd{mu, f})
				}
			}
		})
	}
	// the table is the variable's alone: its map is not stored into another variable (an alias edited later edits it too)
	var aliases []string
	for _, f := range c.moduleFuncs() {
		if funcPkgPath(f) != modPath+"/align" {
			continue
		}
		instrs(f, func(in ssa.Instruction) {
			st, ok := in.(*ssa.Store)
			if !ok || st.Addr == ssa.Value(g) {
				return
			}
			v := st.Val
			if ct, ok := v.(*ssa.ChangeType); ok {
				v = ct.X
			}
			if isLoadOf(v, g) {
				aliases = append(aliases, c.pos(st.Pos()))
			}
		})
	}
	r.check(len(aliases) == 0, "T4", where, "no second name for the table", "", "the table's map is never stored into another variable: only writes through Levenshtein itself can change it",
		fmt.Sprintf("the table's map is stored into another variable at %v: edits through that variable change Levenshtein too", aliases))
	mark := len(r.Obs)
	ruleLevenshteinShape(c, r, g, inits, where)
	undecided, violated := 0, 0
	for _, o := range r.Obs[mark:] {
		switch o.Verdict {
		case Undecided:
			undecided++
		case Violated:
			violated++
		}
	}
	if undecided == 0 || violated > 0 {
		return
	}
	// an initialiser of another shape (one loop over all pairs, rows filled by stages, …): the table's content by
	// constant folding of the package initialiser (E-FOLD), compared entry by entry
	entries, why := c.foldedMap("align", g)
	if why != "" {
		r.Obs[len(r.Obs)-1].Reason += "; constant folding of the initialiser: " + why
		return
	}
	r.rollback(mark)
	seen := map[[2]int64]bool{}
	var badDiag, badOff, badKey []string
	for _, e := range entries {
		k, ok := e.k.(*cAgg)
		if !ok || len(k.els) != 2 {
			badKey = append(badKey, fmt.Sprint(e.k))
			continue
		}
		a, ok1 := k.els[0].(int64)
		b, ok2 := k.els[1].(int64)
		v, ok3 := e.v.(float64)
		if !ok1 || !ok2 || !ok3 {
			badKey = append(badKey, fmt.Sprintf("{%v,%v}: %v", k.els[0], k.els[1], e.v))
			continue
		}
		seen[[2]int64{a, b}] = true
		if a == b && v != 0 && len(badDiag) < 4 {
			badDiag = append(badDiag, fmt.Sprintf("{%d,%d}: %v", a, b, v))
		}
		if a != b && v != -1 && len(badOff) < 4 {
			badOff = append(badOff, fmt.Sprintf("{%d,%d}: %v", a, b, v))
		}
	}
	pos := c.pos(g.Pos())
	r.check(len(badKey) == 0 && len(seen) == 256*256, "T4", where, "coverage", pos,
		"the folded initialiser stores an entry for every one of the 65536 byte pairs",
		fmt.Sprintf("the folded initialiser stores %d of 65536 byte pairs (entries that are not constants: %v): pairs left out score 0 through the map's zero value or panic in Get", len(seen), badKey))
	r.check(len(badDiag) == 0, "T4", where, "diagonal", pos, "every {x,x} entry of the folded table is 0", fmt.Sprintf("diagonal entries other than 0: %v", badDiag))
	r.check(len(badOff) == 0, "T4", where, "off-diagonal", pos, "every {x,y} entry with x != y of the folded table is -1 (also every gap score)", fmt.Sprintf("off-diagonal entries other than -1: %v", badOff))
}

// ruleLevenshteinShape decides T4 from the shape of the initialiser: two full byte loops, the key made of their
// variables, 0 stored on the i == j edge and -1 on the other.
func ruleLevenshteinShape(c *Ctx, r *Report, g *ssa.Global, inits map[*ssa.Function]bool, where string) {
	type upd struct {
		mu *ssa.MapUpdate
		fn *ssa.Function
	}
	var ups []upd
	for f := range inits {
		instrs(f, func(in ssa.Instruction) {
			if mu, ok := in.(*ssa.MapUpdate); ok {
				if isLoadOf(mu.Map, g) {
					ups = append(ups, upd{mu, f})
				}
			}
		})
	}
	// updates made by a helper of the package that an initialiser hands the table to: fillRow(Levenshtein, i)
	paramArg := map[*ssa.Parameter]ssa.Value{}
	if len(ups) == 0 {
		for f := range inits {
			instrs(f, func(in ssa.Instruction) {
				cl, ok := in.(*ssa.Call)
				if !ok {
					return
				}
				h := cl.Call.StaticCallee()
				if h == nil || h.Blocks == nil || h.Pkg != f.Pkg || h == f || len(h.Params) != len(cl.Call.Args) {
					return
				}
				for k, a := range cl.Call.Args {
					if !isLoadOf(a, g) {
						continue
					}
					n := 0
					instrs(h, func(in2 ssa.Instruction) {
						if mu, ok := in2.(*ssa.MapUpdate); ok && mu.Map == ssa.Value(h.Params[k]) {
							ups = append(ups, upd{mu, h})
							n++
						}
					})
					if n > 0 {
						for k2, a2 := range cl.Call.Args {
							paramArg[h.Params[k2]] = a2
						}
					}
				}
			})
		}
	}
	if len(ups) == 0 {
		// built in a constructor stage and assigned whole: Levenshtein = newTable()
		for f := range inits {
			instrs(f, func(in ssa.Instruction) {
				st, ok := in.(*ssa.Store)
				if !ok || st.Addr != ssa.Value(g) {
					return
				}
				cl, ok := st.Val.(*ssa.Call)
				if !ok {
					return
				}
				ctor := cl.Call.StaticCallee()
				if ctor == nil || !inits[ctor] {
					return
				}
				// the constructor returns one map it made itself
				var mk ssa.Value
				okRet := true
				instrs(ctor, func(in2 ssa.Instruction) {
					if rt, ok := in2.(*ssa.Return); ok {
						ops := retOperands(rt)
						if len(ops) != 1 {
							okRet = false
							return
						}
						if _, isMk := ops[0].(*ssa.MakeMap); !isMk || (mk != nil && mk != ops[0]) {
							okRet = false
							return
						}
						mk = ops[0]
					}
				})
				if !okRet || mk == nil {
					return
				}
				instrs(ctor, func(in2 ssa.Instruction) {
					if mu, ok := in2.(*ssa.MapUpdate); ok && mu.Map == mk {
						ups = append(ups, upd{mu, ctor})
					}
				})
			})
		}
	}
	if len(ups) == 0 {
		r.undecided("T4", where, "init-shape", "", "no map update through Levenshtein found in an initialiser")
		return
	}
	sawEq, sawNe := false, false
	for _, u := range ups {
		pos := c.pos(u.mu.Pos())
		r.analysed(fname(u.fn))
		i, j, why := levKey(u.mu.Key)
		if why != "" {
			r.undecided("T4", where, "key-shape", pos, why)
			continue
		}
		// an index that is the helper's parameter stands for the caller's loop variable
		outerOf := func(v ssa.Value) ssa.Value {
			if p, ok := v.(*ssa.Parameter); ok {
				if a, ok := paramArg[p]; ok {
					return a
				}
			}
			return v
		}
		if why := fullByteLoop(outerOf(i)); why != "" {
			r.undecided("T4", where, "loop-shape", pos, "outer/inner index: "+why)
			continue
		}
		if why := fullByteLoop(outerOf(j)); why != "" {
			r.undecided("T4", where, "loop-shape", pos, "outer/inner index: "+why)
			continue
		}
		if outerOf(i) == outerOf(j) {
			r.violated("T4", where, "key", pos, "both key bytes come from the same loop variable: only the diagonal is populated")
			continue
		}
		val, ok := cFloat(constVal(u.mu.Value))
		if !ok {
			// one store of a value chosen by the comparison of the two indices: cost := 0; if i != j { cost = -1 }
			if phi, isPhi := u.mu.Value.(*ssa.Phi); isPhi {
				okPhi := true
				vals := map[string]float64{}
				for k, e := range phi.Edges {
					v, okc := cFloat(constVal(e))
					if !okc {
						okPhi = false
						break
					}
					p := phi.Block().Preds[k]
					rel := dominatingRelation(p, i, j)
					if rel == "" {
						// the edge comes straight from the comparison
						if iff, ok := lastInstr(p).(*ssa.If); ok {
							if bo, ok := iff.Cond.(*ssa.BinOp); ok && ((bo.X == i && bo.Y == j) || (bo.X == j && bo.Y == i)) && (bo.Op == token.EQL || bo.Op == token.NEQ) {
								onTrue := p.Succs[0] == phi.Block()
								if (bo.Op == token.EQL) == onTrue {
									rel = "eq"
								} else {
									rel = "ne"
								}
							}
						}
					}
					if rel == "" {
						okPhi = false
						break
					}
					if old, dup := vals[rel]; dup && old != v {
						okPhi = false
					}
					vals[rel] = v
				}
				if okPhi && len(vals) == 2 {
					sawEq, sawNe = true, true
					r.check(vals["eq"] == 0, "T4", where, "diagonal", pos, "value stored on the i == j edge is 0", fmt.Sprintf("value stored on the i == j edge is %v, want 0", vals["eq"]))
					r.check(vals["ne"] == -1, "T4", where, "off-diagonal", pos, "value stored on the i != j edge is -1 (also every gap score)", fmt.Sprintf("value stored on the i != j edge is %v, want -1", vals["ne"]))
					continue
				}
			}
			r.undecided("T4", where, "value", pos, "stored value is not a constant")
			continue
		}
		// which edge of `i ? j` dominates this update?
		rel := dominatingRelation(u.mu.Block(), i, j)
		switch rel {
		case "eq":
			sawEq = true
			r.check(val == 0, "T4", where, "diagonal", pos, "value stored on the i == j edge is 0", fmt.Sprintf("value stored on the i == j edge is %v, want 0", val))
		case "ne":
			sawNe = true
			r.check(val == -1, "T4", where, "off-diagonal", pos, "value stored on the i != j edge is -1 (also every gap score)", fmt.Sprintf("value stored on the i != j edge is %v, want -1", val))
		default:
			r.undecided("T4", where, "guard", pos, "map update is not guarded by a comparison of the two loop variables")
		}
	}
	if !(sawEq && sawNe) {
		r.undecided("T4", where, "coverage", "", fmt.Sprintf("diagonal store found: %v, off-diagonal store found: %v — every pair must be stored", sawEq, sawNe))
	}
}

// levKey: key must be a load of a local [2]byte whose elements are byte(i), byte(j).
func levKey(k ssa.Value) (i, j ssa.Value, why string) {
	ld, ok := k.(*ssa.UnOp)
	if !ok || ld.Op != token.MUL {
		return nil, nil, "key is not a load of a local array"
	}
	al, ok := ld.X.(*ssa.Alloc)
	if !ok {
		return nil, nil, "key is not built in a local array"
	}
	var el [2]ssa.Value
	for _, ref := range *al.Referrers() {
		ia, ok := ref.(*ssa.IndexAddr)
		if !ok {
			continue
		}
		n, ok := cInt(constVal(ia.Index))
		if !ok || n < 0 || n > 1 {
			return nil, nil, "key element index is not 0 or 1"
		}
		for _, r2 := range *ia.Referrers() {
			if st, ok := r2.(*ssa.Store); ok && st.Addr == ia {
				v := st.Val
				if cv, ok := v.(*ssa.Convert); ok {
					v = cv.X
				}
				el[n] = v
			}
		}
	}
	if el[0] == nil || el[1] == nil {
		return nil, nil, "key elements not found"
	}
	return el[0], el[1], ""
}

// fullByteLoop: v takes exactly the values 0..255, once each: the variable of `for v := 0; v < 256; v++`
// or of `for v := range 256`.
func fullByteLoop(v ssa.Value) string {
	phi := loopPhiOf(v)
	if phi == nil {
		return "index is not a loop variable"
	}
	l, why := findCountedLoopAny(phi, v)
	if why != "" {
		return why
	}
	if k, ok := cInt(constVal(l.bound)); !ok || k != 256 {
		return "loop bound is not `< 256`"
	}
	// no other way out of the loop than its bound test
	nl := naturalLoop(phi.Block())
	isGuard := map[*ssa.BasicBlock]bool{phi.Block(): true}
	for _, g := range l.guards {
		isGuard[g] = true
	}
	for blk := range nl {
		for _, su := range blk.Succs {
			if !nl[su] && !isGuard[blk] {
				return "the loop has an exit other than its bound test"
			}
		}
	}
	return ""
}

// dominatingRelation reports whether blk is only reachable through the equal ("eq") or unequal ("ne") edge of a comparison of i and j.
func dominatingRelation(blk *ssa.BasicBlock, i, j ssa.Value) string {
	for b := blk; b != nil; b = b.Idom() {
		idom := b.Idom()
		if idom == nil {
			break
		}
		iff, ok := idom.Instrs[len(idom.Instrs)-1].(*ssa.If)
		if !ok {
			continue
		}
		bo, ok := iff.Cond.(*ssa.BinOp)
		if !ok || !((bo.X == i && bo.Y == j) || (bo.X == j && bo.Y == i)) {
			continue
		}
		if bo.Op != token.EQL && bo.Op != token.NEQ {
			continue
		}
		// b must be reached only via one successor edge
		onTrue := idom.Succs[0] == b && len(b.Preds) == 1
		onFalse := idom.Succs[1] == b && len(b.Preds) == 1
		if !onTrue && !onFalse {
			continue
		}
		eq := (bo.Op == token.EQL) == onTrue
		if eq {
			return "eq"
		}
		return "ne"
	}
	return ""
}

var _ = constant.MakeInt64
