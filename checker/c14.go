package main

import (
	"fmt"
	"go/constant"
	"go/token"
	"go/types"
	"sort"
	"strings"

	"golang.org/x/tools/go/ssa"
)

func init() {
	register("C14", "one obligation per table clause (all 64 codons / 24 letters), per accept-set computation (all 256 bytes per codon position, all 256 bytes of AminoName), per guarded slice; non-trivial = needed constant evaluation of a literal, a 256-point transfer function, or a linear-inequality proof", rulesC14, nil)
}

// NCBI transl_table=1, codons in TCAG order (the checker's oracle).
const ncbiTable1 = "FFLLSSSSYY**CC*WLLLLPPPPHHQQRRRRIIIMTTTTNNKKSSRRVVVVAAAADDEEGGGG"

func rulesC14(c *Ctx, r *Report) {
	r.explain("Decides: (T-CODON) the 64-entry codon table equals NCBI translation table 1 for every codon and no value is 0, nothing else writes it; (VSA-TR) Translate folds each codon byte by a transfer function T computed over all 256 bytes, the accepted codons are exactly T^-1(x) x T^-1(y) x T^-1(z) for table keys xyz, i.e. every mix of upper/lower case of ACGT and nothing else, with the panic on the `== 0` edge and the length panic dominating the loop; one table value is appended per codon, codons are src[i:i+3] for i = 0,3,6..; (T-AMINO/VSA-AN) aminoToName's keys are exactly the bytes of AminoAcids with non-empty names, and AminoName accepts exactly those letters in either case (256-point transfer function) and panics otherwise; (GRD) every slice in TranslateReadingFrames is within bounds for every length; frame i is Translate(nil, seq[min(i,len):] cut to a multiple of 3); (APPEND-ONLY) Translate only appends to dst and never writes src. Not decided: the concatenation law as an equality. Added: the len % 3 guard dominates every return (a return taken only for empty input excused); every byte appended is the value just looked up for the current codon; the case fold may live in a helper (by pointer or by value). (VSA-TR, extended) whether the case-fold loop runs does not depend on bytes of the codon buffer (exact path condition of the loop header): a fast path that inspects only some positions leaves codons with lower case elsewhere unfolded. (TR-PANICS) every path to an explicit panic of Translate takes the `len(src) % 3 != 0` edge or the table-miss edge. TranslateReadingFrames has no explicit panic of its own.")
	r.assume("the NCBI table-1 string embedded in the checker is the standard genetic code")
	funcs := c.moduleFuncs()
	p := c.pkg("sequtil")
	if p == nil {
		r.undecided("T-CODON", "sequtil", "anchor", "", "package not found")
		return
	}
	// ---- T-CODON
	where := "sequtil.codonToAmino"
	g := c.tableIn(c.fn("sequtil", "Translate"), 1)
	var t *litTable
	if g != nil {
		t = findLitTable(p, g.Name())
	}
	codon := map[[3]int64]int64{}
	if t == nil || g == nil || t.err != "" {
		why := "variable not found"
		if t != nil {
			why = t.err
		}
		r.undecided("T-CODON", where, "literal", "", why)
	} else {
		pos := c.pos(t.lit.Pos())
		r.check(t.nAssign == 1, "T0", where, "single-assignment", pos, "assigned once, from a literal", fmt.Sprintf("assigned %d times", t.nAssign))
		for _, e := range t.entries {
			if len(e.key) == 3 && len(e.val) == 1 {
				k0, _ := cInt(e.key[0])
				k1, _ := cInt(e.key[1])
				k2, _ := cInt(e.key[2])
				v, _ := cInt(e.val[0])
				codon[[3]int64{k0, k1, k2}] = v
			}
		}
		var bad []string
		order := "TCAG"
		for i := 0; i < 64; i++ {
			key := [3]int64{int64(order[i/16]), int64(order[i/4%4]), int64(order[i%4])}
			want := int64(ncbiTable1[i])
			got, ok := codon[key]
			if !ok || got != want {
				bad = append(bad, fmt.Sprintf("%c%c%c=%s want %c", key[0], key[1], key[2], byteStr(int(got)), want))
			}
		}
		r.check(len(bad) == 0 && len(codon) == 64 && len(t.entries) == 64, "T-CODON", where, "NCBI table 1", pos,
			"all 64 codons map to the amino acid of the standard genetic code; exactly 64 keys, all over ACGT",
			fmt.Sprintf("%d codons differ from the standard code or keys outside ACGT^3 exist (%d keys): %s", len(bad), len(codon), strings.Join(bad[:min(6, len(bad))], "; ")))
		c.ruleWhoMayWrite(r, "T-WMW", g, "sequtil", c.initFuncsOf("sequtil"), funcs)
	}
	r.Extra["codons_checked"] = 64
	rulesTranslate(c, r, g, codon)
	rulesTranslatePanics(c, r)

	// ---- T-AMINO + VSA-AN
	where = "sequtil.aminoToName"
	ag := c.tableIn(c.fn("sequtil", "AminoName"), 1)
	var at *litTable
	if ag != nil {
		at = findLitTable(p, ag.Name())
	}
	aaConst, _ := p.Types.Scope().Lookup("AminoAcids").(*types.Const)
	if at == nil || ag == nil || at.err != "" || aaConst == nil {
		r.undecided("T-AMINO", where, "literal", "", "aminoToName literal or AminoAcids constant not found")
		return
	}
	letters := constant.StringVal(aaConst.Val())
	keys := map[int64]bool{}
	emptyName := []string{}
	for _, e := range at.entries {
		k, _ := cInt(e.key[0])
		keys[k] = true
		for _, v := range e.val {
			if v.Kind() != constant.String || constant.StringVal(v) == "" {
				emptyName = append(emptyName, byteStr(int(k)))
			}
		}
		if len(e.val) != 2 {
			emptyName = append(emptyName, byteStr(int(k)))
		}
	}
	var ks []string
	for k := range keys {
		ks = append(ks, string(rune(k)))
	}
	sort.Strings(ks)
	ls := strings.Split(letters, "")
	sort.Strings(ls)
	pos := c.pos(at.lit.Pos())
	r.check(strings.Join(ks, "") == strings.Join(ls, ""), "T-AMINO", where, "keys = AminoAcids", pos,
		fmt.Sprintf("the %d keys are exactly the letters of AminoAcids %q", len(keys), letters),
		fmt.Sprintf("keys %q differ from AminoAcids %q: AminoName accepts a letter that is not listed, or rejects a listed one", strings.Join(ks, ""), strings.Join(ls, "")))
	r.check(len(emptyName) == 0 && at.nAssign == 1, "T-AMINO", where, "names non-empty", pos, "every key has a non-empty code and name; assigned once", fmt.Sprintf("empty code/name for %v (assignments: %d)", emptyName, at.nAssign))
	c.ruleWhoMayWrite(r, "T-WMW", ag, "sequtil", c.initFuncsOf("sequtil"), funcs)
	an := c.fn("sequtil", "AminoName")
	if an == nil || len(an.Params) != 1 {
		r.undecided("VSA-AN", "sequtil.AminoName", "anchor", "", "function not found")
	} else {
		r.analysed(fname(an))
		a := newFuncVSA(c, an, byteDomain())
		a.mapKeys[ag] = keys
		// the parameter's own cell, when its address is taken (case fold through a pointer helper)
		instrs(an, func(in ssa.Instruction) {
			if al, ok := in.(*ssa.Alloc); ok && cellValue(al) == ssa.Value(an.Params[0]) {
				cellAl := al
				a.isCell = func(addr ssa.Value) bool { return addr == ssa.Value(cellAl) }
			}
		})
		a.run()
		if a.err != "" {
			r.undecided("VSA-AN", fname(an), "transfer function", c.pos(an.Pos()), a.err)
		} else {
			var wrongAcc, wrongRej []string
			for k, e := range a.exits {
				want := strings.ContainsRune(letters, rune(k)) || (k >= 'a' && k <= 'z' && strings.ContainsRune(letters, rune(k-32)))
				if e.kind == "return" && !want {
					wrongAcc = append(wrongAcc, byteStr(k))
				}
				if e.kind == "panic" && want {
					wrongRej = append(wrongRej, byteStr(k))
				}
			}
			r.check(len(wrongAcc) == 0 && len(wrongRej) == 0, "VSA-AN", fname(an), "accept set", c.pos(an.Pos()),
				"over all 256 bytes AminoName returns exactly for the letters of AminoAcids in either case and panics otherwise",
				fmt.Sprintf("accepted but not listed: %v; listed but rejected: %v", wrongAcc, wrongRej))
		}
	}
	rulesReadingFrames(c, r)
	rulesGrdFuncs(c, r, []*ssa.Function{c.fn("sequtil", "TranslateReadingFrames"), c.fn("sequtil", "Translate")}, 8, "bounds goals in TranslateReadingFrames (seq[min(i,len):], sub[:len/3*3]) and Translate (src[i:i+3], buf[j])")
	rulesEffC14(c, r)
}

// panicsUnlessMultipleOf3: every return of g lies behind a test `P<k> % 3 != 0` whose failing edge always panics.
func panicsUnlessMultipleOf3(g *ssa.Function, k int) bool {
	gs := newSymb(g)
	want := fmt.Sprintf("(P%d %% 3)", k)
	for _, b := range g.Blocks {
		iff, ok := b.Instrs[len(b.Instrs)-1].(*ssa.If)
		if !ok {
			continue
		}
		bo, ok := iff.Cond.(*ssa.BinOp)
		if !ok || (bo.Op != token.NEQ && bo.Op != token.EQL) {
			continue
		}
		other := bo.X
		if z, ok := cInt(constVal(bo.Y)); !ok || z != 0 {
			other = bo.Y
			if z, ok := cInt(constVal(bo.X)); !ok || z != 0 {
				continue
			}
		}
		if gs.expr(other).String() != want {
			continue
		}
		bad := b.Succs[0]
		if bo.Op == token.EQL {
			bad = b.Succs[1]
		}
		if !blockAlwaysPanics(bad) {
			continue
		}
		all := true
		for _, rb := range g.Blocks {
			if _, isRet := rb.Instrs[len(rb.Instrs)-1].(*ssa.Return); isRet && !b.Dominates(rb) {
				all = false
			}
		}
		if all {
			return true
		}
	}
	return false
}

// rulesTranslate: VSA-TR.
func rulesTranslate(c *Ctx, r *Report, g *ssa.Global, codon map[[3]int64]int64) {
	f := c.fn("sequtil", "Translate")
	where := "sequtil.Translate"
	if f == nil || g == nil {
		r.undecided("VSA-TR", where, "anchor", "", "function not found")
		return
	}
	r.analysed(where)
	s := newSymb(f)
	// the lookup codonToAmino[*buf]
	var lk *ssa.Lookup
	instrs(f, func(in ssa.Instruction) {
		if l, ok := in.(*ssa.Lookup); ok {
			if gg, ok := loadedGlobal(l.X); ok && gg == g {
				lk = l
			}
		}
	})
	// the lookup (and the panic on a miss) in a helper that receives the codon by value
	var lkSite ssa.Instruction // where, in Translate, the lookup happens
	var lkVal ssa.Value        // the looked-up letter as Translate sees it
	var buf *ssa.Alloc
	if lk == nil {
		instrs(f, func(in ssa.Instruction) {
			cl, ok := in.(*ssa.Call)
			if !ok || lk != nil {
				return
			}
			h := cl.Call.StaticCallee()
			if h == nil || h.Blocks == nil || !c.inModule(h) {
				return
			}
			for i, a := range cl.Call.Args {
				ld, ok := a.(*ssa.UnOp)
				if !ok || ld.Op != token.MUL || i >= len(h.Params) {
					continue
				}
				al, ok := ld.X.(*ssa.Alloc)
				if !ok {
					continue
				}
				// the helper's spilled copy of that parameter is the lookup key
				var found *ssa.Lookup
				instrs(h, func(in2 ssa.Instruction) {
					if l, ok := in2.(*ssa.Lookup); ok {
						if gg, ok := loadedGlobal(l.X); ok && gg == g {
							if kl, ok := l.Index.(*ssa.UnOp); ok && kl.Op == token.MUL {
								if cell, ok := kl.X.(*ssa.Alloc); ok && cellValue(cell) == ssa.Value(h.Params[i]) {
									found = l
								}
							} else if l.Index == ssa.Value(h.Params[i]) {
								found = l
							}
						}
					}
				})
				if found == nil {
					continue
				}
				// every return of the helper hands back the looked-up value
				okRet := true
				instrs(h, func(in2 ssa.Instruction) {
					if rt, ok := in2.(*ssa.Return); ok {
						if ops := retOperands(rt); len(ops) != 1 || ops[0] != ssa.Value(found) {
							okRet = false
						}
					}
				})
				if okRet {
					lk, buf, lkSite, lkVal = found, al, cl, cl
					r.analysed(fname(h))
				}
			}
		})
	}
	if lk == nil {
		r.undecided("VSA-TR", where, "lookup", c.pos(f.Pos()), "no lookup in codonToAmino found")
		return
	}
	var keyFn *ssa.Function // the helper that builds the key from the codon's slice, if there is one
	var keyArg ssa.Value    // what Translate passes it
	if lkSite == nil {
		lkSite, lkVal = lk, lk
		keyLd, _ := lk.Index.(*ssa.UnOp)
		if keyLd != nil && keyLd.Op == token.MUL {
			buf, _ = keyLd.X.(*ssa.Alloc)
		}
		// the key built by a helper of the module from the codon's bytes: codonToAmino[key(src[i:i+3])] — the helper
		// fills a local 3-byte array from its parameter and every return hands back that array
		if cl, ok := lk.Index.(*ssa.Call); ok && buf == nil && len(cl.Call.Args) == 1 {
			if h := cl.Call.StaticCallee(); h != nil && h.Blocks != nil && c.inModule(h) && len(h.Params) == 1 {
				var cell *ssa.Alloc
				okRet := true
				instrs(h, func(in ssa.Instruction) {
					rt, ok := in.(*ssa.Return)
					if !ok {
						return
					}
					ops := retOperands(rt)
					if len(ops) != 1 {
						okRet = false
						return
					}
					ld, ok := ops[0].(*ssa.UnOp)
					if !ok || ld.Op != token.MUL {
						okRet = false
						return
					}
					al, ok := ld.X.(*ssa.Alloc)
					if !ok || (cell != nil && cell != al) {
						okRet = false
						return
					}
					cell = al
				})
				if okRet && cell != nil {
					buf, keyFn, keyArg = cell, h, cl.Call.Args[0]
					r.analysed(fname(h))
				}
			}
		}
	}
	if buf == nil {
		r.undecided("VSA-TR", where, "key", c.pos(lk.Pos()), "lookup key is not a local 3-byte buffer")
		return
	}
	// the buffer is filled by copy(buf[:], src[i:i+3])
	var cp *ssa.Call
	var storesToBuf []*ssa.Store
	for _, ref := range *buf.Referrers() {
		switch x := ref.(type) {
		case *ssa.Slice:
			for _, r2 := range *x.Referrers() {
				if cl, ok := r2.(*ssa.Call); ok {
					if b, ok := cl.Call.Value.(*ssa.Builtin); ok && b.Name() == "copy" && cl.Call.Args[0] == ssa.Value(x) {
						cp = cl
					}
				}
			}
		case *ssa.IndexAddr:
			for _, r2 := range *x.Referrers() {
				if st, ok := r2.(*ssa.Store); ok && st.Addr == ssa.Value(x) {
					storesToBuf = append(storesToBuf, st)
				}
			}
		}
	}
	if cp == nil {
		r.undecided("VSA-TR", where, "codon source", c.pos(buf.Pos()), "the codon buffer is not filled by copy(buf[:], src[i:i+3])")
		return
	}
	srcSl, _ := cp.Call.Args[1].(*ssa.Slice)
	if keyFn != nil && cp.Call.Args[1] == ssa.Value(keyFn.Params[0]) {
		srcSl, _ = keyArg.(*ssa.Slice)
	}
	okSrc := false
	var iphi *ssa.Phi
	codonCounter := false // the loop counts codons (c = 0, 1, … < len(src)/3) and the position is 3*c
	if srcSl != nil && s.expr(srcSl.X).String() == "P1" && srcSl.Low != nil && srcSl.High != nil {
		iphi, _ = srcSl.Low.(*ssa.Phi)
		d := linSub(linOf(s.expr(srcSl.High)), linOf(s.expr(srcSl.Low))).String()
		if iphi == nil {
			if mul, ok := srcSl.Low.(*ssa.BinOp); ok && mul.Op == token.MUL {
				for _, pr := range [][2]ssa.Value{{mul.X, mul.Y}, {mul.Y, mul.X}} {
					if ph, ok := pr[0].(*ssa.Phi); ok {
						if k, ok := cInt(constVal(pr[1])); ok && k == 3 {
							iphi, codonCounter = ph, true
						}
					}
				}
			}
		}
		okSrc = d == "3" && iphi != nil
	}
	if !r.check(okSrc, "VSA-TR", where, "codon source", c.pos(cp.Pos()), "each codon is src[i : i+3]", "the codon buffer is not filled from src[i : i+3]") {
		return
	}
	if codonCounter {
		// c = 0, 1, 2, … while c < len(src)/3, position 3*c: the same codons, while a whole codon fits
		l, why := findCountedLoop(iphi)
		bound := "?"
		if why == "" {
			bound = s.expr(l.bound).String()
		}
		r.check(why == "" && bound == "(builtin:len(P1) / 3)", "VSA-TR", where, "codon loop", c.pos(iphi.Pos()), "codon number c = 0, 1, 2, … while c < len(src)/3, read at position 3c: every codon once, in order", "codon loop is not a count of codons from 0 below len(src)/3 ("+why+", bound "+bound+")")
	}
	// i runs 0,3,6,.. < len(src)
	okLoop := false
	for _, e := range iphi.Edges {
		if b, ok := e.(*ssa.BinOp); ok && b.Op == token.ADD && b.X == ssa.Value(iphi) {
			if k, ok := cInt(constVal(b.Y)); ok && k == 3 {
				okLoop = true
			}
		}
	}
	bound := ""
	for _, ref := range *iphi.Referrers() {
		if b, ok := ref.(*ssa.BinOp); ok && b.Op == token.LSS && b.X == ssa.Value(iphi) && b.Block() == iphi.Block() {
			bound = s.expr(b.Y).String()
		}
	}
	if !codonCounter {
		r.check(okLoop && bound == "builtin:len(P1)", "VSA-TR", where, "codon loop", c.pos(iphi.Pos()), "i = 0, 3, 6, … while i < len(src): every codon once, in order", "codon loop is not `for i := 0; i < len(src); i += 3` (step ok: "+fmt.Sprint(okLoop)+", bound "+bound+")")
	}
	// length guard: len(src)%3 != 0 => panic, dominating the loop
	okLen := false
	var guardBlk *ssa.BasicBlock
	for _, b := range f.Blocks {
		iff, ok := b.Instrs[len(b.Instrs)-1].(*ssa.If)
		if !ok {
			continue
		}
		bo, ok := iff.Cond.(*ssa.BinOp)
		if !ok || (bo.Op != token.NEQ && bo.Op != token.EQL) {
			continue
		}
		other := bo.X
		if k, ok := cInt(constVal(bo.Y)); !ok || k != 0 {
			other = bo.Y
			if k, ok := cInt(constVal(bo.X)); !ok || k != 0 {
				continue
			}
		}
		if s.expr(other).String() != "(builtin:len(P1) % 3)" {
			continue
		}
		bad := b.Succs[0]
		if bo.Op == token.EQL {
			bad = b.Succs[1]
		}
		if blockAlwaysPanics(bad) && b.Dominates(iphi.Block()) {
			okLen = true
			guardBlk = b
		}
	}
	if !okLen {
		// the guard may be a helper that is handed len(src) and panics unless it is a multiple of 3
		for _, b := range f.Blocks {
			if !b.Dominates(iphi.Block()) || b == iphi.Block() {
				continue
			}
			for _, in := range b.Instrs {
				call, ok := in.(*ssa.Call)
				if !ok {
					continue
				}
				g := call.Call.StaticCallee()
				if g == nil || g.Blocks == nil || !c.inScope(g) {
					continue
				}
				for k, a := range call.Call.Args {
					if s.expr(a).String() == "builtin:len(P1)" && k < len(g.Params) && panicsUnlessMultipleOf3(g, k) {
						okLen = true
						guardBlk = b
					}
				}
			}
		}
	}
	r.check(okLen, "VSA-TR", where, "length guard", c.pos(f.Pos()), "`len(src) % 3 != 0` panics before the first codon is read", "no dominating `len(src) % 3 != 0 => panic` guard")
	if guardBlk != nil {
		// no return escapes the guard, except one taken only for empty input (a multiple of 3)
		var early []string
		for _, rt := range returnsNotBehind(f, guardBlk) {
			if !dominatedByLenZero(rt.Block(), s, "builtin:len(P1)") {
				early = append(early, c.pos(rt.Pos()))
			}
		}
		r.check(len(early) == 0, "VSA-TR", where, "length guard before every return", c.pos(f.Pos()),
			"every return lies behind the length guard (or is taken for empty input only): no length that is not a multiple of 3 is accepted silently",
			fmt.Sprintf("return(s) at %v are reachable without passing the `len(src) %% 3` guard: some lengths not divisible by 3 return normally instead of panicking", early))
	}
	// element fold: all stores into buf[j] are in the element loop (here or in a helper that receives &buf);
	// compute T over 256 bytes
	foldFn, foldBuf := f, ssa.Value(buf)
	if keyFn != nil {
		foldFn = keyFn
		// the copy comes first in the helper: what is folded is the codon's bytes
		for _, st := range storesToBuf {
			if !instrDominates(cp, st) {
				r.violated("VSA-TR", where, "codon source", c.pos(st.Pos()), "the key helper stores into the key before it is filled from the codon")
				return
			}
		}
	}
	if len(storesToBuf) == 0 {
		for _, ref := range *buf.Referrers() {
			if cl, ok := ref.(*ssa.Call); ok {
				if g := cl.Call.StaticCallee(); g != nil && g.Blocks != nil && c.inModule(g) {
					for i, a := range cl.Call.Args {
						if a == ssa.Value(buf) && i < len(g.Params) && instrDominates(cl, lkSite) && instrDominates(cp, cl) {
							foldFn, foldBuf = g, g.Params[i]
							r.analysed(fname(g))
						}
					}
				}
			}
		}
	}
	if len(storesToBuf) == 0 && foldFn == f {
		// by-value form: buf = helper(buf) — the whole array is loaded, passed, and the result stored back
		for _, ref := range *buf.Referrers() {
			st, ok := ref.(*ssa.Store)
			if !ok || st.Addr != ssa.Value(buf) {
				continue
			}
			cl, ok := st.Val.(*ssa.Call)
			if !ok || !instrDominates(cp, cl) || !instrDominates(st, lkSite) {
				continue
			}
			g := cl.Call.StaticCallee()
			if g == nil || g.Blocks == nil || !c.inModule(g) || len(cl.Call.Args) != 1 || len(g.Params) != 1 {
				continue
			}
			ld, ok := cl.Call.Args[0].(*ssa.UnOp)
			if !ok || ld.Op != token.MUL || ld.X != ssa.Value(buf) {
				continue
			}
			// in the helper the parameter is spilled to a local array, modified in place, and returned whole
			var cell *ssa.Alloc
			for _, r2 := range *g.Params[0].Referrers() {
				if sp, ok := r2.(*ssa.Store); ok && sp.Val == ssa.Value(g.Params[0]) {
					cell, _ = sp.Addr.(*ssa.Alloc)
				}
			}
			retOK := cell != nil
			instrs(g, func(in ssa.Instruction) {
				if rt, ok := in.(*ssa.Return); ok {
					ops := retOperands(rt)
					if len(ops) != 1 {
						retOK = false
						return
					}
					if rl, ok := ops[0].(*ssa.UnOp); !ok || rl.Op != token.MUL || rl.X != ssa.Value(cell) {
						retOK = false
					}
				}
			})
			if retOK {
				foldFn, foldBuf = g, cell
				r.analysed(fname(g))
			}
		}
	}
	T, foldPos, why, undec := codonFoldTable(c, foldFn, foldBuf)
	if why != "" {
		if undec {
			r.undecided("VSA-TR", where, "case fold", foldPos, why)
		} else {
			r.violated("VSA-TR", where, "element loop", foldPos, why)
		}
		return
	}
	r.holds("VSA-TR", where, "element loop", foldPos, "the case fold visits buf[0], buf[1], buf[2]")
	inputLdPos := foldPos
	// accept set: preimages
	pre := map[int64][]int{}
	for x, y := range T {
		pre[y] = append(pre[y], x)
	}
	var bad []string
	for _, base := range "ACGT" {
		want := []int{int(base), int(base) + 32}
		got := pre[int64(base)]
		sort.Ints(got)
		if fmt.Sprint(got) != fmt.Sprint(want) {
			var gs []string
			for _, x := range got {
				gs = append(gs, byteStr(x))
			}
			bad = append(bad, fmt.Sprintf("bytes folded onto %c: %s", base, strings.Join(gs, " ")))
		}
	}
	// keys of the table must be over ACGT only (checked in T-CODON); any key byte outside would add accepted bytes
	r.check(len(bad) == 0, "VSA-TR", where, "accept set", inputLdPos,
		"over all 256 bytes, exactly x and lower(x) fold onto each of A, C, G, T: a codon is accepted iff every byte is in aAcCgGtT, and it is looked up in upper case",
		"the case fold maps other bytes onto a base (they are translated instead of panicking), or loses a case variant: "+strings.Join(bad, "; "))
	// zero => panic, non-zero => append that value
	okPanic, okAppend := false, false
	for _, ref := range *lk.Referrers() {
		if b, ok := ref.(*ssa.BinOp); ok && (b.Op == token.EQL || b.Op == token.NEQ) {
			if k, ok := cInt(constVal(b.Y)); ok && k == 0 {
				if iff, ok := b.Block().Instrs[len(b.Block().Instrs)-1].(*ssa.If); ok && iff.Cond == ssa.Value(b) {
					z := b.Block().Succs[0]
					if b.Op == token.NEQ {
						z = b.Block().Succs[1]
					}
					okPanic = blockAlwaysPanics(z)
				}
			}
		}
	}
	var otherAppends []string
	instrs(f, func(in ssa.Instruction) {
		if cl, ok := in.(*ssa.Call); ok {
			if b, ok := cl.Call.Value.(*ssa.Builtin); ok && b.Name() == "append" {
				if et, isSl := cl.Type().Underlying().(*types.Slice); !isSl || !types.Identical(et.Elem(), types.Typ[types.Byte]) {
					return
				}
				isLk := false
				if sl, ok := cl.Call.Args[1].(*ssa.Slice); ok {
					if al, ok := sl.X.(*ssa.Alloc); ok {
						n, nLk := 0, 0
						for _, ref := range *al.Referrers() {
							if ia, ok := ref.(*ssa.IndexAddr); ok {
								for _, r2 := range *ia.Referrers() {
									if st, ok := r2.(*ssa.Store); ok {
										n++
										if st.Val == lkVal {
											nLk++
										}
									}
								}
							}
						}
						isLk = n == 1 && nLk == 1
					}
				}
				if isLk {
					okAppend = true
				} else {
					otherAppends = append(otherAppends, c.pos(cl.Pos()))
				}
			}
		}
	})
	if len(otherAppends) > 0 {
		okAppend = false
	}
	r.check(okPanic, "VSA-TR", where, "miss panics", c.pos(lk.Pos()), "a codon missing from the table (value 0) always panics", "a table miss does not always panic")
	r.check(okAppend, "VSA-TR", where, "one letter per codon", c.pos(lk.Pos()), "every append of a byte is the amino acid just looked up for the current codon", fmt.Sprintf("a byte appended to the result is not the table value looked up for the current codon (other appends at %v): a result can be produced without the lookup that rejects bad codons", otherAppends))
}

func loopPhiOf(idx ssa.Value) *ssa.Phi {
	if p, ok := idx.(*ssa.Phi); ok {
		return p
	}
	if b, ok := idx.(*ssa.BinOp); ok && b.Op == token.ADD {
		if p, ok := b.X.(*ssa.Phi); ok {
			return p
		}
	}
	return nil
}

// findCountedLoopAny handles both `for j := 0; j < N; j++` (idx = phi) and `for j := range N`
// in go/ssa's rangeindex form (phi = [-1, idx], idx = phi+1, test idx < N).
func findCountedLoopAny(phi *ssa.Phi, idx ssa.Value) (*countedLoop, string) {
	if idx == ssa.Value(phi) {
		return findCountedLoop(phi)
	}
	okInit, okBack := false, false
	for _, e := range phi.Edges {
		if k, ok := cInt(constVal(e)); ok && k == -1 {
			okInit = true
		} else if e == idx {
			okBack = true
		} else {
			return nil, "not a simple loop"
		}
	}
	b, ok := idx.(*ssa.BinOp)
	if !okInit || !okBack || !ok || b.Op != token.ADD {
		return nil, "not a range-index loop"
	}
	if k, ok := cInt(constVal(b.Y)); !ok || k != 1 {
		return nil, "not a range-index loop"
	}
	for _, ref := range *idx.Referrers() {
		if cmp, ok := ref.(*ssa.BinOp); ok && cmp.Op == token.LSS && cmp.X == idx && cmp.Block() == phi.Block() {
			return &countedLoop{phi: phi, bound: cmp.Y, guards: []*ssa.BasicBlock{phi.Block()}}, ""
		}
	}
	return nil, "no bound test"
}

// naturalLoop returns the blocks of the natural loop(s) with the given header.
func naturalLoop(header *ssa.BasicBlock) map[*ssa.BasicBlock]bool {
	loop := map[*ssa.BasicBlock]bool{header: true}
	var stack []*ssa.BasicBlock
	for _, p := range header.Preds {
		if header.Dominates(p) && !loop[p] {
			loop[p] = true
			stack = append(stack, p)
		}
	}
	for len(stack) > 0 {
		b := stack[len(stack)-1]
		stack = stack[:len(stack)-1]
		for _, p := range b.Preds {
			if !loop[p] {
				loop[p] = true
				stack = append(stack, p)
			}
		}
	}
	return loop
}

// rulesReadingFrames (RF): every frame 0,1,2 is produced, from seq[min(i,len):] cut to a multiple of 3.
func rulesReadingFrames(c *Ctx, r *Report) {
	f := c.fn("sequtil", "TranslateReadingFrames")
	tr := c.fn("sequtil", "Translate")
	where := "sequtil.TranslateReadingFrames"
	if f == nil || tr == nil {
		r.undecided("RF", where, "anchor", "", "function not found")
		return
	}
	r.analysed(where)
	s := newSymb(f)
	calls := staticCallsTo(f, tr)
	if len(calls) != 1 {
		r.undecided("RF", where, "Translate call", c.pos(f.Pos()), fmt.Sprintf("expected one Translate call, found %d", len(calls)))
		return
	}
	call := calls[0]
	// result[i] = call
	var st *ssa.Store
	for _, ref := range *call.Referrers() {
		if x, ok := ref.(*ssa.Store); ok && x.Val == ssa.Value(call) {
			st = x
		}
	}
	var iphi *ssa.Phi
	var idxV ssa.Value
	if st != nil {
		if ia, ok := st.Addr.(*ssa.IndexAddr); ok {
			idxV = ia.Index
			iphi = loopPhiOf(idxV)
		}
	}
	if iphi == nil {
		r.undecided("RF", where, "frame store", c.pos(call.Pos()), "the translation is not stored into result[i] for a loop variable i")
		return
	}
	loop, why := findCountedLoopAny(iphi, idxV)
	if why != "" {
		r.undecided("RF", where, "frame loop", c.pos(iphi.Pos()), why)
		return
	}
	k, _ := cInt(constVal(loop.bound))
	okBound := k == 3
	// the loop's only normal exit is the bound test; every iteration reaches the store
	nl := naturalLoop(iphi.Block())
	var otherExit string
	hasOtherExit := false
	for b := range nl {
		for _, sc := range b.Succs {
			if nl[sc] {
				continue
			}
			isGuard := false
			for _, g := range loop.guards {
				if g == b {
					isGuard = true
				}
			}
			if !isGuard && !blockAlwaysPanics(sc) {
				hasOtherExit = true
				otherExit = "block " + b.Comment
				for _, in := range b.Instrs {
					if in.Pos().IsValid() {
						otherExit = c.pos(in.Pos())
					}
				}
			}
		}
	}
	skips := false
	{
		seen := map[*ssa.BasicBlock]bool{}
		var dfs func(b *ssa.BasicBlock)
		dfs = func(b *ssa.BasicBlock) {
			if seen[b] || b == st.Block() || !nl[b] {
				return
			}
			seen[b] = true
			for _, sc := range b.Succs {
				if sc == iphi.Block() {
					skips = true
				}
				dfs(sc)
			}
		}
		for _, sc := range iphi.Block().Succs {
			if nl[sc] {
				dfs(sc)
			}
		}
	}
	r.check(okBound && !hasOtherExit && !skips, "RF-ALL", where, "all three frames", c.pos(iphi.Pos()),
		"i runs over 0,1,2 with no other exit, and every iteration stores Translate(...) into result[i]",
		fmt.Sprintf("not every frame is produced for every input: bound=3:%v, extra loop exit at %q, iteration may skip the store: %v", okBound, otherExit, skips))
	// dst is nil
	d := call.Call.Args[0]
	cst, isC := d.(*ssa.Const)
	r.check(isC && cst.IsNil(), "RF-SUB", where, "fresh dst", c.pos(call.Pos()), "each frame is translated into a fresh (nil) destination", "frames are appended to "+s.expr(d).String())
	// sub = seq[lo:][:len/3*3]
	arg := s.expr(call.Call.Args[1])
	i := s.expr(idxV).String()
	okShape := false
	lo := ""
	if arg.Op == "slice" && arg.Args[0].Op == "slice" && arg.Args[0].Args[0].String() == "P0" && arg.Args[0].Args[2].String() == "_" && arg.Args[1].String() == "_" {
		lo = arg.Args[0].Args[1].String()
		inner := arg.Args[0].String()
		hi := arg.Args[2].String()
		okShape = hi == "(3 * (builtin:len("+inner+") / 3))" || hi == "((builtin:len("+inner+") / 3) * 3)"
	}
	if !okShape {
		r.undecided("RF-SUB", where, "frame slice", c.pos(call.Pos()), "the translated slice is not seq[lo:][:len/3*3]: "+arg.String())
		return
	}
	okLo := lo == "builtin:min("+i+", builtin:len(P0))" || lo == "builtin:min(builtin:len(P0), "+i+")"
	if okLo {
		r.holds("RF-SUB", where, "frame slice", c.pos(call.Pos()), "frame i is seq[min(i, len(seq)):] cut to a multiple of 3: the first i bases dropped (all of them if there are fewer)")
	} else if lo == i {
		// plain seq[i:]: fine iff the slice is guarded — that is E-GRD's obligation below
		r.holds("RF-SUB", where, "frame slice", c.pos(call.Pos()), "frame i is seq[i:] cut to a multiple of 3 (bounds decided by the GRD rule)")
	} else {
		r.violated("RF-SUB", where, "frame slice", c.pos(call.Pos()), "frame i starts at "+lo+", want i (clamped to len(seq))")
	}
}

// codonFoldTable computes the per-byte transfer function of the loop that rewrites bufVal[0..2] in fn.
func codonFoldTable(c *Ctx, fn *ssa.Function, bufVal ssa.Value) (T []int64, pos string, why string, undecided bool) {
	var stores []*ssa.Store
	for _, ref := range *bufVal.Referrers() {
		if x, ok := ref.(*ssa.IndexAddr); ok {
			for _, r2 := range *x.Referrers() {
				if st, ok := r2.(*ssa.Store); ok && st.Addr == ssa.Value(x) {
					stores = append(stores, st)
				}
			}
		}
	}
	pos = c.pos(fn.Pos())
	if len(stores) == 0 {
		return nil, pos, "no per-element store into the codon buffer: case folding has a shape this rule does not cover", true
	}
	var jIdx ssa.Value
	for _, st := range stores {
		ix := st.Addr.(*ssa.IndexAddr).Index
		if jIdx == nil {
			jIdx = ix
		} else if jIdx != ix {
			return nil, c.pos(st.Pos()), "stores into the codon buffer use different indices", true
		}
	}
	jphi := loopPhiOf(jIdx)
	okJ := false
	if jphi != nil {
		if l, w := findCountedLoopAny(jphi, jIdx); w == "" {
			if k, ok := cInt(constVal(l.bound)); ok && k == 3 {
				okJ = true
			}
			// `for j := range buf` over a *[3]byte: bound is len(*buf) == 3 by type
			if cl, ok := l.bound.(*ssa.Call); ok {
				if b, ok := cl.Call.Value.(*ssa.Builtin); ok && b.Name() == "len" {
					if pt, ok := cl.Call.Args[0].Type().Underlying().(*types.Pointer); ok {
						if arr, ok := pt.Elem().Underlying().(*types.Array); ok && arr.Len() == 3 {
							okJ = true
						}
					}
				}
			}
		}
	}
	if !okJ {
		return nil, pos, "the case-fold loop does not cover exactly the 3 bytes of the codon", false
	}
	header := jphi.Block()
	// the fold loop itself is not conditional on the codon: whether it runs must not depend on bytes of the buffer
	// (a "fast path" that looks at some positions only skips the fold for codons whose lower case is elsewhere)
	{
		fs := newSymb(fn)
		bufName := fs.expr(bufVal).String()
		_, atoms := guardOfFull(fs, header, nil)
		for _, at := range atoms {
			if strings.Contains(at, bufName+"[") {
				return nil, c.pos(header.Instrs[0].Pos()), "whether the case fold runs depends on bytes of the codon (" + at + "): codons whose lower-case bases are at other positions are not folded and panic as unknown", false
			}
		}
	}
	region := map[*ssa.BasicBlock]bool{}
	var bodyEntry *ssa.BasicBlock
	for b := range naturalLoop(header) {
		if b != header {
			region[b] = true
		}
	}
	for _, sc := range header.Succs {
		if region[sc] {
			bodyEntry = sc
		}
	}
	if bodyEntry == nil {
		return nil, pos, "loop body not found", true
	}
	isCell := func(addr ssa.Value) bool {
		ia, ok := addr.(*ssa.IndexAddr)
		return ok && ia.X == bufVal && ia.Index == jIdx
	}
	var inputLd *ssa.UnOp
	for _, in := range bodyEntry.Instrs {
		if u, ok := in.(*ssa.UnOp); ok && u.Op == token.MUL && isCell(u.X) {
			inputLd = u
			break
		}
	}
	if inputLd == nil {
		return nil, pos, "the loop body does not start by loading buf[j]", true
	}
	pos = c.pos(inputLd.Pos())
	a := &vsa{c: c, f: fn, dom: byteDomain(), input: inputLd, entry: bodyEntry, region: region, isCell: isCell,
		sliceTab: map[*ssa.Global][]int64{}, mapKeys: map[*ssa.Global]map[int64]bool{}, mapVals: map[*ssa.Global]map[int64]int64{}}
	a.run()
	if a.err != "" {
		return nil, pos, a.err, true
	}
	T = make([]int64, 256)
	for k, e := range a.exits {
		if e.kind != "edge" || e.to != header || !e.cell.ok {
			return nil, pos, fmt.Sprintf("byte %s leaves the fold other than back to the loop header with a known value", byteStr(k)), true
		}
		T[k] = e.cell.v
	}
	return T, pos, "", false
}

// returnsNotBehind lists the returns of f that are not dominated by the guard block.
func returnsNotBehind(f *ssa.Function, guard *ssa.BasicBlock) []*ssa.Return {
	var out []*ssa.Return
	instrs(f, func(in ssa.Instruction) {
		if rt, ok := in.(*ssa.Return); ok && !guard.Dominates(rt.Block()) {
			out = append(out, rt)
		}
	})
	return out
}

// dominatedByLenZero: blk is reachable only through the edge of a comparison that makes `lenExpr` zero
// (== 0 true edge, != 0 / > 0 false edge, < 1 true edge).
func dominatedByLenZero(blk *ssa.BasicBlock, s *symb, lenExpr string) bool {
	for cur := blk; cur != nil && cur.Idom() != nil; cur = cur.Idom() {
		d := cur.Idom()
		iff, ok := lastInstr(d).(*ssa.If)
		if !ok || len(cur.Preds) != 1 || cur.Preds[0] != d {
			continue
		}
		edge := 0
		if d.Succs[1] == cur && d.Succs[0] != cur {
			edge = 1
		}
		bo, ok := iff.Cond.(*ssa.BinOp)
		if !ok {
			continue
		}
		x, y, op := bo.X, bo.Y, bo.Op
		if _, isC := x.(*ssa.Const); isC {
			x, y = y, x
			switch op {
			case token.LSS:
				op = token.GTR
			case token.GTR:
				op = token.LSS
			case token.LEQ:
				op = token.GEQ
			case token.GEQ:
				op = token.LEQ
			}
		}
		k, isK := cInt(constVal(y))
		if !isK || s.expr(x).String() != lenExpr {
			continue
		}
		switch {
		case edge == 0 && (op == token.EQL && k == 0 || op == token.LSS && k == 1 || op == token.LEQ && k == 0):
			return true
		case edge == 1 && (op == token.NEQ && k == 0 || op == token.GTR && k == 0 || op == token.GEQ && k == 1):
			return true
		}
	}
	return false
}

// isLoopHeader: some predecessor of b is dominated by b (a back edge enters it) — a one-block loop included.
func isLoopHeader(b *ssa.BasicBlock) bool {
	for _, p := range b.Preds {
		if b.Dominates(p) {
			return true
		}
	}
	return false
}

// rulesTranslatePanics (TR-PANICS): Translate's explicit panics are its two documented ones — the length is not a
// multiple of 3, and a codon is not in the table: every path from the entry to a panic takes the `len(src) % 3 != 0`
// edge or the "looked-up value is 0" edge. Any other panic (an empty input, a length limit) refuses input the
// property requires to be translated.
func rulesTranslatePanics(c *Ctx, r *Report) {
	root := c.fn("sequtil", "Translate")
	if root == nil {
		return
	}
	n := 0
	for _, f := range c.stageFuncs(root) {
		s := newSymb(f)
		// in a helper, a parameter that is len(...) at every call from Translate's stages stands for that length
		lenParam := map[string]bool{}
		if f != root {
			for k := range f.Params {
				sites, all := 0, true
				for _, g := range c.stageFuncs(root) {
					gsy := newSymb(g)
					instrs(g, func(in ssa.Instruction) {
						if call, ok := in.(*ssa.Call); ok && call.Call.StaticCallee() == f && k < len(call.Call.Args) {
							sites++
							if !strings.HasPrefix(gsy.expr(call.Call.Args[k]).String(), "builtin:len(") {
								all = false
							}
						}
					})
				}
				if sites > 0 && all {
					lenParam[fmt.Sprintf("(P%d %% 3)", k)] = true
				}
			}
		}
		instrs(f, func(in ssa.Instruction) {
			pn, ok := in.(*ssa.Panic)
			if !ok {
				return
			}
			n++
			ok2, why := pathsAllTake(pn.Block(), func(l edgeLit, _ bool) (string, bool) {
				x, kind, k, okc := cmpCanon(l)
				if !okc {
					return "", false
				}
				e := s.expr(x).String()
				// len(src) % 3 != 0
				if kind == "ne" && k == 0 && (strings.HasPrefix(e, "(builtin:len(") && strings.HasSuffix(e, " % 3)") || lenParam[e]) {
					return "length not a multiple of 3", true
				}
				// the looked-up amino acid is 0 (a table miss)
				if kind == "eq" && k == 0 && (strings.HasPrefix(e, "lookup(") || strings.Contains(e, "codonToAmino")) {
					return "codon not in the table", true
				}
				return "", false
			})
			pos := c.pos(pn.Pos())
			if pos == "" {
				pos = c.pos(returnPos(pn.Block(), pn))
			}
			r.check(ok2, "TR-PANICS", fname(f), "explicit panic", pos, "behind a documented refusal: "+why,
				"an explicit panic of Translate that is not behind `len(src) % 3 != 0` or a table miss: some input the property requires to be translated (the empty sequence, a long one) panics instead")
		})
	}
	r.floor("TR-PANICS", n, 2, "explicit panics of Translate (length, table miss)")
	// TranslateReadingFrames refuses nothing itself: it has no explicit panic of its own (what Translate refuses in
	// a frame is refused there; a check of the whole sequence up front also refuses bases that lie in no frame)
	if rf := c.fn("sequtil", "TranslateReadingFrames"); rf != nil {
		var ps []string
		for _, f := range c.stageFuncs(rf) {
			if f == root {
				continue
			}
			instrs(f, func(in ssa.Instruction) {
				if pn, ok := in.(*ssa.Panic); ok {
					pos := c.pos(pn.Pos())
					if pos == "" {
						pos = c.pos(returnPos(pn.Block(), pn))
					}
					ps = append(ps, fname(f)+" at "+pos)
				}
			})
		}
		r.check(len(ps) == 0, "TR-PANICS", fname(rf), "no refusal of its own", c.pos(rf.Pos()),
			"TranslateReadingFrames contains no explicit panic: the only refusals are Translate's, frame by frame",
			fmt.Sprintf("TranslateReadingFrames panics explicitly (%v): sequences are refused that the frame law translates (a short sequence whose bases lie in no whole codon)", ps))
	}
}
