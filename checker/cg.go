package main

// E-CG — static call graph reachability (static callees, closure creation, function values
// referenced as operands; interface invokes resolved by CHA over module + gostuff types).

import (
	"go/types"
	"sort"
	"strings"

	"golang.org/x/tools/go/ssa"
)

// reachFrom returns every function reachable from roots with the call path that reaches it first.
// follow decides whether to descend into a function's body (the function itself is always recorded).
func (c *Ctx) reachFrom(roots []*ssa.Function, follow func(*ssa.Function) bool) map[*ssa.Function][]string {
	out := map[*ssa.Function][]string{}
	type item struct {
		f    *ssa.Function
		path []string
	}
	var work []item
	for _, r := range roots {
		if r != nil && out[r] == nil {
			out[r] = []string{fname(r)}
			work = append(work, item{r, out[r]})
		}
	}
	add := func(g *ssa.Function, from item) {
		if g == nil || out[g] != nil {
			return
		}
		p := append(append([]string{}, from.path...), fname(g))
		out[g] = p
		if g.Blocks != nil && follow(g) {
			work = append(work, item{g, p})
		}
	}
	for len(work) > 0 {
		it := work[0]
		work = work[1:]
		instrs(it.f, func(in ssa.Instruction) {
			if ci, ok := in.(ssa.CallInstruction); ok {
				cc := ci.Common()
				if cc.IsInvoke() {
					for _, g := range c.chaTargets(cc) {
						add(g, it)
					}
				} else if g := cc.StaticCallee(); g != nil {
					add(g, it)
				}
			}
			var ops []*ssa.Value
			for _, op := range in.Operands(ops) {
				switch x := (*op).(type) {
				case *ssa.Function:
					add(x, it)
				case *ssa.MakeClosure:
					if g, ok := x.Fn.(*ssa.Function); ok {
						add(g, it)
					}
				}
			}
			if mc, ok := in.(*ssa.MakeClosure); ok {
				if g, ok := mc.Fn.(*ssa.Function); ok {
					add(g, it)
				}
			}
		})
	}
	return out
}

// chaTargets resolves an interface invoke to the methods of module/gostuff named types that implement the interface.
func (c *Ctx) chaTargets(cc *ssa.CallCommon) []*ssa.Function {
	iface, ok := cc.Value.Type().Underlying().(*types.Interface)
	if !ok {
		return nil
	}
	var out []*ssa.Function
	var paths []string
	for p := range c.SSA {
		if p == modPath || strings.HasPrefix(p, modPath+"/") || strings.HasPrefix(p, gostuffPath+"/") {
			paths = append(paths, p)
		}
	}
	sort.Strings(paths)
	for _, p := range paths {
		sp := c.SSA[p]
		for _, m := range sp.Members {
			tn, ok := m.(*ssa.Type)
			if !ok {
				continue
			}
			for _, t := range []types.Type{tn.Type(), types.NewPointer(tn.Type())} {
				if types.IsInterface(t) || !types.Implements(t, iface) {
					continue
				}
				ms := c.Prog.MethodSets.MethodSet(t)
				if sel := ms.Lookup(cc.Method.Pkg(), cc.Method.Name()); sel != nil {
					if f := c.Prog.MethodValue(sel); f != nil {
						out = append(out, f)
					}
				}
			}
		}
	}
	return out
}
