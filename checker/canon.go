package main

// Rules for sequtil.CanonicalSubsequences (C12, shared with C17).

import (
	"fmt"
	"go/token"

	"golang.org/x/tools/go/ssa"
)

// countedLoop describes `for i := range N` / `for i := 0; i < N; i++`.
type countedLoop struct {
	phi    *ssa.Phi
	bound  ssa.Value
	guards []*ssa.BasicBlock // blocks whose terminator tests i < N (entry guard and latch, or header)
}

// findCountedLoop recognises the loop whose induction variable is phi.
func findCountedLoop(phi *ssa.Phi) (*countedLoop, string) {
	if len(phi.Edges) != 2 {
		return nil, "loop variable has more than two definitions"
	}
	var next ssa.Value
	okInit := false
	for _, e := range phi.Edges {
		if k, ok := cInt(constVal(e)); ok && k == 0 {
			okInit = true
		} else if b, ok := e.(*ssa.BinOp); ok && b.Op == token.ADD && b.X == ssa.Value(phi) {
			if k, ok := cInt(constVal(b.Y)); ok && k == 1 {
				next = b
			}
		}
	}
	if !okInit || next == nil {
		return nil, "loop variable does not run from 0 in steps of 1"
	}
	l := &countedLoop{phi: phi}
	// unrotated: header tests phi < N
	for _, ref := range *phi.Referrers() {
		if b, ok := ref.(*ssa.BinOp); ok && b.Op == token.LSS && b.X == ssa.Value(phi) && b.Block() == phi.Block() {
			if iff, ok := b.Block().Instrs[len(b.Block().Instrs)-1].(*ssa.If); ok && iff.Cond == b {
				l.bound = b.Y
				l.guards = append(l.guards, b.Block())
				return l, ""
			}
		}
	}
	// the bound test one step behind a flag test: `for i := 0; more && i < N; i++` — the header tests the flag
	// (leaving the loop when it fails) and goes straight on to the block that tests i < N
	if iff, ok := lastInstr(phi.Block()).(*ssa.If); ok {
		nl := naturalLoop(phi.Block())
		for k, su := range phi.Block().Succs {
			other := phi.Block().Succs[1-k]
			if !nl[su] || nl[other] || len(su.Preds) != 1 {
				continue
			}
			_ = iff
			if iff2, ok := lastInstr(su).(*ssa.If); ok {
				if b, ok := iff2.Cond.(*ssa.BinOp); ok && b.Op == token.LSS && b.X == ssa.Value(phi) && nl[su.Succs[0]] && !nl[su.Succs[1]] {
					// nothing but the test in that block
					pure := true
					for _, in := range su.Instrs {
						switch in.(type) {
						case *ssa.BinOp, *ssa.If, *ssa.DebugRef, *ssa.UnOp:
						default:
							pure = false
						}
					}
					if pure {
						l.bound = b.Y
						l.guards = append(l.guards, phi.Block(), su)
						return l, ""
					}
				}
			}
		}
	}
	// rotated: latch tests next < N, pre-header tests 0 < N
	for _, ref := range *next.Referrers() {
		if b, ok := ref.(*ssa.BinOp); ok && b.Op == token.LSS && b.X == next {
			if iff, ok := b.Block().Instrs[len(b.Block().Instrs)-1].(*ssa.If); ok && iff.Cond == b && iff.Block().Succs[0] == phi.Block() {
				l.bound = b.Y
				l.guards = append(l.guards, b.Block())
			}
		}
	}
	if l.bound == nil {
		return nil, "no `i < N` test controls the loop"
	}
	// pre-header guard
	for pi, p := range phi.Block().Preds {
		if _, ok := cInt(constVal(phi.Edges[pi])); !ok {
			continue
		}
		iff, ok := p.Instrs[len(p.Instrs)-1].(*ssa.If)
		if !ok {
			return nil, "rotated loop is entered without a `0 < N` guard"
		}
		b, ok := iff.Cond.(*ssa.BinOp)
		if !ok || b.Op != token.LSS || b.Y != l.bound || p.Succs[0] != phi.Block() {
			return nil, "rotated loop's entry guard is not `0 < N` on the same bound"
		}
		if k, ok := cInt(constVal(b.X)); !ok || k != 0 {
			return nil, "rotated loop's entry guard is not `0 < N`"
		}
		l.guards = append(l.guards, p)
	}
	return l, ""
}

func rulesCanonical(c *Ctx, r *Report) {
	outer := c.fn("sequtil", "CanonicalSubsequences")
	where := "sequtil.CanonicalSubsequences$1"
	ib := c.iterBody(outer)
	if ib == nil {
		r.undecided("CS", where, "anchor", "", "CanonicalSubsequences with a single iterator literal (or a method value) not found")
		return
	}
	lit := ib.lit
	r.analysed(where)
	// the literal's body, the function it hands its whole work to, or the method whose value is returned
	f, s := ib.f, ib.s
	if f != lit {
		r.analysed(fname(f))
	}
	// yield call
	var ycall *ssa.Call
	ny := 0
	yieldV := ib.yield
	instrs(f, func(in ssa.Instruction) {
		if cl, ok := in.(*ssa.Call); ok && yieldV != nil && cl.Call.Value == yieldV {
			ycall = cl
			ny++
		}
	})
	if ny != 1 {
		r.undecided("CS", where, "yield", c.pos(f.Pos()), fmt.Sprintf("expected one yield call site, found %d", ny))
		return
	}
	// rc := ReverseComplement(fresh empty slice, seq)
	rcFn := c.fn("sequtil", "ReverseComplement")
	var rc *ssa.Call
	if rcFn != nil {
		if calls := staticCallsTo(f, rcFn); len(calls) == 1 {
			rc = calls[0]
		}
	}
	if rc == nil {
		r.undecided("CS-RC", where, "reverse complement", c.pos(f.Pos()), "expected exactly one ReverseComplement call")
		return
	}
	mk, isMk := rc.Call.Args[0].(*ssa.MakeSlice)
	fresh := false
	if isMk {
		if k, ok := cInt(constVal(mk.Len)); ok && k == 0 {
			fresh = true
		}
	} else if k := constVal(rc.Call.Args[0]); k == nil {
		if cst, ok := rc.Call.Args[0].(*ssa.Const); ok && cst.IsNil() {
			fresh = true
		}
	}
	src := s.expr(rc.Call.Args[1]).String()
	r.check(fresh && isOuterParam(src, 0), "CS-RC", where, "reverse complement", c.pos(rc.Pos()),
		"rc = ReverseComplement(empty fresh slice, seq)", fmt.Sprintf("rc is ReverseComplement(%s, %s): not the reverse complement of exactly seq", s.expr(rc.Call.Args[0]), src))

	// the window selection
	arg := ycall.Call.Args[0]
	phi, ok := arg.(*ssa.Phi)
	var w1, w2 *ssa.Slice
	if ok && len(phi.Edges) == 2 {
		w1, _ = phi.Edges[0].(*ssa.Slice)
		w2, _ = phi.Edges[1].(*ssa.Slice)
	}
	// the choice made by a helper of two slice parameters: lesser(a, b)
	var chooser *ssa.Function
	var chooserCall *ssa.Call
	if cl, isCall := arg.(*ssa.Call); isCall && w1 == nil {
		if g := cl.Call.StaticCallee(); g != nil && g.Blocks != nil && c.inModule(g) && len(g.Params) == 2 && len(cl.Call.Args) == 2 {
			w1, _ = cl.Call.Args[0].(*ssa.Slice)
			w2, _ = cl.Call.Args[1].(*ssa.Slice)
			if w1 != nil && w2 != nil {
				chooser, chooserCall = g, cl
				r.analysed(fname(g))
			}
		}
	}
	if w1 == nil || w2 == nil {
		r.undecided("CS-WIN", where, "yielded value", c.pos(ycall.Pos()), "yielded value is not a choice between two windows")
		return
	}
	// identify which is the seq window and which the rc window
	var ws, wr *ssa.Slice
	for _, w := range []*ssa.Slice{w1, w2} {
		if isOuterParam(s.expr(w.X).String(), 0) {
			ws = w
		} else if w.X == ssa.Value(rc) {
			wr = w
		}
	}
	if ws == nil || wr == nil {
		r.violated("CS-WIN", where, "windows", c.pos(ycall.Pos()), fmt.Sprintf("the two candidates are windows of %s and %s, want seq and its reverse complement", s.expr(w1.X), s.expr(w2.X)))
		return
	}
	// induction variable: low bound of the seq window
	iphi, _ := ws.Low.(*ssa.Phi)
	if ws.Low == nil || iphi == nil {
		r.undecided("CS-WIN", where, "windows", c.pos(ws.Pos()), "seq window does not start at a loop variable")
		return
	}
	loop, why := findCountedLoop(iphi)
	if why != "" {
		r.undecided("CS-COUNT", where, "loop", c.pos(iphi.Pos()), why)
		return
	}
	i := s.expr(iphi)
	lin := func(v ssa.Value) string {
		if v == nil {
			return "<none>"
		}
		return linSub(linOf(s.expr(v)), linOf(i)).String()
	}
	// k: the outer function's second parameter, as the literal (or the function it delegates to) sees it
	kAtom := "^P1"
	if lit != nil && len(lit.FreeVars) > 0 {
		ls := newSymb(lit)
		kAtom = ls.expr(lit.FreeVars[freeVarIndex(lit, "k")]).String()
		if ld := loadOfFreeVar(lit, "k"); ld != nil {
			kAtom = ls.expr(ld).String()
		}
	}
	nRC := "builtin:len(" + s.expr(rc).String() + ")"
	// seq[i : i+k]
	r.check(lin(ws.High) == "1*"+kAtom+" + 0", "CS-WIN", where, "seq window", c.pos(ws.Pos()), "item i is taken from seq[i : i+k]", "seq window is [i : i + ("+lin(ws.High)+")], want [i : i+k]")
	// rc[len(rc)-i-k : len(rc)-i]  — relative to i: low - i = len(rc) - 2i - k ; compare absolute forms instead
	lowAbs, highAbs := "<none>", "<none>"
	if wr.Low != nil {
		lowAbs = linOf(s.expr(wr.Low)).String()
	}
	if wr.High != nil {
		highAbs = linOf(s.expr(wr.High)).String()
	}
	wantLow := linForm{coef: map[string]int64{nRC: 1, i.String(): -1, kAtom: -1}}.String()
	wantHigh := linForm{coef: map[string]int64{nRC: 1, i.String(): -1}}.String()
	r.check(lowAbs == wantLow && highAbs == wantHigh, "CS-WIN", where, "rc window", c.pos(wr.Pos()),
		"the reverse-strand candidate is rc[len(rc)-i-k : len(rc)-i], the mirror image of seq[i : i+k]",
		fmt.Sprintf("rc window is [%s : %s], want [%s : %s]: it is not the reverse complement of the same k-mer", lowAbs, highAbs, wantLow, wantHigh))
	// CS-MIN: selection by bytes.Compare on exactly the two windows
	var cond, tv, fv ssa.Value
	selPos := ycall.Pos()
	toCaller := func(v ssa.Value) ssa.Value { return v }
	if chooser == nil {
		cond, tv, fv = iteOf(phi)
		selPos = phi.Pos()
	} else {
		// in the helper: `if cond { return p } ; return q` or a returned phi; parameters stand for the two windows
		toCaller = func(v ssa.Value) ssa.Value {
			for i, p := range chooser.Params {
				if v == ssa.Value(p) {
					return chooserCall.Call.Args[i]
				}
			}
			return v
		}
		selPos = chooser.Pos()
		var rets []*ssa.Return
		instrs(chooser, func(in ssa.Instruction) {
			if rt, ok := in.(*ssa.Return); ok {
				rets = append(rets, rt)
			}
		})
		if len(rets) == 1 {
			if ph, ok := retOperands(rets[0])[0].(*ssa.Phi); ok {
				cond, tv, fv = iteOf(ph)
			}
		} else if len(rets) == 2 {
			if iff, ok := lastInstr(chooser.Blocks[0]).(*ssa.If); ok {
				var onT, onF ssa.Value
				for _, rt := range rets {
					switch {
					case chooser.Blocks[0].Succs[0] == rt.Block() || chooser.Blocks[0].Succs[0].Dominates(rt.Block()) && len(chooser.Blocks[0].Succs[0].Preds) == 1:
						onT = retOperands(rt)[0]
					default:
						onF = retOperands(rt)[0]
					}
				}
				if onT != nil && onF != nil {
					cond, tv, fv = iff.Cond, onT, onF
				}
			}
		}
		if cond != nil {
			tv, fv = toCaller(tv), toCaller(fv)
		}
	}
	var cmp *ssa.Call
	var cmpOp token.Token
	var cmpK int64
	if bo, ok := cond.(*ssa.BinOp); ok {
		for _, pr := range [][2]ssa.Value{{bo.X, bo.Y}, {bo.Y, bo.X}} {
			if cl, ok := pr[0].(*ssa.Call); ok && fnIs(cl.Call.StaticCallee(), "bytes", "Compare") {
				if k, ok := cInt(constVal(pr[1])); ok {
					cmp, cmpOp, cmpK = cl, bo.Op, k
					if pr[0] == bo.Y { // constant on the left: flip
						switch cmpOp {
						case token.LSS:
							cmpOp = token.GTR
						case token.GTR:
							cmpOp = token.LSS
						case token.LEQ:
							cmpOp = token.GEQ
						case token.GEQ:
							cmpOp = token.LEQ
						}
					}
				}
			}
		}
	}
	if cmp == nil {
		r.undecided("CS-MIN", where, "selection", c.pos(selPos), "the choice between the candidates is not a comparison of bytes.Compare with a constant")
	} else {
		x, y := toCaller(cmp.Call.Args[0]), toCaller(cmp.Call.Args[1])
		if !r.check((x == ssa.Value(ws) && y == ssa.Value(wr)) || (x == ssa.Value(wr) && y == ssa.Value(ws)), "CS-MIN", where, "compared values", c.pos(cmp.Pos()),
			"the comparison is between exactly the two candidate windows", "the comparison is between "+s.expr(x).String()+" and "+s.expr(y).String()+", not the two whole candidate windows") {
			return
		}
		bad := ""
		for _, out := range []int{-1, 0, 1} { // Compare(x, y)
			res, _ := cmpHolds(cmpOp, out, int(cmpK))
			chosen := fv
			if res {
				chosen = tv
			}
			// smaller one: out<0 => x ; out>0 => y ; 0 => either
			if out < 0 && chosen != x || out > 0 && chosen != y {
				bad += fmt.Sprintf(" Compare=%d picks the larger;", out)
			}
		}
		r.check(bad == "", "CS-MIN", where, "selection", c.pos(selPos), "for each outcome of bytes.Compare (-1, 0, 1) the lexicographically smaller window is yielded", "not the minimum:"+bad)
	}
	// CS-COUNT: trip count len(seq)-k+1, loop entered unconditionally, one yield per iteration
	seqAtom := "^P0"
	if ld := loadOfFreeVar(f, "seq"); ld != nil {
		seqAtom = s.expr(ld).String()
	}
	wantN := linForm{coef: map[string]int64{"builtin:len(" + seqAtom + ")": 1, kAtom: -1}, k: 1}.String()
	gotN := linOf(s.expr(loop.bound)).String()
	r.check(gotN == wantN, "CS-COUNT", where, "trip count", c.pos(iphi.Pos()), "the loop runs for i = 0 .. len(seq)-k", "the loop bound is "+gotN+", want "+wantN+" (= len(seq)-k+1 items)")
	// every return is dominated by a loop guard (no early exit before the loop)
	okDom := true
	var offender *ssa.Return
	instrs(f, func(in ssa.Instruction) {
		rt, ok := in.(*ssa.Return)
		if !ok {
			return
		}
		dom := false
		for _, g := range loop.guards {
			if g.Dominates(rt.Block()) {
				dom = true
			}
		}
		if !dom && !earlyExitHarmless(s, rt.Block(), loop.bound) {
			okDom, offender = false, rt
		}
	})
	opos := c.pos(f.Pos())
	if offender != nil {
		opos = c.pos(offender.Pos())
	}
	r.check(okDom, "CS-COUNT", where, "no early exit", opos, "every return lies behind the loop's own bound test: nothing but `i < len(seq)-k+1` decides how many items are produced (and the consumer's stop)", "a return is reachable without passing the loop's bound test: some inputs yield fewer items than len(seq)-k+1")
	// one yield per iteration: from the loop body entry the latch cannot be reached without the yield block
	body := iphi.Block()
	latchReach := false
	seen := map[*ssa.BasicBlock]bool{}
	var dfs func(b *ssa.BasicBlock)
	dfs = func(b *ssa.BasicBlock) {
		if seen[b] || b == ycall.Block() {
			return
		}
		seen[b] = true
		for _, sc := range b.Succs {
			if sc == body {
				latchReach = true
			}
			dfs(sc)
		}
	}
	dfs(body)
	r.check(!latchReach, "CS-COUNT", where, "one item per iteration", c.pos(ycall.Pos()), "every iteration passes the yield call", "an iteration can reach the next one without yielding: items are skipped")
}

// edgeFact returns the linear form F with F >= 0 known on the edge d -> b (d's terminator is an If
// on an integer comparison), or ok=false.
func edgeFact(s *symb, d, b *ssa.BasicBlock) (linForm, bool) {
	iff, ok := d.Instrs[len(d.Instrs)-1].(*ssa.If)
	if !ok {
		return linForm{}, false
	}
	bo, ok := iff.Cond.(*ssa.BinOp)
	if !ok {
		return linForm{}, false
	}
	onTrue := d.Succs[0] == b && d.Succs[1] != b
	onFalse := d.Succs[1] == b && d.Succs[0] != b
	if !onTrue && !onFalse {
		return linForm{}, false
	}
	x, y := linOf(s.expr(bo.X)), linOf(s.expr(bo.Y))
	op := bo.Op
	if onFalse {
		switch op {
		case token.LSS:
			op = token.GEQ
		case token.LEQ:
			op = token.GTR
		case token.GTR:
			op = token.LEQ
		case token.GEQ:
			op = token.LSS
		default:
			return linForm{}, false
		}
	}
	one := linForm{coef: map[string]int64{}, k: 1}
	switch op {
	case token.GTR: // x > y: x-y-1 >= 0
		return linSub(linSub(x, y), one), true
	case token.GEQ:
		return linSub(x, y), true
	case token.LSS:
		return linSub(linSub(y, x), one), true
	case token.LEQ:
		return linSub(y, x), true
	}
	return linForm{}, false
}

// earlyExitHarmless: blk (holding a return before the loop) is entered only on an edge whose
// condition implies bound <= 0, i.e. the loop would not have produced an item anyway.
func earlyExitHarmless(s *symb, blk *ssa.BasicBlock, bound ssa.Value) bool {
	if len(blk.Preds) != 1 {
		return false
	}
	f, ok := edgeFact(s, blk.Preds[0], blk)
	if !ok {
		return false
	}
	// want -bound >= 0 given f >= 0: (-bound) - f must be a non-negative constant
	neg := linSub(linForm{coef: map[string]int64{}}, linOf(s.expr(bound)))
	d := linSub(neg, f)
	for _, c := range d.coef {
		if c != 0 {
			return false
		}
	}
	return d.k >= 0
}

// isOuterParam: the rendered expression is parameter idx of the enclosing function (captured, assigned once).
func isOuterParam(str string, idx int) bool {
	return str == fmt.Sprintf("^P%d", idx)
}

func freeVarIndex(f *ssa.Function, name string) int {
	for i, fv := range f.FreeVars {
		if fv.Name() == name {
			return i
		}
	}
	return 0
}

// loadOfFreeVar returns some load of the captured variable with the given name (nil if none).
func loadOfFreeVar(f *ssa.Function, name string) ssa.Value {
	var out ssa.Value
	for _, fv := range f.FreeVars {
		if fv.Name() != name {
			continue
		}
		for _, ref := range *fv.Referrers() {
			if u, ok := ref.(*ssa.UnOp); ok && u.Op == token.MUL && out == nil {
				out = u
			}
		}
	}
	return out
}
