package main

// E-VSA — tabulated transfer functions over a finite input domain.
// The abstract value of an integer-typed SSA value is a partial function
// input -> int, defined on the inputs that reach its block. Blocks of a loop-free
// region are processed in topological order; branches split the input set,
// phis take the value of the edge an input arrived through. This is the
// collecting semantics over the powerset of the domain, computed in one pass
// over the CFG. Anything outside the domain (loops, calls, memory other than
// one designated cell and evaluated constant tables) makes the value unknown;
// a branch on an unknown value is UNDECIDED.

import (
	"fmt"
	"go/constant"
	"go/token"
	"go/types"

	"golang.org/x/tools/go/ssa"
)

type aval struct {
	ok bool
	v  int64
}

type vsaExit struct {
	kind   string // return, panic, edge
	to     *ssa.BasicBlock
	from   *ssa.BasicBlock
	result []aval // return operands
	ret    *ssa.Return
	cell   aval // value of the designated memory cell at exit
}

type vsa struct {
	c      *Ctx
	f      *ssa.Function
	dom    []int64
	input  ssa.Value
	region map[*ssa.BasicBlock]bool // nil: whole function
	entry  *ssa.BasicBlock
	isCell func(addr ssa.Value) bool
	// cellBit: for a cell that packs several boolean fields of one local struct into one value (field k is bit k),
	// the bit an address stands for; -1 for the cell as a whole (nil: the cell is one scalar)
	cellBit func(addr ssa.Value) int
	// tables
	sliceTab map[*ssa.Global][]int64         // evaluated element values
	mapKeys  map[*ssa.Global]map[int64]bool  // key presence of scalar-keyed map literals
	mapVals  map[*ssa.Global]map[int64]int64 // scalar values, if any
	vals     map[ssa.Value][]aval
	preset   map[ssa.Value][]aval // additional designated inputs (multi-input domains)
	stores   []vsaStore           // stores to addresses other than the cell, with per-point index/value tables
	exits    []vsaExit            // per input
	err      string
	errValue ssa.Value // the value a branch needed but the domain does not determine
	typeOfIn types.Type
	reenter  *ssa.BasicBlock                      // edges into this block (the loop header) leave the region
	onInstr  func(in ssa.Instruction, set []bool) // observer for side effects
	// inline evaluation of helpers of the same package (loop-free, called with the values of this run): their
	// instructions are evaluated — and observed — as if written at the call site
	inlineHelpers bool
	noInline      map[*ssa.Function]bool
	depth         int
	startSet      []bool // points active at the entry (nil: all)
	startCell     []aval // cell contents at the entry (nil: the domain values)
	// subObserver makes the observer for an inlined helper and a function that commits what it saw
	subObserver func(call *ssa.Call, g *ssa.Function) (func(in ssa.Instruction, set []bool), func())
	tuples      map[ssa.Value][][]aval      // per tuple-valued call: result index -> per-point values
	callRets    map[*ssa.Call][]*ssa.Return // per inlined call: the return each point took
}

// valueAt returns the abstract value of v at point k after run().
func (a *vsa) valueAt(v ssa.Value, k int) aval {
	if cv := constVal(v); cv != nil {
		if cv.Kind() == constant.Int {
			x, _ := constant.Int64Val(cv)
			return aval{true, x}
		}
		if cv.Kind() == constant.Bool {
			if constant.BoolVal(cv) {
				return aval{true, 1}
			}
			return aval{true, 0}
		}
		return aval{}
	}
	if t, ok := a.vals[v]; ok {
		return t[k]
	}
	return aval{}
}

func (a *vsa) in(b *ssa.BasicBlock) bool { return a.region == nil || a.region[b] }

// wrap truncates x to the integer type t.
func wrapInt(x int64, t types.Type) int64 {
	b, ok := t.Underlying().(*types.Basic)
	if !ok {
		return x
	}
	switch b.Kind() {
	case types.Uint8:
		return int64(uint8(x))
	case types.Int8:
		return int64(int8(x))
	case types.Uint16:
		return int64(uint16(x))
	case types.Int16:
		return int64(int16(x))
	case types.Uint32:
		return int64(uint32(x))
	case types.Int32:
		return int64(int32(x))
	}
	return x
}

func (a *vsa) run() {
	n := len(a.dom)
	a.vals = map[ssa.Value][]aval{}
	a.exits = make([]vsaExit, n)
	// topological order of the region from entry
	order, ok := topo(a.entry, func(b *ssa.BasicBlock) bool { return a.in(b) && b != a.reenter })
	if !ok {
		a.err = "region contains a loop"
		return
	}
	inSet := map[*ssa.BasicBlock][]bool{}
	from := map[*ssa.BasicBlock][]*ssa.BasicBlock{}
	cellIn := map[*ssa.BasicBlock][]aval{}
	all := make([]bool, n)
	cell0 := make([]aval, n)
	for i := range all {
		all[i] = true
		cell0[i] = aval{true, a.dom[i]}
	}
	if a.startSet != nil {
		all = append([]bool(nil), a.startSet...)
	}
	if a.startCell != nil {
		cell0 = append([]aval(nil), a.startCell...)
	}
	inSet[a.entry] = all
	from[a.entry] = make([]*ssa.BasicBlock, n)
	cellIn[a.entry] = cell0
	in := make([]aval, n)
	for i := range in {
		in[i] = aval{true, a.dom[i]}
	}
	if a.input != nil {
		a.vals[a.input] = in
	}
	isPreset := func(v ssa.Value) bool {
		if v == a.input && a.input != nil {
			return true
		}
		_, ok := a.preset[v]
		return ok
	}
	for v, t := range a.preset {
		a.vals[v] = t
	}

	get := func(v ssa.Value, k int) aval {
		if cv := constVal(v); cv != nil {
			if cv.Kind() == constant.Int {
				x, _ := constant.Int64Val(cv)
				return aval{true, x}
			}
			if cv.Kind() == constant.Bool {
				if constant.BoolVal(cv) {
					return aval{true, 1}
				}
				return aval{true, 0}
			}
			return aval{}
		}
		if t, ok := a.vals[v]; ok {
			return t[k]
		}
		return aval{}
	}

	for _, b := range order {
		set := inSet[b]
		if set == nil {
			continue
		}
		cell := append([]aval(nil), cellIn[b]...)
		for _, ins := range b.Instrs {
			if v, ok := ins.(ssa.Value); ok && isPreset(v) {
				continue
			}
			if cl, ok := ins.(*ssa.Call); ok && a.inlineHelpers {
				if a.inlineCall(cl, set, cell, get) {
					if a.err != "" {
						return
					}
					continue // evaluated and observed instruction by instruction
				}
			}
			if a.onInstr != nil {
				a.onInstr(ins, set)
			}
			switch x := ins.(type) {
			case *ssa.Call:
				// a module helper that works on the designated cell through a pointer: f(&cell) — run it as a
				// transformer of the cell's value
				if g := x.Call.StaticCallee(); g != nil && a.isCell != nil && len(x.Call.Args) == 1 && a.isCell(x.Call.Args[0]) &&
					g.Blocks != nil && a.c.inModule(g) && g.Signature.Results().Len() == 0 && len(g.Params) == 1 {
					distinct := map[int64]bool{}
					okAll := true
					for k := 0; k < n; k++ {
						if set[k] {
							if !cell[k].ok {
								okAll = false
							}
							distinct[cell[k].v] = true
						}
					}
					if okAll {
						var dom []int64
						for v := range distinct {
							dom = append(dom, v)
						}
						sub := &vsa{c: a.c, f: g, dom: dom, entry: g.Blocks[0], sliceTab: a.sliceTab, mapKeys: a.mapKeys, mapVals: a.mapVals}
						par := g.Params[0]
						sub.isCell = func(addr ssa.Value) bool { return addr == ssa.Value(par) }
						sub.run()
						if sub.err == "" {
							res := map[int64]aval{}
							for i, e := range sub.exits {
								if e.kind == "return" {
									res[dom[i]] = e.cell
								}
							}
							for k := 0; k < n; k++ {
								if set[k] {
									if nv, ok := res[cell[k].v]; ok {
										cell[k] = nv
									} else {
										cell[k] = aval{}
									}
								}
							}
							break
						}
					}
				}
				// single-integer-argument module function: tabulate it over the argument values seen
				callee := x.Call.StaticCallee()
				if callee == nil || len(x.Call.Args) != 1 || callee.Blocks == nil || !a.c.inModule(callee) || callee.Signature.Results().Len() != 1 {
					break
				}
				distinct := map[int64]bool{}
				for k := 0; k < n; k++ {
					if v := get(x.Call.Args[0], k); set[k] && v.ok {
						distinct[v.v] = true
					}
				}
				var dom []int64
				for v := range distinct {
					dom = append(dom, v)
				}
				if len(dom) == 0 {
					break
				}
				sub := newFuncVSA(a.c, callee, dom)
				sub.sliceTab, sub.mapKeys, sub.mapVals = a.sliceTab, a.mapKeys, a.mapVals
				sub.run()
				if sub.err != "" {
					break
				}
				res := map[int64]aval{}
				for i, e := range sub.exits {
					if e.kind == "return" && len(e.result) == 1 {
						res[dom[i]] = e.result[0]
					}
				}
				t := make([]aval, n)
				for k := 0; k < n; k++ {
					if v := get(x.Call.Args[0], k); set[k] && v.ok {
						t[k] = res[v.v]
					}
				}
				a.vals[x] = t
			case *ssa.Phi:
				t := make([]aval, n)
				for k := 0; k < n; k++ {
					if !set[k] {
						continue
					}
					for pi, p := range b.Preds {
						if p == from[b][k] {
							t[k] = get(x.Edges[pi], k)
						}
					}
				}
				a.vals[x] = t
			case *ssa.BinOp:
				t := make([]aval, n)
				for k := 0; k < n; k++ {
					if !set[k] {
						continue
					}
					l, r := get(x.X, k), get(x.Y, k)
					if !l.ok || !r.ok {
						continue
					}
					t[k] = evalBin(x.Op, l.v, r.v, x.X.Type(), x.Type())
				}
				a.vals[x] = t
			case *ssa.UnOp:
				t := make([]aval, n)
				switch x.Op {
				case token.MUL: // load
					if a.isCell != nil && a.isCell(x.X) {
						bit := -1
						if a.cellBit != nil {
							bit = a.cellBit(x.X)
						}
						for k := 0; k < n; k++ {
							if set[k] {
								t[k] = cell[k]
								if bit >= 0 && cell[k].ok {
									t[k] = aval{true, (cell[k].v >> uint(bit)) & 1}
								}
							}
						}
					} else if ia, ok := x.X.(*ssa.IndexAddr); ok {
						if tab, size, ok := a.tableOf(ia.X); ok {
							for k := 0; k < n; k++ {
								if !set[k] {
									continue
								}
								idx := get(ia.Index, k)
								if idx.ok && idx.v >= 0 && idx.v < size {
									t[k] = aval{true, tab[idx.v]}
								}
							}
						}
					}
				case token.NOT:
					for k := 0; k < n; k++ {
						if v := get(x.X, k); set[k] && v.ok {
							t[k] = aval{true, 1 - v.v}
						}
					}
				case token.SUB:
					for k := 0; k < n; k++ {
						if v := get(x.X, k); set[k] && v.ok {
							t[k] = aval{true, wrapInt(-v.v, x.Type())}
						}
					}
				case token.XOR:
					for k := 0; k < n; k++ {
						if v := get(x.X, k); set[k] && v.ok {
							t[k] = aval{true, wrapInt(^v.v, x.Type())}
						}
					}
				}
				a.vals[x] = t
			case *ssa.Convert:
				t := make([]aval, n)
				for k := 0; k < n; k++ {
					if v := get(x.X, k); set[k] && v.ok {
						t[k] = aval{true, wrapInt(v.v, x.Type())}
					}
				}
				a.vals[x] = t
			case *ssa.ChangeType:
				a.vals[x] = a.vals[x.X]
			case *ssa.Lookup:
				// map lookup on an evaluated literal table with scalar keys
				if g, ok := loadedGlobal(x.X); ok && a.mapKeys[g] != nil {
					present := make([]aval, n)
					value := make([]aval, n)
					for k := 0; k < n; k++ {
						if !set[k] {
							continue
						}
						key := get(x.Index, k)
						if !key.ok {
							continue
						}
						if a.mapKeys[g][key.v] {
							present[k] = aval{true, 1}
							if mv, ok := a.mapVals[g]; ok {
								value[k] = aval{true, mv[key.v]}
							}
						} else {
							present[k] = aval{true, 0}
							if _, ok := a.mapVals[g]; ok {
								value[k] = aval{true, 0}
							}
						}
					}
					if x.CommaOk {
						a.vals[x] = present // Extract #1 reads this; #0 handled below
						a.vals[lookupVal{x}] = value
					} else {
						a.vals[x] = value
					}
				}
			case *ssa.Extract:
				if tv, ok := a.tuples[x.Tuple]; ok && x.Index < len(tv) {
					a.vals[x] = tv[x.Index]
				}
				if lk, ok := x.Tuple.(*ssa.Lookup); ok && lk.CommaOk {
					if x.Index == 1 {
						a.vals[x] = a.vals[lk]
					} else {
						a.vals[x] = a.vals[lookupVal{lk}]
					}
				}
			case *ssa.Store:
				if a.isCell != nil && a.isCell(x.Addr) {
					bit := -1
					if a.cellBit != nil {
						bit = a.cellBit(x.Addr)
					}
					for k := 0; k < n; k++ {
						if !set[k] {
							continue
						}
						switch {
						case bit >= 0:
							nv := get(x.Val, k)
							if nv.ok && cell[k].ok {
								cell[k] = aval{true, cell[k].v&^(1<<uint(bit)) | (nv.v&1)<<uint(bit)}
							} else {
								cell[k] = aval{}
							}
						case a.cellBit != nil:
							// the struct assigned as a whole: only its zero value is understood
							if kc, isC := x.Val.(*ssa.Const); isC && kc.Value == nil {
								cell[k] = aval{true, 0}
							} else {
								cell[k] = aval{}
							}
						default:
							cell[k] = get(x.Val, k)
						}
					}
				} else if ia, ok := x.Addr.(*ssa.IndexAddr); ok {
					st := vsaStore{in: x, base: ia.X, idx: make([]aval, n), val: make([]aval, n)}
					for k := 0; k < n; k++ {
						if set[k] {
							st.idx[k], st.val[k] = get(ia.Index, k), get(x.Val, k)
						}
					}
					a.stores = append(a.stores, st)
				}
			case *ssa.If:
				for si, s := range b.Succs {
					for k := 0; k < n; k++ {
						if !set[k] {
							continue
						}
						cv := get(x.Cond, k)
						if !cv.ok {
							a.err = fmt.Sprintf("branch at %s depends on a value outside the domain for input %d", a.c.pos(x.Cond.Pos()), a.dom[k])
							a.errValue = x.Cond
							return
						}
						if (cv.v != 0) == (si == 0) {
							a.flow(b, s, k, cell[k], inSet, from, cellIn)
						}
					}
				}
			case *ssa.Jump:
				for k := 0; k < n; k++ {
					if set[k] {
						a.flow(b, b.Succs[0], k, cell[k], inSet, from, cellIn)
					}
				}
			case *ssa.Return:
				for k := 0; k < n; k++ {
					if !set[k] {
						continue
					}
					var res []aval
					for _, rv := range x.Results {
						res = append(res, get(rv, k))
					}
					a.exits[k] = vsaExit{kind: "return", result: res, cell: cell[k], ret: x}
				}
			case *ssa.Panic:
				for k := 0; k < n; k++ {
					if set[k] {
						a.exits[k] = vsaExit{kind: "panic", cell: cell[k]}
					}
				}
			}
		}
	}
	for k := 0; k < n; k++ {
		if a.exits[k].kind == "" && (a.startSet == nil || a.startSet[k]) {
			a.err = fmt.Sprintf("input %d reaches no exit", a.dom[k])
			return
		}
	}
}

// inlineCall evaluates a call of a loop-free helper of the same package on the points in set as if its body stood at
// the call site: parameters take the argument values, a pointer to the designated cell stays the cell, its effects
// are observed, its results become the call's value(s); points on which it panics leave through a panic.
func (a *vsa) inlineCall(x *ssa.Call, set []bool, cell []aval, get func(ssa.Value, int) aval) bool {
	g := x.Call.StaticCallee()
	if g == nil || g.Blocks == nil || g.Pkg != a.f.Pkg || g == a.f || a.depth >= 2 || x.Call.IsInvoke() || len(g.Params) != len(x.Call.Args) {
		return false
	}
	if nm := g.Name(); nm == "" || (nm[0] >= 'A' && nm[0] <= 'Z') || symNoInline[g] || a.noInline[g] {
		return false
	}
	if _, ok := topo(g.Blocks[0], func(*ssa.BasicBlock) bool { return true }); !ok {
		return false
	}
	n := len(a.dom)
	sub := &vsa{c: a.c, f: g, dom: a.dom, entry: g.Blocks[0], sliceTab: a.sliceTab, mapKeys: a.mapKeys, mapVals: a.mapVals,
		depth: a.depth + 1, startSet: append([]bool(nil), set...), preset: map[ssa.Value][]aval{}}
	for v, t := range a.preset {
		sub.preset[v] = t
	}
	cellParam := -1
	for i, p := range g.Params {
		t := make([]aval, n)
		for k := 0; k < n; k++ {
			if set[k] {
				t[k] = get(x.Call.Args[i], k)
			}
		}
		sub.preset[p] = t
		if a.isCell != nil && a.isCell(x.Call.Args[i]) {
			cellParam = i
		}
	}
	if cellParam >= 0 {
		par := g.Params[cellParam]
		sub.isCell = func(addr ssa.Value) bool { return addr == ssa.Value(par) }
		sub.startCell = append([]aval(nil), cell...)
	}
	commit := func() {}
	if a.subObserver != nil {
		sub.onInstr, commit = a.subObserver(x, g)
	}
	sub.run()
	if sub.err != "" {
		if sub.errValue != nil {
			// a branch inside the helper needs a value the domain does not determine: report it upwards
			a.err, a.errValue = sub.err, sub.errValue
			return true
		}
		return false
	}
	commit()
	nres := g.Signature.Results().Len()
	res := make([][]aval, nres)
	for i := range res {
		res[i] = make([]aval, n)
	}
	rets := make([]*ssa.Return, n)
	for k := 0; k < n; k++ {
		if !set[k] {
			continue
		}
		e := sub.exits[k]
		switch e.kind {
		case "return":
			for i := 0; i < nres && i < len(e.result); i++ {
				res[i][k] = e.result[i]
			}
			rets[k] = e.ret
			if cellParam >= 0 {
				cell[k] = e.cell
			}
		case "panic":
			a.exits[k] = vsaExit{kind: "panic", cell: e.cell}
			set[k] = false
		}
	}
	if nres == 1 {
		a.vals[x] = res[0]
	} else if nres > 1 {
		if a.tuples == nil {
			a.tuples = map[ssa.Value][][]aval{}
		}
		a.tuples[x] = res
	}
	if a.callRets == nil {
		a.callRets = map[*ssa.Call][]*ssa.Return{}
	}
	a.callRets[x] = rets
	a.stores = append(a.stores, sub.stores...)
	return true
}

// vsaStore records a store through base[idx] with its per-point index and value.
type vsaStore struct {
	in   *ssa.Store
	base ssa.Value
	idx  []aval
	val  []aval
}

// lookupVal keys the value component of a comma-ok lookup in vals.
type lookupVal struct{ *ssa.Lookup }

func (a *vsa) flow(b, s *ssa.BasicBlock, k int, cell aval, inSet map[*ssa.BasicBlock][]bool, from map[*ssa.BasicBlock][]*ssa.BasicBlock, cellIn map[*ssa.BasicBlock][]aval) {
	if !a.in(s) || s == a.reenter {
		a.exits[k] = vsaExit{kind: "edge", to: s, from: b, cell: cell}
		return
	}
	n := len(a.dom)
	if inSet[s] == nil {
		inSet[s] = make([]bool, n)
		from[s] = make([]*ssa.BasicBlock, n)
		cellIn[s] = make([]aval, n)
	}
	inSet[s][k] = true
	from[s][k] = b
	cellIn[s][k] = cell
}

func loadedGlobal(v ssa.Value) (*ssa.Global, bool) {
	u, ok := v.(*ssa.UnOp)
	if !ok || u.Op != token.MUL {
		return nil, false
	}
	g, ok := u.X.(*ssa.Global)
	return g, ok
}

// tableOf resolves the base of an IndexAddr to an evaluated table.
func (a *vsa) tableOf(base ssa.Value) ([]int64, int64, bool) {
	if g, ok := loadedGlobal(base); ok {
		if t, ok := a.sliceTab[g]; ok {
			return t, int64(len(t)), true
		}
	}
	if g, ok := base.(*ssa.Global); ok { // array-typed global indexed in place
		if t, ok := a.sliceTab[g]; ok {
			return t, int64(len(t)), true
		}
	}
	return nil, 0, false
}

func evalBin(op token.Token, l, r int64, operandT, resT types.Type) aval {
	b2i := func(b bool) aval {
		if b {
			return aval{true, 1}
		}
		return aval{true, 0}
	}
	switch op {
	case token.ADD:
		return aval{true, wrapInt(l+r, resT)}
	case token.SUB:
		return aval{true, wrapInt(l-r, resT)}
	case token.MUL:
		return aval{true, wrapInt(l*r, resT)}
	case token.QUO:
		if r == 0 {
			return aval{}
		}
		return aval{true, wrapInt(l/r, resT)}
	case token.REM:
		if r == 0 {
			return aval{}
		}
		return aval{true, wrapInt(l%r, resT)}
	case token.AND:
		return aval{true, wrapInt(l&r, resT)}
	case token.OR:
		return aval{true, wrapInt(l|r, resT)}
	case token.XOR:
		return aval{true, wrapInt(l^r, resT)}
	case token.AND_NOT:
		return aval{true, wrapInt(l&^r, resT)}
	case token.SHL:
		if r < 0 || r > 63 {
			return aval{}
		}
		return aval{true, wrapInt(l<<uint(r), resT)}
	case token.SHR:
		if r < 0 || r > 63 {
			return aval{}
		}
		return aval{true, wrapInt(l>>uint(r), resT)}
	case token.EQL:
		return b2i(l == r)
	case token.NEQ:
		return b2i(l != r)
	case token.LSS:
		return b2i(l < r)
	case token.LEQ:
		return b2i(l <= r)
	case token.GTR:
		return b2i(l > r)
	case token.GEQ:
		return b2i(l >= r)
	}
	return aval{}
}

// topo returns the blocks reachable from entry inside the region in topological order; ok=false on a cycle.
func topo(entry *ssa.BasicBlock, in func(*ssa.BasicBlock) bool) ([]*ssa.BasicBlock, bool) {
	state := map[*ssa.BasicBlock]int{}
	var post []*ssa.BasicBlock
	ok := true
	var dfs func(b *ssa.BasicBlock)
	dfs = func(b *ssa.BasicBlock) {
		state[b] = 1
		for _, s := range b.Succs {
			if !in(s) {
				continue
			}
			switch state[s] {
			case 0:
				dfs(s)
			case 1:
				ok = false
			}
		}
		state[b] = 2
		post = append(post, b)
	}
	dfs(entry)
	for i, j := 0, len(post)-1; i < j; i, j = i+1, j-1 {
		post[i], post[j] = post[j], post[i]
	}
	return post, ok
}

// byteDomain is 0..255.
func byteDomain() []int64 {
	d := make([]int64, 256)
	for i := range d {
		d[i] = int64(i)
	}
	return d
}

// newFuncVSA analyses a whole single-parameter function over the given domain.
func newFuncVSA(c *Ctx, f *ssa.Function, dom []int64) *vsa {
	return &vsa{c: c, f: f, dom: dom, input: f.Params[0], entry: f.Blocks[0],
		sliceTab: map[*ssa.Global][]int64{}, mapKeys: map[*ssa.Global]map[int64]bool{}, mapVals: map[*ssa.Global]map[int64]int64{}}
}
