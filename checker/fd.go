package main

// E-FD (error classes) — forward dataflow over one function's SSA blocks. Per error term the state
// is a subset of {nil, EOF, other} x {unreported, reported}; If edges that compare the term with
// nil / io.EOF (or errors.Is(t, io.EOF)) refine it. A violation is (other, unreported) at an
// end-of-life event: a Return, or re-execution of the term's own defining call.

import (
	"fmt"
	"go/token"
	"go/types"
	"sort"
	"strings"

	"golang.org/x/tools/go/ssa"
)

const (
	cNil = 1 << iota
	cEOF
	cOther
)

type est uint8

func mkSt(classes int) est             { return est(classes) }
func (s est) restrict(classes int) est { return s & est(classes|classes<<3) }
func (s est) report() est              { return est((int(s)&7)<<3) | (s & est(7<<3)) }
func (s est) badPending() bool         { return int(s)&cOther != 0 }
func (s est) mayOther() bool           { return int(s)&(cOther|cOther<<3) != 0 }
func (s est) String() string {
	var out []string
	for i, n := range []string{"nil", "EOF", "other"} {
		if int(s)&(1<<i) != 0 {
			out = append(out, n)
		}
		if int(s)&(1<<(i+3)) != 0 {
			out = append(out, n+"/reported")
		}
	}
	return "{" + strings.Join(out, ",") + "}"
}

var errorType = types.Universe.Lookup("error").Type()

func isErrT(t types.Type) bool { return types.Identical(t, errorType) }

func errResultIndex(sig *types.Signature) int {
	r := sig.Results()
	for i := r.Len() - 1; i >= 0; i-- {
		if isErrT(r.At(i).Type()) {
			return i
		}
	}
	return -1
}

// qualified name of a static callee: "pkgpath.Func" or "(*pkgpath.T).M" / "(pkgpath.T).M"
func qname(f *ssa.Function) string {
	if f == nil {
		return ""
	}
	if o := f.Origin(); o != nil {
		f = o
	}
	return f.String()
}

// stream read sources (frozen table; each entry returns an error that reflects the underlying reader)
var streamSources = map[string]string{
	"(*bufio.Reader).ReadByte":           "bufio.Reader.ReadByte",
	"(*bufio.Reader).ReadString":         "bufio.Reader.ReadString",
	"(*bufio.Reader).ReadBytes":          "bufio.Reader.ReadBytes",
	"(*bufio.Reader).ReadRune":           "bufio.Reader.ReadRune",
	"(*bufio.Reader).ReadLine":           "bufio.Reader.ReadLine",
	"(*bufio.Reader).ReadSlice":          "bufio.Reader.ReadSlice",
	"(*bufio.Reader).Read":               "bufio.Reader.Read",
	"(*bufio.Reader).Peek":               "bufio.Reader.Peek",
	"(*bufio.Reader).Discard":            "bufio.Reader.Discard",
	"(*bufio.Reader).WriteTo":            "bufio.Reader.WriteTo",
	"(*encoding/csv.Reader).Read":        "csv.Reader.Read",
	"(*encoding/csv.Reader).ReadAll":     "csv.Reader.ReadAll",
	"(*bufio.Scanner).Err":               "bufio.Scanner.Err",
	"io.ReadAll":                         "io.ReadAll",
	"io.ReadFull":                        "io.ReadFull",
	"io.ReadAtLeast":                     "io.ReadAtLeast",
	"io.Copy":                            "io.Copy",
	"io.CopyN":                           "io.CopyN",
	"github.com/fluhus/gostuff/aio.Open": "aio.Open",
}

// calls whose error result cannot be non-nil in the way they are used here, or does not matter (one line of reason each)
var errExempt = map[string]string{
	"(*bufio.Reader).UnreadByte":     "cannot fail directly after a successful ReadByte",
	"(*bytes.Buffer).Write":          "bytes.Buffer never returns an error",
	"(*bytes.Buffer).WriteByte":      "bytes.Buffer never returns an error",
	"(*bytes.Buffer).WriteString":    "bytes.Buffer never returns an error",
	"(*bytes.Buffer).WriteRune":      "bytes.Buffer never returns an error",
	"(*strings.Builder).Write":       "strings.Builder never returns an error",
	"(*strings.Builder).WriteByte":   "strings.Builder never returns an error",
	"(*strings.Builder).WriteString": "strings.Builder never returns an error",
	"(*strings.Builder).WriteRune":   "strings.Builder never returns an error",
	"fmt.Errorf":                     "constructs an error",
	"errors.New":                     "constructs an error",
}

func infallibleWriter(v ssa.Value) bool {
	switch x := v.(type) {
	case *ssa.MakeInterface:
		t := x.X.Type().String()
		return t == "*bytes.Buffer" || t == "*strings.Builder"
	case *ssa.ChangeInterface:
		return infallibleWriter(x.X)
	}
	t := v.Type().String()
	return t == "*bytes.Buffer" || t == "*strings.Builder"
}

type fdMode int

const (
	fdStream fdMode = iota // sources: stream reads, derived module functions, pass-through error params
	fdAll                  // sources: every call returning an error (minus exemptions)
)

type fdEngine struct {
	c       *Ctx
	mode    fdMode
	derived map[*ssa.Function]bool
	noEOF   bool // classes {nil, other} only (writers)
}

// sourceOf classifies a call: returns a description if its error result is a tracked source.
func (e *fdEngine) sourceOf(call ssa.CallInstruction) (string, bool) {
	cc := call.Common()
	sig := cc.Signature()
	if errResultIndex(sig) < 0 {
		return "", false
	}
	if cc.IsInvoke() {
		if infallibleWriter(cc.Value) {
			return "", false
		}
		name := cc.Method.Name()
		if e.mode == fdAll {
			return "invoke " + cc.Value.Type().String() + "." + name, true
		}
		if name == "Read" {
			return "io.Reader.Read", true
		}
		return "", false
	}
	f := cc.StaticCallee()
	if f == nil {
		// dynamic call of a function value returning error
		if e.mode == fdAll {
			return "dynamic call", true
		}
		return "", false
	}
	qn := qname(f)
	if _, ok := errExempt[qn]; ok {
		return "", false
	}
	// writes into an infallible in-memory writer
	if strings.HasPrefix(qn, "fmt.Fprint") || qn == "io.WriteString" {
		if len(cc.Args) > 0 && infallibleWriter(cc.Args[0]) {
			return "", false
		}
	}
	if d, ok := streamSources[qn]; ok {
		return d, true
	}
	if e.derived[f] {
		return fname(f), true
	}
	if e.mode == fdAll {
		// module functions called with an infallible writer (e.g. f.Write(buf)) cannot fail through it
		if e.c.inModule(f) {
			for _, a := range cc.Args {
				if infallibleWriter(a) && f.Name() == "Write" {
					return "", false
				}
			}
		}
		return qn, true
	}
	return "", false
}

// errValuesOf returns the SSA values holding the error result of call (possibly none: discarded).
func errValuesOf(call *ssa.Call) []ssa.Value {
	sig := call.Call.Signature()
	idx := errResultIndex(sig)
	if idx < 0 {
		return nil
	}
	if sig.Results().Len() == 1 {
		return []ssa.Value{call}
	}
	var out []ssa.Value
	for _, r := range *call.Referrers() {
		if ex, ok := r.(*ssa.Extract); ok && ex.Index == idx {
			out = append(out, ex)
		}
	}
	return out
}

func isNilConst(v ssa.Value) bool {
	c, ok := v.(*ssa.Const)
	return ok && c.Value == nil
}

func isEOFLoad(v ssa.Value) bool {
	u, ok := v.(*ssa.UnOp)
	if !ok || u.Op != token.MUL {
		return false
	}
	g, ok := u.X.(*ssa.Global)
	return ok && g.Pkg != nil && g.Pkg.Pkg.Path() == "io" && g.Name() == "EOF"
}

func definitelyNonNilErr(v ssa.Value) bool { return definitelyNonNilErrD(v, 0) }

func definitelyNonNilErrD(v ssa.Value, depth int) bool {
	switch x := v.(type) {
	case *ssa.Call:
		if f := x.Call.StaticCallee(); f != nil {
			n := qname(f)
			if n == "fmt.Errorf" || n == "errors.New" {
				return true
			}
			// a module helper that only builds an error: every return hands back a constructed one
			if depth < 2 && f.Blocks != nil && f.Pkg != nil && strings.HasPrefix(f.Pkg.Pkg.Path(), modPath) && f.Signature.Results().Len() == 1 && isErrT(f.Signature.Results().At(0).Type()) {
				nRet, all := 0, true
				instrs(f, func(in ssa.Instruction) {
					if rt, ok := in.(*ssa.Return); ok && len(rt.Results) == 1 {
						nRet++
						if !definitelyNonNilErrD(rt.Results[0], depth+1) {
							all = false
						}
					}
				})
				return nRet > 0 && all
			}
		}
	case *ssa.UnOp:
		if g, ok := x.X.(*ssa.Global); ok && x.Op == token.MUL && g.Pkg != nil {
			// package-level error variables other than io.EOF (io.ErrUnexpectedEOF, …)
			return isErrT(g.Type().(*types.Pointer).Elem()) && !(g.Pkg.Pkg.Path() == "io" && g.Name() == "EOF")
		}
	case *ssa.MakeInterface:
		return true
	}
	return false
}

type fdTerm struct {
	val   ssa.Value       // tracked error value; nil for a discarded result
	def   ssa.Instruction // defining instruction (call/extract/phi); nil for parameters
	call  *ssa.Call       // originating source call, if any
	what  string
	alias map[ssa.Value]bool
	noEOF bool
}

type fdFinding struct {
	term *fdTerm
	pos  token.Pos
	msg  string
	kind string // drop, data-use
}

// computeDerived: module/gostuff functions one of whose returns may carry a stream source.
func (e *fdEngine) computeDerived(funcs []*ssa.Function) {
	e.derived = map[*ssa.Function]bool{}
	for changed := true; changed; {
		changed = false
		for _, f := range funcs {
			if e.derived[f] || errResultIndex(f.Signature) < 0 || f.Blocks == nil {
				continue
			}
			instrs(f, func(in ssa.Instruction) {
				ret, ok := in.(*ssa.Return)
				if !ok || e.derived[f] {
					return
				}
				for _, r := range retOperands(ret) {
					if isErrT(r.Type()) && e.flowsFromSource(r, map[ssa.Value]bool{}) {
						e.derived[f] = true
						changed = true
					}
				}
			})
		}
	}
}

func (e *fdEngine) flowsFromSource(v ssa.Value, seen map[ssa.Value]bool) bool {
	if seen[v] {
		return false
	}
	seen[v] = true
	switch x := v.(type) {
	case *ssa.Call:
		if _, ok := e.sourceOf(x); ok {
			return true
		}
		for _, a := range x.Call.Args {
			if isErrT(a.Type()) && e.flowsFromSource(a, seen) {
				return true
			}
		}
		for _, w := range varargValues(x.Call.Args) {
			if isErrT(w.Type()) && e.flowsFromSource(w, seen) {
				return true
			}
		}
	case *ssa.Extract:
		if c, ok := x.Tuple.(*ssa.Call); ok {
			_, ok := e.sourceOf(c)
			return ok
		}
	case *ssa.Phi:
		for _, ed := range x.Edges {
			if e.flowsFromSource(ed, seen) {
				return true
			}
		}
	case *ssa.MakeInterface:
		return e.flowsFromSource(x.X, seen)
	case *ssa.ChangeInterface:
		return e.flowsFromSource(x.X, seen)
	}
	return false
}

// varargValues returns the values stored into the backing arrays of slice arguments (varargs), with
// MakeInterface unwrapped.
func varargValues(args []ssa.Value) []ssa.Value {
	var out []ssa.Value
	for _, a := range args {
		sl, ok := a.(*ssa.Slice)
		if !ok {
			continue
		}
		al, ok := sl.X.(*ssa.Alloc)
		if !ok {
			continue
		}
		for _, r := range *al.Referrers() {
			ia, ok := r.(*ssa.IndexAddr)
			if !ok {
				continue
			}
			for _, r2 := range *ia.Referrers() {
				if st, ok := r2.(*ssa.Store); ok {
					v := st.Val
					for {
						if mi, ok := v.(*ssa.MakeInterface); ok {
							v = mi.X
							continue
						}
						if ci, ok := v.(*ssa.ChangeInterface); ok {
							v = ci.X
							continue
						}
						break
					}
					out = append(out, v)
				}
			}
		}
	}
	return out
}

// terms collects the error terms of fn.
func (e *fdEngine) terms(fn *ssa.Function) []*fdTerm {
	var out []*fdTerm
	src := map[ssa.Value]*fdTerm{}
	sy := newSymb(fn)
	type errCall struct {
		call *ssa.Call
		recv string
	}
	var accessorCalls []errCall
	instrs(fn, func(in ssa.Instruction) {
		call, ok := in.(*ssa.Call)
		if !ok {
			return
		}
		what, ok := e.sourceOf(call)
		if !ok {
			return
		}
		noEOF := e.noEOF || what == "bufio.Scanner.Err" || what == "aio.Open" || e.mode == fdAll && !e.isStreamSource(call)
		vals := errValuesOf(call)
		if len(vals) == 0 {
			out = append(out, &fdTerm{val: nil, def: call, call: call, what: what + " (error result discarded)", alias: map[ssa.Value]bool{}, noEOF: noEOF})
			return
		}
		for _, v := range vals {
			t := &fdTerm{val: v, def: v.(ssa.Instruction), call: call, what: what, alias: map[ssa.Value]bool{v: true}, noEOF: noEOF}
			src[v] = t
			out = append(out, t)
		}
		if what == "bufio.Scanner.Err" && len(call.Call.Args) > 0 {
			accessorCalls = append(accessorCalls, errCall{call, sy.expr(call.Call.Args[0]).String()})
		}
	})
	// idempotent accessor: Err() calls on the same receiver are one term
	for _, a := range accessorCalls {
		for _, b := range accessorCalls {
			if a.call != b.call && a.recv == b.recv {
				if t := src[a.call]; t != nil {
					t.alias[b.call] = true
				}
			}
		}
	}
	// error parameters of synthetic range-over-func bodies: pass-through layers
	if isIterBody(fn) && e.mode == fdStream {
		for _, p := range fn.Params {
			if isErrT(p.Type()) {
				t := &fdTerm{val: p, what: "error variable of a range-over-func loop (pass-through)", alias: map[ssa.Value]bool{p: true}}
				src[p] = t
				out = append(out, t)
			}
		}
	}
	// error parameters of ordinary module functions: whoever passes a stream error in delegates its reporting
	if fn.Synthetic == "" && e.mode == fdStream && fn.Pkg != nil && strings.HasPrefix(fn.Pkg.Pkg.Path(), modPath) {
		for pi, p := range fn.Params {
			if isErrT(p.Type()) {
				if e.onlySentinelArgs(fn, pi) {
					continue // every caller passes a fixed sentinel (io.EOF, io.ErrUnexpectedEOF, nil): a value to return, not an error that happened
				}
				t := &fdTerm{val: p, what: "error parameter " + p.Name() + " (passed in by the caller)", alias: map[ssa.Value]bool{p: true}}
				src[p] = t
				out = append(out, t)
			}
		}
	}
	// phis merging terms become terms of their own
	for changed := true; changed; {
		changed = false
		instrs(fn, func(in ssa.Instruction) {
			phi, ok := in.(*ssa.Phi)
			if !ok || !isErrT(phi.Type()) || src[phi] != nil {
				return
			}
			for _, ed := range phi.Edges {
				if t := src[ed]; t != nil {
					nt := &fdTerm{val: phi, def: phi, what: "merge of " + t.what, alias: map[ssa.Value]bool{phi: true}, noEOF: t.noEOF}
					src[phi] = nt
					out = append(out, nt)
					changed = true
					return
				}
			}
		})
	}
	sort.SliceStable(out, func(i, j int) bool {
		return out[i].def != nil && out[j].def != nil && out[i].def.Pos() < out[j].def.Pos()
	})
	return out
}

func (e *fdEngine) isStreamSource(call *ssa.Call) bool {
	f := call.Call.StaticCallee()
	if f == nil {
		return call.Call.IsInvoke() && call.Call.Method.Name() == "Read"
	}
	if _, ok := streamSources[qname(f)]; ok {
		return true
	}
	return e.derived[f]
}

// closeAliases: values built from the term (wrapping calls, interface conversions).
func closeAliases(fn *ssa.Function, t *fdTerm) {
	for changed := true; changed; {
		changed = false
		instrs(fn, func(in ssa.Instruction) {
			switch x := in.(type) {
			case *ssa.Call:
				if x.Call.IsInvoke() || !isErrT(x.Type()) || t.alias[x] {
					return
				}
				uses := false
				for _, a := range x.Call.Args {
					if t.alias[a] {
						uses = true
					}
				}
				for _, a := range varargValues(x.Call.Args) {
					if t.alias[a] {
						uses = true
					}
				}
				if uses {
					t.alias[x] = true
					changed = true
				}
			case *ssa.Extract:
				// the error result of a module helper that was handed the term: the helper reports it (its own
				// obligation on its error parameter) or hands it back
				if cl, ok := x.Tuple.(*ssa.Call); ok && isErrT(x.Type()) && !t.alias[x] && !cl.Call.IsInvoke() {
					if g := cl.Call.StaticCallee(); g != nil && g.Blocks != nil && g.Pkg != nil && strings.HasPrefix(g.Pkg.Pkg.Path(), modPath) {
						for i, a := range cl.Call.Args {
							if t.alias[a] && i < len(g.Params) && isErrT(g.Params[i].Type()) {
								t.alias[x] = true
								changed = true
							}
						}
					}
				}
			case *ssa.MakeInterface:
				if t.alias[x.X] && !t.alias[x] {
					t.alias[x] = true
					changed = true
				}
			case *ssa.ChangeInterface:
				if t.alias[x.X] && !t.alias[x] {
					t.alias[x] = true
					changed = true
				}
			}
		})
	}
}

func argsUse(args []ssa.Value, alias map[ssa.Value]bool) bool {
	for _, a := range args {
		if alias[a] {
			return true
		}
	}
	for _, a := range varargValues(args) {
		if alias[a] {
			return true
		}
	}
	return false
}

// analyze runs the dataflow for one term; returns findings and the per-block entry states.
func (e *fdEngine) analyze(fn *ssa.Function, t *fdTerm) ([]fdFinding, map[*ssa.BasicBlock]est) {
	closeAliases(fn, t)
	var findings []fdFinding
	seenMsg := map[string]bool{}
	flag := func(kind string, pos token.Pos, msg string) {
		if !seenMsg[msg] {
			seenMsg[msg] = true
			findings = append(findings, fdFinding{t, pos, msg, kind})
		}
	}
	full := mkSt(cNil | cEOF | cOther)
	if t.noEOF {
		full = mkSt(cNil | cOther)
	}
	in := map[*ssa.BasicBlock]est{}
	var defBlock *ssa.BasicBlock
	defIdx := -1
	if t.def != nil {
		defBlock = t.def.Block()
		for i, ins := range defBlock.Instrs {
			if ins == t.def {
				defIdx = i
			}
		}
		if _, isPhi := t.def.(*ssa.Phi); isPhi {
			defIdx = -2 // state starts at block entry
		}
	} else {
		defBlock = fn.Blocks[0]
	}
	// is edge p->b a delegation of the term into a phi of b?
	delegated := func(p, b *ssa.BasicBlock) bool {
		if t.val == nil {
			return false
		}
		for _, ins := range b.Instrs {
			phi, ok := ins.(*ssa.Phi)
			if !ok {
				break
			}
			for i, pr := range b.Preds {
				if pr == p && t.alias[phi.Edges[i]] && phi != t.val {
					return true
				}
			}
		}
		return false
	}
	visited := map[*ssa.BasicBlock]bool{}
	work := []*ssa.BasicBlock{defBlock}
	startDone := false
	for len(work) > 0 {
		b := work[0]
		work = work[1:]
		s := in[b]
		start := 0
		if b == defBlock {
			if startDone && s.badPending() && t.def != nil {
				flag("drop", t.def.Pos(), fmt.Sprintf("error from %s may be dropped: it is in state %v when the same read is executed again", t.what, s))
			}
			switch {
			case defIdx >= 0:
				s, start = full, defIdx+1
			case defIdx == -2:
				// a merge: the classes its incoming values can have on their edges (a value tested against nil on the
				// way in is known; SSA values do not change)
				s, start = full, 0
				if phi, ok := t.def.(*ssa.Phi); ok {
					s = mkSt(phiClasses(phi, int(full), 0, map[*ssa.Phi]bool{}))
				}
			default:
				if !startDone {
					s = full
				}
			}
			startDone = true
		}
		if s == 0 && visited[b] {
			continue
		}
		visited[b] = true
		for i := start; i < len(b.Instrs); i++ {
			switch x := b.Instrs[i].(type) {
			case *ssa.Call:
				if x.Call.StaticCallee() == nil && !x.Call.IsInvoke() {
					// call of a function value (consumer callback / yield): reporting event
					if argsUse(x.Call.Args, t.alias) {
						s = s.report()
					}
				} else if g := x.Call.StaticCallee(); g != nil && g.Blocks != nil && g.Pkg != nil && strings.HasPrefix(g.Pkg.Pkg.Path(), modPath) && !x.Call.IsInvoke() {
					// handed to a module function as its error parameter: that function reports it (its own obligation
					// on the parameter, see terms)
					for i, a := range x.Call.Args {
						if t.alias[a] && i < len(g.Params) && isErrT(g.Params[i].Type()) {
							s = s.report()
						}
					}
				}
			case *ssa.Panic:
				s = s.report()
			case *ssa.Return:
				rep := false
				for _, rv := range retOperands(x) {
					if !isErrT(rv.Type()) {
						continue
					}
					if t.alias[rv] {
						rep = true
					} else if phi, ok := rv.(*ssa.Phi); ok {
						for _, ed := range phi.Edges {
							if t.alias[ed] {
								rep = true
							}
						}
					} else if definitelyNonNilErr(rv) {
						rep = true
					}
				}
				// the comma-ok idiom: a function without an error result that returns ok == false on this path
				// reports the failure that way (its caller tests ok)
				if ops := retOperands(x); len(ops) > 0 && !rep {
					hasErrResult := false
					for _, rv := range ops {
						if isErrT(rv.Type()) {
							hasErrResult = true
						}
					}
					last := ops[len(ops)-1]
					if bt, ok := last.Type().Underlying().(*types.Basic); ok && bt.Kind() == types.Bool && !hasErrResult {
						if k, ok := last.(*ssa.Const); ok && k.Value != nil && k.Value.String() == "false" {
							rep = true
						}
					}
				}
				if rep {
					s = s.report()
				}
				if s.badPending() {
					flag("drop", x.Pos(), fmt.Sprintf("error from %s may be dropped: state %v reaches this return without the error being returned, yielded or wrapped", t.what, s))
				}
			}
		}
		succState := func(k int) est { return s }
		if iff, ok := b.Instrs[len(b.Instrs)-1].(*ssa.If); ok && t.val != nil {
			cls := 0
			isIs := false
			var op token.Token
			switch c := iff.Cond.(type) {
			case *ssa.BinOp:
				if c.Op == token.EQL || c.Op == token.NEQ {
					var other ssa.Value
					if t.alias[c.X] && isErrT(c.X.Type()) {
						other = c.Y
					} else if t.alias[c.Y] && isErrT(c.Y.Type()) {
						other = c.X
					}
					if other != nil {
						if isNilConst(other) {
							cls, op = cNil, c.Op
						} else if isEOFLoad(other) && !t.noEOF {
							cls, op = cEOF, c.Op
						}
					}
				}
			case *ssa.Call:
				if f := c.Call.StaticCallee(); f != nil && qname(f) == "errors.Is" && len(c.Call.Args) == 2 && t.alias[c.Call.Args[0]] && isEOFLoad(c.Call.Args[1]) && !t.noEOF {
					cls, op = cEOF, token.EQL
					isIs = true
				}
			}
			if cls != 0 {
				eq := s.restrict(cls)
				ne := s.restrict((cNil | cEOF | cOther) &^ cls)
				if isIs {
					// errors.Is(err, io.EOF) is also true for an error that wraps io.EOF (a failure reported by
					// the stream as e.g. &fs.PathError{Err: io.EOF}): the true edge keeps class "other"
					eq = s.restrict(cEOF | cOther)
					ne = s.restrict(cNil | cOther)
				}
				if op == token.NEQ {
					eq, ne = ne, eq
				}
				succState = func(k int) est {
					if k == 0 {
						return eq
					}
					return ne
				}
			}
		}
		for k, sb := range b.Succs {
			ns := succState(k)
			if delegated(b, sb) {
				ns = 0 // the phi's own term takes over on this edge
			}
			if ns|in[sb] != in[sb] || !visited[sb] {
				in[sb] |= ns
				work = append(work, sb)
			}
		}
	}
	return findings, in
}

// companionUses (B4): data results of the same source call used where the read may have failed.
func (e *fdEngine) companionUses(fn *ssa.Function, t *fdTerm, in map[*ssa.BasicBlock]est) []fdFinding {
	var out []fdFinding
	var roots []ssa.Value
	var defBlk *ssa.BasicBlock
	var defInstr ssa.Instruction
	switch x := t.val.(type) {
	case *ssa.Extract:
		if t.call == nil {
			return nil
		}
		defBlk, defInstr = x.Block(), x
		for _, r := range *t.call.Referrers() {
			if d, ok := r.(*ssa.Extract); ok && d != x && !isErrT(d.Type()) {
				roots = append(roots, d)
			}
		}
	case *ssa.Phi:
		// companion phis: same block, every edge is a data result of the call whose error the term's edge is
		defBlk, defInstr = x.Block(), x
		for _, in := range x.Block().Instrs {
			dp, ok := in.(*ssa.Phi)
			if !ok {
				break
			}
			if dp == x || isErrT(dp.Type()) {
				continue
			}
			match := true
			for i, ed := range x.Edges {
				ee, ok1 := ed.(*ssa.Extract)
				de, ok2 := dp.Edges[i].(*ssa.Extract)
				if !ok1 || !ok2 || ee.Tuple != de.Tuple {
					match = false
				}
			}
			if match {
				roots = append(roots, dp)
			}
		}
	default:
		return nil
	}
	ex := defInstr
	_ = defBlk
	seen := map[ssa.Value]bool{}
	var walk func(v ssa.Value)
	walk = func(v ssa.Value) {
		if seen[v] {
			return
		}
		seen[v] = true
		for _, r := range *v.Referrers() {
			if phi, ok := r.(*ssa.Phi); ok {
				walk(phi)
				continue
			}
			if _, ok := r.(*ssa.DebugRef); ok {
				continue
			}
			// the data handed to a module function together with its error: that function decides (its parameter
			// is a term of its own)
			if cl, ok := r.(*ssa.Call); ok && !cl.Call.IsInvoke() {
				if g := cl.Call.StaticCallee(); g != nil && g.Blocks != nil && g.Pkg != nil && strings.HasPrefix(g.Pkg.Pkg.Path(), modPath) {
					withErr := false
					for i, a := range cl.Call.Args {
						if t.alias[a] && i < len(g.Params) && isErrT(g.Params[i].Type()) {
							withErr = true
						}
					}
					if withErr {
						continue
					}
				}
			}
			b := r.Block()
			if _, isPhiTerm := t.val.(*ssa.Phi); isPhiTerm && b == ex.Block() {
				// uses in the merge block itself precede the test only if they are not the test
				if _, isIf := r.(*ssa.If); isIf {
					continue
				}
				if bo, ok := r.(*ssa.BinOp); ok && isErrT(bo.X.Type()) {
					continue
				}
				out = append(out, fdFinding{t, r.Pos(), fmt.Sprintf("data read together with the error of %s is used before the error is tested", t.what), "data-use"})
				continue
			}
			if b == ex.Block() {
				// same block as the read: uses here come before any test of the error
				idxUse, idxDef := -1, -1
				for i, ins := range b.Instrs {
					if ins == r {
						idxUse = i
					}
					if ins == ssa.Instruction(ex) {
						idxDef = i
					}
				}
				if idxUse > idxDef && (t.call == nil || !isExtractOf(r, t.call)) {
					if _, isIf := r.(*ssa.If); !isIf {
						out = append(out, fdFinding{t, r.Pos(), fmt.Sprintf("data read together with the error of %s is used before the error is tested", t.what), "data-use"})
					}
				}
				continue
			}
			s := in[b]
			if s.mayOther() {
				out = append(out, fdFinding{t, r.Pos(), fmt.Sprintf("data read together with the error of %s is used although the read may have failed (error state %v here): a record can be built from a truncated read", t.what, s), "data-use"})
			}
		}
	}
	for _, d := range roots {
		walk(d)
	}
	return out
}

func isExtractOf(in ssa.Instruction, call *ssa.Call) bool {
	ex, ok := in.(*ssa.Extract)
	return ok && ex.Tuple == ssa.Value(call)
}

// termKey renders a stable key for a term: source description + ordinal within the function.
func termKeys(terms []*fdTerm) map[*fdTerm]string {
	count := map[string]int{}
	keys := map[*fdTerm]string{}
	for _, t := range terms {
		count[t.what]++
		keys[t] = fmt.Sprintf("%s#%d", t.what, count[t.what])
	}
	return keys
}

// retOperands returns the operands of a Return, looking through go/ssa's defer spilling
// (`*slot = v; rundefers; t = *slot; return t` in functions that have defers).
func retOperands(ret *ssa.Return) []ssa.Value {
	out := make([]ssa.Value, len(ret.Results))
	for i, rv := range ret.Results {
		out[i] = rv
		ld, ok := rv.(*ssa.UnOp)
		if !ok || ld.Op != token.MUL {
			continue
		}
		al, ok := ld.X.(*ssa.Alloc)
		if !ok {
			continue
		}
		blk := ret.Block()
		for j := len(blk.Instrs) - 1; j >= 0; j-- {
			if st, ok := blk.Instrs[j].(*ssa.Store); ok && st.Addr == ssa.Value(al) {
				out[i] = st.Val
				break
			}
		}
	}
	return out
}

// onlySentinelArgs: fn has static callers in the module and each passes a package-level error variable or nil at
// parameter pi.
func (e *fdEngine) onlySentinelArgs(fn *ssa.Function, pi int) bool {
	n := 0
	all := true
	for _, g := range e.c.moduleFuncs() {
		instrs(g, func(in ssa.Instruction) {
			ci, ok := in.(ssa.CallInstruction)
			if !ok || ci.Common().StaticCallee() != fn {
				return
			}
			args := ci.Common().Args
			if pi >= len(args) {
				all = false
				return
			}
			n++
			switch a := args[pi].(type) {
			case *ssa.Const:
			case *ssa.UnOp:
				if _, isG := a.X.(*ssa.Global); !isG || a.Op != token.MUL {
					all = false
				}
			default:
				all = false
			}
		})
	}
	return n > 0 && all
}

// isIterBody: fn is the body of a loop over an iterator: the synthetic body of a range-over-func statement, or a
// literal that is only ever handed, as the loop body, to a value of type iter.Seq / iter.Seq2.
func isIterBody(fn *ssa.Function) bool {
	if fn.Synthetic == "range-over-func yield" {
		return true
	}
	p := fn.Parent()
	if p == nil || fn.Signature.Results().Len() != 1 || !types.Identical(fn.Signature.Results().At(0).Type(), types.Typ[types.Bool]) {
		return false
	}
	n, ok := 0, true
	instrs(p, func(in ssa.Instruction) {
		mc, isMC := in.(*ssa.MakeClosure)
		if !isMC || mc.Fn != ssa.Value(fn) {
			return
		}
		for _, ref := range *mc.Referrers() {
			cl, isCall := ref.(*ssa.Call)
			if !isCall || len(cl.Call.Args) != 1 || cl.Call.Args[0] != ssa.Value(mc) || cl.Call.IsInvoke() {
				ok = false
				continue
			}
			nt, isNamed := cl.Call.Value.Type().(*types.Named)
			if !isNamed || nt.Obj().Pkg() == nil || nt.Obj().Pkg().Path() != "iter" {
				ok = false
				continue
			}
			n++
		}
	})
	return ok && n > 0
}

// valClassOnEdge: the classes value v can have when control goes from p to b: nil constants are nil; a comparison
// of v itself with nil on that edge or on an edge that dominates p decides; merges are the union over their edges.
func valClassOnEdge(v ssa.Value, p, b *ssa.BasicBlock, full int, depth int, seen map[*ssa.Phi]bool) int {
	if isNilConst(v) {
		return cNil
	}
	cls := full
	refine := func(iff *ssa.If, onTrue bool) {
		bo, ok := iff.Cond.(*ssa.BinOp)
		if !ok || (bo.Op != token.EQL && bo.Op != token.NEQ) {
			return
		}
		if !((bo.X == v && isNilConst(bo.Y)) || (bo.Y == v && isNilConst(bo.X))) {
			return
		}
		isNil := (bo.Op == token.EQL) == onTrue
		if isNil {
			cls &= cNil
		} else {
			cls &^= cNil
		}
	}
	if iff, ok := lastInstr(p).(*ssa.If); ok && p.Succs[0] != p.Succs[1] {
		refine(iff, p.Succs[0] == b)
	}
	for x := p; x != nil && x.Idom() != nil; x = x.Idom() {
		d := x.Idom()
		if len(x.Preds) != 1 || x.Preds[0] != d {
			continue
		}
		if iff, ok := lastInstr(d).(*ssa.If); ok && d.Succs[0] != d.Succs[1] {
			refine(iff, d.Succs[0] == x)
		}
	}
	if phi, ok := v.(*ssa.Phi); ok && depth < 4 && cls == full {
		return phiClasses(phi, full, depth+1, seen)
	}
	return cls
}

// phiClasses: union of the classes of a merge's incoming values on their edges (a merge met again on the way — a
// loop-carried variable — contributes nothing new).
func phiClasses(phi *ssa.Phi, full int, depth int, seen map[*ssa.Phi]bool) int {
	if seen[phi] {
		return 0
	}
	seen[phi] = true
	defer delete(seen, phi)
	cls := 0
	for i, e := range phi.Edges {
		cls |= valClassOnEdge(e, phi.Block().Preds[i], phi.Block(), full, depth, seen)
	}
	if cls == 0 {
		return full
	}
	return cls
}

// valClassAtBlock: the classes (nil / EOF / other) error value v can have on entry to block b, from the comparisons
// of v itself with nil and io.EOF on the forward paths from its definition (union over predecessors).
func valClassAtBlock(v ssa.Value, b *ssa.BasicBlock, full int) int {
	var defB *ssa.BasicBlock
	if in, ok := v.(ssa.Instruction); ok {
		defB = in.Block()
	}
	memo := map[*ssa.BasicBlock]int{}
	busy := map[*ssa.BasicBlock]bool{}
	var at func(b *ssa.BasicBlock) int
	at = func(b *ssa.BasicBlock) int {
		if b == defB || len(b.Preds) == 0 {
			return full
		}
		if c, ok := memo[b]; ok {
			return c
		}
		if busy[b] {
			return 0
		}
		busy[b] = true
		cls := 0
		for _, p := range b.Preds {
			if b.Dominates(p) && b != p {
				continue // back edge
			}
			c := at(p)
			if iff, ok := lastInstr(p).(*ssa.If); ok && p.Succs[0] != p.Succs[1] {
				if bo, ok := iff.Cond.(*ssa.BinOp); ok && (bo.Op == token.EQL || bo.Op == token.NEQ) {
					var other ssa.Value
					if bo.X == v {
						other = bo.Y
					} else if bo.Y == v {
						other = bo.X
					}
					if other != nil {
						eq := (bo.Op == token.EQL) == (p.Succs[0] == b)
						switch {
						case isNilConst(other) && eq:
							c &= cNil
						case isNilConst(other):
							c &^= cNil
						case isEOFLoad(other) && eq:
							c &= cEOF
						case isEOFLoad(other):
							c &^= cEOF
						}
					}
				}
			}
			cls |= c
		}
		busy[b] = false
		memo[b] = cls
		return cls
	}
	return at(b)
}

// streamDerivedFuncs: the module functions one of whose error results may carry a stream error (computed once).
var streamDerivedCache map[*types.Func]bool

func (c *Ctx) isStreamFunc(fo *types.Func) bool {
	if fo == nil {
		return false
	}
	if _, ok := streamSources[fo.FullName()]; ok {
		return true
	}
	if streamDerivedCache == nil {
		streamDerivedCache = map[*types.Func]bool{}
		funcs := withReachedDeps(c, formatFuncs(c))
		e := &fdEngine{c: c, mode: fdStream}
		e.computeDerived(funcs)
		for f := range e.derived {
			if o, ok := f.Object().(*types.Func); ok {
				streamDerivedCache[o] = true
			}
		}
	}
	return streamDerivedCache[fo.Origin()]
}

// extraStreamFunc lets AST-level rules recognise module functions that hand a stream error on (set by the rules).
var extraStreamFunc func(*types.Func) bool
