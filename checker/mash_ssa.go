package main

// The mash.Add rules on the SSA form: used when the syntax-directed rules of c17.go cannot find the two nested
// range statements they are written for (the k-mer work moved into a method of a struct that holds the hasher,
// the iterator called with a named callback, …). Values are followed to where they come from — through captured
// variables, single-assignment cells, fields of a struct built once in Add, and the parameters of the one helper
// that does the hashing — and the same obligations are decided: CANON, TS-HASH, SORT-EXIT.

import (
	"fmt"
	"go/token"
	"go/types"
	"strings"

	"golang.org/x/tools/go/ssa"
)

type mashTracer struct {
	c       *Ctx
	fam     map[*ssa.Function]bool
	argOf   map[*ssa.Parameter]ssa.Value // parameters of the hashing helper -> arguments of its one call
	visited map[ssa.Value]bool
}

// origin follows v to the value it was initialised from.
func (t *mashTracer) origin(v ssa.Value) ssa.Value {
	for depth := 0; depth < 24; depth++ {
		switch x := v.(type) {
		case *ssa.ChangeType:
			v = x.X
		case *ssa.MakeInterface:
			v = x.X
		case *ssa.ChangeInterface:
			v = x.X
		case *ssa.FreeVar:
			b := bindingOf(x)
			if b == nil {
				return v
			}
			v = b
		case *ssa.Parameter:
			a, ok := t.argOf[x]
			if !ok {
				return v
			}
			v = a
		case *ssa.UnOp:
			if x.Op != token.MUL {
				return v
			}
			switch ad := x.X.(type) {
			case *ssa.Alloc:
				cv := cellValue(ad)
				if cv == nil {
					return v
				}
				v = cv
			case *ssa.FreeVar:
				// a captured variable: the cell it is bound to
				b := bindingOf(ad)
				al, ok := b.(*ssa.Alloc)
				if !ok {
					return v
				}
				cv := cellValue(al)
				if cv == nil {
					return v
				}
				v = cv
			case *ssa.FieldAddr:
				// a field of a struct variable of Add that is stored exactly once
				base := t.origin(ad.X)
				al, ok := base.(*ssa.Alloc)
				if !ok {
					return v
				}
				fv := structFieldOnce(al, ad.Field)
				if fv == nil {
					return v
				}
				v = fv
			default:
				return v
			}
		default:
			return v
		}
	}
	return v
}

// structFieldOnce: the one value stored into field k of the struct variable al (by a field store anywhere the
// variable's address goes inside its function family); nil if there is none, more than one, or the struct is
// assigned as a whole.
func structFieldOnce(al *ssa.Alloc, k int) ssa.Value {
	var val ssa.Value
	n := 0
	var scan func(addr ssa.Value)
	scan = func(addr ssa.Value) {
		refs := addr.Referrers()
		if refs == nil {
			return
		}
		for _, ref := range *refs {
			switch x := ref.(type) {
			case *ssa.Store:
				if x.Addr == addr {
					n += 2 // assigned whole
				}
			case *ssa.FieldAddr:
				if x.X == addr && x.Field == k {
					for _, r2 := range *x.Referrers() {
						if st, ok := r2.(*ssa.Store); ok && st.Addr == ssa.Value(x) {
							n++
							val = st.Val
						}
					}
				}
			case *ssa.MakeClosure:
				cl := x.Fn.(*ssa.Function)
				for i, b := range x.Bindings {
					if b == addr && i < len(cl.FreeVars) {
						scan(cl.FreeVars[i])
					}
				}
			}
		}
	}
	scan(al)
	if n != 1 {
		return nil
	}
	return val
}

func isInvokeOf(in ssa.Instruction, name string) (*ssa.Call, bool) {
	cl, ok := in.(*ssa.Call)
	if !ok {
		return nil, false
	}
	if cl.Call.IsInvoke() {
		return cl, cl.Call.Method.Name() == name
	}
	if g := cl.Call.StaticCallee(); g != nil && g.Signature.Recv() != nil && g.Name() == name {
		return cl, true
	}
	return cl, false
}

func callRecv(cl *ssa.Call) ssa.Value {
	if cl.Call.IsInvoke() {
		return cl.Call.Value
	}
	if len(cl.Call.Args) > 0 {
		return cl.Call.Args[0]
	}
	return nil
}

func callArgs(cl *ssa.Call) []ssa.Value {
	if cl.Call.IsInvoke() {
		return cl.Call.Args
	}
	if len(cl.Call.Args) > 0 {
		return cl.Call.Args[1:]
	}
	return nil
}

// allPathsPass: every path from the entry of f to a return passes one of the blocks in must.
func allPathsPass(f *ssa.Function, must map[*ssa.BasicBlock]bool) bool {
	if len(f.Blocks) == 0 {
		return false
	}
	seen := map[*ssa.BasicBlock]bool{}
	ok := true
	var dfs func(b *ssa.BasicBlock)
	dfs = func(b *ssa.BasicBlock) {
		if seen[b] || must[b] || !ok {
			return
		}
		seen[b] = true
		if _, isRet := lastInstr(b).(*ssa.Return); isRet {
			ok = false
			return
		}
		for _, s := range b.Succs {
			dfs(s)
		}
	}
	dfs(f.Blocks[0])
	return ok
}

func rulesMashAddSSA(c *Ctx, r *Report) {
	where := "mash.Add"
	add := c.fn("mash", "Add")
	if add == nil || len(add.Params) != 3 {
		r.undecided("TS-HASH", where, "anchor", "", "Add(mh, k, seqs...) not found")
		return
	}
	r.analysed(where)
	t := &mashTracer{c: c, fam: map[*ssa.Function]bool{}, argOf: map[*ssa.Parameter]ssa.Value{}}
	fam := family(add)
	for _, f := range fam {
		t.fam[f] = true
	}
	// the iterator call: it(Y) with it = sequtil.CanonicalSubsequences(…)
	var itCall, cs *ssa.Call
	nIt := 0
	for _, f := range fam {
		instrs(f, func(in ssa.Instruction) {
			cl, ok := in.(*ssa.Call)
			if !ok || cl.Call.IsInvoke() || cl.Call.StaticCallee() != nil || len(cl.Call.Args) != 1 {
				return
			}
			if src, ok := t.origin(cl.Call.Value).(*ssa.Call); ok && fnIsPath(src.Call.StaticCallee(), modPath+"/sequtil", "CanonicalSubsequences") {
				itCall, cs = cl, src
				nIt++
			}
		})
	}
	if nIt != 1 {
		r.undecided("CANON", where, "k-mer source", c.pos(add.Pos()), fmt.Sprintf("expected one place where the iterator sequtil.CanonicalSubsequences(…) is run over a callback, found %d", nIt))
		return
	}
	var Y *ssa.Function
	switch y := t.origin(itCall.Call.Args[0]).(type) {
	case *ssa.MakeClosure:
		Y, _ = y.Fn.(*ssa.Function)
	case *ssa.Function:
		Y = y
	}
	if Y == nil || Y.Blocks == nil || len(Y.Params) != 1 || !c.inModule(Y) {
		r.undecided("CANON", where, "k-mer source", c.pos(itCall.Pos()), "the callback the k-mer iterator is run over is not a function of the module")
		return
	}
	// CANON: CanonicalSubsequences(bytes.ToUpper(seqs[i]), k)
	okUp, okK := false, false
	var seqIdx ssa.Value
	if len(cs.Call.Args) == 2 {
		if up, ok := t.origin(cs.Call.Args[0]).(*ssa.Call); ok && fnIs(up.Call.StaticCallee(), "bytes", "ToUpper") && len(up.Call.Args) == 1 {
			if ld, ok := t.origin(up.Call.Args[0]).(*ssa.UnOp); ok && ld.Op == token.MUL {
				if ia, ok := ld.X.(*ssa.IndexAddr); ok && t.origin(ia.X) == ssa.Value(add.Params[2]) {
					okUp, seqIdx = true, ia.Index
				}
			}
		}
		okK = t.origin(cs.Call.Args[1]) == ssa.Value(add.Params[1])
	}
	r.check(okUp && okK, "CANON", where, "k-mer source", c.pos(cs.Pos()), "the k-mers are CanonicalSubsequences(bytes.ToUpper(seq), k) of the sequence itself", fmt.Sprintf("the iterator is not CanonicalSubsequences(bytes.ToUpper(seq), k) applied directly to each sequence (upper-cased unconditionally: %v, k passed through: %v): case or strand variants give different sketches", okUp, okK))
	// every sequence: seqIdx runs over all of seqs, the iterator runs in every iteration, the loop has no other exit
	okEvery := false
	whyEvery := "the sequence is not seqs[i] of a loop over all of seqs"
	if seqIdx != nil && itCall.Parent() == add && cs.Parent() == add {
		var l *countedLoop
		var why string
		if b, ok := seqIdx.(*ssa.BinOp); ok {
			if phi, ok := b.X.(*ssa.Phi); ok {
				l, why = findCountedLoopAny(phi, b)
			}
		} else if phi, ok := seqIdx.(*ssa.Phi); ok {
			l, why = findCountedLoop(phi)
		}
		if l != nil && why == "" {
			bound := l.bound
			okBound := false
			if bl, ok := bound.(*ssa.Call); ok {
				if bi, ok := bl.Call.Value.(*ssa.Builtin); ok && bi.Name() == "len" && t.origin(bl.Call.Args[0]) == ssa.Value(add.Params[2]) {
					okBound = true
				}
			}
			header := l.phi.Block()
			loop := naturalLoop(header)
			okDom, okExit := true, true
			for _, p := range header.Preds {
				if loop[p] && !(itCall.Block().Dominates(p) || itCall.Block() == p) {
					okDom = false
				}
			}
			for b := range loop {
				for _, su := range b.Succs {
					if !loop[su] && b != header {
						if _, isPanic := lastInstr(su).(*ssa.Panic); !isPanic {
							okExit = false
						}
					}
				}
			}
			okEvery = okBound && okDom && okExit && loop[itCall.Block()]
			whyEvery = fmt.Sprintf("bound is len(seqs): %v, the iterator runs in every iteration: %v, no other way out of the loop: %v", okBound, okDom, okExit)
		} else if why != "" {
			whyEvery = why
		}
	}
	r.check(okEvery, "CANON", where, "every sequence is hashed", c.pos(itCall.Pos()), "every iteration over seqs reaches the k-mer loop", "some sequences can skip the k-mer loop ("+whyEvery+"): the sketch no longer depends on the k-mer content alone")
	// the function that hashes: Y itself, or the one module function Y hands the k-mer to
	hasSum := func(f *ssa.Function) []*ssa.Call {
		var out []*ssa.Call
		instrs(f, func(in ssa.Instruction) {
			if cl, ok := isInvokeOf(in, "Sum64"); ok {
				out = append(out, cl)
			}
		})
		return out
	}
	P, kmer := Y, ssa.Value(Y.Params[0])
	var viaCall *ssa.Call
	if len(hasSum(Y)) == 0 {
		n := 0
		instrs(Y, func(in ssa.Instruction) {
			cl, ok := in.(*ssa.Call)
			if !ok {
				return
			}
			g := cl.Call.StaticCallee()
			if g == nil || g.Blocks == nil || !c.inModule(g) || len(hasSum(g)) == 0 {
				return
			}
			n++
			viaCall = cl
		})
		if n != 1 {
			r.undecided("TS-HASH", where, "hash value", c.pos(Y.Pos()), fmt.Sprintf("no Sum64() call in the k-mer callback, and %d helpers that it calls have one (want 1)", n))
			return
		}
		P = viaCall.Call.StaticCallee()
		kmer = nil
		for i, a := range viaCall.Call.Args {
			if i < len(P.Params) {
				t.argOf[P.Params[i]] = a
				if t.origin(a) == ssa.Value(Y.Params[0]) {
					kmer = P.Params[i]
				}
			}
		}
		r.analysed(fname(P))
	}
	sums := hasSum(P)
	if len(sums) != 1 {
		r.undecided("TS-HASH", where, "hash value", c.pos(P.Pos()), fmt.Sprintf("%d Sum64() calls where one k-mer is hashed (want 1)", len(sums)))
		return
	}
	sum := sums[0]
	H := t.origin(callRecv(sum))
	sameH := func(v ssa.Value) bool { return v != nil && t.origin(v) == H }
	var resets, writes, pushes []*ssa.Call
	writesOther := 0
	scan := map[*ssa.Function]bool{}
	for _, f := range fam {
		scan[f] = true
	}
	scan[P] = true
	for f := range scan {
		instrs(f, func(in ssa.Instruction) {
			if cl, ok := isInvokeOf(in, "Reset"); ok && sameH(callRecv(cl)) && f == P {
				resets = append(resets, cl)
			}
			if cl, ok := isInvokeOf(in, "Write"); ok && sameH(callRecv(cl)) {
				if f == P {
					writes = append(writes, cl)
				} else {
					writesOther++
				}
			}
			if cl, ok := in.(*ssa.Call); ok && !cl.Call.IsInvoke() && f == P {
				if g := cl.Call.StaticCallee(); g != nil && baseName(g) == "Push" && g.Signature.Recv() != nil && strings.Contains(funcPkgPath(g), "minhash") {
					pushes = append(pushes, cl)
				}
			}
		})
	}
	okPush := len(pushes) == 1 && len(callArgs(pushes[0])) == 1 && callArgs(pushes[0])[0] == ssa.Value(sum) && t.origin(callRecv(pushes[0])) == ssa.Value(add.Params[0])
	r.check(okPush, "TS-HASH", where, "pushed value", c.pos(sum.Pos()), "what is pushed into Add's sketch is h.Sum64()", "the value pushed is not h.Sum64() of the loop's hasher, or it is not pushed into Add's own sketch")
	okProto := len(resets) >= 1 && len(writes) == 1 && writesOther == 0 && kmer != nil
	if okProto {
		w := writes[0]
		okArg := len(callArgs(w)) == 1 && t.originIn(P, callArgs(w)[0]) == kmer
		okOrder := false
		for _, rs := range resets {
			if instrDominates(rs, w) {
				okOrder = true
			}
		}
		okProto = okArg && okOrder && instrDominates(w, sum)
		// nothing between the reset and the sum writes the hasher a second time: one Write only (counted above)
	}
	r.check(okProto, "TS-HASH", where, "Reset -> Write(k-mer) -> Sum64", c.pos(sum.Pos()),
		"for every k-mer the hasher is reset, written with exactly that k-mer, and then summed",
		fmt.Sprintf("the hasher is not Reset and then written with exactly the current k-mer before Sum64 (resets: %d, writes where the k-mer is hashed: %d, writes elsewhere: %d): a k-mer's hash depends on what was hashed before, so the sketch depends on input order", len(resets), len(writes), writesOther))
	// every k-mer is pushed: in Y every path to a return passes the push (or the call of the helper, all of whose
	// paths pass the push), and Y never asks the iterator to stop
	okAll := false
	if len(pushes) == 1 {
		if P == Y {
			okAll = allPathsPass(Y, map[*ssa.BasicBlock]bool{pushes[0].Block(): true})
		} else {
			okAll = allPathsPass(Y, map[*ssa.BasicBlock]bool{viaCall.Block(): true}) && allPathsPass(P, map[*ssa.BasicBlock]bool{pushes[0].Block(): true})
		}
	}
	okGoOn := true
	instrs(Y, func(in ssa.Instruction) {
		if rt, ok := in.(*ssa.Return); ok {
			if len(rt.Results) != 1 {
				okGoOn = false
				return
			}
			if k, ok := rt.Results[0].(*ssa.Const); !ok || k.Value == nil || k.Value.String() != "true" {
				okGoOn = false
			}
		}
	})
	r.check(okAll && okGoOn, "TS-HASH", where, "every k-mer is pushed", c.pos(Y.Pos()), "every k-mer the iterator delivers reaches mh.Push, and the callback never stops the iteration", fmt.Sprintf("some k-mers can skip mh.Push (push on every path: %v, the callback always asks for the next k-mer: %v)", okAll, okGoOn))
	// the hasher
	okSeed := false
	if hc, ok := H.(*ssa.Call); ok && fnIsPath(hc.Call.StaticCallee(), "github.com/spaolacci/murmur3", "New64WithSeed") && len(hc.Call.Args) == 1 {
		if ld, ok := hc.Call.Args[0].(*ssa.UnOp); ok && ld.Op == token.MUL {
			if g, ok := ld.X.(*ssa.Global); ok && g.Name() == "Seed" && g.Pkg == add.Pkg {
				okSeed = true
			}
		}
	}
	r.check(okSeed, "TS-HASH", where, "hasher", c.pos(add.Pos()), "the hasher is murmur3.New64WithSeed(Seed)", "the hasher is not created as murmur3.New64WithSeed(Seed)")
	// SORT-EXIT
	sortBlocks := map[*ssa.BasicBlock]bool{}
	instrs(add, func(in ssa.Instruction) {
		if cl, ok := in.(*ssa.Call); ok && !cl.Call.IsInvoke() {
			if g := cl.Call.StaticCallee(); g != nil && baseName(g) == "Sort" && g.Signature.Recv() != nil && strings.Contains(funcPkgPath(g), "minhash") && t.origin(callRecv(cl)) == ssa.Value(add.Params[0]) {
				sortBlocks[cl.Block()] = true
			}
		}
	})
	okSort := len(sortBlocks) > 0 && itCall.Parent() == add
	if okSort {
		seen := map[*ssa.BasicBlock]bool{}
		var dfs func(b *ssa.BasicBlock)
		dfs = func(b *ssa.BasicBlock) {
			if seen[b] || sortBlocks[b] || !okSort {
				return
			}
			seen[b] = true
			if _, isRet := lastInstr(b).(*ssa.Return); isRet {
				okSort = false
				return
			}
			for _, s := range b.Succs {
				dfs(s)
			}
		}
		for _, s := range itCall.Block().Succs {
			dfs(s)
		}
		if _, isRet := lastInstr(itCall.Block()).(*ssa.Return); isRet {
			okSort = false
		}
	}
	r.check(okSort, "SORT-EXIT", where, "Sort on every exit", c.pos(add.Pos()), "every path from the hashing loops to Add's exit passes mh.Sort()", "Add can return after pushing without mh.Sort(): the sketch is left unsorted")
}

// originIn follows v inside the hashing helper without leaving it through its parameters (the k-mer is compared
// as the helper's own parameter).
func (t *mashTracer) originIn(P *ssa.Function, v ssa.Value) ssa.Value {
	saved := t.argOf
	t.argOf = map[*ssa.Parameter]ssa.Value{}
	defer func() { t.argOf = saved }()
	return t.origin(v)
}

// baseName: the function's name without the type arguments of an instantiation.
func baseName(f *ssa.Function) string {
	if o := f.Origin(); o != nil {
		return o.Name()
	}
	return f.Name()
}

func fnIsPath(f *ssa.Function, pkgPath, name string) bool {
	if f == nil {
		return false
	}
	if o := f.Origin(); o != nil {
		f = o
	}
	return f.Name() == name && funcPkgPath(f) == pkgPath
}

var _ = types.Typ
