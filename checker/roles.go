package main

// Role resolution: unexported helpers and tables are found by what they do (who calls them, with what
// signature, what they touch), not by their names, so that renaming them changes nothing. The exported API
// names are the contract and are looked up by name.

import (
	"go/token"
	"go/types"
	"strings"

	"golang.org/x/tools/go/ssa"
)

// typeStr renders a type relative to the module path (e.g. "*formats/bed.BED", "[]byte", "error").
func typeStr(t types.Type) string {
	return types.TypeString(t, func(p *types.Package) string { return relPkg(p.Path()) })
}

func sigStr(f *ssa.Function) string {
	var ps, rs []string
	for i := 0; i < f.Signature.Params().Len(); i++ {
		ps = append(ps, typeStr(f.Signature.Params().At(i).Type()))
	}
	for i := 0; i < f.Signature.Results().Len(); i++ {
		rs = append(rs, typeStr(f.Signature.Results().At(i).Type()))
	}
	recv := ""
	if r := f.Signature.Recv(); r != nil {
		recv = "(" + typeStr(r.Type()) + ")"
	}
	return recv + "(" + strings.Join(ps, ",") + ")(" + strings.Join(rs, ",") + ")"
}

// calleesIn lists the distinct static module callees of root and its closures (synthetic range bodies included).
func (c *Ctx) calleesIn(root *ssa.Function) []*ssa.Function {
	seen := map[*ssa.Function]bool{}
	var out []*ssa.Function
	for _, f := range family(root) {
		instrs(f, func(in ssa.Instruction) {
			if ci, ok := in.(ssa.CallInstruction); ok {
				g := ci.Common().StaticCallee()
				if g != nil && c.inScope(g) && !seen[g] {
					seen[g] = true
					out = append(out, g)
				}
			}
			// a method value (x.m handed on as a function): the method counts as called from here
			if mc, ok := in.(*ssa.MakeClosure); ok {
				if w, ok := mc.Fn.(*ssa.Function); ok && strings.Contains(w.Synthetic, "bound method wrapper") {
					instrs(w, func(in2 ssa.Instruction) {
						if ci, ok := in2.(ssa.CallInstruction); ok {
							if g := ci.Common().StaticCallee(); g != nil && c.inScope(g) && !seen[g] {
								seen[g] = true
								out = append(out, g)
							}
						}
					})
				}
			}
		})
	}
	return out
}

// calleeBySig finds the unique callee of root (transitively up to depth hops within the module) whose
// signature string matches; nil if none or ambiguous.
func (c *Ctx) calleeBySig(root *ssa.Function, sig string, depth int) *ssa.Function {
	if root == nil {
		return nil
	}
	seen := map[*ssa.Function]bool{root: true}
	frontier := []*ssa.Function{root}
	var found []*ssa.Function
	for d := 0; d <= depth && len(frontier) > 0; d++ {
		var next []*ssa.Function
		for _, f := range frontier {
			for _, g := range c.calleesIn(f) {
				if seen[g] {
					continue
				}
				seen[g] = true
				if sigStr(g) == sig {
					found = append(found, g)
				}
				if c.inModule(g) {
					next = append(next, g)
				}
			}
		}
		if len(found) > 0 {
			break
		}
		frontier = next
	}
	if len(found) == 1 {
		return found[0]
	}
	return nil
}

// role resolves a named role to a function.
func (c *Ctx) role(name string) *ssa.Function {
	switch name {
	case "align.decideOnStep":
		return c.calleeBySig(c.fn("align", "Global"), "(float64,float64,float64)(align.block)", 0)
	case "align.traceGlobal":
		return c.calleeBySig(c.fn("align", "Global"), "([]align.block,int)([]align.Step,float64)", 0)
	case "align.traceLocal":
		return c.calleeBySig(c.fn("align", "Local"), "([]align.block,int)([]align.Step,int,float64)", 0)
	case "fasta.read":
		return c.calleeBySig(c.fn("formats/fasta", "Reader"), "(*formats/fasta.reader)()(*formats/fasta.Fasta,error)", 3)
	case "fastq.read":
		// the record filled through an out-parameter: readInto(fq) error — preferred when present, read() is then a
		// thin wrapper around it (or gone)
		if f := c.calleeBySig(c.fn("formats/fastq", "Reader"), "(*formats/fastq.reader)(*formats/fastq.Fastq)(error)", 4); f != nil {
			return f
		}
		return c.calleeBySig(c.fn("formats/fastq", "Reader"), "(*formats/fastq.reader)()(*formats/fastq.Fastq,error)", 3)
	case "bed.read":
		return c.calleeBySig(c.fn("formats/bed", "Reader"), "(*formats/bed.reader)()(*formats/bed.BED,error)", 2)
	case "bed.parseLine":
		return c.calleeBySig(c.fn("formats/bed", "Reader"), "([]string)(*formats/bed.BED,error)", 3)
	case "newick.read":
		return c.calleeBySig(c.fn("formats/newick", "Reader"), "(*formats/newick.reader)()(*formats/newick.Node,error)", 2)
	case "newick.nextToken":
		return c.calleeBySig(c.role("newick.read"), "(*formats/newick.reader)()(string,error)", 0)
	case "newick.writer":
		if f := c.calleeBySig(c.fn("formats/newick", "(*Node).MarshalText"), "(*formats/newick.Node)(*bytes.Buffer)()", 1); f != nil {
			return f
		}
		// the writer as a method of a type that holds the buffer, the node being its argument: the one function of the
		// package that MarshalText reaches (depth 1), that takes a *Node, returns nothing and calls itself
		mt := c.fn("formats/newick", "(*Node).MarshalText")
		if mt == nil {
			return nil
		}
		var found []*ssa.Function
		seen := map[*ssa.Function]bool{mt: true}
		frontier := []*ssa.Function{mt}
		for d := 0; d <= 1; d++ {
			var next []*ssa.Function
			for _, f := range frontier {
				for _, g := range c.calleesIn(f) {
					if seen[g] || g.Pkg != mt.Pkg || g.Blocks == nil {
						continue
					}
					seen[g] = true
					next = append(next, g)
					if g.Signature.Results().Len() == 0 && nodeParamIndex(g) >= 0 && len(staticCallsTo(g, g)) > 0 {
						found = append(found, g)
					}
				}
			}
			frontier = next
		}
		if len(found) == 1 {
			return found[0]
		}
		return nil
	case "newick.nameToText":
		return c.calleeBySig(c.role("newick.writer"), "(string)(string)", 0)
	case "newick.nameFromText":
		return c.calleeBySig(c.role("newick.read"), "(string)(string)", 0)
	case "newick.quoted":
		return c.calleeBySig(c.role("newick.nameFromText"), "(string)(bool)", 0)
	case "newick.traverse":
		if f := c.calleeBySig(c.fn("formats/newick", "(*Node).PreOrder"), "(*formats/newick.Node)(bool)(iter.Seq[*formats/newick.Node])", 0); f != nil {
			return f
		}
		// the order selected by a value of a small type of the package (an enumeration) instead of a bool: the one
		// method of *Node that both PreOrder and PostOrder call with a constant, returning the same iterator type
		pre, post := c.fn("formats/newick", "(*Node).PreOrder"), c.fn("formats/newick", "(*Node).PostOrder")
		if pre == nil || post == nil {
			return nil
		}
		var found *ssa.Function
		for _, g := range c.calleesIn(pre) {
			if g.Pkg != pre.Pkg || g.Blocks == nil || len(g.Params) != 2 || g.Signature.Results().Len() != 1 || !types.Identical(g.Signature.Results().At(0).Type(), pre.Signature.Results().At(0).Type()) {
				continue
			}
			if bt, ok := g.Params[1].Type().Underlying().(*types.Basic); !ok || bt.Info()&types.IsInteger == 0 {
				continue
			}
			if len(staticCallsTo(post, g)) == 1 && len(staticCallsTo(pre, g)) == 1 {
				if found != nil {
					return nil
				}
				found = g
			}
		}
		return found
	case "sequtil.complement":
		return c.calleeBySig(c.fn("sequtil", "ReverseComplement"), "(byte)(byte)", 0)
	case "regions.cp":
		return c.calleeBySig(c.fn("regions", "(*Index).At"), "([]int)([]int)", 0)
	case "regions.eventLess":
		if f := c.calleeBySig(c.fn("regions", "NewIndex"), "(regions.event,regions.event)(bool)", 3); f != nil {
			return f
		}
		return c.calleeBySig(c.fn("regions", "NewIndex"), "(*regions.event,*regions.event)(bool)", 3) // the events by pointer
	case "regions.keys":
		return c.calleeBySig(c.fn("regions", "NewIndex"), "(map[int]struct{})([]int)", 2)
	case "smtext.singleChar":
		return c.calleeBySig(c.fn("formats/smtext", "ReadNCBI"), "(string)(byte,error)", 0)
	case "sam.parseLine":
		if f := c.calleeBySig(c.fn("formats/sam", "ReaderHeader"), "([]string)(*formats/sam.SAM,error)", 2); f != nil {
			return f
		}
		return c.calleeBySig(c.fn("formats/sam", "ReaderHeader"), "([]string,*formats/sam.SAM)(error)", 2) // the record through an out-parameter
	case "sam.parseInts":
		return c.calleeBySig(c.role("sam.parseLine"), "([]string,[]*int)(error)", 2)
	case "sam.parseTags":
		return c.calleeBySig(c.role("sam.parseLine"), "([]string)(map[string]any,error)", 0)
	case "sam.splitTag":
		if f := c.calleeBySig(c.role("sam.parseTags"), "(string)([3]string,error)", 0); f != nil {
			return f
		}
		return c.calleeBySig(c.role("sam.parseTags"), "(string)([]string,error)", 0) // the three parts as a slice
	case "sam.tagsToText":
		return c.calleeBySig(c.fn("formats/sam", "(*SAM).Write"), "(map[string]interface{})([]string)", 0)
	case "sam.tagToText":
		if f := c.calleeBySig(c.role("sam.tagsToText"), "(string,interface{})(string)", 0); f != nil {
			return f
		}
		return c.calleeBySig(c.role("sam.tagsToText"), "(string,interface{},*string)()", 0) // the text through an out-parameter
	case "align.charOrGap":
		return c.calleeBySig(c.fn("align", "(SubstitutionMatrix).GoString"), "(byte)(string)", 1)
	case "trie.keys":
		return c.calleeBySig(c.fn("trie", "(*Trie).ForEach"), "(*trie.Trie)()([]byte)", 2)
	}
	return nil
}

// tableIn: the package-level variable that function f (or a module callee, up to depth) indexes or looks up.
func (c *Ctx) tableIn(f *ssa.Function, depth int) *ssa.Global {
	if f == nil {
		return nil
	}
	var found []*ssa.Global
	seenG := map[*ssa.Global]bool{}
	var visit func(g *ssa.Function, d int)
	seenF := map[*ssa.Function]bool{}
	visit = func(g *ssa.Function, d int) {
		if seenF[g] {
			return
		}
		seenF[g] = true
		for _, h := range family(g) {
			instrs(h, func(in ssa.Instruction) {
				var base ssa.Value
				switch x := in.(type) {
				case *ssa.IndexAddr:
					base = x.X
				case *ssa.Lookup:
					base = x.X
				case *ssa.Index:
					base = x.X
				}
				if base == nil {
					return
				}
				var gl *ssa.Global
				if u, ok := base.(*ssa.UnOp); ok && u.Op == token.MUL {
					gl, _ = u.X.(*ssa.Global)
				} else if gg, ok := base.(*ssa.Global); ok {
					gl = gg
				}
				if gl != nil && gl.Pkg != nil && c.inModulePath(gl.Pkg.Pkg.Path()) && !seenG[gl] {
					seenG[gl] = true
					found = append(found, gl)
				}
			})
		}
		if d < depth {
			for _, h := range c.calleesIn(g) {
				if c.inModule(h) {
					visit(h, d+1)
				}
			}
		}
	}
	visit(f, 0)
	if len(found) == 1 {
		return found[0]
	}
	return nil
}

func (c *Ctx) inModulePath(p string) bool { return p == modPath || strings.HasPrefix(p, modPath+"/") }

// relOfGlobal: package path of a global relative to the module.
func relOfGlobal(g *ssa.Global) string { return relPkg(g.Pkg.Pkg.Path()) }

// allRoles: the names role() knows.
var allRoles = []string{"align.decideOnStep", "align.traceGlobal", "align.traceLocal", "fasta.read", "fastq.read", "bed.read", "bed.parseLine",
	"newick.read", "newick.nextToken", "newick.writer", "newick.nameToText", "newick.nameFromText", "newick.quoted", "newick.traverse",
	"sequtil.complement", "regions.cp", "regions.eventLess", "regions.keys", "smtext.singleChar", "sam.parseLine", "sam.parseInts",
	"sam.parseTags", "sam.splitTag", "sam.tagsToText", "sam.tagToText", "trie.keys", "align.charOrGap"}

// markRoles: calls to functions that rules identify by role are never rendered through their bodies.
func (c *Ctx) markRoles() {
	for _, name := range allRoles {
		if f := c.role(name); f != nil {
			symNoInline[f] = true
		}
	}
}

// stageFuncs: root plus the unexported module functions that are called only from root or from other stages of
// it (a function split into stages): the places where "the code of root" may live.
func (c *Ctx) stageFuncs(root *ssa.Function) []*ssa.Function {
	if root == nil {
		return nil
	}
	callers := map[*ssa.Function]map[*ssa.Function]bool{}
	asValue := map[*ssa.Function]bool{}
	for _, f := range c.moduleFuncs() {
		instrs(f, func(in ssa.Instruction) {
			var ops []*ssa.Value
			for _, op := range in.Operands(ops) {
				if g, ok := (*op).(*ssa.Function); ok {
					if ci, isCall := in.(ssa.CallInstruction); isCall && ci.Common().Value == ssa.Value(g) {
						if callers[g] == nil {
							callers[g] = map[*ssa.Function]bool{}
						}
						owner := f
						for owner.Parent() != nil {
							owner = owner.Parent()
						}
						callers[g][owner] = true
					} else {
						asValue[g] = true
					}
				}
			}
		})
	}
	in := map[*ssa.Function]bool{root: true}
	out := []*ssa.Function{root}
	for changed := true; changed; {
		changed = false
		for g, cs := range callers {
			if in[g] || asValue[g] || g.Blocks == nil || !c.inModule(g) || g.Pkg != root.Pkg || symNoInline[g] {
				continue
			}
			if n := g.Name(); n == "" || (n[0] >= 'A' && n[0] <= 'Z') {
				continue
			}
			only := len(cs) > 0
			for caller := range cs {
				if !in[caller] {
					only = false
				}
			}
			if only {
				in[g] = true
				out = append(out, g)
				changed = true
			}
		}
	}
	return out
}

// soleDelegate: the function's body only hands its work to one module function — `g(args...)` and return, nothing
// else that has an effect (loads of captured variables and conversions aside). Returns g and the call.
func (c *Ctx) soleDelegate(f *ssa.Function) (*ssa.Function, *ssa.Call) {
	if f == nil || len(f.Blocks) != 1 {
		return nil, nil
	}
	var call *ssa.Call
	for _, in := range f.Blocks[0].Instrs {
		switch x := in.(type) {
		case *ssa.Call:
			if call != nil {
				return nil, nil
			}
			call = x
		case *ssa.UnOp, *ssa.Return, *ssa.DebugRef, *ssa.ChangeType, *ssa.MakeInterface, *ssa.ChangeInterface, *ssa.Convert, *ssa.Alloc, *ssa.Store, *ssa.Extract:
		default:
			return nil, nil
		}
	}
	if call == nil {
		return nil, nil
	}
	g := call.Call.StaticCallee()
	if g == nil || g.Blocks == nil || !c.inModule(g) || g == f {
		return nil, nil
	}
	return g, call
}

// delegatedBody: f itself, or — when f only delegates — the function that does the work, with a symb that renders
// that function's parameters as f renders the arguments (so rules keep f's vocabulary), and the value that stands
// for f's i-th parameter there.
func (c *Ctx) delegatedBody(f *ssa.Function) (*ssa.Function, *symb, func(p *ssa.Parameter) ssa.Value) {
	s := newSymb(f)
	g, call := c.soleDelegate(f)
	if g == nil {
		return f, s, func(p *ssa.Parameter) ssa.Value { return p }
	}
	gs := newSymb(g)
	for i, p := range g.Params {
		if i < len(call.Call.Args) {
			gs.subst[p] = s.expr(call.Call.Args[i])
		}
	}
	return g, gs, func(p *ssa.Parameter) ssa.Value {
		for i, a := range call.Call.Args {
			if a == ssa.Value(p) && i < len(g.Params) {
				return g.Params[i]
			}
		}
		return p
	}
}

// iterBodyInfo: the function that does an iterator's work, rendered in the vocabulary of an iterator literal of the
// outer function: captured parameters of the outer function as ^P0, ^P1, …, the callback as P0.
type iterBodyInfo struct {
	f     *ssa.Function
	s     *symb
	yield ssa.Value
	lit   *ssa.Function // the literal, when there is one
}

// iterBody resolves the body of the iterator that outer returns: its single literal (or the function the literal
// hands its whole work to), or — when outer returns a method value `T{…}.run` — that method, its receiver's fields
// standing for what the literal would have captured.
func (c *Ctx) iterBody(outer *ssa.Function) *iterBodyInfo {
	if outer == nil {
		return nil
	}
	if len(outer.AnonFuncs) == 1 {
		lit := outer.AnonFuncs[0]
		f, s, paramIn := c.delegatedBody(lit)
		info := &iterBodyInfo{f: f, s: s, lit: lit}
		if len(lit.Params) == 1 {
			info.yield = paramIn(lit.Params[0])
		}
		return info
	}
	if len(outer.AnonFuncs) != 0 {
		return nil
	}
	// return T{…}.method   (one block; the closure is a bound-method wrapper)
	var mc *ssa.MakeClosure
	instrs(outer, func(in ssa.Instruction) {
		if rt, ok := in.(*ssa.Return); ok && len(rt.Results) == 1 {
			v := rt.Results[0]
			if ct, ok := v.(*ssa.ChangeType); ok {
				v = ct.X
			}
			if m, ok := v.(*ssa.MakeClosure); ok {
				mc = m
			}
		}
	})
	if mc == nil || len(mc.Bindings) != 1 {
		return nil
	}
	w, ok := mc.Fn.(*ssa.Function)
	if !ok || !strings.Contains(w.Synthetic, "bound method wrapper") {
		return nil
	}
	var m *ssa.Function
	instrs(w, func(in ssa.Instruction) {
		if cl, ok := in.(ssa.CallInstruction); ok && cl.Common().StaticCallee() != nil {
			m = cl.Common().StaticCallee()
		}
	})
	if m == nil || m.Blocks == nil || !c.inModule(m) || len(m.Params) != 2 {
		return nil
	}
	os := newSymb(outer)
	recv := mc.Bindings[0]
	var rsym *Sym
	if ld, ok := recv.(*ssa.UnOp); ok && ld.Op == token.MUL {
		if al, ok := ld.X.(*ssa.Alloc); ok {
			if st, ok := al.Type().(*types.Pointer).Elem().Underlying().(*types.Struct); ok {
				rsym = &Sym{Op: "struct", Args: make([]*Sym, st.NumFields())}
				for _, ref := range *al.Referrers() {
					if fa, ok := ref.(*ssa.FieldAddr); ok {
						for _, r2 := range *fa.Referrers() {
							if s2, ok := r2.(*ssa.Store); ok && s2.Addr == ssa.Value(fa) {
								rsym.Args[fa.Field] = lift(os.expr(s2.Val))
							}
						}
					}
				}
			}
		}
	}
	if rsym == nil {
		rsym = lift(os.expr(recv))
	}
	s := newSymb(m)
	s.subst[m.Params[0]] = rsym
	s.subst[m.Params[1]] = leaf("param", "P0", m.Params[1])
	return &iterBodyInfo{f: m, s: s, yield: m.Params[1]}
}

// nodeParamIndex: the one parameter (receiver included) of f whose type is a pointer to the package's Node; -1 if
// there is none or more than one.
func nodeParamIndex(f *ssa.Function) int {
	idx := -1
	for i, p := range f.Params {
		pt, ok := p.Type().(*types.Pointer)
		if !ok {
			continue
		}
		nt, ok := pt.Elem().(*types.Named)
		if !ok || nt.Obj().Name() != "Node" || nt.Obj().Pkg() == nil || f.Pkg == nil || nt.Obj().Pkg() != f.Pkg.Pkg {
			continue
		}
		if idx >= 0 {
			return -1
		}
		idx = i
	}
	return idx
}
