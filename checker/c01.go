package main

import (
	"fmt"
	"go/token"
	"strings"

	"golang.org/x/tools/go/ssa"
)

func init() {
	register("C01", "one obligation per writer call, per constant of the wrapping arithmetic, per terminator comparison group, per use of the writer's buffer; non-trivial = needed constant extraction with provenance slicing, a symbolic bound comparison or a dominance argument", rulesC01, nil)
}

func rulesC01(c *Ctx, r *Report) {
	r.explain("Decides: (G1) MarshalText's bytes come only from Write into a fresh buffer and are returned unsliced — 'MarshalText and Write produce identical bytes'; (FMT-CONST) every format string of the writer is a constant, so names and sequences are only ever operands; (W-HDR) the first write is unconditional, '>' + name + newline — one name line per record, also for empty names; (W80) sequence lines are f.Sequence[i : min(i+C, len)] for i = 0, C, 2C, … with the same constant C ≤ 80 in the step, the window and MarshalText's length formula, each followed by one newline; (PASS-ALL) the iterator layers between read() and the consumer hand on every record; (G5, FSM) the body of the reader's byte loop is evaluated as a finite automaton over all 4 states x 256 bytes: LF and CR have identical effects in every state, and the whole transition function equals the FASTA layout ('>' at a line start ends the record, line breaks end lines, other bytes go to the name in the name line and to the sequence elsewhere). Not decided: decode(encode(x)) = x; that the reader joins lines and handles '>' after a line break correctly; layout independence beyond the CR/LF sets. Added rules: (FSM) the reader's loop as an automaton — all 4 x 256 (state, byte) transitions match the FASTA layout, and what is returned after the loop depends only on the read error and the read-anything flag; (A6-SCHED) nothing consults Buffered(); (LINE-WHOLE) no ReadLine with discarded isPrefix, no ReadSlice without ErrBufferFull handling. Entry points (shared with C06/C18, restricted to this package): (FD) File(path) opens path with aio.Open, yields the open error and otherwise ranges over Reader on the opened bytes, passing every item on; (A6) the stream only enters a buffering reader, never a direct Read; (NIL-HANDLE) the handle is touched only behind the error check. (LAYER) no decompressor or transcoder is constructed in the codec packages: Reader decodes the stream's own bytes whatever they look like.")
	r.assume("fmt's %s writes a []byte operand verbatim")
	ruleG1(c, r, "formats/fasta", "Fasta")
	rulesEntryPoints(c, r, "formats/fasta")
	rulesFastaWriter(c, r)
	rulesPassAllFor(c, r, "formats/fasta", 2)
	rulesNoBufferedPkg(c, r, "formats/fasta")
	rulesWholeLines(c, r, "formats/fasta", "tokenizer")
	rulesFastaAutomaton(c, r)
}

// rulesFastaWriter (FMT-CONST, W-HDR, W80): the writer side of the FASTA codec.
func rulesFastaWriter(c *Ctx, r *Report) {
	w := c.fn("formats/fasta", "(*Fasta).Write")
	where := "formats/fasta.(*Fasta).Write"
	if w == nil {
		r.undecided("W-HDR", where, "anchor", "", "Write not found")
		return
	}
	r.analysed(where)
	n := ruleFmtConst(c, r, w)
	r.floor("FMT-CONST", n, 1, "Fprintf calls in fasta Write")
	s := newSymb(w)
	calls := fmtCallsIn(w)
	// W-HDR: first write
	var hdr *fmtCall
	for _, fc := range calls {
		if fc.format != nil && strings.HasPrefix(*fc.format, ">") {
			hdr = fc
		}
	}
	if hdr == nil {
		r.violated("W-HDR", where, "name line", c.pos(w.Pos()), "no write whose constant format starts with '>'")
	} else {
		okFmt := *hdr.format == ">%s\n"
		hs := s
		if hdr.sy != nil {
			hs = hdr.sy // the write lives in a helper: its operand in Write's vocabulary
		}
		okArg := len(hdr.args) == 1 && recvFieldName(w, hs.expr(hdr.args[0])) == "Name"
		unconditional := true
		instrs(w, func(in ssa.Instruction) {
			if rt, ok := in.(*ssa.Return); ok && !hdr.site.Block().Dominates(rt.Block()) {
				unconditional = false
			}
		})
		first := true
		for _, fc := range calls {
			if fc != hdr && !hdr.site.Block().Dominates(fc.site.Block()) {
				first = false
			}
		}
		r.check(okFmt && okArg && unconditional && first && hdr.w == ssa.Value(w.Params[1]), "W-HDR", where, "name line", c.pos(hdr.call.Pos()),
			"the first write, on every path, is \">%s\\n\" with the Name field: a name line per record even for empty names",
			fmt.Sprintf("name line is wrong: format %q (want \">%%s\\n\"), operand is Name: %v, executed on every path: %v, before every other write: %v", *hdr.format, okArg, unconditional, first))
	}
	// W80: the sequence loop
	var line *fmtCall
	for _, fc := range calls {
		if fc != hdr {
			if line != nil {
				r.undecided("W80", where, "sequence lines", c.pos(fc.call.Pos()), "more than one sequence write")
				return
			}
			line = fc
		}
	}
	if line == nil || line.format == nil || len(line.args) != 1 {
		r.undecided("W80", where, "sequence lines", c.pos(w.Pos()), "no single sequence-line write with one operand")
		return
	}
	lineArg := line.args[0]
	if par, ok := lineArg.(*ssa.Parameter); ok && line.site != nil && line.site != line.call {
		// the write lives in a helper: the operand is what Write passes for that parameter
		if g := line.site.Call.StaticCallee(); g != nil {
			for i, p := range g.Params {
				if p == par && i < len(line.site.Call.Args) {
					lineArg = line.site.Call.Args[i]
				}
			}
		}
	}
	sl, _ := lineArg.(*ssa.Slice)
	if sl == nil || sl.Low == nil || sl.High == nil || recvFieldName(w, s.expr(sl.X)) != "Sequence" {
		r.violated("W80", where, "sequence window", c.pos(line.call.Pos()), "the sequence line is not a window f.Sequence[i:to]")
		return
	}
	iphi, _ := sl.Low.(*ssa.Phi)
	var step int64 = -1
	okInit := false
	if iphi != nil {
		for _, e := range iphi.Edges {
			if k, ok := cInt(constVal(e)); ok && k == 0 {
				okInit = true
			}
			if b, ok := e.(*ssa.BinOp); ok && b.Op == token.ADD && b.X == ssa.Value(iphi) {
				step, _ = cInt(constVal(b.Y))
			}
		}
	}
	hi := s.expr(sl.High)
	seqLen := "builtin:len(" + s.expr(sl.X).String() + ")"
	var width int64 = -1
	if a, b, ok := asMin(hi); ok {
		pair := []*Sym{a, b}
		for k := 0; k < 2; k++ {
			if pair[1-k].String() == seqLen {
				d := linSub(linOf(pair[k]), linOf(s.expr(sl.Low)))
				if len(nonZero(d.coef)) == 0 {
					width = d.k
				}
			}
		}
	}
	bound := ""
	if iphi != nil {
		for _, ref := range *iphi.Referrers() {
			if b, ok := ref.(*ssa.BinOp); ok && b.Op == token.LSS && b.X == ssa.Value(iphi) && b.Block() == iphi.Block() {
				bound = s.expr(b.Y).String()
			}
			// the same test with the operands the other way round: len > i
			if b, ok := ref.(*ssa.BinOp); ok && b.Op == token.GTR && b.Y == ssa.Value(iphi) && b.Block() == iphi.Block() {
				bound = s.expr(b.X).String()
			}
		}
	}
	// MarshalText's formula constant
	var mtC int64 = -1
	if mt := c.fn("formats/fasta", "(*Fasta).MarshalText"); mt != nil {
		instrs(mt, func(in ssa.Instruction) {
			if b, ok := in.(*ssa.BinOp); ok && b.Op == token.QUO {
				mtC, _ = cInt(constVal(b.Y))
			}
		})
	}
	okAll := okInit && step > 0 && step == width && step <= 80 && bound == seqLen && *line.format == "%s\n" && (mtC == -1 || mtC == step)
	r.check(okAll, "W80", where, "sequence lines", c.pos(line.call.Pos()),
		fmt.Sprintf("lines are Sequence[i : min(i+%d, len)] for i = 0, %d, … < len, each written as \"%%s\\n\"; MarshalText's length formula uses the same %d (≤ 80)", step, step, step),
		fmt.Sprintf("wrapping is inconsistent: starts at 0: %v, step %d, window width %d (want equal, ≤ 80), loop bound %s (want %s), line format %q (want \"%%s\\n\"), MarshalText divides by %d", okInit, step, width, bound, seqLen, *line.format, mtC))
}

func nonZero(m map[string]int64) []string {
	var out []string
	for k, v := range m {
		if v != 0 {
			out = append(out, k)
		}
	}
	return out
}

// asMin: e is min(a, b): the builtin, or a choice `if a > b { b } else { a }` in any of its spellings.
func asMin(e *Sym) (*Sym, *Sym, bool) {
	if e.Op == "builtin:min" && len(e.Args) == 2 {
		return e.Args[0], e.Args[1], true
	}
	if (e.Op != "ite" && e.Op != "phi") || len(e.Args) != 3 {
		return nil, nil, false
	}
	c, t, f := e.Args[0], e.Args[1], e.Args[2]
	if len(c.Args) != 2 {
		return nil, nil, false
	}
	x, y := c.Args[0].String(), c.Args[1].String()
	ts, fs := t.String(), f.String()
	switch c.Op {
	case "bin:<", "bin:<=":
		if x == ts && y == fs { // t < f ? t : f
			return t, f, true
		}
	case "bin:>", "bin:>=":
		if x == fs && y == ts { // f > t ? t : f
			return t, f, true
		}
	}
	return nil, nil, false
}
