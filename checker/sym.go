package main

// E-SYM — normal-form symbolic expressions over SSA values, for sibling comparison.
// Memory is abstracted: a load is load(address-expression), independent of program point
// (siblings are compared under the same abstraction). Loop-carried phis become LOOP leaves.

import (
	"fmt"
	"go/token"
	"go/types"
	"sort"
	"strconv"
	"strings"

	"golang.org/x/tools/go/ssa"
)

type Sym struct {
	Op   string // const, param, loop, bin:+, un:-, load, index, field, call:name, builtin:len, ite, phi, make, conv, extract:k, global, unknown
	Args []*Sym
	Leaf string
	Val  ssa.Value
	str  string
}

func (s *Sym) String() string {
	if s == nil {
		return "<nil>"
	}
	if s.str != "" {
		return s.str
	}
	if len(s.Args) == 0 {
		s.str = s.Leaf
		return s.str
	}
	var as []string
	for _, a := range s.Args {
		as = append(as, a.String())
	}
	switch {
	case strings.HasPrefix(s.Op, "bin:"):
		s.str = "(" + as[0] + " " + strings.TrimPrefix(s.Op, "bin:") + " " + as[1] + ")"
	case s.Op == "index":
		s.str = as[0] + "[" + as[1] + "]"
	case s.Op == "field":
		s.str = as[0] + "." + s.Leaf
	default:
		s.str = s.Op + "(" + strings.Join(as, ", ") + ")"
	}
	return s.str
}

type symb struct {
	fn    *ssa.Function
	memo  map[ssa.Value]*Sym
	loops map[*ssa.Phi]string
	subst map[ssa.Value]*Sym // optional substitutions (e.g. parameters -> caller expressions)
	outer *symb              // symb of the enclosing function (for captured variables)
	depth int                // nesting of symbolic inlining
	// fwdStructCopy: a whole-struct read of a local copy of a loaded struct is rendered as the struct it was copied
	// from (set by the rules that need it: the traversal step)
	fwdStructCopy bool
}

// symNoInline: functions that rules identify by role or name; calls to them are never rendered through their
// bodies. Filled once after loading.
var symNoInline = map[*ssa.Function]bool{}

// inlinable: an unexported, loop-free module function that only computes its results (stores to its own locals
// and panics aside) — a value helper. A call to it is rendered as the expression its body computes.
func inlinable(c *ssa.Function) bool {
	if c == nil || c.Blocks == nil || symNoInline[c] || c.Pkg == nil || !strings.HasPrefix(c.Pkg.Pkg.Path(), modPath) {
		return false
	}
	if n := c.Name(); n == "" || (n[0] >= 'A' && n[0] <= 'Z') || strings.Contains(n, "$") || n == "init" {
		return false
	}
	res := c.Signature.Results()
	if res.Len() == 0 || res.Len() > 3 {
		return false
	}
	for i := 0; i < res.Len(); i++ {
		switch res.At(i).Type().Underlying().(type) {
		case *types.Basic, *types.Slice, *types.Pointer, *types.Interface:
		default:
			return false
		}
	}
	for _, b := range c.Blocks {
		for _, p := range b.Preds {
			if b.Dominates(p) {
				return false // loop
			}
		}
	}
	ok := true
	instrs(c, func(in ssa.Instruction) {
		switch x := in.(type) {
		case *ssa.Store:
			if _, local := x.Addr.(*ssa.Alloc); local {
				return
			}
			if ia, isIA := x.Addr.(*ssa.IndexAddr); isIA {
				if al, isAl := ia.X.(*ssa.Alloc); isAl && (al.Comment == "varargs" || !al.Heap) {
					return
				}
			}
			if fa, isFA := x.Addr.(*ssa.FieldAddr); isFA {
				if al, isAl := fa.X.(*ssa.Alloc); isAl && !al.Heap {
					return
				}
			}
			ok = false
		case *ssa.MapUpdate, *ssa.Send, *ssa.Go, *ssa.Defer, *ssa.MakeClosure, *ssa.Range, *ssa.Next:
			ok = false
		case *ssa.Call:
			if b, isB := x.Call.Value.(*ssa.Builtin); isB {
				switch b.Name() {
				case "len", "cap", "min", "max":
				default:
					ok = false
				}
				return
			}
			g := x.Call.StaticCallee()
			if g == nil {
				ok = false
				return
			}
			if g.Pkg != nil && (g.Pkg.Pkg.Path() == "fmt" || g.Pkg.Pkg.Path() == "strconv" || g.Pkg.Pkg.Path() == "strings" || g.Pkg.Pkg.Path() == "bytes" || g.Pkg.Pkg.Path() == "math" || g.Pkg.Pkg.Path() == "errors") {
				return // value functions of the standard library
			}
			if g == c {
				ok = false
				return
			}
			if !strings.HasPrefix(funcPkgPath(g), modPath) {
				ok = false
			}
		}
	})
	return ok
}

// summary renders result idx of a call to the value helper c with the given argument expressions.
func (s *symb) summary(c *ssa.Function, args []*Sym, idx int) *Sym {
	if s.depth >= 2 || !inlinable(c) {
		return nil
	}
	sub := newSymb(c)
	sub.depth = s.depth + 1
	for i, p := range c.Params {
		if i < len(args) {
			sub.subst[p] = args[i]
		}
	}
	nodes := 0
	var walk func(b, pred *ssa.BasicBlock) *Sym
	walk = func(b, pred *ssa.BasicBlock) *Sym {
		nodes++
		if nodes > 48 {
			return nil
		}
		switch t := lastInstr(b).(type) {
		case *ssa.Return:
			ops := retOperands(t)
			if idx >= len(ops) {
				return nil
			}
			o := ops[idx]
			// a phi of the return block: the value of the edge this path came along
			if phi, ok := o.(*ssa.Phi); ok && phi.Block() == b && pred != nil {
				for i, p := range b.Preds {
					if p == pred {
						o = phi.Edges[i]
					}
				}
			}
			return sub.expr(o)
		case *ssa.If:
			a, bb := walk(b.Succs[0], b), walk(b.Succs[1], b)
			if a == nil || bb == nil {
				return nil
			}
			// a side that panics returns no value: the call's value is that of the other side
			if a.Op == "panic" {
				return bb
			}
			if bb.Op == "panic" {
				return a
			}
			return simplifyIte(&Sym{Op: "ite", Args: []*Sym{sub.expr(t.Cond), a, bb}})
		case *ssa.Jump:
			return walk(b.Succs[0], b)
		case *ssa.Panic:
			return leaf("panic", "panic", nil)
		}
		return nil
	}
	return walk(c.Blocks[0], nil)
}

// simplifyIte removes a nested test of the same condition: ite(c, ite(c, a, _), b) = ite(c, a, b), likewise on
// the else side; ite(c, a, a) = a.
func simplifyIte(e *Sym) *Sym {
	if e.Op != "ite" || len(e.Args) != 3 {
		return e
	}
	c := e.Args[0].String()
	t, f := e.Args[1], e.Args[2]
	for t.Op == "ite" && len(t.Args) == 3 && t.Args[0].String() == c {
		t = t.Args[1]
	}
	for f.Op == "ite" && len(f.Args) == 3 && f.Args[0].String() == c {
		f = f.Args[2]
	}
	if t.String() == f.String() {
		return t
	}
	return &Sym{Op: "ite", Args: []*Sym{e.Args[0], t, f}, Val: e.Val}
}

// cellValue: if cell (an Alloc holding one variable) is assigned exactly once — counting stores in the
// function that owns it and in every closure that captures it — returns the assigned value.
func cellValue(cell *ssa.Alloc) ssa.Value {
	var val ssa.Value
	n := 0
	var scan func(addr ssa.Value, fn *ssa.Function)
	scan = func(addr ssa.Value, fn *ssa.Function) {
		refs := addr.Referrers()
		if refs == nil {
			return
		}
		for _, ref := range *refs {
			switch x := ref.(type) {
			case *ssa.Store:
				if x.Addr == addr {
					n++
					val = x.Val
				}
			case *ssa.MakeClosure:
				cl := x.Fn.(*ssa.Function)
				for i, b := range x.Bindings {
					if b == addr && i < len(cl.FreeVars) {
						scan(cl.FreeVars[i], cl)
					}
				}
			case *ssa.IndexAddr, *ssa.FieldAddr:
				// element/field stores make it a composite under construction, not a simple variable
				for _, r2 := range *ref.(ssa.Value).Referrers() {
					if st, ok := r2.(*ssa.Store); ok && st.Addr == ref.(ssa.Value) {
						n += 2
					}
				}
			}
		}
	}
	scan(cell, cell.Parent())
	if n == 1 {
		return val
	}
	return nil
}

// bindingOf returns the value bound to free variable fv at the closure's creation site.
func bindingOf(fv *ssa.FreeVar) ssa.Value {
	fn := fv.Parent()
	parent := fn.Parent()
	if parent == nil {
		return nil
	}
	idx := -1
	for i, x := range fn.FreeVars {
		if x == fv {
			idx = i
		}
	}
	var out ssa.Value
	instrs(parent, func(in ssa.Instruction) {
		if mc, ok := in.(*ssa.MakeClosure); ok && mc.Fn == ssa.Value(fn) && idx >= 0 && idx < len(mc.Bindings) {
			out = mc.Bindings[idx]
		}
	})
	return out
}

// lift renders an expression of the enclosing function inside a closure: parameters and loops get a ^ prefix.
func lift(e *Sym) *Sym {
	if e == nil {
		return nil
	}
	n := &Sym{Op: e.Op, Leaf: e.Leaf, Val: e.Val}
	if len(e.Args) == 0 && (e.Op == "param" || e.Op == "loop" || e.Op == "alloc" || e.Op == "freevar") {
		n.Leaf = "^" + e.Leaf
	}
	for _, a := range e.Args {
		n.Args = append(n.Args, lift(a))
	}
	return n
}

func newSymb(fn *ssa.Function) *symb {
	return &symb{fn: fn, memo: map[ssa.Value]*Sym{}, loops: map[*ssa.Phi]string{}, subst: map[ssa.Value]*Sym{}}
}

func leaf(op, s string, v ssa.Value) *Sym { return &Sym{Op: op, Leaf: s, Val: v} }

func (s *symb) expr(v ssa.Value) *Sym {
	if r, ok := s.subst[v]; ok {
		return r
	}
	if r, ok := s.memo[v]; ok {
		if r == nil {
			return leaf("cycle", "<cycle>", v)
		}
		return r
	}
	s.memo[v] = nil
	r := s.expr0(v)
	s.memo[v] = r
	return r
}

func commutative(op token.Token) bool {
	return op == token.ADD || op == token.MUL || op == token.EQL || op == token.NEQ || op == token.AND || op == token.OR || op == token.XOR
}

func fieldName(x *ssa.FieldAddr) string {
	t := x.X.Type().Underlying()
	if p, ok := t.(interface{ Elem() interface{} }); ok {
		_ = p
	}
	return fmt.Sprintf("f%d", x.Field)
}

func (s *symb) expr0(v ssa.Value) *Sym {
	switch x := v.(type) {
	case *ssa.Const:
		if x.Value == nil {
			return leaf("const", "nil", v)
		}
		return leaf("const", x.Value.ExactString(), v)
	case *ssa.Parameter:
		for i, p := range s.fn.Params {
			if p == x {
				return leaf("param", fmt.Sprintf("P%d", i), v)
			}
		}
		return leaf("param", "P?"+x.Name(), v)
	case *ssa.FreeVar:
		return leaf("freevar", "FV:"+x.Name(), v)
	case *ssa.Global:
		return leaf("global", "G:"+x.Name(), v)
	case *ssa.BinOp:
		a, b := s.expr(x.X), s.expr(x.Y)
		op := x.Op
		// normalise a > b to b < a, a >= b to b <= a
		if op == token.GTR {
			op, a, b = token.LSS, b, a
		} else if op == token.GEQ {
			op, a, b = token.LEQ, b, a
		}
		isStr := false
		if bt, ok := x.X.Type().Underlying().(*types.Basic); ok && bt.Info()&types.IsString != 0 {
			isStr = true
		}
		if isStr && op == token.ADD {
			return &Sym{Op: "bin:++", Args: []*Sym{a, b}, Val: v} // string concatenation: ordered
		}
		// (x - c1) - c2 is x - (c1+c2): an index computed in two steps reads as the one-step index
		if op == token.SUB && b.Op == "const" && a.Op == "bin:-" && len(a.Args) == 2 && a.Args[1].Op == "const" {
			if c1, err1 := strconv.ParseInt(a.Args[1].Leaf, 10, 64); err1 == nil {
				if c2, err2 := strconv.ParseInt(b.Leaf, 10, 64); err2 == nil && c1 >= 0 && c2 >= 0 && c1+c2 < 1<<30 {
					return &Sym{Op: "bin:-", Args: []*Sym{a.Args[0], {Op: "const", Leaf: strconv.FormatInt(c1+c2, 10), Val: b.Val}}, Val: v}
				}
			}
		}
		if commutative(op) && a.String() > b.String() {
			a, b = b, a
		}
		return &Sym{Op: "bin:" + op.String(), Args: []*Sym{a, b}, Val: v}
	case *ssa.UnOp:
		if x.Op == token.MUL {
			// load of a field of a local struct variable that is a copy of a loaded struct: the original's field
			if fa, ok := x.X.(*ssa.FieldAddr); ok {
				if al, ok := fa.X.(*ssa.Alloc); ok {
					// a by-value struct parameter (spilled to this cell) that was substituted by a loaded struct:
					// the field of the value is the load of the original's field
					if val := cellValue(al); val != nil {
						// … or by a struct value whose fields are known one by one (a bound method's receiver)
						if sub, ok := s.subst[val]; ok && sub.Op == "struct" && fa.Field < len(sub.Args) && sub.Args[fa.Field] != nil {
							return sub.Args[fa.Field]
						}
						if sub, ok := s.subst[val]; ok && sub.Op == "load" && len(sub.Args) == 1 {
							return &Sym{Op: "load", Args: []*Sym{{Op: "field", Leaf: fmt.Sprintf("f%d", fa.Field), Args: []*Sym{sub.Args[0]}}}, Val: v}
						}
					}
					if val := cellValue(al); val != nil {
						if ld, ok := val.(*ssa.UnOp); ok && ld.Op == token.MUL {
							return &Sym{Op: "load", Args: []*Sym{{Op: "field", Leaf: fmt.Sprintf("f%d", fa.Field), Args: []*Sym{s.expr(ld.X)}}}, Val: v}
						}
					}
				}
			}
			// a struct variable that is a copy of a loaded struct, read as a whole (handed to a method by value): the
			// struct it was copied from — only where a rule asks for it (fwdStructCopy)
			if al, ok := x.X.(*ssa.Alloc); ok && s.fwdStructCopy {
				if _, isStruct := al.Type().(*types.Pointer).Elem().Underlying().(*types.Struct); isStruct {
					if ld, ok := cellValue(al).(*ssa.UnOp); ok && ld.Op == token.MUL {
						if _, fromAlloc := ld.X.(*ssa.Alloc); !fromAlloc {
							return s.expr(ld)
						}
					}
				}
			}
			// load of a variable's cell that is assigned exactly once: the assigned value (store forwarding)
			if al, ok := x.X.(*ssa.Alloc); ok {
				if _, isStruct := al.Type().(*types.Pointer).Elem().Underlying().(*types.Struct); !isStruct {
					if _, isArr := al.Type().(*types.Pointer).Elem().Underlying().(*types.Array); !isArr {
						if val := cellValue(al); val != nil {
							return s.expr(val)
						}
					}
				}
			}
			// load of a captured variable that is assigned exactly once in the enclosing function
			if fv, ok := x.X.(*ssa.FreeVar); ok {
				if b := bindingOf(fv); b != nil {
					if al, ok := b.(*ssa.Alloc); ok {
						if val := cellValue(al); val != nil {
							if s.outer == nil {
								s.outer = newSymb(s.fn.Parent())
							}
							return lift(s.outer.expr(val))
						}
					}
				}
			}
			return &Sym{Op: "load", Args: []*Sym{s.expr(x.X)}, Val: v}
		}
		return &Sym{Op: "un:" + x.Op.String(), Args: []*Sym{s.expr(x.X)}, Val: v}
	case *ssa.IndexAddr:
		return &Sym{Op: "index", Args: []*Sym{s.expr(x.X), s.expr(x.Index)}, Val: v}
	case *ssa.Index:
		return &Sym{Op: "index", Args: []*Sym{s.expr(x.X), s.expr(x.Index)}, Val: v}
	case *ssa.Lookup:
		return &Sym{Op: "lookup", Args: []*Sym{s.expr(x.X), s.expr(x.Index)}, Val: v}
	case *ssa.FieldAddr:
		return &Sym{Op: "field", Leaf: fmt.Sprintf("f%d", x.Field), Args: []*Sym{s.expr(x.X)}, Val: v}
	case *ssa.Field:
		if sub, ok := s.subst[x.X]; ok && sub.Op == "struct" && x.Field < len(sub.Args) && sub.Args[x.Field] != nil {
			return sub.Args[x.Field]
		}
		// field of a loaded struct value == load of the field's address
		if ld, ok := x.X.(*ssa.UnOp); ok && ld.Op == token.MUL {
			return &Sym{Op: "load", Args: []*Sym{{Op: "field", Leaf: fmt.Sprintf("f%d", x.Field), Args: []*Sym{s.expr(ld.X)}}}, Val: v}
		}
		return &Sym{Op: "field", Leaf: fmt.Sprintf("f%d", x.Field), Args: []*Sym{s.expr(x.X)}, Val: v}
	case *ssa.Call:
		var as []*Sym
		for _, a := range x.Call.Args {
			as = append(as, s.expr(a))
		}
		if b, ok := x.Call.Value.(*ssa.Builtin); ok {
			return &Sym{Op: "builtin:" + b.Name(), Args: as, Val: v}
		}
		if c := x.Call.StaticCallee(); c != nil {
			if c.Signature.Results().Len() == 1 {
				if e := s.summary(c, as, 0); e != nil {
					if e.Val == nil {
						e = &Sym{Op: e.Op, Leaf: e.Leaf, Args: e.Args, Val: v}
					}
					return e
				}
			}
			if len(as) == 0 {
				return leaf("call", "call:"+fname(c)+"()", v)
			}
			return &Sym{Op: "call:" + fname(c), Args: as, Val: v}
		}
		return leaf("unknown", "dyncall", v)
	case *ssa.MakeSlice:
		return &Sym{Op: "make", Args: []*Sym{s.expr(x.Len)}, Val: v}
	case *ssa.Slice:
		args := []*Sym{s.expr(x.X)}
		for _, b := range []ssa.Value{x.Low, x.High} {
			if b == nil {
				args = append(args, leaf("const", "_", nil))
			} else {
				args = append(args, s.expr(b))
			}
		}
		return &Sym{Op: "slice", Args: args, Val: v}
	case *ssa.Alloc:
		// a by-value parameter spilled to a local (`*t0 = a` as the only whole store): treat as the parameter
		var spilled ssa.Value
		nStores := 0
		for _, ref := range *x.Referrers() {
			if st, ok := ref.(*ssa.Store); ok && st.Addr == ssa.Value(x) {
				nStores++
				spilled = st.Val
			}
		}
		if nStores == 1 {
			if p, ok := spilled.(*ssa.Parameter); ok {
				if _, isStruct := p.Type().Underlying().(*types.Struct); isStruct {
					return s.expr(p)
				}
			}
		}
		return leaf("alloc", "alloc:"+x.Comment, v)
	case *ssa.Phi:
		// loop-carried phi: some edge depends on the phi itself
		for _, e := range x.Edges {
			if dependsOn(e, x, map[ssa.Value]bool{}) {
				if n, ok := s.loops[x]; ok {
					return leaf("loop", n, v)
				}
				n := fmt.Sprintf("LOOP%d", len(s.loops))
				s.loops[x] = n
				return leaf("loop", n, v)
			}
		}
		if len(x.Edges) == 2 {
			if c, tv, fv := iteOf(x); c != nil {
				return &Sym{Op: "ite", Args: []*Sym{s.expr(c), s.expr(tv), s.expr(fv)}, Val: v}
			}
		}
		var es []*Sym
		for _, e := range x.Edges {
			es = append(es, s.expr(e))
		}
		sort.Slice(es, func(i, j int) bool { return es[i].String() < es[j].String() })
		return &Sym{Op: "phi", Args: es, Val: v}
	case *ssa.Extract:
		if cl, ok := x.Tuple.(*ssa.Call); ok {
			if c := cl.Call.StaticCallee(); c != nil && inlinable(c) {
				var as []*Sym
				for _, a := range cl.Call.Args {
					as = append(as, s.expr(a))
				}
				if e := s.summary(c, as, x.Index); e != nil {
					return e
				}
			}
		}
		return &Sym{Op: fmt.Sprintf("extract:%d", x.Index), Args: []*Sym{s.expr(x.Tuple)}, Val: v}
	case *ssa.Convert:
		return &Sym{Op: "conv:" + x.Type().String(), Args: []*Sym{s.expr(x.X)}, Val: v}
	case *ssa.ChangeType:
		return s.expr(x.X)
	case *ssa.MakeInterface:
		return s.expr(x.X) // boxing keeps the value
	}
	return leaf("unknown", fmt.Sprintf("?%T", v), v)
}

// dependsOn: does value v (transitively through operands) depend on target?
func dependsOn(v ssa.Value, target ssa.Value, seen map[ssa.Value]bool) bool {
	if v == target {
		return true
	}
	if seen[v] {
		return false
	}
	seen[v] = true
	in, ok := v.(ssa.Instruction)
	if !ok {
		return false
	}
	var ops []*ssa.Value
	for _, op := range in.Operands(ops) {
		if *op != nil && dependsOn(*op, target, seen) {
			return true
		}
	}
	return false
}

// iteOf decomposes a two-way phi at the join of an if/else diamond (or triangle).
func iteOf(x *ssa.Phi) (cond, tv, fv ssa.Value) {
	blk := x.Block()
	idom := blk.Idom()
	if idom == nil || len(idom.Instrs) == 0 {
		return nil, nil, nil
	}
	iff, ok := idom.Instrs[len(idom.Instrs)-1].(*ssa.If)
	if !ok {
		return nil, nil, nil
	}
	for i, p := range blk.Preds {
		var viaTrue, viaFalse bool
		if p == idom {
			viaTrue = idom.Succs[0] == blk
			viaFalse = idom.Succs[1] == blk
		} else {
			viaTrue = p == idom.Succs[0] || (len(p.Preds) == 1 && p.Preds[0] == idom && idom.Succs[0] == p)
			viaFalse = p == idom.Succs[1]
		}
		switch {
		case viaTrue && !viaFalse:
			tv = x.Edges[i]
		case viaFalse && !viaTrue:
			fv = x.Edges[i]
		default:
			return nil, nil, nil
		}
	}
	if tv == nil || fv == nil {
		return nil, nil, nil
	}
	return iff.Cond, tv, fv
}

// walk visits every node of the tree.
func (s *Sym) walk(fn func(*Sym) bool) {
	if s == nil || !fn(s) {
		return
	}
	for _, a := range s.Args {
		a.walk(fn)
	}
}

// find returns all subtrees satisfying pred.
func (s *Sym) find(pred func(*Sym) bool) []*Sym {
	var out []*Sym
	s.walk(func(n *Sym) bool {
		if pred(n) {
			out = append(out, n)
		}
		return true
	})
	return out
}

// replaceStr renders the tree with every subtree whose string equals from replaced by to.
func (s *Sym) render(repl map[string]string) string {
	if s == nil {
		return "<nil>"
	}
	if r, ok := repl[s.String()]; ok {
		return r
	}
	if len(s.Args) == 0 {
		return s.Leaf
	}
	var as []string
	for _, a := range s.Args {
		as = append(as, a.render(repl))
	}
	switch {
	case strings.HasPrefix(s.Op, "bin:"):
		op := strings.TrimPrefix(s.Op, "bin:")
		if (op == "+" || op == "*" || op == "==" || op == "!=") && as[0] > as[1] {
			as[0], as[1] = as[1], as[0]
		}
		return "(" + as[0] + " " + op + " " + as[1] + ")"
	case s.Op == "index":
		return as[0] + "[" + as[1] + "]"
	case s.Op == "field":
		return as[0] + "." + s.Leaf
	default:
		return s.Op + "(" + strings.Join(as, ", ") + ")"
	}
}

// retCase is one way a function returns: the branch conditions that lead there and the returned values.
type retCase struct {
	guard string
	vals  []ssa.Value
	pos   token.Pos
}

// returnCases lists the return cases of f, expanding a phi operand at the return block into one case per
// incoming edge (so `if c { return a }; return b` and `x := b; if c { x = a }; return x` look the same).
func returnCases(s *symb, f *ssa.Function) []retCase {
	var out []retCase
	instrs(f, func(in ssa.Instruction) {
		rt, ok := in.(*ssa.Return)
		if !ok {
			return
		}
		ops := retOperands(rt)
		blk := rt.Block()
		var phis []*ssa.Phi
		for _, o := range ops {
			if phi, ok := o.(*ssa.Phi); ok && phi.Block() == blk {
				phis = append(phis, phi)
			}
		}
		if len(phis) == 0 {
			out = append(out, retCase{guardOf(s, blk, nil), ops, rt.Pos()})
			return
		}
		for i, p := range blk.Preds {
			vals := make([]ssa.Value, len(ops))
			for j, o := range ops {
				vals[j] = o
				if phi, ok := o.(*ssa.Phi); ok && phi.Block() == blk {
					vals[j] = phi.Edges[i]
				}
			}
			g := guardOf(s, p, nil)
			if eg := edgeCond(s, p, blk); eg != "" {
				if g != "" {
					g += " && "
				}
				g += eg
			}
			// normalise the order of conjuncts
			parts := strings.Split(g, " && ")
			sort.Strings(parts)
			out = append(out, retCase{strings.Join(parts, " && "), vals, rt.Pos()})
		}
	})
	return out
}

// edgeCond renders the condition under which control goes from p to b (empty if unconditional).
func edgeCond(s *symb, p, b *ssa.BasicBlock) string {
	iff, ok := p.Instrs[len(p.Instrs)-1].(*ssa.If)
	if !ok {
		return ""
	}
	c := s.expr(iff.Cond).String()
	if p.Succs[0] == b && p.Succs[1] != b {
		return c
	}
	if p.Succs[1] == b && p.Succs[0] != b {
		return "!" + c
	}
	return ""
}

// lastInstr returns the terminator of b (nil for an empty block).
func lastInstr(b *ssa.BasicBlock) ssa.Instruction {
	if len(b.Instrs) == 0 {
		return nil
	}
	return b.Instrs[len(b.Instrs)-1]
}

// symStore is one store as the analysed function sees it: stores made by package helpers that were handed a
// pointer are included, their address and value rendered with the helper's parameters replaced by the arguments.
type symStore struct {
	addr, val *Sym
	st        *ssa.Store
	fn        *ssa.Function // where the store instruction lives
	sy        *symb
	via       *ssa.Call // outermost call in the analysed function (nil for its own stores)
}

// symStoresOf lists the stores of f and of the helpers of its package it hands a pointer to (two levels).
func symStoresOf(f *ssa.Function, s *symb) []symStore {
	return symStoresDeep(f, s, nil, 0)
}

func symStoresDeep(f *ssa.Function, s *symb, via *ssa.Call, depth int) []symStore {
	var out []symStore
	instrs(f, func(in ssa.Instruction) {
		switch x := in.(type) {
		case *ssa.Store:
			out = append(out, symStore{addr: s.expr(x.Addr), val: s.expr(x.Val), st: x, fn: f, sy: s, via: via})
		case *ssa.Call:
			g := x.Call.StaticCallee()
			if g == nil || g.Blocks == nil || g.Pkg != f.Pkg || g == f || depth >= 2 || symNoInline[g] {
				return
			}
			if n := g.Name(); n == "" || (n[0] >= 'A' && n[0] <= 'Z') {
				return
			}
			hasPtr := false
			for _, a := range x.Call.Args {
				if _, ok := a.Type().Underlying().(*types.Pointer); ok {
					hasPtr = true
				}
			}
			if !hasPtr {
				return
			}
			sub := newSymb(g)
			sub.depth = s.depth + 1
			for i, p := range g.Params {
				if i < len(x.Call.Args) {
					sub.subst[p] = s.expr(x.Call.Args[i])
				}
			}
			top := via
			if top == nil {
				top = x
			}
			out = append(out, symStoresDeep(g, sub, top, depth+1)...)
		}
	})
	return out
}
