package main

import (
	"fmt"
	"regexp"
	"strings"

	"golang.org/x/tools/go/ssa"
)

func init() {
	register("C03", "one obligation per flag constant, getter and setter x {true,false} (each exact for all flag values), per tag type, per column, per format constant; non-trivial = needed bit-parallel evaluation, provenance slicing or call-graph reachability", rulesC03, nil)
}

func rulesC03(c *Ctx, r *Report) {
	r.explain("Decides: (BIT-C/G/S) every flag constant has the SAM-specification value, every getter returns exactly its bit and every setter changes exactly its bit, by bit-parallel evaluation that is exact for all flag values at once — this is the property's flag clause itself. Further clauses (tag type table, column table, no quoting layer, sorted tags, one line per record, MarshalText = Write) are listed with their rules below. Not decided: equality of the round trip for all field contents; integer/float formatting (trusted to strconv). Added rules: (G2-SPLIT) the value part of a tag is a suffix of the tag text; (G6 header test only) the header branch depends on the '@' test alone; (NUM-WIDTH) parse widths equal the stored type; (MO) the sorted list is the returned list; (A6-SCHED). (REJECT-ONLY) in parseLine, parseInts, parseTags and splitTag every error constructed lies, on every path from the function entry, behind one of the documented rejection reasons (fewer than 11 fields; Atoi/ParseFloat/DecodeString failed; A value not one character; no second colon; unknown type letter), and no other external error source is consulted: well-formed records, empty values included, are never rejected for another reason. Entry points (shared with C06/C18, restricted to this package): FD, A6, NIL-HANDLE. (LAYER) no decompressor or transcoder is constructed in the codec packages (content sniffing would make records whose text looks like a gzip header unreadable); (NUM-KIND) no float-to-integer conversion in the package. Added after round 8: (G2 one text per type) inside an arm of the tag writer nothing branches on the value; (SAM-SKIP) a line reaches parseLine unless it is empty or a header line, subject only to the read error; (YD1-YD4) the yield discipline of the package iterators.")
	r.assume("SAM specification flag table embedded in the checker")
	rulesFlags(c, r)
	rulesSamCodec(c, r)
	rulesNoBufferedPkg(c, r, "formats/sam")
	rulesNumWidth(c, r, "formats/sam")
	rulesEntryPoints(c, r, "formats/sam")
	rulesNoFloatToInt(c, r, "formats/sam")
	rulesSplitters(c, r, "formats/sam", "\t")
	rulesSamSkip(c, r)
	rulesYDPkg(c, r, "formats/sam") // Reader returns exactly the records: a consumer that stops early is obeyed, nothing is yielded after a stop
	r.floor("REJECT-ONLY", rulesRejectOnly(c, r, c.role("sam.parseLine"), "formats/sam.parseLine", samRejectCfg()), 6, "errors constructed and external error sources in parseLine, parseInts, parseTags, splitTag (7 constructed, Atoi x2, ParseFloat, DecodeString today)")
}

var samErrAtom = regexp.MustCompile(`^\((.+ (!=|==) (nil|load\(G:EOF\))|(nil|load\(G:EOF\)) (!=|==) .+)\)$`)

// rulesSamSkip (SAM-SKIP): whether a line of the input reaches parseLine depends only on the read error, on the
// line being empty, and on the header test ('@' at the start of its first field) — never on anything else the line
// holds: every other line is a record, whatever its query name starts with.
func rulesSamSkip(c *Ctx, r *Report) {
	rh := c.fn("formats/sam", "ReaderHeader")
	pl := c.role("sam.parseLine")
	where := "formats/sam.ReaderHeader"
	if rh == nil || pl == nil {
		r.undecided("SAM-SKIP", where, "anchor", "", "ReaderHeader or parseLine not found")
		return
	}
	var f *ssa.Function
	var call *ssa.Call
	n := 0
	cands := family(rh)
	for _, g := range c.stageFuncs(rh) {
		if g != rh {
			cands = append(cands, family(g)...)
		}
	}
	if info := c.iterBody(rh); info != nil && info.f != nil {
		cands = append(cands, family(info.f)...)
	}
	seen := map[*ssa.Function]bool{}
	for _, g := range cands {
		if seen[g] {
			continue
		}
		seen[g] = true
		for _, cl := range staticCallsTo(g, pl) {
			f, call = g, cl
			n++
		}
	}
	if n != 1 {
		r.undecided("SAM-SKIP", where, "parse call", c.pos(rh.Pos()), fmt.Sprintf("expected one parseLine call in the reader, found %d", n))
		return
	}
	r.analysed(fname(f))
	s := newSymb(f)
	_, atoms := guardOfFull(s, call.Block(), nil)
	text := ""
	if sp, ok := call.Call.Args[0].(*ssa.Call); ok && fnIs(sp.Call.StaticCallee(), "strings", "Split") {
		text = s.expr(sp.Call.Args[0]).String()
	}
	if text == "" {
		r.undecided("SAM-SKIP", where, "line text", c.pos(call.Pos()), "parseLine does not receive strings.Split(text, …) directly")
		return
	}
	var bad []string
	sawEmpty := false
	for _, a := range atoms {
		a = strings.TrimPrefix(a, "!")
		switch {
		case a == "(\"\" == "+text+")" || a == "(\"\" != "+text+")" || a == "(0 == builtin:len("+text+"))" || a == "(0 != builtin:len("+text+"))" || a == "(0 < builtin:len("+text+"))":
			sawEmpty = true
		case strings.Contains(a, "ReadString(") && (strings.Contains(a, "nil") || strings.Contains(a, "G:EOF")):
			// the read error
		case samErrAtom.MatchString(a):
			// the read error as a line-reading helper reports it: a comparison with nil or io.EOF
		case strings.Contains(a, "call:strings.HasPrefix(") && strings.Contains(a, "\"@\")") && strings.Contains(a, "call:strings.Split("+text):
			// the header test on the first field
		case a == "(0 < builtin:len(call:strings.Split("+text+", \"\\t\")))":
			// there is a first field
		case a == "(64 == "+text+"[0])" || a == "(64 == call:strings.Split("+text+", \"\\t\")[0][0])":
			// the header test written on the byte
		case strings.HasPrefix(a, "call:") && !strings.Contains(a, text):
			// the consumer's answer to an earlier item (yield) and the like: not about this line
			if !strings.Contains(a, "FV:") && !strings.Contains(a, "P0(") && !strings.Contains(a, "P1(") {
				bad = append(bad, a)
			}
		default:
			bad = append(bad, a)
		}
	}
	r.check(len(bad) == 0 && sawEmpty, "SAM-SKIP", where, "what decides skipping", c.pos(call.Pos()),
		"a line reaches the parser unless it is empty or a header line ('@' at the start of its first field), subject only to the read error",
		fmt.Sprintf("whether a line is parsed also depends on %v (empty-line test on the line: %v): records with particular contents (e.g. a query name that starts with '#') are dropped silently", bad, sawEmpty))
}
