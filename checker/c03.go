package main

func init() {
	register("C03", "one obligation per flag constant, getter and setter x {true,false} (each exact for all flag values), per tag type, per column, per format constant; non-trivial = needed bit-parallel evaluation, provenance slicing or call-graph reachability", rulesC03, nil)
}

func rulesC03(c *Ctx, r *Report) {
	r.explain("Decides: (BIT-C/G/S) every flag constant has the SAM-specification value, every getter returns exactly its bit and every setter changes exactly its bit, by bit-parallel evaluation that is exact for all flag values at once — this is the property's flag clause itself. Further clauses (tag type table, column table, no quoting layer, sorted tags, one line per record, MarshalText = Write) are listed with their rules below. Not decided: equality of the round trip for all field contents; integer/float formatting (trusted to strconv). Added rules: (G2-SPLIT) the value part of a tag is a suffix of the tag text; (G6 header test only) the header branch depends on the '@' test alone; (NUM-WIDTH) parse widths equal the stored type; (MO) the sorted list is the returned list; (A6-SCHED). (REJECT-ONLY) in parseLine, parseInts, parseTags and splitTag every error constructed lies, on every path from the function entry, behind one of the documented rejection reasons (fewer than 11 fields; Atoi/ParseFloat/DecodeString failed; A value not one character; no second colon; unknown type letter), and no other external error source is consulted: well-formed records, empty values included, are never rejected for another reason. Entry points (shared with C06/C18, restricted to this package): FD, A6, NIL-HANDLE. (LAYER) no decompressor or transcoder is constructed in the codec packages (content sniffing would make records whose text looks like a gzip header unreadable); (NUM-KIND) no float-to-integer conversion in the package.")
	r.assume("SAM specification flag table embedded in the checker")
	rulesFlags(c, r)
	rulesSamCodec(c, r)
	rulesNoBufferedPkg(c, r, "formats/sam")
	rulesNumWidth(c, r, "formats/sam")
	rulesEntryPoints(c, r, "formats/sam")
	rulesNoFloatToInt(c, r, "formats/sam")
	rulesSplitters(c, r, "formats/sam", "\t")
	r.floor("REJECT-ONLY", rulesRejectOnly(c, r, c.role("sam.parseLine"), "formats/sam.parseLine", samRejectCfg()), 6, "errors constructed and external error sources in parseLine, parseInts, parseTags, splitTag (7 constructed, Atoi x2, ParseFloat, DecodeString today)")
}
