package main

// Loop-body automata: the body of a byte-at-a-time decoding loop, evaluated by the finite-domain
// transfer-function engine (E-VSA) over the product of its state variables (phis whose values are
// constants), the input byte (all 256 values) and opaque boolean conditions (each both ways). The
// result is, per point, the sequence of side effects and the way the body is left — the transition
// function of the decoder as the code defines it, for all inputs at once, independent of how the
// branches are written (if-chains, switches, value-context `||`).

import (
	"fmt"
	"go/constant"
	"go/token"
	"go/types"
	"os"
	"sort"
	"strings"

	"golang.org/x/tools/go/ssa"
)

type fsmInput struct {
	v    ssa.Value
	dom  []int64
	name string
	cell bool // v is the address of a boolean variable kept in memory (its address is handed to a helper)
	// cellMatch: which addresses are this cell (nil: exactly v) — a field of the receiver is addressed anew at
	// every use
	cellMatch func(addr ssa.Value) bool
	cellBit   func(addr ssa.Value) int // several boolean fields of a local struct packed into one cell (see vsa.cellBit)
}

type fsmPoint struct {
	vals   []int64 // one per input
	events []string
	exit   string
}

type fsm struct {
	noInline      map[*ssa.Function]bool // helpers that stay calls (inlined at several sites with an opaque condition)
	inlinedHelper map[*ssa.Function]bool
	helperSy      map[*ssa.Call]*symb // per inlined call: the helper's expressions in the caller's vocabulary
	symNext       bool                // also report the next value of loop-carried variables that are not finite-domain inputs
	whole         bool                // evaluate from the loop header to the function's exits (not only one trip through the body)
	rets          []*ssa.Return
	c             *Ctx
	f             *ssa.Function
	header        *ssa.BasicBlock
	inputs        []fsmInput
	byteIn        int // index of the byte input in inputs, -1 if none
	points        []*fsmPoint
	err           string
	pendingOpaque ssa.Value
	condDesc      []string
}

// loopOfByteReads finds the innermost loop of f whose body consumes the result of a ReadByte call.
func loopOfByteReads(f *ssa.Function) (header *ssa.BasicBlock, byteVal ssa.Value) {
	var bytes []ssa.Value
	instrs(f, func(in ssa.Instruction) {
		if cl, ok := in.(*ssa.Call); ok && methIs(cl.Call.StaticCallee(), "bufio", "Reader", "ReadByte") {
			for _, ref := range *cl.Referrers() {
				if ex, ok := ref.(*ssa.Extract); ok && ex.Index == 0 {
					bytes = append(bytes, ex)
				}
			}
		}
	})
	if len(bytes) == 0 {
		return nil, nil
	}
	// the byte may be merged by a phi at the loop header (for-clause reads) or used directly
	var cand ssa.Value = bytes[0]
	for _, b := range bytes {
		for _, ref := range *b.Referrers() {
			if phi, ok := ref.(*ssa.Phi); ok {
				cand = phi
			}
		}
	}
	// header: the smallest natural loop containing a comparison of cand with a constant
	var best *ssa.BasicBlock
	bestSize := 1 << 30
	for _, h := range f.Blocks {
		nl := naturalLoop(h)
		if len(nl) < 2 {
			continue
		}
		uses := false
		for b := range nl {
			for _, in := range b.Instrs {
				if bo, ok := in.(*ssa.BinOp); ok && (bo.X == cand || bo.Y == cand) {
					uses = true
				}
			}
		}
		if uses && len(nl) < bestSize {
			best, bestSize = h, len(nl)
		}
	}
	return best, cand
}

// buildFSM evaluates the body of the loop with the given header.
func buildFSM(c *Ctx, f *ssa.Function, header *ssa.BasicBlock, byteVal ssa.Value, extra ...fsmInput) *fsm {
	m := &fsm{c: c, f: f, header: header, byteIn: -1}
	return m.build(byteVal, extra...)
}

// buildFSMWhole is buildFSM with the region extended to everything reachable from the header: a point's outcome
// is either the next trip through the header or the function's return, with the effects on the way.
func buildFSMWhole(c *Ctx, f *ssa.Function, header *ssa.BasicBlock, byteVal ssa.Value, extra ...fsmInput) *fsm {
	m := &fsm{c: c, f: f, header: header, byteIn: -1, whole: true}
	return m.build(byteVal, extra...)
}

func (m *fsm) build(byteVal ssa.Value, extra ...fsmInput) *fsm {
	c, f, header := m.c, m.f, m.header
	_ = c
	nl := naturalLoop(header)
	region := map[*ssa.BasicBlock]bool{}
	for b := range nl {
		region[b] = true
	}
	if m.whole {
		var grow func(b *ssa.BasicBlock)
		grow = func(b *ssa.BasicBlock) {
			if region[b] {
				return
			}
			region[b] = true
			for _, su := range b.Succs {
				grow(su)
			}
		}
		for b := range nl {
			for _, su := range b.Succs {
				grow(su)
			}
		}
	}
	// state inputs: phis at the header (or anywhere outside the body) with constant domains, used in the body
	for _, in := range header.Instrs {
		phi, ok := in.(*ssa.Phi)
		if !ok {
			break
		}
		if phi == byteVal {
			continue
		}
		dom := map[int64]bool{}
		if bt, ok := phi.Type().Underlying().(*types.Basic); ok && bt.Kind() == types.Bool {
			if boolDomain(phi, dom, map[ssa.Value]bool{}) {
				m.inputs = append(m.inputs, fsmInput{v: phi, dom: sortedKeys(dom), name: phi.Comment})
			}
			continue
		}
		if constDomain(phi, dom, map[ssa.Value]bool{}) && len(dom) > 0 && len(dom) <= 16 {
			m.inputs = append(m.inputs, fsmInput{v: phi, dom: sortedKeys(dom), name: phi.Comment})
		}
	}
	// a boolean state variable whose address is taken (handed to a helper of the package): kept in a memory cell
	// rather than in a phi; it is an input like the others, its next value is the cell's content at the back edge
	if cellV := boolStateCell(f, region); cellV != nil {
		m.inputs = append(m.inputs, fsmInput{v: cellV, dom: []int64{0, 1}, name: cellV.Comment, cell: true})
	} else if pc := packedFlagsCell(f, region); pc != nil {
		// two or more flags gathered in a local struct: one memory cell whose value packs them (field k is bit k)
		m.inputs = append(m.inputs, *pc)
	} else if fc := fieldStateCell(c, f, header, region); fc != nil {
		// the state kept in a field of the receiver, reset before the loop: a memory cell with the constants stored
		// into it as its domain
		m.inputs = append(m.inputs, *fc)
	}
	m.inputs = append(m.inputs, extra...)
	if byteVal != nil {
		m.byteIn = len(m.inputs)
		m.inputs = append(m.inputs, fsmInput{v: byteVal, dom: byteDomain(), name: "b"})
	}
	// entry of the body: evaluate from the header itself so that the header's own test is part of the outcome
	for attempt := 0; attempt < 14; attempt++ {
		if m.run(region) {
			return m
		}
		if m.err == "" {
			return m
		}
		// an opaque boolean condition: add it as an input and retry
		if opq := m.pendingOpaque; opq != nil {
			nOpq := 0
			for _, in := range m.inputs {
				if strings.HasPrefix(in.name, "cond") {
					nOpq++
				}
			}
			// a condition inside an inlined helper: rendered with the helper's parameters replaced by the arguments of
			// its call; a helper inlined at several sites cannot share one input: it stays a call
			desc := newSymb(f).expr(opq).String()
			if oi, ok := opq.(ssa.Instruction); ok && oi.Parent() != f {
				var hs []*symb
				for cl, sy := range m.helperSy {
					if cl.Call.StaticCallee() == oi.Parent() {
						hs = append(hs, sy)
					}
				}
				if len(hs) != 1 {
					if m.noInline == nil {
						m.noInline = map[*ssa.Function]bool{}
					}
					m.noInline[oi.Parent()] = true
					m.pendingOpaque = nil
					m.err = ""
					continue
				}
				desc = hs[0].expr(opq).String()
			}
			m.inputs = append(m.inputs, fsmInput{v: opq, dom: []int64{0, 1}, name: fmt.Sprintf("cond%d", nOpq+1)})
			m.condDesc = append(m.condDesc, fmt.Sprintf("cond%d = %s", nOpq+1, desc))
			m.pendingOpaque = nil
			m.err = ""
			continue
		}
		return m
	}
	return m
}

func sortedKeys(m map[int64]bool) []int64 {
	var out []int64
	for k := range m {
		out = append(out, k)
	}
	sort.Slice(out, func(i, j int) bool { return out[i] < out[j] })
	return out
}

func boolDomain(v ssa.Value, dom map[int64]bool, seen map[ssa.Value]bool) bool {
	if seen[v] {
		return true
	}
	seen[v] = true
	if k, ok := v.(*ssa.Const); ok && k.Value != nil {
		if k.Value.String() == "true" {
			dom[1] = true
		} else {
			dom[0] = true
		}
		return true
	}
	switch x := v.(type) {
	case *ssa.Phi:
		for _, e := range x.Edges {
			if !boolDomain(e, dom, seen) {
				return false
			}
		}
		return true
	case *ssa.UnOp:
		if x.Op == token.NOT {
			dom[0], dom[1] = true, true
			return true
		}
	}
	// any other boolean: both values
	if bt, ok := v.Type().Underlying().(*types.Basic); ok && bt.Kind() == types.Bool {
		dom[0], dom[1] = true, true
		return true
	}
	return false
}

type fsmRun struct{}

// renderNext renders a loop-carried value; a result of an inlined helper is rendered as what the helper returned
// on the path point k took.
func (m *fsm) renderNext(sy *symb, a *vsa, v ssa.Value, k int) string {
	idx := 0
	cl, _ := v.(*ssa.Call)
	if ex, ok := v.(*ssa.Extract); ok {
		cl, _ = ex.Tuple.(*ssa.Call)
		idx = ex.Index
	}
	if cl != nil && a.callRets[cl] != nil && m.helperSy[cl] != nil {
		if rt := a.callRets[cl][k]; rt != nil && idx < len(rt.Results) {
			return m.helperSy[cl].expr(rt.Results[idx]).String()
		}
	}
	return sy.expr(v).String()
}

// storeOfHelperResult: `x = helper(x, …)` — per point, by the return the helper took: handing back the parameter
// that was loaded from the same place is no change; handing back append(that parameter, …) is part of the append
// (already observed); anything else is a store of what the helper computed.
func (m *fsm) storeOfHelperResult(sy *symb, st *ssa.Store, call *ssa.Call, idx int, rets []*ssa.Return, set []bool, byteV ssa.Value) {
	g := call.Call.StaticCallee()
	addr := sy.expr(st.Addr).String()
	for k := range set {
		if !set[k] || rets[k] == nil || idx >= len(rets[k].Results) {
			continue
		}
		rv := rets[k].Results[idx]
		// the value of a phi at the return block cannot be told per point here: fall through to a plain store
		argOf := func(v ssa.Value) ssa.Value {
			for i, p := range g.Params {
				if v == ssa.Value(p) && i < len(call.Call.Args) {
					return call.Call.Args[i]
				}
			}
			return nil
		}
		loadedFromAddr := func(v ssa.Value) bool {
			a := argOf(v)
			if a == nil {
				return false
			}
			ld, ok := a.(*ssa.UnOp)
			return ok && ld.Op == token.MUL && sy.expr(ld.X).String() == addr
		}
		if loadedFromAddr(rv) {
			continue
		}
		if cl, ok := rv.(*ssa.Call); ok {
			if b, ok := cl.Call.Value.(*ssa.Builtin); ok && b.Name() == "append" && loadedFromAddr(cl.Call.Args[0]) {
				continue
			}
		}
		m.points[k].events = append(m.points[k].events, "store "+addr+" = result of "+fname(g))
	}
}

func (m *fsm) run(region map[*ssa.BasicBlock]bool) bool {
	// enumerate points
	n := 1
	for _, in := range m.inputs {
		n *= len(in.dom)
	}
	if n > 1<<16 {
		m.err = "too many points"
		return false
	}
	m.points = make([]*fsmPoint, n)
	m.rets = make([]*ssa.Return, n)
	presets := map[ssa.Value][]aval{}
	for i, in := range m.inputs {
		_ = i
		presets[in.v] = make([]aval, n)
	}
	for k := 0; k < n; k++ {
		p := &fsmPoint{vals: make([]int64, len(m.inputs))}
		rem := k
		for i := len(m.inputs) - 1; i >= 0; i-- {
			d := m.inputs[i].dom
			p.vals[i] = d[rem%len(d)]
			rem /= len(d)
			presets[m.inputs[i].v][k] = aval{true, p.vals[i]}
		}
		m.points[k] = p
	}
	dom := make([]int64, n)
	for k := range dom {
		dom[k] = int64(k)
	}
	sy := newSymb(m.f)
	var byteV ssa.Value
	if m.byteIn >= 0 {
		byteV = m.inputs[m.byteIn].v
	}
	a := &vsa{c: m.c, f: m.f, dom: dom, entry: m.header, region: region, preset: presets,
		sliceTab: map[*ssa.Global][]int64{}, mapKeys: map[*ssa.Global]map[int64]bool{}, mapVals: map[*ssa.Global]map[int64]int64{}}
	a.reenter = m.header
	cellIdx := -1
	for i, in := range m.inputs {
		if in.cell {
			cellIdx = i
		}
	}
	if cellIdx >= 0 {
		cv := m.inputs[cellIdx].v
		a.isCell = func(addr ssa.Value) bool { return addr == cv }
		if mf := m.inputs[cellIdx].cellMatch; mf != nil {
			a.isCell = mf
		}
		a.cellBit = m.inputs[cellIdx].cellBit
		a.startCell = make([]aval, n)
		for k := 0; k < n; k++ {
			a.startCell[k] = aval{true, m.points[k].vals[cellIdx]}
		}
		delete(a.preset, cv)
	}
	a.inlineHelpers = true
	a.noInline = m.noInline
	m.helperSy = nil
	a.onInstr = func(in ssa.Instruction, set []bool) {
		// a store into the state cell is a state change, not an effect
		if st, ok := in.(*ssa.Store); ok && a.isCell != nil && a.isCell(st.Addr) {
			return
		}
		// a result of an inlined helper stored back: what is stored depends on the return each point took
		if st, ok := in.(*ssa.Store); ok {
			if ex, ok := st.Val.(*ssa.Extract); ok {
				if cl, ok := ex.Tuple.(*ssa.Call); ok && a.callRets[cl] != nil {
					m.storeOfHelperResult(sy, st, cl, ex.Index, a.callRets[cl], set, byteV)
					return
				}
			}
			if cl, ok := st.Val.(*ssa.Call); ok && a.callRets[cl] != nil {
				m.storeOfHelperResult(sy, st, cl, 0, a.callRets[cl], set, byteV)
				return
			}
		}
		if cl, ok := in.(*ssa.Call); ok {
			if g := cl.Call.StaticCallee(); g != nil && m.inlinedHelper[g] {
				return // its effects were observed instruction by instruction
			}
		}
		ev := describeEffect(sy, in, byteV)
		if ev == "" {
			return
		}
		for k := 0; k < n; k++ {
			if set[k] {
				m.points[k].events = append(m.points[k].events, ev)
			}
		}
	}
	if m.inlinedHelper == nil {
		m.inlinedHelper = map[*ssa.Function]bool{}
	}
	a.subObserver = func(call *ssa.Call, g *ssa.Function) (func(in ssa.Instruction, set []bool), func()) {
		subSy := newSymb(g)
		if m.helperSy == nil {
			m.helperSy = map[*ssa.Call]*symb{}
		}
		m.helperSy[call] = subSy
		var subByte ssa.Value
		for i, p := range g.Params {
			if i < len(call.Call.Args) {
				subSy.subst[p] = sy.expr(call.Call.Args[i])
				if call.Call.Args[i] == byteV && byteV != nil {
					subByte = p
				}
			}
		}
		type pend struct {
			k  int
			ev string
		}
		var pending []pend
		// stores through a parameter that is the address of one of the caller's local variables are stores to that
		// local: state, not an effect
		localPtr := map[ssa.Value]bool{}
		for i, p := range g.Params {
			if i < len(call.Call.Args) {
				if _, ok := call.Call.Args[i].(*ssa.Alloc); ok {
					localPtr[p] = true
				}
			}
		}
		obs := func(in ssa.Instruction, set []bool) {
			if st, ok := in.(*ssa.Store); ok && localPtr[st.Addr] {
				return
			}
			ev := describeEffect(subSy, in, subByte)
			if ev == "" {
				return
			}
			for k := 0; k < n; k++ {
				if set[k] {
					pending = append(pending, pend{k, ev})
				}
			}
		}
		commit := func() {
			m.inlinedHelper[g] = true
			for _, p := range pending {
				m.points[p.k].events = append(m.points[p.k].events, p.ev)
			}
		}
		return obs, commit
	}
	a.run()
	if a.err != "" {
		m.err = a.err
		m.pendingOpaque = a.errValue
		return false
	}
	// exits
	for k := 0; k < n; k++ {
		e := a.exits[k]
		switch e.kind {
		case "return":
			var rs []string
			for _, r := range e.result {
				if r.ok {
					rs = append(rs, fmt.Sprint(r.v))
				} else {
					rs = append(rs, "?")
				}
			}
			m.points[k].exit = "return(" + strings.Join(rs, ",") + ")"
			m.rets[k] = e.ret
		case "panic":
			m.points[k].exit = "panic"
		case "edge":
			if e.to == m.header {
				// next values of the state inputs: the header phis' edges from the block we came from
				var ns []string
				for _, in := range m.inputs {
					if in.cell {
						if e.cell.ok {
							ns = append(ns, fmt.Sprintf("%s=%d", in.name, e.cell.v))
						} else {
							ns = append(ns, in.name+"=?")
						}
						continue
					}
					phi, ok := in.v.(*ssa.Phi)
					if !ok || phi.Block() != m.header {
						continue
					}
					for i, p := range m.header.Preds {
						if p == e.from {
							v := a.valueAt(phi.Edges[i], k)
							if v.ok {
								ns = append(ns, fmt.Sprintf("%s=%d", in.name, v.v))
							} else if phi.Edges[i] == ssa.Value(phi) {
								ns = append(ns, fmt.Sprintf("%s=%d", in.name, m.points[k].vals[indexOfInput(m.inputs, phi)]))
							} else {
								ns = append(ns, in.name+"=?")
							}
						}
					}
				}
				if m.symNext {
					// loop-carried values that are not finite-domain inputs: their next value, symbolically
					for _, in := range m.header.Instrs {
						phi, ok := in.(*ssa.Phi)
						if !ok {
							break
						}
						if indexOfInputExact(m.inputs, phi) >= 0 {
							continue
						}
						for i, p := range m.header.Preds {
							if p == e.from {
								if phi.Edges[i] == ssa.Value(phi) {
									ns = append(ns, phi.Comment+"=same")
								} else {
									ns = append(ns, phi.Comment+"="+m.renderNext(sy, a, phi.Edges[i], k))
								}
							}
						}
					}
				}
				m.points[k].exit = "next(" + strings.Join(ns, ",") + ")"
			} else {
				m.points[k].exit = fmt.Sprintf("leave->%s", describeBlock(e.to))
			}
		}
	}
	return true
}

func indexOfInputExact(ins []fsmInput, v ssa.Value) int {
	for i, in := range ins {
		if in.v == v {
			return i
		}
	}
	return -1
}

func indexOfInput(ins []fsmInput, v ssa.Value) int {
	for i, in := range ins {
		if in.v == v {
			return i
		}
	}
	return 0
}

func describeBlock(b *ssa.BasicBlock) string {
	// what the block does first: a return / the comment
	for _, in := range b.Instrs {
		switch x := in.(type) {
		case *ssa.Return:
			return "return"
		case *ssa.Call:
			return "call " + callName(x)
		}
	}
	return b.Comment
}

// describeEffect renders a side-effecting instruction; the input byte is rendered as "b".
func describeEffect(sy *symb, in ssa.Instruction, byteV ssa.Value) string {
	val := func(v ssa.Value) string {
		if v == byteV {
			return "b"
		}
		if k := constVal(v); k != nil {
			return k.ExactString()
		}
		return sy.expr(v).String()
	}
	switch x := in.(type) {
	case *ssa.Call:
		if b, ok := x.Call.Value.(*ssa.Builtin); ok {
			if b.Name() == "append" {
				var vs []string
				for _, v := range orderedVarargs([]ssa.Value{x.Call.Args[1]}) {
					vs = append(vs, val(v))
				}
				return "append(" + sy.expr(x.Call.Args[0]).String() + ", " + strings.Join(vs, ",") + ")"
			}
			if b.Name() == "delete" {
				return "delete(" + sy.expr(x.Call.Args[0]).String() + ", " + val(x.Call.Args[1]) + ")"
			}
			return ""
		}
		callee := x.Call.StaticCallee()
		if callee == nil {
			return "call ?"
		}
		qn := qname(callee)
		if effectFree(callee, 0) {
			return "" // a value helper (e.g. a byte predicate): its result is evaluated, it has no effect of its own
		}
		switch {
		case strings.HasSuffix(qn, ".Len") || strings.HasSuffix(qn, ".String") || strings.HasPrefix(qn, "fmt.") || strings.HasPrefix(qn, "strings.") || strings.HasPrefix(qn, "strconv."):
			return "" // pure
		}
		var as []string
		for i, a := range x.Call.Args {
			if i == 0 && callee.Signature.Recv() != nil {
				continue
			}
			as = append(as, val(a))
		}
		return qn + "(" + strings.Join(as, ",") + ")"
	case *ssa.Store:
		if _, ok := x.Addr.(*ssa.Alloc); ok {
			return ""
		}
		if ia, ok := x.Addr.(*ssa.IndexAddr); ok {
			if al, ok := ia.X.(*ssa.Alloc); ok && (al.Comment == "varargs" || al.Comment == "slicelit") {
				return ""
			}
		}
		// a store of an append result back into the variable it came from is part of the append
		if cl, ok := x.Val.(*ssa.Call); ok {
			if b, ok := cl.Call.Value.(*ssa.Builtin); ok && b.Name() == "append" {
				return ""
			}
		}
		return "store " + sy.expr(x.Addr).String() + " = " + val(x.Val)
	}
	return ""
}

// outcome renders events + exit of a point.
func (p *fsmPoint) outcome() string {
	return strings.Join(p.events, "; ") + " => " + p.exit
}

// key renders the non-byte inputs of a point.
func (m *fsm) stateKey(p *fsmPoint) string {
	var parts []string
	for i, in := range m.inputs {
		if i == m.byteIn {
			continue
		}
		parts = append(parts, fmt.Sprintf("%s=%d", in.name, p.vals[i]))
	}
	return strings.Join(parts, ",")
}

// byteClasses groups, per state, the bytes with identical outcomes.
func (m *fsm) byteClasses() map[string]map[string][]int {
	out := map[string]map[string][]int{}
	for _, p := range m.points {
		sk := m.stateKey(p)
		if out[sk] == nil {
			out[sk] = map[string][]int{}
		}
		oc := p.outcome()
		b := 0
		if m.byteIn >= 0 {
			b = int(p.vals[m.byteIn])
		}
		out[sk][oc] = append(out[sk][oc], b)
	}
	return out
}

// rulesG5Automaton (G5): in the byte loop of the given decoder, LF and CR have identical outcomes (effects and
// successor state) in every state and under every opaque condition.
func rulesG5Automaton(c *Ctx, r *Report, f *ssa.Function, what string) (*fsm, int) {
	if f == nil {
		r.undecided("G5", what, "anchor", "", "decoder function not found")
		return nil, 0
	}
	r.analysed(fname(f))
	h, bv := loopOfByteReads(f)
	if h == nil {
		r.undecided("G5", fname(f), "byte loop", c.pos(f.Pos()), "no loop over ReadByte results found")
		return nil, 0
	}
	m := buildFSM(c, f, h, bv)
	if m.err != "" {
		r.undecided("G5", fname(f), "automaton", c.pos(f.Pos()), "the loop body could not be evaluated as a finite automaton: "+m.err)
		return nil, 0
	}
	r.Extra["automaton_points_"+f.Name()] = len(m.points)
	if os.Getenv("BIOCHECK_DUMPFSM") != "" {
		fmt.Println("FSM", fname(f), "inputs:")
		for _, in := range m.inputs {
			fmt.Println("   ", in.name, in.dom[:min(len(in.dom), 4)])
		}
		fmt.Println("    conds", m.condDesc)
		for sk, classes := range m.byteClasses() {
			for oc, bs := range classes {
				show := ""
				for i, b := range bs {
					if i < 6 {
						show += byteStr(b) + " "
					}
				}
				fmt.Printf("    [%s] %d bytes (%s): %s\n", sk, len(bs), show, oc)
			}
		}
	}
	r.Extra["automaton_conditions_"+f.Name()] = m.condDesc
	// per state key
	byState := map[string]map[int]string{}
	for _, p := range m.points {
		sk := m.stateKey(p)
		if byState[sk] == nil {
			byState[sk] = map[int]string{}
		}
		byState[sk][int(p.vals[m.byteIn])] = p.outcome()
	}
	var sks []string
	for sk := range byState {
		sks = append(sks, sk)
	}
	sort.Strings(sks)
	n := 0
	for _, sk := range sks {
		t := byState[sk]
		// skip states in which the byte does not matter at all (e.g. the read failed)
		same := true
		for b := 1; b < 256; b++ {
			if t[b] != t[0] {
				same = false
			}
		}
		if same {
			continue
		}
		n++
		r.check(t['\n'] == t['\r'], "G5", fname(f), "state "+sk, c.pos(h.Instrs[0].Pos()),
			"LF and CR have the same effects and successor state here: "+t['\n'],
			fmt.Sprintf("LF and CR are treated differently in this state — LF: %s ; CR: %s — so CRLF input decodes differently from LF input", t['\n'], t['\r']))
	}
	return m, n
}

// rulesFastaAutomaton (FSM): the per-byte transition function of the FASTA reader, for all 4 states x 256 bytes,
// against the format's definition (up to renaming of the states).
func rulesFastaAutomaton(c *Ctx, r *Report) {
	f := c.role("fasta.read")
	m, n := rulesG5Automaton(c, r, f, "formats/fasta record reader")
	r.floor("G5", n, 3, "states of the FASTA reader in which the byte matters")
	if m == nil {
		return
	}
	where := fname(f)
	pos := c.pos(m.header.Instrs[0].Pos())
	// project onto (state, byte) for points where the loop proceeds; outcomes must not depend on the other inputs
	stateIdx := -1
	for i, in := range m.inputs {
		if in.name == "state" || (i != m.byteIn && len(in.dom) >= 3 && stateIdx < 0 && !strings.HasPrefix(in.name, "cond")) {
			if _, isPhi := in.v.(*ssa.Phi); (isPhi || in.cell) && len(in.dom) >= 3 {
				stateIdx = i
			}
		}
	}
	if stateIdx < 0 {
		r.undecided("FSM", where, "state variable", pos, "no state variable with at least 3 constant values found")
		return
	}
	sname := m.inputs[stateIdx].name
	type tr struct {
		events string
		next   string // state value, "leave:<desc>", or "?"
	}
	T := map[int64]map[int]tr{}
	conflict := ""
	for _, p := range m.points {
		oc := p.outcome()
		// ignore points where the byte does not matter: the read failed (loop not entered / left at once)
		if strings.HasPrefix(p.exit, "leave->for.done") && len(p.events) == 0 {
			continue
		}
		if readFailed(m, p) {
			continue
		}
		st := p.vals[stateIdx]
		b := int(p.vals[m.byteIn])
		var evs []string
		for _, e := range p.events {
			if strings.Contains(e, "ReadByte") {
				continue // fetching the next byte
			}
			evs = append(evs, e)
		}
		next := "?"
		if strings.HasPrefix(p.exit, "next(") {
			for _, kv := range strings.Split(strings.TrimSuffix(strings.TrimPrefix(p.exit, "next("), ")"), ",") {
				if strings.HasPrefix(kv, sname+"=") {
					next = strings.TrimPrefix(kv, sname+"=")
				}
			}
		} else {
			next = "leave:" + strings.TrimPrefix(p.exit, "leave->")
		}
		cur := tr{strings.Join(evs, "; "), next}
		if T[st] == nil {
			T[st] = map[int]tr{}
		}
		if old, ok := T[st][b]; ok && old != cur {
			conflict = fmt.Sprintf("state %d byte %s: %v vs %v (%s)", st, byteStr(b), old, cur, oc)
		}
		T[st][b] = cur
	}
	if conflict != "" {
		r.undecided("FSM", where, "projection", pos, "the transition depends on more than (state, byte): "+conflict)
		return
	}
	// initial state: the constant flowing into the state phi from outside the loop
	var s0 int64 = -1
	if phi, ok := m.inputs[stateIdx].v.(*ssa.Phi); ok {
		nl := naturalLoop(m.header)
		for i, p := range phi.Block().Preds {
			if !nl[p] {
				if k, ok := cInt(constVal(phi.Edges[i])); ok {
					s0 = k
				}
			}
		}
	}
	if in := m.inputs[stateIdx]; in.cell && in.cellMatch != nil {
		// the state in a memory cell: the constant stored into it before the loop, on every path
		nl := naturalLoop(m.header)
		nReset := 0
		instrs(f, func(ins ssa.Instruction) {
			if st, ok := ins.(*ssa.Store); ok && in.cellMatch(st.Addr) && !nl[st.Block()] && st.Block().Dominates(m.header) {
				if k, ok := cInt(constVal(st.Val)); ok {
					s0 = k
					nReset++
				}
			}
		})
		if nReset != 1 {
			s0 = -1
		}
	}
	if s0 < 0 || T[s0] == nil {
		r.undecided("FSM", where, "initial state", pos, "initial state not identified")
		return
	}
	// field names of the record under construction
	fieldOf := func(ev string) string {
		// append(load(alloc:complit.fK), b)
		i := strings.Index(ev, ".f")
		if !strings.HasPrefix(ev, "append(") || i < 0 || !strings.HasSuffix(ev, ", b)") {
			return "?" + ev
		}
		var k int
		fmt.Sscanf(ev[i+2:], "%d", &k)
		return recordFieldName(c, "formats/fasta", "Fasta", k)
	}
	classify := func(t tr) string {
		if t.events == "" {
			return "skip"
		}
		return "append " + fieldOf(t.events)
	}
	parseState := func(s string) int64 {
		var k int64 = -99
		fmt.Sscanf(s, "%d", &k)
		return k
	}
	var bad []string
	expect := func(st int64, b int, wantAct string, wantNext int64, wantLeave bool) {
		t, ok := T[st][b]
		if !ok {
			bad = append(bad, fmt.Sprintf("state %d byte %s: no transition", st, byteStr(b)))
			return
		}
		act := classify(t)
		if act != wantAct {
			bad = append(bad, fmt.Sprintf("state %d byte %s: effect %q, want %q", st, byteStr(b), act, wantAct))
		}
		if wantLeave {
			if !strings.HasPrefix(t.next, "leave:") || !strings.Contains(t.next, "UnreadByte") {
				bad = append(bad, fmt.Sprintf("state %d byte %s: continues with %q, want: push the byte back and end the record", st, byteStr(b), t.next))
			}
		} else if parseState(t.next) != wantNext {
			bad = append(bad, fmt.Sprintf("state %d byte %s: next state %s, want %d", st, byteStr(b), t.next, wantNext))
		}
	}
	sName := parseState(T[s0]['>'].next)
	sNL := parseState(T[s0]['\n'].next)
	sSeq := parseState(T[s0]['A'].next)
	if sName < 0 || sNL < 0 || sSeq < 0 || sName == sNL || sNL == sSeq || sName == sSeq {
		r.violated("FSM", where, "states", pos, fmt.Sprintf("from the initial state, '>' / line break / other byte do not lead to three distinct states (name, line start, sequence): %d %d %d", sName, sNL, sSeq))
		return
	}
	for b := 0; b < 256; b++ {
		isNL := b == '\n' || b == '\r'
		switch {
		case b == '>':
			expect(s0, b, "skip", sName, false)
			expect(sNL, b, "skip", 0, true)
			expect(sName, b, "append Name", sName, false)
			expect(sSeq, b, "append Sequence", sSeq, false)
		case isNL:
			for _, st := range []int64{s0, sNL, sName, sSeq} {
				expect(st, b, "skip", sNL, false)
			}
		default:
			expect(s0, b, "append Sequence", sSeq, false)
			expect(sNL, b, "append Sequence", sSeq, false)
			expect(sName, b, "append Name", sName, false)
			expect(sSeq, b, "append Sequence", sSeq, false)
		}
	}
	r.Extra["fasta_automaton_transitions_checked"] = 4 * 256
	// TAIL: what happens after the loop (end of input, or next record found) depends only on the error and on
	// whether anything was read — not on the state, the last byte or what the record holds so far
	{
		nl := naturalLoop(m.header)
		tail := map[*ssa.BasicBlock]bool{}
		var grow func(b *ssa.BasicBlock)
		grow = func(b *ssa.BasicBlock) {
			if nl[b] || tail[b] {
				return
			}
			tail[b] = true
			for _, su := range b.Succs {
				grow(su)
			}
		}
		for b := range nl {
			for _, su := range b.Succs {
				grow(su)
			}
		}
		var rec *ssa.Alloc
		instrs(f, func(in ssa.Instruction) {
			if al, ok := in.(*ssa.Alloc); ok && al.Heap && rec == nil {
				if _, isStruct := al.Type().(*types.Pointer).Elem().Underlying().(*types.Struct); isStruct {
					rec = al
				}
			}
		})
		stateV := m.inputs[stateIdx].v
		var dep []string
		for b := range tail {
			iff, ok := lastInstr(b).(*ssa.If)
			if !ok {
				continue
			}
			seen := map[ssa.Value]bool{}
			var visit func(v ssa.Value)
			visit = func(v ssa.Value) {
				if v == nil || seen[v] {
					return
				}
				seen[v] = true
				switch {
				case v == stateV:
					dep = append(dep, "the parser state")
					return
				case m.byteIn >= 0 && v == m.inputs[m.byteIn].v:
					dep = append(dep, "the last byte")
					return
				case rec != nil && v == ssa.Value(rec):
					dep = append(dep, "the record's content so far")
					return
				}
				if in, ok := v.(ssa.Instruction); ok {
					var ops []*ssa.Value
					for _, op := range in.Operands(ops) {
						visit(*op)
					}
				}
			}
			visit(iff.Cond)
		}
		accepts := false
		instrs(f, func(in ssa.Instruction) {
			if rt, ok := in.(*ssa.Return); ok && tail[rt.Block()] {
				ops := retOperands(rt)
				if len(ops) == 2 && isNilConst(ops[1]) && rec != nil && ops[0] == ssa.Value(rec) {
					accepts = true
				}
			}
		})
		// the decision stage as a helper: return finish(result, flag, err)
		if !accepts {
			instrs(f, func(in ssa.Instruction) {
				rt, ok := in.(*ssa.Return)
				if !ok || !tail[rt.Block()] {
					return
				}
				ops := retOperands(rt)
				if len(ops) != 2 {
					return
				}
				e0, ok0 := ops[0].(*ssa.Extract)
				e1, ok1 := ops[1].(*ssa.Extract)
				if !ok0 || !ok1 || e0.Tuple != e1.Tuple || e0.Index != 0 || e1.Index != 1 {
					return
				}
				cl, ok := e0.Tuple.(*ssa.Call)
				if !ok {
					return
				}
				g := cl.Call.StaticCallee()
				if g == nil || g.Blocks == nil || !c.inModule(g) {
					return
				}
				r.analysed(fname(g))
				// which of the helper's parameters carry the state, the last byte or the record
				bad := map[ssa.Value]string{}
				var recParam ssa.Value
				for i, a := range cl.Call.Args {
					if i >= len(g.Params) {
						break
					}
					switch {
					case a == stateV:
						bad[g.Params[i]] = "the parser state"
					case m.byteIn >= 0 && a == m.inputs[m.byteIn].v:
						bad[g.Params[i]] = "the last byte"
					case rec != nil && a == ssa.Value(rec):
						bad[g.Params[i]] = "the record's content so far"
						recParam = g.Params[i]
					}
				}
				for _, b := range g.Blocks {
					iff, ok := lastInstr(b).(*ssa.If)
					if !ok {
						continue
					}
					seen := map[ssa.Value]bool{}
					var visit func(v ssa.Value)
					visit = func(v ssa.Value) {
						if v == nil || seen[v] {
							return
						}
						seen[v] = true
						if why, isBad := bad[v]; isBad {
							dep = append(dep, why)
							return
						}
						if in, ok := v.(ssa.Instruction); ok {
							var ops []*ssa.Value
							for _, op := range in.Operands(ops) {
								visit(*op)
							}
						}
					}
					visit(iff.Cond)
				}
				instrs(g, func(in2 ssa.Instruction) {
					if rt2, ok := in2.(*ssa.Return); ok {
						o := retOperands(rt2)
						if len(o) == 2 && isNilConst(o[1]) && recParam != nil && o[0] == recParam {
							accepts = true
						}
					}
				})
			})
		}
		r.check(len(dep) == 0 && accepts, "FSM", where, "after the loop", pos,
			"what is returned after the loop is decided by the read error and the read-anything flag only, and the record built so far is returned: input that ends without a final newline, in any state, yields its last record",
			fmt.Sprintf("the decision after the loop depends on %v (record returned with nil error: %v): how the input ends (final newline or not, empty last line) changes what is returned", uniq(dep), accepts))
	}
	if len(bad) > 6 {
		bad = append(bad[:6], fmt.Sprintf("… %d more", len(bad)-6))
	}
	r.check(len(bad) == 0, "FSM", where, "transition function", pos,
		"all 4 x 256 (state, byte) transitions match the FASTA layout: '>' at a line start begins the next record, a line break ends a line in every state, every other byte is appended to the name in the name line and to the sequence elsewhere",
		"the reader's transition function deviates from the FASTA layout: "+strings.Join(bad, "; "))
}

// recordFieldName: name of field k of struct type tname in package rel.
func recordFieldName(c *Ctx, rel, tname string, k int) string {
	p := c.pkg(rel)
	if p == nil {
		return fmt.Sprintf("f%d", k)
	}
	tn, _ := p.Types.Scope().Lookup(tname).(*types.TypeName)
	if tn == nil {
		return fmt.Sprintf("f%d", k)
	}
	st, ok := tn.Type().Underlying().(*types.Struct)
	if !ok || k >= st.NumFields() {
		return fmt.Sprintf("f%d", k)
	}
	return st.Field(k).Name()
}

// effectFree: the function only computes a value: no stores outside its own locals, no map updates, no sends,
// no calls except builtins and other effect-free functions of the module (two levels), no panics.
func effectFree(f *ssa.Function, depth int) bool {
	if f == nil || f.Blocks == nil || depth > 2 {
		return false
	}
	ok := true
	instrs(f, func(in ssa.Instruction) {
		switch x := in.(type) {
		case *ssa.Store:
			if _, local := x.Addr.(*ssa.Alloc); local {
				return
			}
			if ia, isIA := x.Addr.(*ssa.IndexAddr); isIA {
				if al, isAl := ia.X.(*ssa.Alloc); isAl && !al.Heap {
					return
				}
			}
			ok = false
		case *ssa.MapUpdate, *ssa.Send, *ssa.Go, *ssa.Defer, *ssa.Panic, *ssa.MakeClosure:
			ok = false
		case *ssa.Alloc:
			if x.Heap {
				ok = false
			}
		case ssa.CallInstruction:
			cc := x.Common()
			if b, isB := cc.Value.(*ssa.Builtin); isB {
				switch b.Name() {
				case "len", "cap", "min", "max":
					return
				}
				ok = false
				return
			}
			if g := cc.StaticCallee(); g == nil || g.Pkg != f.Pkg || !effectFree(g, depth+1) {
				ok = false
			}
		}
	})
	return ok
}

func dumpFSM(m *fsm, title string) {
	if os.Getenv("BIOCHECK_DUMPFSM") == "" {
		return
	}
	fmt.Println("FSM", title, "inputs:")
	for _, in := range m.inputs {
		fmt.Println("   ", in.name, in.dom[:min(len(in.dom), 6)])
	}
	fmt.Println("    conds", m.condDesc, "err", m.err)
	seen := map[string]int{}
	for _, p := range m.points {
		seen[p.outcome()]++
	}
	for oc, n := range seen {
		fmt.Printf("    %5d x %s\n", n, oc)
	}
}

// rulesNewickTokenizer (TOK): the transition function of the Newick tokenizer, for all 256 bytes in every
// combination of (inside quotes, just saw a quote inside quotes, token buffer non-empty), compared with the
// Newick token grammar: outside quotes a structural byte ( ) , : ; ends a pending token (pushed back) or is
// a token by itself, blank space ends a pending token or is skipped, a quote opens a quoted token only at the
// start of a token; inside quotes everything is kept, a doubled quote stays in the text (un-doubled later by
// nameFromText), and the first other byte after a single quote ends the token and is pushed back.
func rulesNewickTokenizer(c *Ctx, r *Report) {
	f := c.role("newick.nextToken")
	if f == nil {
		r.undecided("TOK", "formats/newick.nextToken", "anchor", "", "tokenizer not found")
		return
	}
	where := fname(f)
	r.analysed(where)
	h, bv := loopOfByteReads(f)
	if h == nil {
		r.undecided("TOK", where, "byte loop", c.pos(f.Pos()), "no loop over ReadByte results found")
		return
	}
	m := buildFSMWhole(c, f, h, bv)
	pos := c.pos(h.Instrs[0].Pos())
	if m.err != "" {
		r.undecided("TOK", where, "automaton", pos, "the tokenizer could not be evaluated as a finite automaton: "+m.err)
		return
	}
	// inputs: two boolean state phis; conditions: read failed, buffer non-empty (possibly several sites)
	var stateIdx, lenIdx []int
	errIdx := -1
	for i, in := range m.inputs {
		switch {
		case i == m.byteIn:
		case strings.HasPrefix(in.name, "cond"):
			var k int
			fmt.Sscanf(in.name, "cond%d", &k)
			desc := ""
			if k-1 < len(m.condDesc) {
				desc = m.condDesc[k-1]
			}
			switch {
			case strings.Contains(desc, "ReadByte") && strings.Contains(desc, "!= nil"):
				errIdx = i
			case strings.Contains(desc, "extract:1(call:bufio.(*Reader).ReadByte("):
				// another test of the read error (which error it is): only matters when the read failed
			case strings.Contains(desc, "(0 < call:bytes.(*Buffer).Len("):
				lenIdx = append(lenIdx, i)
			default:
				r.undecided("TOK", where, "conditions", pos, "the tokenizer consults a condition this rule does not know: "+desc)
				return
			}
		default:
			stateIdx = append(stateIdx, i)
		}
	}
	if len(stateIdx) == 0 || errIdx < 0 || len(lenIdx) == 0 {
		r.undecided("TOK", where, "state", pos, fmt.Sprintf("expected the quoting state, the read-error condition and the buffer-non-empty condition; found %d/%v/%d", len(stateIdx), errIdx >= 0, len(lenIdx)))
		return
	}
	if len(stateIdx) != 2 || fsmInitial(m, stateIdx) != nil {
		rulesTokenizerByReachability(c, r, m, where, pos, stateIdx, lenIdx, errIdx)
		return
	}
	// which state variable is "inside quotes": the one that the quote byte sets from the initial state
	classify := func(p *fsmPoint) (writes, unreads int, other []string) {
		for _, e := range p.events {
			switch {
			case strings.Contains(e, "ReadByte"):
			case strings.HasSuffix(e, ".WriteByte(b)"):
				writes++
			case strings.Contains(e, "UnreadByte"):
				unreads++
			case strings.Contains(e, ".Reset("):
			default:
				other = append(other, e)
			}
		}
		return
	}
	find := func(vals map[int]int64, b int) *fsmPoint {
		for _, p := range m.points {
			if int(p.vals[m.byteIn]) != b {
				continue
			}
			ok := true
			for i, v := range vals {
				if p.vals[i] != v {
					ok = false
				}
			}
			if ok {
				return p
			}
		}
		return nil
	}
	base := map[int]int64{errIdx: 0, stateIdx[0]: 0, stateIdx[1]: 0}
	for _, li := range lenIdx {
		base[li] = 0
	}
	p0 := find(base, '\'')
	qIdx, aqIdx := -1, -1
	if p0 != nil && strings.HasPrefix(p0.exit, "next(") {
		for _, si := range stateIdx {
			if strings.Contains(p0.exit, m.inputs[si].name+"=1") {
				qIdx = si
			}
		}
		for _, si := range stateIdx {
			if si != qIdx {
				aqIdx = si
			}
		}
	}
	if qIdx < 0 || aqIdx < 0 {
		r.undecided("TOK", where, "state", pos, "could not tell which state variable means 'inside quotes' (a quote at the start of a token does not set exactly one of them)")
		return
	}
	qn, aqn := m.inputs[qIdx].name, m.inputs[aqIdx].name
	nextState := func(p *fsmPoint) (q, aq int64, ok bool) {
		if !strings.HasPrefix(p.exit, "next(") {
			return 0, 0, false
		}
		q, aq = -1, -1
		for _, kv := range strings.Split(strings.TrimSuffix(strings.TrimPrefix(p.exit, "next("), ")"), ",") {
			if strings.HasPrefix(kv, qn+"=") {
				fmt.Sscanf(kv[len(qn)+1:], "%d", &q)
			}
			if strings.HasPrefix(kv, aqn+"=") {
				fmt.Sscanf(kv[len(aqn)+1:], "%d", &aq)
			}
		}
		return q, aq, q >= 0 && aq >= 0
	}
	retKind := func(k int) string {
		rt := m.rets[k]
		if rt == nil {
			return "?"
		}
		ops := retOperands(rt)
		if len(ops) != 2 {
			return "?"
		}
		if !isNilConst(ops[1]) {
			return "error"
		}
		// token text: the buffer's String(), or the byte itself
		if cl, ok := ops[0].(*ssa.Call); ok && strings.HasSuffix(qname(cl.Call.StaticCallee()), "Buffer).String") {
			return "token"
		}
		return "byte"
	}
	var bad []string
	nChecked := 0
	keys := map[[4]int64]bool{}
	for k, p := range m.points {
		if p.vals[errIdx] != 0 {
			continue // the read failed: decided by the error rules
		}
		ne := p.vals[lenIdx[0]]
		agree := true
		for _, li := range lenIdx {
			if p.vals[li] != ne {
				agree = false
			}
		}
		if !agree {
			continue // the same fact cannot differ between two tests in one iteration
		}
		q, aq := p.vals[qIdx], p.vals[aqIdx]
		b := int(p.vals[m.byteIn])
		w, u, other := classify(p)
		nq, naq, isNext := nextState(p)
		kind := ""
		if !isNext {
			kind = retKind(k)
		}
		got := fmt.Sprintf("writes=%d unreads=%d", w, u)
		if isNext {
			got += fmt.Sprintf(" next(q=%d,aq=%d)", nq, naq)
		} else {
			got += " return " + kind
		}
		if len(other) > 0 {
			got += " other effects " + strings.Join(other, "; ")
		}
		want := ""
		isStruct := strings.IndexByte("(),:;", byte(b)) >= 0
		isBlank := b == ' ' || b == '\t' || b == '\n' || b == '\r'
		switch {
		case q == 1 && b == '\'':
			want = fmt.Sprintf("writes=1 unreads=0 next(q=1,aq=%d)", 1-aq)
		case q == 1 && aq == 1:
			want = "writes=0 unreads=1 return token"
		case q == 1:
			want = "writes=1 unreads=0 next(q=1,aq=0)"
		case b == '\'' && ne == 1:
			want = "writes=0 unreads=0 return error"
		case b == '\'':
			want = fmt.Sprintf("writes=1 unreads=0 next(q=1,aq=%d)", aq)
		case isStruct && ne == 1:
			want = "writes=0 unreads=1 return token"
		case isStruct:
			want = "writes=0 unreads=0 return byte"
		case isBlank && ne == 1:
			want = "writes=0 unreads=0 return token"
		case isBlank:
			want = fmt.Sprintf("writes=0 unreads=0 next(q=0,aq=%d)", aq)
		default:
			want = fmt.Sprintf("writes=1 unreads=0 next(q=0,aq=%d)", aq)
		}
		nChecked++
		keys[[4]int64{q, aq, ne, int64(b)}] = true
		if got != want {
			if len(bad) < 6 {
				bad = append(bad, fmt.Sprintf("inQuote=%d afterQuote=%d pending=%d byte %s: %s, want %s", q, aq, ne, byteStr(b), got, want))
			} else if len(bad) == 6 {
				bad = append(bad, "…")
			}
		}
	}
	r.Extra["newick_tokenizer_points_checked"] = nChecked
	if len(keys) < 2*2*2*256 {
		r.undecided("TOK", where, "coverage", pos, fmt.Sprintf("only %d of %d (state, pending, byte) points could be evaluated", len(keys), 2*2*2*256))
		return
	}
	r.check(len(bad) == 0, "TOK", where, "transition function", pos,
		fmt.Sprintf("all %d (inside quotes, after a quote, token pending, byte) transitions match the Newick token grammar (%d automaton points)", len(keys), nChecked),
		"the tokenizer deviates from the Newick token grammar: "+strings.Join(bad, "; "))
}

// fsmInitial: the values of the state inputs when the loop is entered (a phi's edges from outside the loop, a
// memory cell's one store before it), nil if they are not constants.
func fsmInitial(m *fsm, stateIdx []int) []int64 {
	nl := naturalLoop(m.header)
	var out []int64
	for _, si := range stateIdx {
		in := m.inputs[si]
		val, found := int64(0), false
		switch v := in.v.(type) {
		case *ssa.Phi:
			if v.Block() != m.header {
				return nil
			}
			for i, pr := range m.header.Preds {
				if nl[pr] {
					continue
				}
				k, ok := v.Edges[i].(*ssa.Const)
				if !ok || k.Value == nil {
					return nil
				}
				var kv int64
				if k.Value.Kind() == constant.Bool {
					if constant.BoolVal(k.Value) {
						kv = 1
					}
				} else if x, ok := cInt(k.Value); ok {
					kv = x
				} else {
					return nil
				}
				if found && kv != val {
					return nil
				}
				val, found = kv, true
			}
		case *ssa.Alloc:
			if in.cellBit != nil {
				// flags packed into one cell: zero, then the constant field stores made before the loop
				for _, ref := range *v.Referrers() {
					fa, ok := ref.(*ssa.FieldAddr)
					if !ok {
						continue
					}
					for _, r2 := range *fa.Referrers() {
						st, ok := r2.(*ssa.Store)
						if !ok || nl[st.Block()] {
							continue
						}
						k, isC := st.Val.(*ssa.Const)
						if !isC || k.Value == nil || k.Value.Kind() != constant.Bool || !st.Block().Dominates(m.header) {
							return nil
						}
						if constant.BoolVal(k.Value) {
							val |= 1 << uint(fa.Field)
						} else {
							val &^= 1 << uint(fa.Field)
						}
					}
				}
				found = true
				break
			}
			n := 0
			for _, ref := range *v.Referrers() {
				st, ok := ref.(*ssa.Store)
				if !ok || st.Addr != ssa.Value(v) || nl[st.Block()] || !st.Block().Dominates(m.header) {
					continue
				}
				k, ok := st.Val.(*ssa.Const)
				if !ok || k.Value == nil || k.Value.Kind() != constant.Bool {
					return nil
				}
				n++
				if constant.BoolVal(k.Value) {
					val = 1
				}
				found = true
			}
			if n > 1 {
				return nil
			}
			if n == 0 {
				found = true // a variable declared without a value: false
			}
		default:
			return nil
		}
		if !found {
			return nil
		}
		out = append(out, val)
	}
	return out
}

// rulesTokenizerByReachability: the tokenizer's transition function compared with the Newick token grammar on
// the states the tokenizer can reach from its initial state, whatever variables encode them (two flags, one
// enumeration, …): a simulation is built from the initial state — outside quotes — and every (state, token
// pending, byte) point of a reached state must act as the grammar says and lead to a state that stands for the
// grammar's next state.
func rulesTokenizerByReachability(c *Ctx, r *Report, m *fsm, where, pos string, stateIdx, lenIdx []int, errIdx int) {
	init := fsmInitial(m, stateIdx)
	if init == nil {
		r.undecided("TOK", where, "state", pos, "the initial values of the tokenizer's state variables are not constants")
		return
	}
	key := func(vals []int64) string { return fmt.Sprint(vals) }
	type spec struct{ q, aq int64 }
	stands := map[string]spec{key(init): {0, 0}}
	work := [][]int64{init}
	names := make([]string, len(stateIdx))
	for i, si := range stateIdx {
		names[i] = m.inputs[si].name
	}
	retKind := func(k int) string {
		rt := m.rets[k]
		if rt == nil {
			return "?"
		}
		ops := retOperands(rt)
		if len(ops) != 2 {
			return "?"
		}
		if !isNilConst(ops[1]) {
			return "error"
		}
		if cl, ok := ops[0].(*ssa.Call); ok && strings.HasSuffix(qname(cl.Call.StaticCallee()), "Buffer).String") {
			return "token"
		}
		return "byte"
	}
	var bad []string
	note := func(msg string) {
		if len(bad) < 6 {
			bad = append(bad, msg)
		} else if len(bad) == 6 {
			bad = append(bad, "…")
		}
	}
	nChecked, nStates := 0, 0
	for len(work) > 0 {
		cur := work[0]
		work = work[1:]
		t := stands[key(cur)]
		nStates++
		seen := map[[2]int64]bool{}
		for k, p := range m.points {
			if p.vals[errIdx] != 0 {
				continue
			}
			same := true
			for i, si := range stateIdx {
				if p.vals[si] != cur[i] {
					same = false
				}
			}
			if !same {
				continue
			}
			ne := p.vals[lenIdx[0]]
			agree := true
			for _, li := range lenIdx {
				if p.vals[li] != ne {
					agree = false
				}
			}
			if !agree {
				continue
			}
			b := int(p.vals[m.byteIn])
			w, u := 0, 0
			var other []string
			for _, e := range p.events {
				switch {
				case strings.Contains(e, "ReadByte"):
				case strings.HasSuffix(e, ".WriteByte(b)"):
					w++
				case strings.Contains(e, "UnreadByte"):
					u++
				case strings.Contains(e, ".Reset("):
				default:
					other = append(other, e)
				}
			}
			isNext := strings.HasPrefix(p.exit, "next(")
			got := fmt.Sprintf("writes=%d unreads=%d", w, u)
			var next []int64
			if isNext {
				got += " next"
				next = make([]int64, len(stateIdx))
				for i := range next {
					next[i] = -1 << 40
				}
				for _, kv := range strings.Split(strings.TrimSuffix(strings.TrimPrefix(p.exit, "next("), ")"), ",") {
					for i, nm := range names {
						if strings.HasPrefix(kv, nm+"=") {
							var x int64
							if _, err := fmt.Sscanf(kv[len(nm)+1:], "%d", &x); err == nil {
								next[i] = x
							}
						}
					}
				}
			} else {
				got += " return " + retKind(k)
			}
			if len(other) > 0 {
				got += " other effects " + strings.Join(other, "; ")
			}
			isStruct := strings.IndexByte("(),:;", byte(b)) >= 0
			isBlank := b == ' ' || b == '\t' || b == '\n' || b == '\r'
			want, wantNext := "", spec{-1, -1}
			switch {
			case t.q == 1 && b == '\'':
				want, wantNext = "writes=1 unreads=0 next", spec{1, 1 - t.aq}
			case t.q == 1 && t.aq == 1:
				want = "writes=0 unreads=1 return token"
			case t.q == 1:
				want, wantNext = "writes=1 unreads=0 next", spec{1, 0}
			case b == '\'' && ne == 1:
				want = "writes=0 unreads=0 return error"
			case b == '\'':
				want, wantNext = "writes=1 unreads=0 next", spec{1, 0}
			case isStruct && ne == 1:
				want = "writes=0 unreads=1 return token"
			case isStruct:
				want = "writes=0 unreads=0 return byte"
			case isBlank && ne == 1:
				want = "writes=0 unreads=0 return token"
			case isBlank:
				want, wantNext = "writes=0 unreads=0 next", spec{0, 0}
			default:
				want, wantNext = "writes=1 unreads=0 next", spec{0, 0}
			}
			nChecked++
			seen[[2]int64{ne, int64(b)}] = true
			at := fmt.Sprintf("state %v (inQuote=%d afterQuote=%d) pending=%d byte %s", cur, t.q, t.aq, ne, byteStr(b))
			if got != want {
				note(at + ": " + got + ", want " + want)
				continue
			}
			if !isNext {
				continue
			}
			unknown := false
			for _, x := range next {
				if x == -1<<40 {
					unknown = true
				}
			}
			if unknown {
				note(at + ": the next state is not a constant (" + p.exit + ")")
				continue
			}
			if old, ok := stands[key(next)]; !ok {
				stands[key(next)] = wantNext
				work = append(work, next)
			} else if old != wantNext {
				note(fmt.Sprintf("%s: leads to state %v, which was reached as inQuote=%d afterQuote=%d and is needed here as inQuote=%d afterQuote=%d", at, next, old.q, old.aq, wantNext.q, wantNext.aq))
			}
		}
		if len(seen) < 2*256 {
			r.undecided("TOK", where, "coverage", pos, fmt.Sprintf("only %d of %d (pending, byte) points of the reachable state %v could be evaluated", len(seen), 2*256, cur))
			return
		}
	}
	r.Extra["newick_tokenizer_points_checked"] = nChecked
	r.check(len(bad) == 0 && nStates >= 3, "TOK", where, "transition function", pos,
		fmt.Sprintf("from the initial state the tokenizer reaches %d states; all their (token pending, byte) transitions match the Newick token grammar (%d automaton points)", nStates, nChecked),
		fmt.Sprintf("the tokenizer deviates from the Newick token grammar (%d states reached): %s", nStates, strings.Join(bad, "; ")))
}

// rulesNewickParser (PARSE): the transition function of the Newick tree parser over (parser state, kind of the
// next token, nesting depth is 1, number parses), compared with the Newick grammar up to renaming of the states:
//
//	'('  only where a node may start: add a child to the current node and descend;
//	')'  not right after ':' and not at the top level: ascend, children done;
//	','  not right after ':' and not at the top level: add a sibling (child of the parent), replace the current node;
//	':'  not after ':' or a length: a branch length follows;
//	';'  only at the top level and not right after ':': the tree is complete and returned;
//	text: a name where a node may start or after its children (once), a number after ':' (once), else an error.
func rulesNewickParser(c *Ctx, r *Report) {
	f := c.role("newick.read")
	if f == nil {
		r.undecided("PARSE", "formats/newick.read", "anchor", "", "parser not found")
		return
	}
	where := fname(f)
	r.analysed(where)
	// the loop that calls the tokenizer
	tok := c.role("newick.nextToken")
	var header *ssa.BasicBlock
	for _, b := range f.Blocks {
		nl := naturalLoop(b)
		if len(nl) < 2 {
			continue
		}
		has := false
		for blk := range nl {
			for _, in := range blk.Instrs {
				if cl, ok := in.(*ssa.Call); ok && tok != nil && cl.Call.StaticCallee() == tok {
					has = true
				}
			}
		}
		if has && (header == nil || len(nl) > len(naturalLoop(header))) {
			header = b
		}
	}
	if header == nil {
		r.undecided("PARSE", where, "token loop", c.pos(f.Pos()), "no loop around the tokenizer call found")
		return
	}
	pos := c.pos(f.Pos())
	m := &fsm{c: c, f: f, header: header, byteIn: -1, whole: true, symNext: true, noInline: map[*ssa.Function]bool{}}
	// a helper that parses the number into a pointer stays a call: whether it succeeded is this automaton's
	// "number parses" input
	for _, g := range c.calleesIn(f) {
		if g.Blocks != nil && c.inModule(g) && len(g.Params) == 2 && numberIntoPointer(g) {
			m.noInline[g] = true
		}
	}
	m.build(nil)
	dumpFSM(m, where)
	if m.err != "" {
		r.undecided("PARSE", where, "automaton", pos, "the parser loop could not be evaluated as a finite automaton: "+m.err)
		return
	}
	// inputs
	stateIdx, errIdx, pfIdx := -1, -1, -1
	var pfHelper *ssa.Function
	tokIdx := map[string]int{}
	type depthCond struct {
		idx int
		eq  bool
	}
	var depth []depthCond
	var ignore []int
	for i, in := range m.inputs {
		if !strings.HasPrefix(in.name, "cond") {
			if len(in.dom) >= 4 {
				stateIdx = i
			} else {
				ignore = append(ignore, i) // flags such as readAny: only matter on the error path
			}
			continue
		}
		var k int
		fmt.Sscanf(in.name, "cond%d", &k)
		desc := m.condDesc[k-1]
		desc = desc[strings.Index(desc, "= ")+2:]
		// a helper that parses the number and stores it through a pointer: its error result is the parse condition
		if bo, ok := in.v.(*ssa.BinOp); ok && pfHelper == nil {
			for _, opv := range []ssa.Value{bo.X, bo.Y} {
				if cl, ok := opv.(*ssa.Call); ok {
					if g := cl.Call.StaticCallee(); g != nil && g.Blocks != nil && c.inModule(g) && g != tok && len(g.Params) == 2 && numberIntoPointer(g) {
						pfHelper = g
						pfIdx = i
					}
				}
			}
			if pfIdx == i {
				continue
			}
		}
		switch {
		case strings.Contains(desc, "ParseFloat"):
			pfIdx = i
		case strings.Contains(desc, "extract:1(call:"+fname(tok)) || strings.Contains(desc, "extract:1(call:formats/newick.") && strings.Contains(desc, "!= nil"):
			if strings.Contains(desc, "!= nil") && errIdx < 0 {
				errIdx = i
			} else {
				ignore = append(ignore, i)
			}
		case strings.HasPrefix(desc, "(\"") && strings.Contains(desc, "\" == extract:0(call:"):
			t := desc[2 : strings.Index(desc[2:], "\"")+2]
			tokIdx[t] = i
		case strings.Contains(desc, "builtin:len(") && strings.Contains(desc, "1"):
			depth = append(depth, depthCond{i, strings.Contains(desc, "==")})
		default:
			r.undecided("PARSE", where, "conditions", pos, "the parser consults a condition this rule does not know: "+m.condDesc[k-1])
			return
		}
	}
	if stateIdx < 0 || errIdx < 0 || pfIdx < 0 || len(tokIdx) != 5 || len(depth) == 0 {
		r.undecided("PARSE", where, "inputs", pos, fmt.Sprintf("expected a state variable, the tokenizer error, the number-parse error, five token comparisons and a depth test; found state:%v err:%v parse:%v tokens:%d depth:%d", stateIdx >= 0, errIdx >= 0, pfIdx >= 0, len(tokIdx), len(depth)))
		return
	}
	nameF, distF, childF := -1, -1, -1
	for k := 0; k < 3; k++ {
		switch recordFieldName(c, "formats/newick", "Node", k) {
		case "Name":
			nameF = k
		case "Distance":
			distF = k
		case "Children":
			childF = k
		}
	}
	// the node stack: the loop-carried slice
	stackName := ""
	for _, in := range header.Instrs {
		phi, ok := in.(*ssa.Phi)
		if !ok {
			break
		}
		if _, isSlice := phi.Type().Underlying().(*types.Slice); isSlice {
			stackName = newSymb(f).expr(phi).String()
		}
	}
	if stackName == "" {
		r.undecided("PARSE", where, "node stack", pos, "no loop-carried slice (the stack of open nodes) found")
		return
	}
	norm := func(e string) string { return strings.ReplaceAll(e, stackName, "LOOP0") }
	// outcome of a point
	classify := func(k int, p *fsmPoint) string {
		var evs []string
		for _, e := range p.events {
			if strings.HasSuffix(e, "nextToken()") || strings.Contains(e, "nameFromText(") && !strings.HasPrefix(e, "store ") {
				continue
			}
			if pfHelper != nil && strings.HasPrefix(e, qname(pfHelper)+"(") && !strings.HasPrefix(p.exit, "next(") {
				continue // the number helper failed: it stores nothing (checked on its body), only its error comes back
			}
			evs = append(evs, norm(e))
		}
		p = &fsmPoint{vals: p.vals, events: p.events, exit: norm(p.exit)}
		next := map[string]string{}
		if strings.HasPrefix(p.exit, "next(") {
			body := strings.TrimSuffix(strings.TrimPrefix(p.exit, "next("), ")")
			// split at top-level commas
			depthP, start := 0, 0
			for i := 0; i <= len(body); i++ {
				if i == len(body) || (body[i] == ',' && depthP == 0) {
					kv := body[start:i]
					if j := strings.Index(kv, "="); j > 0 {
						next[kv[:j]] = kv[j+1:]
					}
					start = i + 1
				} else if body[i] == '(' || body[i] == '[' {
					depthP++
				} else if body[i] == ')' || body[i] == ']' {
					depthP--
				}
			}
		}
		var stackNext string
		for name, v := range next {
			if name != m.inputs[stateIdx].name && v != "same" && !strings.HasPrefix(name, m.inputs[stateIdx].name) {
				isInput := false
				for _, in := range m.inputs {
					if in.name == name {
						isInput = true
					}
				}
				if !isInput {
					stackNext = v
				}
			}
		}
		if !strings.HasPrefix(p.exit, "next(") {
			rt := m.rets[k]
			if rt == nil {
				if p.exit == "panic" {
					return "panic"
				}
				return "?" + p.exit
			}
			ops := retOperands(rt)
			if len(ops) == 2 && !isNilConst(ops[1]) {
				if len(evs) > 0 {
					return "error after effects " + strings.Join(evs, "; ")
				}
				return "error"
			}
			if len(ops) == 2 && isNilConst(ops[1]) && len(evs) == 0 {
				e := norm(newSymb(f).expr(ops[0]).String())
				if e == "load(LOOP0[0])" {
					return "finish"
				}
				return "return " + e
			}
			return "return?"
		}
		st := next[m.inputs[stateIdx].name]
		top := fmt.Sprintf("[(builtin:len(LOOP0) - 1)]).f%d", childF)
		par := fmt.Sprintf("[(builtin:len(LOOP0) - 2)]).f%d", childF)
		switch {
		case len(evs) == 0 && stackNext == "":
			return "stay->" + st
		case len(evs) == 0 && strings.HasPrefix(stackNext, "slice(") && strings.HasSuffix(stackNext, "_, (builtin:len(LOOP0) - 1))"):
			return "pop->" + st
		case len(evs) == 2 && strings.HasPrefix(evs[0], "append(load(load(LOOP0") && strings.Contains(evs[0], top) && strings.HasPrefix(evs[1], "append(LOOP0, alloc:") && strings.HasPrefix(stackNext, "builtin:append(LOOP0"):
			return "push->" + st
		case len(evs) == 2 && strings.HasPrefix(evs[0], "append(load(load(LOOP0") && strings.Contains(evs[0], par) && strings.HasPrefix(evs[1], "store LOOP0[(builtin:len(LOOP0) - 1)] = alloc:") && stackNext == "":
			return "sibling->" + st
		case len(evs) == 1 && strings.HasPrefix(evs[0], fmt.Sprintf("store load(LOOP0[(builtin:len(LOOP0) - 1)]).f%d = call:", nameF)) && strings.Contains(evs[0], "nameFromText(extract:0(") && strings.Count(evs[0], "call:") == 2 && stackNext == "":
			return "name->" + st
		case len(evs) == 1 && strings.HasPrefix(evs[0], fmt.Sprintf("store load(LOOP0[(builtin:len(LOOP0) - 1)]).f%d = extract:0(call:strconv.ParseFloat(extract:0(", distF)) && stackNext == "":
			return "dist->" + st
		case len(evs) == 1 && pfHelper != nil && strings.HasPrefix(evs[0], qname(pfHelper)+"(extract:0(") && strings.HasSuffix(evs[0], fmt.Sprintf(",load(LOOP0[(builtin:len(LOOP0) - 1)]).f%d)", distF)) && stackNext == "":
			return "dist->" + st
		}
		return "?" + strings.Join(evs, "; ") + " => " + p.exit
	}
	// transitions keyed by (state, token kind, depth1, parse ok)
	type key struct {
		s     int64
		t     string
		d, pf int64
	}
	T := map[key]string{}
	conflict := ""
	for k, p := range m.points {
		if p.vals[errIdx] != 0 {
			continue
		}
		t, nTrue := "text", 0
		for tk, ti := range tokIdx {
			if p.vals[ti] == 1 {
				t = tk
				nTrue++
			}
		}
		if nTrue > 1 {
			continue // a token equals at most one of the literals
		}
		d := int64(-1)
		okD := true
		for _, dc := range depth {
			v := p.vals[dc.idx]
			if !dc.eq {
				v = 1 - v
			}
			if d >= 0 && d != v {
				okD = false
			}
			d = v
		}
		if !okD {
			continue
		}
		kk := key{p.vals[stateIdx], t, d, 1 - p.vals[pfIdx]}
		oc := classify(k, p)
		if old, ok := T[kk]; ok && old != oc {
			conflict = fmt.Sprintf("state %d token %q depth1=%d: %s vs %s", kk.s, kk.t, kk.d, old, oc)
		}
		T[kk] = oc
	}
	if conflict != "" {
		r.undecided("PARSE", where, "projection", pos, "the transition depends on more than (state, token kind, depth, number parses): "+conflict)
		return
	}
	// name the states from the initial state's behaviour
	var s0 int64 = -1
	if phi, ok := m.inputs[stateIdx].v.(*ssa.Phi); ok {
		nl := naturalLoop(header)
		for i, pb := range phi.Block().Preds {
			if !nl[pb] {
				if kc, ok := cInt(constVal(phi.Edges[i])); ok {
					s0 = kc
				}
			}
		}
	}
	target := func(oc string) int64 {
		var v int64 = -99
		if i := strings.Index(oc, "->"); i >= 0 {
			fmt.Sscanf(oc[i+2:], "%d", &v)
		}
		return v
	}
	sName := target(T[key{s0, "text", 0, 1}])
	sColon := target(T[key{s0, ":", 0, 1}])
	sDist := target(T[key{sColon, "text", 0, 1}])
	sChild := target(T[key{s0, ")", 0, 1}])
	names := map[int64]string{s0: "beforeNode", sName: "afterName", sColon: "afterColon", sDist: "afterDist", sChild: "afterChildren"}
	if s0 < 0 || len(names) != 5 || sName < 0 || sColon < 0 || sDist < 0 || sChild < 0 {
		r.violated("PARSE", where, "states", pos, fmt.Sprintf("from the initial state, a name, ':' (then a number) and ')' do not lead to four further distinct states: %d %d %d %d %d", s0, sName, sColon, sDist, sChild))
		return
	}
	want := func(s int64, t string, d, pf int64) string {
		arrow := func(act string, to int64) string { return fmt.Sprintf("%s->%d", act, to) }
		switch t {
		case "(":
			if s == s0 {
				return arrow("push", s0)
			}
			return "error"
		case ")":
			if s == sColon || d == 1 {
				return "error"
			}
			return arrow("pop", sChild)
		case ",":
			if s == sColon || d == 1 {
				return "error"
			}
			return arrow("sibling", s0)
		case ":":
			if s == sColon || s == sDist {
				return "error"
			}
			return arrow("stay", sColon)
		case ";":
			if d != 1 || s == sColon {
				return "error"
			}
			return "finish"
		}
		switch s {
		case sName, sDist:
			return "error"
		case s0, sChild:
			return arrow("name", sName)
		}
		if pf == 0 {
			return "error"
		}
		return arrow("dist", sDist)
	}
	var bad []string
	n := 0
	for s := range names {
		for _, t := range []string{"(", ")", ",", ":", ";", "text"} {
			for d := int64(0); d <= 1; d++ {
				for pf := int64(0); pf <= 1; pf++ {
					got, ok := T[key{s, t, d, pf}]
					if !ok {
						bad = append(bad, fmt.Sprintf("%s, token %q, top level %d: no transition evaluated", names[s], t, d))
						continue
					}
					n++
					if w := want(s, t, d, pf); got != w {
						if len(bad) < 6 {
							bad = append(bad, fmt.Sprintf("%s, token %q, top level=%d, number parses=%d: %s, want %s", names[s], t, d, pf, got, w))
						}
					}
				}
			}
		}
	}
	r.Extra["newick_parser_transitions_checked"] = n
	r.Extra["newick_parser_points"] = len(m.points)
	r.check(len(bad) == 0, "PARSE", where, "transition function", pos,
		fmt.Sprintf("all %d (state, token kind, top level, number parses) transitions (from %d automaton points) match the Newick grammar up to state renaming: where a node may start, descend/ascend/sibling at the right depth, one name and one length per node, ';' only at the top level", n, len(m.points)),
		"the parser deviates from the Newick grammar: "+strings.Join(bad, "; "))
}

// readFailed: at this point of the automaton an opaque condition says the ReadByte call returned an error.
func readFailed(m *fsm, p *fsmPoint) bool {
	for i, in := range m.inputs {
		if !strings.HasPrefix(in.name, "cond") {
			continue
		}
		var k int
		fmt.Sscanf(in.name, "cond%d", &k)
		if k < 1 || k > len(m.condDesc) {
			continue
		}
		desc := m.condDesc[k-1]
		if !strings.Contains(desc, "extract:1(call:bufio.(*Reader).ReadByte(") {
			continue
		}
		switch {
		case strings.Contains(desc, "(nil == "):
			if p.vals[i] == 0 {
				return true
			}
		case strings.Contains(desc, "!= nil)") || strings.Contains(desc, "(nil != "):
			if p.vals[i] == 1 {
				return true
			}
		}
	}
	return false
}

// numberIntoPointer: g(text, p) parses text with strconv.ParseFloat(_, 64), stores the value through p only on
// success, and returns the parse error.
func numberIntoPointer(g *ssa.Function) bool {
	var pf *ssa.Call
	instrs(g, func(in ssa.Instruction) {
		if cl, ok := in.(*ssa.Call); ok && fnIs(cl.Call.StaticCallee(), "strconv", "ParseFloat") {
			pf = cl
		}
	})
	if pf == nil || pf.Call.Args[0] != ssa.Value(g.Params[0]) {
		return false
	}
	if k, ok := cInt(constVal(pf.Call.Args[1])); !ok || k != 64 {
		return false
	}
	var val, perr ssa.Value
	for _, ref := range *pf.Referrers() {
		if ex, ok := ref.(*ssa.Extract); ok {
			if ex.Index == 0 {
				val = ex
			} else {
				perr = ex
			}
		}
	}
	nStores, okStore := 0, false
	instrs(g, func(in ssa.Instruction) {
		if st, ok := in.(*ssa.Store); ok {
			if _, local := st.Addr.(*ssa.Alloc); local {
				return
			}
			nStores++
			if st.Addr == ssa.Value(g.Params[1]) && st.Val == val && perr != nil && nilEdgeOfDominates(perr, st.Block()) {
				okStore = true
			}
		}
	})
	return nStores == 1 && okStore
}

// boolStateCell: a local boolean variable of f that lives in memory because its address is handed to helpers of the
// package, and that is read or written inside the region — at most one is supported.
func boolStateCell(f *ssa.Function, region map[*ssa.BasicBlock]bool) *ssa.Alloc {
	var found *ssa.Alloc
	for _, b := range f.Blocks {
		for _, in := range b.Instrs {
			al, ok := in.(*ssa.Alloc)
			if !ok {
				continue
			}
			pt, ok := al.Type().Underlying().(*types.Pointer)
			if !ok {
				continue
			}
			if bt, ok := pt.Elem().Underlying().(*types.Basic); !ok || bt.Kind() != types.Bool {
				continue
			}
			passed, inRegion, okUse := false, false, true
			for _, ref := range *al.Referrers() {
				switch x := ref.(type) {
				case *ssa.UnOp, *ssa.Store, *ssa.DebugRef:
					if region[ref.Block()] {
						inRegion = true
					}
				case *ssa.Call:
					g := x.Call.StaticCallee()
					if g == nil || g.Blocks == nil || g.Pkg != f.Pkg {
						okUse = false
					}
					passed = true
					if region[ref.Block()] {
						inRegion = true
					}
				default:
					okUse = false
				}
			}
			if passed && inRegion && okUse {
				if found != nil {
					return nil
				}
				found = al
			}
		}
	}
	return found
}

// fieldStateCell: the decoder's state kept in an integer field of its pointer receiver: every store into the field
// in f is a constant, one of them resets it before the loop on every path (so what other calls left there does not
// matter), the loop reads and writes it, and nothing f calls with the receiver stores into it. The field is then a
// memory cell of the automaton whose domain is the set of constants stored.
func fieldStateCell(c *Ctx, f *ssa.Function, header *ssa.BasicBlock, region map[*ssa.BasicBlock]bool) *fsmInput {
	if f.Signature.Recv() == nil || len(f.Params) == 0 {
		return nil
	}
	recv := f.Params[0]
	pt, ok := recv.Type().Underlying().(*types.Pointer)
	if !ok {
		return nil
	}
	st, ok := pt.Elem().Underlying().(*types.Struct)
	if !ok {
		return nil
	}
	nl := naturalLoop(header)
	var best *fsmInput
	for k := 0; k < st.NumFields(); k++ {
		bt, ok := st.Field(k).Type().Underlying().(*types.Basic)
		if !ok || bt.Info()&types.IsInteger == 0 {
			continue
		}
		dom := map[int64]bool{}
		okField, inLoopStore, inLoopLoad, reset := true, false, false, false
		var key ssa.Value
		instrs(f, func(in ssa.Instruction) {
			fa, ok := in.(*ssa.FieldAddr)
			if !ok || fa.Field != k {
				return
			}
			if !types.Identical(fa.X.Type(), recv.Type()) {
				return
			}
			if fa.X != ssa.Value(recv) {
				okField = false // the same field of another value of the type: aliasing is not excluded
				return
			}
			if key == nil {
				key = fa
			}
			for _, ref := range *fa.Referrers() {
				switch x := ref.(type) {
				case *ssa.Store:
					if x.Addr != ssa.Value(fa) {
						okField = false
						return
					}
					v, isC := cInt(constVal(x.Val))
					if !isC {
						okField = false
						return
					}
					dom[v] = true
					if nl[x.Block()] {
						inLoopStore = true
					} else if x.Block().Dominates(header) {
						reset = true
					}
				case *ssa.UnOp:
					if region[x.Block()] {
						inLoopLoad = true
					}
				case *ssa.DebugRef:
				default:
					okField = false // the field's address goes elsewhere
				}
			}
		})
		if !okField || !inLoopStore || !inLoopLoad || !reset || len(dom) < 2 || len(dom) > 16 || key == nil {
			continue
		}
		// nothing the function calls with the receiver stores into the field
		clean := true
		for _, g := range c.calleesIn(f) {
			if g.Blocks == nil || !c.inModule(g) || g == f {
				continue
			}
			for _, h := range append([]*ssa.Function{g}, c.calleesIn(g)...) {
				if h.Blocks == nil || !c.inModule(h) {
					continue
				}
				instrs(h, func(in ssa.Instruction) {
					if fa, ok := in.(*ssa.FieldAddr); ok && fa.Field == k && types.Identical(fa.X.Type(), recv.Type()) {
						for _, ref := range *fa.Referrers() {
							if s2, ok := ref.(*ssa.Store); ok && s2.Addr == ssa.Value(fa) {
								clean = false
							}
						}
					}
				})
			}
		}
		if !clean {
			continue
		}
		if best != nil {
			return nil // more than one such field: not handled (one memory cell)
		}
		kk := k
		best = &fsmInput{v: key, dom: sortedKeys(dom), name: st.Field(k).Name(), cell: true,
			cellMatch: func(addr ssa.Value) bool {
				fa, ok := addr.(*ssa.FieldAddr)
				return ok && fa.Field == kk && fa.X == ssa.Value(recv)
			}}
	}
	return best
}

// packedFlagsCell: a local struct variable all of whose fields are booleans (at most four), used in the region only
// through loads and stores of its fields (and assignments of its zero value): the flags of a decoder gathered in one
// variable. It becomes one memory cell of the automaton, field k being bit k of the cell's value.
func packedFlagsCell(f *ssa.Function, region map[*ssa.BasicBlock]bool) *fsmInput {
	var found *ssa.Alloc
	for _, b := range f.Blocks {
		for _, in := range b.Instrs {
			al, ok := in.(*ssa.Alloc)
			if !ok {
				continue
			}
			st, ok := al.Type().(*types.Pointer).Elem().Underlying().(*types.Struct)
			if !ok || st.NumFields() < 2 || st.NumFields() > 4 {
				continue
			}
			allBool := true
			for k := 0; k < st.NumFields(); k++ {
				if bt, ok := st.Field(k).Type().Underlying().(*types.Basic); !ok || bt.Kind() != types.Bool {
					allBool = false
				}
			}
			if !allBool {
				continue
			}
			okUse, inRegion := true, false
			for _, ref := range *al.Referrers() {
				switch x := ref.(type) {
				case *ssa.FieldAddr:
					for _, r2 := range *x.Referrers() {
						switch y := r2.(type) {
						case *ssa.UnOp:
						case *ssa.Store:
							if y.Addr != ssa.Value(x) {
								okUse = false
							}
						case *ssa.DebugRef:
						default:
							okUse = false
						}
						if region[r2.Block()] {
							inRegion = true
						}
					}
				case *ssa.Store:
					if k, isC := x.Val.(*ssa.Const); x.Addr != ssa.Value(al) || !isC || k.Value != nil {
						okUse = false
					}
				case *ssa.DebugRef:
				default:
					okUse = false
				}
			}
			if okUse && inRegion {
				if found != nil {
					return nil
				}
				found = al
			}
		}
	}
	if found == nil {
		return nil
	}
	nf := found.Type().(*types.Pointer).Elem().Underlying().(*types.Struct).NumFields()
	var dom []int64
	for v := int64(0); v < 1<<uint(nf); v++ {
		dom = append(dom, v)
	}
	al := found
	return &fsmInput{v: al, dom: dom, name: al.Comment, cell: true,
		cellMatch: func(addr ssa.Value) bool {
			if addr == ssa.Value(al) {
				return true
			}
			fa, ok := addr.(*ssa.FieldAddr)
			return ok && fa.X == ssa.Value(al)
		},
		cellBit: func(addr ssa.Value) int {
			if fa, ok := addr.(*ssa.FieldAddr); ok && fa.X == ssa.Value(al) {
				return fa.Field
			}
			return -1
		}}
}
