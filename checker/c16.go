package main

import (
	"fmt"
	"go/constant"
	"go/token"
	"go/types"
	"sort"
	"strings"

	"golang.org/x/tools/go/ssa"
)

func init() {
	register("C16", "one obligation per event append (start < end known), per index site, per effect/freshness query, per comparator, per map-range loop, per search predicate; non-trivial = needed dominating-fact search, the points-to/effect computation or a linear-inequality proof", rulesC16, nil)
}

func rulesC16(c *Ctx, r *Report) {
	r.explain("Decides: (START<END) each event appended in NewIndex is appended only where starts[i] < ends[i] is known from a dominating branch — with a sweep that adds at the start event and removes at the end event, an interval with start >= end would be added after its removal and reported for every later position; (GRD) every index/slice expression in the package is within bounds, in particular ends[i] under `range starts` by the length-equality guard, which also makes lists of different lengths panic; (FRESH/PURE) At returns nil or freshly allocated memory holding no reference into the index and never writes the index; (RO-INDEX) outside NewIndex nothing in the package stores into Index.idx or its elements; (MO) keys collected from the active-set map are sorted before use; (SORT-CMP) the event order is decided by comparisons only — no arithmetic on coordinates that could overflow — position first, ends before starts at equal positions; (SEARCH) At binary-searches for the first breakpoint > i and answers from the breakpoint before it, nothing for index 0. Not decided: sweep correctness as a whole (exactly the covering set), ascending order beyond 'passes a sort'. Added rules: (LEN-PANIC) the length comparison panics on the unequal edge and dominates every return; (SNAPSHOT) every piece stores a fresh key list of the active set; (COORD) coordinates meet only coordinates (no constants, arithmetic or narrowing); (MAKE-APPEND) the event list is not made with a length and then appended to; (MO) the sorted list is the result; SEARCH accepts the copy inline. (EVENTS-KEPT) the event list is only appended to, measured and sorted before the sweep: never cut, compacted or filtered.")
	e := effFor(c)
	rulesStartEnd(c, r)
	at := c.fn("regions", "(*Index).At")
	if at == nil {
		r.undecided("FRESH", "regions.(*Index).At", "anchor", "", "At not found")
	} else {
		e.ruleFresh(r, "FRESH", at)
		e.rulePure(r, "PURE", at, "idx")
		rulesAtSearch(c, r, at)
	}
	if cp := c.role("regions.cp"); cp != nil {
		e.ruleFresh(r, "FRESH", cp)
	}
	rulesRoIndex(c, r)
	rulesMapOrderFn(c, r, c.role("regions.keys"), "regions active-set keys")
	rulesSortCmp(c, r)
	rulesGrdPkg(c, r, []string{"regions"}, 10)
	rulesLenMismatchPanics(c, r)
	rulesSweep(c, r)
	rulesEventsKept(c, r)
	rulesMakeThenAppend(c, r, "regions")
}

// rulesSweep: (SNAPSHOT) every piece of the index stores a fresh key list of the active set taken at that
// breakpoint; (COORD) coordinates are only ever compared with coordinates, never with a constant: no
// position value is special.
func rulesSweep(c *Ctx, r *Report) {
	keysFn := c.role("regions.keys")
	f := newIndexStage(c, func(g *ssa.Function) bool {
		return keysFn != nil && len(staticCallsTo(g, keysFn)) > 0
	})
	where := "regions.NewIndex"
	if f != nil {
		where = fname(f)
		r.analysed(where)
	}
	keys := c.role("regions.keys")
	if f == nil || keys == nil {
		r.undecided("SNAPSHOT", where, "anchor", "", "NewIndex(starts, ends) or the key-list helper not found")
		return
	}
	nSnap := 0
	instrs(f, func(in ssa.Instruction) {
		st, ok := in.(*ssa.Store)
		if !ok {
			return
		}
		fa, ok := st.Addr.(*ssa.FieldAddr)
		if !ok {
			return
		}
		sl, ok := st.Val.Type().Underlying().(*types.Slice)
		if !ok || !types.Identical(sl.Elem(), types.Typ[types.Int]) {
			return
		}
		if k, isC := st.Val.(*ssa.Const); isC && k.IsNil() {
			// a nil placeholder that a later store into the same field replaces
			replaced := false
			for _, ref := range *fa.X.Referrers() {
				if fa2, ok := ref.(*ssa.FieldAddr); ok && fa2.Field == fa.Field {
					for _, r2 := range *fa2.Referrers() {
						if st2, ok := r2.(*ssa.Store); ok && st2 != st && st2.Addr == ssa.Value(fa2) && instrDominates(st, st2) {
							replaced = true
						}
					}
				}
			}
			if replaced {
				return
			}
		}
		nSnap++
		call, _ := st.Val.(*ssa.Call)
		okCall := call != nil && call.Call.StaticCallee() == keys && len(call.Call.Args) == 1
		if okCall {
			_, isMk := call.Call.Args[0].(*ssa.MakeMap)
			// the active set kept in a field of the sweep's state: every store into that field, anywhere in the
			// package, is a map made there (one active set)
			if !isMk {
				if ld, ok := call.Call.Args[0].(*ssa.UnOp); ok && ld.Op == token.MUL {
					if sfa, ok := ld.X.(*ssa.FieldAddr); ok {
						st0 := structOfPtr(sfa.X.Type())
						nStores, allMk := 0, true
						for _, g := range c.moduleFuncs() {
							if g.Pkg != f.Pkg {
								continue
							}
							instrs(g, func(in2 ssa.Instruction) {
								s2, ok := in2.(*ssa.Store)
								if !ok {
									return
								}
								fa2, ok := s2.Addr.(*ssa.FieldAddr)
								if !ok || fa2.Field != sfa.Field || st0 == nil || !types.Identical(structOfPtr(fa2.X.Type()), st0) {
									return
								}
								nStores++
								if _, isMap := s2.Val.(*ssa.MakeMap); !isMap {
									allMk = false
								}
							})
						}
						isMk = nStores >= 1 && allMk
					}
				}
			}
			okCall = isMk
		}
		r.check(okCall, "SNAPSHOT", where, "piece key list", c.pos(st.Pos()),
			"the piece's index list is the result of "+fname(keys)+" on the active-set map, taken at this breakpoint",
			"the piece's index list is not a fresh key list of the active set taken at this breakpoint (it is "+newSymb(f).expr(st.Val).String()+"): a piece can report the set of another position")
	})
	// places where a piece is closed: the stores themselves, or the calls of the stage that holds them
	nPlaces := nSnap
	if ni := c.fn("regions", "NewIndex"); ni != nil && f != ni {
		calls := 0
		for _, g := range c.stageFuncs(ni) {
			for _, h := range family(g) {
				calls += len(staticCallsTo(h, f))
			}
		}
		nPlaces = nSnap * calls
	}
	r.floor("SNAPSHOT", nPlaces, 2, "places where a piece is closed in NewIndex (at each breakpoint and after the last event; calls of a flush helper count)")
	// COORD
	type fld struct {
		t types.Type
		k int
	}
	coordField := map[fld]bool{}
	coord := map[ssa.Value]bool{}
	structOf := func(t types.Type) types.Type {
		if p, ok := t.Underlying().(*types.Pointer); ok {
			return p.Elem()
		}
		return t
	}
	stages := c.stageFuncs(c.fn("regions", "NewIndex"))
	for changed := true; changed; {
		changed = false
		mark := func(v ssa.Value) {
			if !coord[v] {
				coord[v] = true
				changed = true
			}
		}
		for _, sf := range stages {
			sf := sf
			instrs(sf, func(in ssa.Instruction) {
				switch x := in.(type) {
				case *ssa.UnOp:
					if x.Op != token.MUL {
						return
					}
					switch a := x.X.(type) {
					case *ssa.IndexAddr:
						if par, ok := a.X.(*ssa.Parameter); ok {
							if sl, ok := par.Type().Underlying().(*types.Slice); ok && types.Identical(sl.Elem(), types.Typ[types.Int]) {
								mark(x) // an element of starts or ends (in NewIndex or in the stage that receives them)
							}
						}
					case *ssa.FieldAddr:
						if coordField[fld{structOf(a.X.Type()), a.Field}] {
							mark(x)
						}
					case *ssa.Alloc:
						for _, ref := range *a.Referrers() {
							if st, ok := ref.(*ssa.Store); ok && st.Addr == ssa.Value(a) && coord[st.Val] {
								mark(x)
							}
						}
					}
				case *ssa.Field:
					if coordField[fld{x.X.Type(), x.Field}] {
						mark(x)
					}
				case *ssa.Phi:
					for _, e := range x.Edges {
						if coord[e] {
							mark(x)
						}
					}
				case *ssa.Store:
					if fa, ok := x.Addr.(*ssa.FieldAddr); ok && coord[x.Val] {
						k := fld{structOf(fa.X.Type()), fa.Field}
						if !coordField[k] {
							coordField[k] = true
							changed = true
						}
					}
				}
			})
		}
	}
	nCmp := 0
	var bad []string
	for _, sf := range stages {
		s := newSymb(sf)
		instrs(sf, func(in ssa.Instruction) {
			bo, ok := in.(*ssa.BinOp)
			if !ok {
				return
			}
			switch bo.Op {
			case token.EQL, token.NEQ, token.LSS, token.LEQ, token.GTR, token.GEQ:
			default:
				if coord[bo.X] || coord[bo.Y] {
					bad = append(bad, "arithmetic "+s.expr(bo).String()+" at "+c.pos(bo.Pos()))
				}
				return
			}
			if !coord[bo.X] && !coord[bo.Y] {
				return
			}
			nCmp++
			_, cx := bo.X.(*ssa.Const)
			_, cy := bo.Y.(*ssa.Const)
			if cx || cy {
				bad = append(bad, s.expr(bo).String()+" at "+c.pos(bo.Pos()))
			}
		})
	}
	r.check(len(bad) == 0, "COORD", where, "coordinates compared with coordinates only", c.pos(f.Pos()),
		fmt.Sprintf("all %d comparisons on coordinate values (elements of starts/ends and what is derived from them through %d struct fields) are between two coordinates; no arithmetic on coordinates: no position value is treated specially", nCmp, len(coordField)),
		"a coordinate is compared with a constant or used in arithmetic ("+strings.Join(bad, "; ")+"): that position value behaves differently from all others (e.g. a sentinel that is also a legal coordinate)")
	r.floor("COORD", nCmp, 2, "coordinate comparisons in NewIndex (starts[i] >= ends[i], e.pos != pos)")
}

// rulesLenMismatchPanics (LEN-PANIC): NewIndex compares len(starts) with len(ends), panics on the unequal
// edge, and no return is reachable without passing that comparison.
func rulesLenMismatchPanics(c *Ctx, r *Report) {
	f := c.fn("regions", "NewIndex")
	where := "regions.NewIndex"
	if f == nil || len(f.Params) != 2 {
		r.undecided("LEN-PANIC", where, "anchor", "", "NewIndex(starts, ends) not found")
		return
	}
	s := newSymb(f)
	var guard *ssa.BasicBlock
	for _, b := range f.Blocks {
		iff, ok := lastInstr(b).(*ssa.If)
		if !ok {
			continue
		}
		bo, ok := iff.Cond.(*ssa.BinOp)
		if !ok || (bo.Op != token.NEQ && bo.Op != token.EQL) {
			continue
		}
		l, rr := s.expr(bo.X).String(), s.expr(bo.Y).String()
		if !(l == "builtin:len(P0)" && rr == "builtin:len(P1)" || l == "builtin:len(P1)" && rr == "builtin:len(P0)") {
			continue
		}
		bad := b.Succs[0]
		if bo.Op == token.EQL {
			bad = b.Succs[1]
		}
		if blockAlwaysPanics(bad) {
			guard = b
		}
	}
	if !r.check(guard != nil, "LEN-PANIC", where, "guard", c.pos(f.Pos()), "`len(starts) != len(ends)` leads to a panic", "no `len(starts) != len(ends)` comparison whose unequal edge always panics") {
		return
	}
	var early []string
	for _, rt := range returnsNotBehind(f, guard) {
		early = append(early, c.pos(rt.Pos()))
	}
	r.check(len(early) == 0, "LEN-PANIC", where, "guard before every return", c.pos(f.Pos()),
		"every return lies behind the length comparison: lists of different lengths always panic",
		fmt.Sprintf("return(s) at %v are reachable without passing the length comparison: some lists of different lengths are accepted", early))
}

// rulesStartEnd: every append of an event is dominated by the fact starts[i] < ends[i].
func rulesStartEnd(c *Ctx, r *Report) {
	f := newIndexStage(c, func(g *ssa.Function) bool { return hasInstr(g, isEventAppend) })
	where := "regions.NewIndex"
	if f != nil {
		where = fname(f)
	}
	if f == nil || len(f.Params) != 2 {
		r.undecided("START<END", where, "anchor", "", "NewIndex(starts, ends) not found")
		return
	}
	r.analysed(where)
	starts, ends := f.Params[0], f.Params[1]
	n := 0
	isElem := func(v ssa.Value, base ssa.Value) (ssa.Value, bool) {
		u, ok := v.(*ssa.UnOp)
		if !ok || u.Op != token.MUL {
			return nil, false
		}
		ia, ok := u.X.(*ssa.IndexAddr)
		if !ok || ia.X != base {
			return nil, false
		}
		return ia.Index, true
	}
	instrs(f, func(in ssa.Instruction) {
		call, ok := in.(*ssa.Call)
		if !ok {
			return
		}
		if b, ok := call.Call.Value.(*ssa.Builtin); !ok || b.Name() != "append" {
			return
		}
		sl, ok := call.Type().Underlying().(*types.Slice)
		if !ok {
			return
		}
		if nm, ok := sl.Elem().(*types.Named); !ok || nm.Obj().Name() != "event" {
			return
		}
		n++
		guarded := false
		b := call.Block()
		for cur := b; cur.Idom() != nil; cur = cur.Idom() {
			d := cur.Idom()
			iff, ok := d.Instrs[len(d.Instrs)-1].(*ssa.If)
			if !ok || len(cur.Preds) != 1 || cur.Preds[0] != d {
				continue
			}
			edge := 0
			if d.Succs[1] == cur {
				edge = 1
			}
			cmp, ok := iff.Cond.(*ssa.BinOp)
			if !ok {
				continue
			}
			op, x, y := cmp.Op, cmp.X, cmp.Y
			if _, ok := isElem(x, ends); ok {
				x, y = y, x
				switch op {
				case token.LSS:
					op = token.GTR
				case token.GTR:
					op = token.LSS
				case token.LEQ:
					op = token.GEQ
				case token.GEQ:
					op = token.LEQ
				}
			}
			ix, ok1 := isElem(x, starts)
			iy, ok2 := isElem(y, ends)
			if ok1 && ok2 && ix == iy {
				if (op == token.LSS && edge == 0) || (op == token.GEQ && edge == 1) {
					guarded = true
				}
			}
		}
		r.check(guarded, "START<END", where, "event append", c.pos(call.Pos()), "this event is appended only where starts[i] < ends[i] is known", "this event is appended without starts[i] < ends[i] being known: an empty or inverted interval enters the sweep, is removed before it is added, and is then reported for every later position")
	})
	r.floor("START<END", n, 1, "event appends (start and end of each interval; one call when both are appended at once)")
}

// rulesRoIndex: only NewIndex stores into Index.idx / interval fields.
func rulesRoIndex(c *Ctx, r *Report) {
	p := c.pkg("regions")
	if p == nil {
		return
	}
	var bad []string
	n := 0
	allowed := map[*ssa.Function]bool{}
	for _, g := range c.stageFuncs(c.fn("regions", "NewIndex")) {
		allowed[g] = true
	}
	for _, f := range c.moduleFuncs() {
		if funcPkgPath(f) != modPath+"/regions" {
			continue
		}
		root := f
		for root.Parent() != nil {
			root = root.Parent()
		}
		instrs(f, func(in ssa.Instruction) {
			st, ok := in.(*ssa.Store)
			if !ok {
				return
			}
			fa, ok := st.Addr.(*ssa.FieldAddr)
			if !ok {
				return
			}
			pt, ok := fa.X.Type().Underlying().(*types.Pointer)
			if !ok {
				return
			}
			nm, ok := pt.Elem().(*types.Named)
			if !ok || (nm.Obj().Name() != "Index" && nm.Obj().Name() != "interval") {
				return
			}
			n++
			if !allowed[root] {
				bad = append(bad, fname(f)+" at "+c.pos(st.Pos()))
			}
		})
	}
	r.check(len(bad) == 0, "RO-INDEX", "regions", "index written only by NewIndex", "", fmt.Sprintf("all %d stores into Index/interval fields are in NewIndex", n), "the index is modified after construction in "+strings.Join(bad, "; "))
}

// rulesSortCmp: comparators decide by comparisons only.
func rulesSortCmp(c *Ctx, r *Report) {
	f := newIndexStage(c, func(g *ssa.Function) bool {
		return hasInstr(g, func(in ssa.Instruction) bool {
			cl, ok := in.(*ssa.Call)
			if !ok || cl.Call.StaticCallee() == nil {
				return false
			}
			qn := qname(cl.Call.StaticCallee())
			return strings.HasPrefix(qn, "sort.") || strings.HasPrefix(qn, "slices.Sort")
		})
	})
	if f == nil {
		return
	}
	// the sort call and its comparator
	var cmpFns []*ssa.Function
	var sortName string
	instrs(f, func(in ssa.Instruction) {
		cl, ok := in.(*ssa.Call)
		if !ok || cl.Call.StaticCallee() == nil {
			return
		}
		qn := qname(cl.Call.StaticCallee())
		if strings.HasPrefix(qn, "sort.") || strings.HasPrefix(qn, "slices.Sort") {
			sortName = qn
			for _, a := range cl.Call.Args {
				if mc, ok := a.(*ssa.MakeClosure); ok {
					cmpFns = append(cmpFns, mc.Fn.(*ssa.Function))
				}
				if fn, ok := a.(*ssa.Function); ok {
					cmpFns = append(cmpFns, fn)
				}
			}
		}
	})
	if len(cmpFns) == 0 {
		r.undecided("SORT-CMP", "regions.NewIndex", "event sort", c.pos(f.Pos()), "no sort with a comparator found")
		return
	}
	// include module callees of the comparator (eventLess)
	var all []*ssa.Function
	for g := range c.reachFrom(cmpFns, c.inModule) {
		if c.inModule(g) && g.Blocks != nil {
			all = append(all, g)
		}
	}
	var arith []string
	for _, g := range all {
		r.analysed(fname(g))
		instrs(g, func(in ssa.Instruction) {
			if bo, ok := in.(*ssa.BinOp); ok {
				switch bo.Op {
				case token.SUB, token.ADD, token.MUL, token.QUO:
					if bt, ok := bo.Type().Underlying().(*types.Basic); ok && bt.Info()&types.IsInteger != 0 {
						arith = append(arith, fname(g)+" at "+c.pos(bo.Pos()))
					}
				}
			}
		})
	}
	r.check(len(arith) == 0, "SORT-CMP", "regions.NewIndex", "comparator uses comparisons only", c.pos(f.Pos()), "the event order ("+sortName+") is decided by <, != on coordinates only: no arithmetic that could overflow for extreme coordinates", "the event comparator does integer arithmetic on coordinates ("+strings.Join(arith, "; ")+"): for coordinates more than MaxInt apart the difference wraps and events are swept out of order")
	// eventLess: pos first, then end-before-start
	el := c.role("regions.eventLess")
	var elSubst map[ssa.Value]*Sym
	if el == nil {
		// the comparison written out in the less function of sort.Slice itself: events[i] and events[j] stand for the
		// two events
		for _, g := range c.stageFuncs(f) {
			instrs(g, func(in ssa.Instruction) {
				cl, ok := in.(*ssa.Call)
				if !ok || !fnIs(cl.Call.StaticCallee(), "sort", "Slice") || len(cl.Call.Args) != 2 || el != nil {
					return
				}
				mc, ok := cl.Call.Args[1].(*ssa.MakeClosure)
				if !ok {
					return
				}
				less, ok := mc.Fn.(*ssa.Function)
				if !ok || len(less.Params) != 2 {
					return
				}
				sub := map[ssa.Value]*Sym{}
				instrs(less, func(in2 ssa.Instruction) {
					ia, ok := in2.(*ssa.IndexAddr)
					if !ok {
						return
					}
					if ld, ok := ia.X.(*ssa.UnOp); ok {
						if _, isFV := ld.X.(*ssa.FreeVar); isFV {
							for k, p := range less.Params {
								if ia.Index == ssa.Value(p) {
									sub[ia] = leaf("param", fmt.Sprintf("P%d", k), ia)
								}
							}
						}
					}
				})
				if len(sub) >= 2 {
					el, elSubst = less, sub
				}
			})
		}
	}
	if el == nil {
		r.undecided("SORT-CMP", "regions.eventLess", "anchor", "", "eventLess not found")
		return
	}
	s := newSymb(el)
	for k, v := range elSubst {
		s.subst[k] = v
	}
	// returns keyed by guard
	type ret struct {
		guard, val string
		sym        *Sym
	}
	var rets []ret
	for _, rc := range returnCases(s, el) {
		rets = append(rets, ret{rc.guard, s.expr(rc.vals[0]).String(), s.expr(rc.vals[0])})
	}
	// the marks NewIndex gives to start and end events (true/false, or two constants of a small type)
	startMark, endMark, okMarks := eventMarks(c)
	okPos, okKind := false, false
	for _, x := range rets {
		// the tie-break as a function of the two marks: true for (end, start), false for (start, end)
		if okMarks && strings.Contains(x.guard, "!(load(P0.f1) != load(P1.f1))") && strings.Contains(x.guard, "(load(P0.f2) != load(P1.f2))") && !strings.Contains(x.guard, "!(load(P0.f2) != load(P1.f2))") {
			v1, ok1 := evalSymInt(x.sym, map[string]int64{"load(P0.f2)": endMark, "load(P1.f2)": startMark})
			v2, ok2 := evalSymInt(x.sym, map[string]int64{"load(P0.f2)": startMark, "load(P1.f2)": endMark})
			if ok1 && ok2 && v1 != 0 && v2 == 0 {
				okKind = true
			}
		}
		if x.guard == "(load(P0.f1) != load(P1.f1))" && x.val == "(load(P0.f1) < load(P1.f1))" {
			okPos = true
		}
		if strings.Contains(x.guard, "!(load(P0.f1) != load(P1.f1))") && strings.Contains(x.guard, "(load(P0.f2) != load(P1.f2))") && !strings.Contains(x.guard, "!(load(P0.f2) != load(P1.f2))") && x.val == "un:!(load(P0.f2))" {
			okKind = true
		}
	}
	r.check(okPos && okKind, "SORT-CMP", "regions.eventLess", "order: position, then ends before starts", c.pos(el.Pos()), "events are ordered by position, and at equal positions an end event precedes a start event (half-open intervals)", fmt.Sprintf("eventLess does not order by position first (%v) and ends before starts at equal positions (%v): an interval ending at p would still be reported at p, or one starting at p missed", okPos, okKind))
}

// rulesAtSearch (SEARCH): the shape of At.
func rulesAtSearch(c *Ctx, r *Report, at *ssa.Function) {
	s := newSymb(at)
	var search *ssa.Call
	instrs(at, func(in ssa.Instruction) {
		if cl, ok := in.(*ssa.Call); ok && fnIs(cl.Call.StaticCallee(), "sort", "Search") {
			search = cl
		}
	})
	// the search done by a helper of the same shape (receiver, position) that returns the search result as it is
	ss := s
	var viaHelper *ssa.Call
	if search == nil {
		instrs(at, func(in ssa.Instruction) {
			cl, ok := in.(*ssa.Call)
			if !ok || search != nil {
				return
			}
			h := cl.Call.StaticCallee()
			if h == nil || h.Blocks == nil || !c.inModule(h) || len(h.Blocks) != 1 {
				return
			}
			var hs *ssa.Call
			instrs(h, func(in2 ssa.Instruction) {
				if c2, ok := in2.(*ssa.Call); ok && fnIs(c2.Call.StaticCallee(), "sort", "Search") {
					hs = c2
				}
			})
			rt, _ := lastInstr(h.Blocks[0]).(*ssa.Return)
			if hs == nil || rt == nil || len(rt.Results) != 1 || rt.Results[0] != ssa.Value(hs) || len(h.Params) != len(at.Params) {
				return
			}
			for i, a := range cl.Call.Args {
				if i >= len(at.Params) || a != ssa.Value(at.Params[i]) {
					return
				}
			}
			search, viaHelper = hs, cl
			ss = newSymb(h)
			r.analysed(fname(h))
		})
	}
	if search == nil {
		r.undecided("SEARCH", fname(at), "binary search", c.pos(at.Pos()), "no sort.Search found")
		return
	}
	okN := ss.expr(search.Call.Args[0]).String() == "builtin:len(load(P0.f0))"
	okPred := false
	predSeen := ""
	if mc, ok := search.Call.Args[1].(*ssa.MakeClosure); ok {
		g := mc.Fn.(*ssa.Function)
		sg := newSymb(g)
		instrs(g, func(in ssa.Instruction) {
			if rt, ok := in.(*ssa.Return); ok {
				e := sg.expr(rt.Results[0]).String()
				predSeen = e
				// idx.idx[j].start > i   (normalised: i < start)
				if e == "(^P1 < load(load(^P0.f0)[P0].f0))" {
					okPred = true
				}
			}
		})
	}
	r.check(okN && okPred, "SEARCH", fname(at), "search predicate", c.pos(search.Pos()), "At searches all breakpoints for the first whose start is > i", "("+predSeen+") the search is not `first j in [0, len(idx)) with idx[j].start > i`: positions on a breakpoint, or the last segment, are answered wrongly")
	// result: at == 0 => nil ; else a copy of idx.idx[at-1].idxs (through a helper, or made and copied in place)
	okZero, okPrev := false, true
	sv := s.expr(search).String()
	if viaHelper != nil {
		sv = s.expr(viaHelper).String()
	}
	// every read of a stored set uses the breakpoint just before the search result
	var sets []ssa.Value
	instrs(at, func(in ssa.Instruction) {
		ld, ok := in.(*ssa.UnOp)
		if !ok || ld.Op != token.MUL {
			return
		}
		fa, ok := ld.X.(*ssa.FieldAddr)
		if !ok {
			return
		}
		if _, isSlice := ld.Type().Underlying().(*types.Slice); !isSlice {
			return
		}
		e := s.expr(ld).String()
		if !strings.Contains(e, "P0.f0") {
			return
		}
		_ = fa
		if strings.Contains(e, "[("+sv+" - 1)].f") {
			sets = append(sets, ld)
		} else if strings.Contains(e, "].f") {
			okPrev = false // a stored set read at another index
		}
	})
	isSet := func(v ssa.Value) bool {
		for _, x := range sets {
			if x == v {
				return true
			}
		}
		return false
	}
	nNonNil := 0
	// the returns, a result variable merged before one return taken apart into the ways it is assigned
	type retWay struct {
		rt    *ssa.Return
		val   ssa.Value
		guard string
	}
	var ways []retWay
	instrs(at, func(in ssa.Instruction) {
		rt, ok := in.(*ssa.Return)
		if !ok || len(rt.Results) != 1 {
			return
		}
		if phi, ok := rt.Results[0].(*ssa.Phi); ok && phi.Block() == rt.Block() {
			for i, p := range phi.Block().Preds {
				g := guardOf(s, p, nil)
				if eg := edgeCond(s, p, phi.Block()); eg != "" {
					if g != "" {
						g += " && "
					}
					g += eg
				}
				ways = append(ways, retWay{rt, phi.Edges[i], g})
			}
			return
		}
		ways = append(ways, retWay{rt, rt.Results[0], guardOf(s, rt.Block(), nil)})
	})
	for _, w := range ways {
		rt, g := w.rt, w.guard
		if isNilConst(w.val) {
			if g == "(0 == "+sv+")" || g == "!(0 != "+sv+")" {
				okZero = true
			}
			continue
		}
		nNonNil++
		switch v := w.val.(type) {
		case *ssa.Call:
			// a module helper applied to the stored set
			if gfn := v.Call.StaticCallee(); gfn == nil || !c.inModule(gfn) || len(v.Call.Args) != 1 || !isSet(v.Call.Args[0]) {
				okPrev = false
			}
		case *ssa.MakeSlice, *ssa.Slice:
			// made here and filled by copy(result, set)
			filled := false
			instrs(at, func(in2 ssa.Instruction) {
				if cl, ok := in2.(*ssa.Call); ok {
					if bi, ok := cl.Call.Value.(*ssa.Builtin); ok && bi.Name() == "copy" && cl.Call.Args[0] == ssa.Value(v) && isSet(cl.Call.Args[1]) && instrDominates(cl, rt) {
						filled = true
					}
					if bi, ok := cl.Call.Value.(*ssa.Builtin); ok && bi.Name() == "append" {
						_ = bi
					}
				}
			})
			if !filled {
				okPrev = false
			}
		default:
			okPrev = false
		}
	}
	okPrev = okPrev && len(sets) > 0 && nNonNil > 0
	r.check(okZero && okPrev, "SEARCH", fname(at), "answer from the preceding breakpoint", c.pos(at.Pos()), "positions before the first breakpoint get nil; otherwise the answer is a copy of the set stored at the breakpoint just before the search result", "At does not answer nil for search result 0 and a copy of idx[at-1].idxs otherwise (a stored set is read at another index, or what is returned is not a copy of that set)")
}

// rulesMakeThenAppend (MAKE-APPEND): a slice made with a non-zero length and then only ever appended to (never
// indexed, never a copy destination) starts with that many zero elements that nothing overwrites.
func rulesMakeThenAppend(c *Ctx, r *Report, rels ...string) {
	want := map[string]bool{}
	for _, rel := range rels {
		want[modPath+"/"+rel] = true
	}
	n := 0
	for _, f := range c.moduleFuncs() {
		if !want[funcPkgPath(f)] {
			continue
		}
		instrs(f, func(in ssa.Instruction) {
			var made ssa.Value
			switch x := in.(type) {
			case *ssa.MakeSlice:
				if k, ok := cInt(constVal(x.Len)); ok && k == 0 {
					return
				}
				made = x
			case *ssa.Slice:
				if isConstMake(x) <= 0 {
					return
				}
				// const make: `new [N]T` sliced; length is the slice's high bound (nil = N)
				if x.High != nil {
					if k, ok := cInt(constVal(x.High)); ok && k == 0 {
						return
					}
				}
				made = x
			default:
				return
			}
			n++
			// values that are this slice: itself, loads of cells it is stored into
			same := map[ssa.Value]bool{made: true}
			var cells []*ssa.Alloc
			for _, ref := range *made.Referrers() {
				if st, ok := ref.(*ssa.Store); ok && st.Val == made {
					if al, ok := st.Addr.(*ssa.Alloc); ok {
						cells = append(cells, al)
					}
				}
			}
			appended, written := false, false
			consider := func(v ssa.Value) {
				for _, ref := range *v.Referrers() {
					switch y := ref.(type) {
					case *ssa.IndexAddr:
						for _, r2 := range *y.Referrers() {
							if _, ok := r2.(*ssa.Store); ok {
								written = true
							}
							if _, ok := r2.(ssa.CallInstruction); ok {
								written = true // address handed on
							}
						}
					case *ssa.Slice:
						written = true // re-sliced: could be cut to [:0]
					case *ssa.Call:
						if b, ok := y.Call.Value.(*ssa.Builtin); ok {
							switch b.Name() {
							case "append":
								if y.Call.Args[0] == v {
									appended = true
								}
							case "copy":
								if y.Call.Args[0] == v {
									written = true
								}
							}
						} else {
							written = true // passed to a function that may fill it
						}
					case *ssa.MakeInterface:
						for _, r2 := range *y.Referrers() {
							if cl, ok := r2.(*ssa.Call); ok && cl.Call.StaticCallee() != nil && strings.HasPrefix(qname(cl.Call.StaticCallee()), "sort.") {
								continue // sorting permutes, it does not fill
							}
							if _, ok := r2.(*ssa.DebugRef); ok {
								continue
							}
							written = true
						}
					case *ssa.Phi, *ssa.Return, *ssa.MapUpdate:
						written = true // flows on: not decided here
					case *ssa.Store:
						if y.Val == v {
							if _, ok := y.Addr.(*ssa.Alloc); !ok {
								written = true
							}
						}
					}
				}
			}
			consider(made)
			for _, al := range cells {
				// only if this is the first value of the cell: later appends store back into it
				for _, ref := range *al.Referrers() {
					if ld, ok := ref.(*ssa.UnOp); ok && ld.Op == token.MUL {
						// loads reached only while the cell still holds `made` or an append chain from it
						consider(ld)
						_ = same
					}
					if _, ok := ref.(*ssa.MakeClosure); ok {
						// captured: the closure may index it
						for _, ld := range *al.Referrers() {
							_ = ld
						}
					}
				}
			}
			if appended && !written {
				r.violated("MAKE-APPEND", fname(f), "make with a length, then append", c.pos(in.Pos()), "the slice is made with a non-zero length and then only appended to: it starts with that many zero elements which stay in front of everything appended (make([]T, 0, n) was meant)")
			}
		})
	}
	r.holds("MAKE-APPEND", strings.Join(rels, ","), "scan", "", fmt.Sprintf("%d slices made with a non-zero length examined: each is indexed, copied into, re-sliced or handed on — none is only appended to", n))
}

// newIndexStage: the function — NewIndex itself or a stage split off from it — that satisfies pred. A stage
// that takes (starts, ends) must receive NewIndex's own two parameters in order.
func newIndexStage(c *Ctx, pred func(*ssa.Function) bool) *ssa.Function {
	root := c.fn("regions", "NewIndex")
	if root == nil {
		return nil
	}
	for _, f := range c.stageFuncs(root) {
		if pred(f) {
			return f
		}
	}
	return root
}

func hasInstr(f *ssa.Function, pred func(ssa.Instruction) bool) bool {
	found := false
	instrs(f, func(in ssa.Instruction) {
		if pred(in) {
			found = true
		}
	})
	return found
}

func isEventAppend(in ssa.Instruction) bool {
	cl, ok := in.(*ssa.Call)
	if !ok {
		return false
	}
	if b, ok := cl.Call.Value.(*ssa.Builtin); !ok || b.Name() != "append" {
		return false
	}
	sl, ok := cl.Type().Underlying().(*types.Slice)
	if !ok {
		return false
	}
	nm, ok := sl.Elem().(*types.Named)
	return ok && nm.Obj().Name() == "event"
}

// eventMarks: the constants NewIndex stores into the third field of the events it builds from starts and from ends.
func eventMarks(c *Ctx) (start, end int64, ok bool) {
	ni := c.fn("regions", "NewIndex")
	if ni == nil || len(ni.Params) < 2 {
		return 0, 0, false
	}
	haveS, haveE := false, false
	for _, f := range c.stageFuncs(ni) {
		s := newSymb(f)
		// composite literals: alloc with stores to fields 1 (position) and 2 (mark)
		instrs(f, func(in ssa.Instruction) {
			al, isAl := in.(*ssa.Alloc)
			if !isAl {
				return
			}
			var posExpr string
			var mark int64
			gotMark := false
			for _, ref := range *al.Referrers() {
				fa, isFa := ref.(*ssa.FieldAddr)
				if !isFa {
					continue
				}
				for _, r2 := range *fa.Referrers() {
					st, isSt := r2.(*ssa.Store)
					if !isSt || st.Addr != ssa.Value(fa) {
						continue
					}
					switch fa.Field {
					case 1:
						posExpr = s.expr(st.Val).String()
					case 2:
						if k := constVal(st.Val); k != nil {
							if k.Kind() == constant.Bool {
								if constant.BoolVal(k) {
									mark = 1
								}
								gotMark = true
							} else if n, okn := cInt(k); okn {
								mark, gotMark = n, true
							}
						}
					}
				}
			}
			if !gotMark || f != ni {
				return
			}
			switch {
			case strings.Contains(posExpr, "P0["):
				start, haveS = mark, true
			case strings.Contains(posExpr, "P1["):
				end, haveE = mark, true
			}
		})
	}
	return start, end, haveS && haveE && start != end
}

func structOfPtr(t types.Type) types.Type {
	if p, ok := t.Underlying().(*types.Pointer); ok {
		return p.Elem()
	}
	return nil
}

// rulesEventsKept (EVENTS-KEPT): every event that was built reaches the sweep: between their construction and the
// sweep the event list is only appended to, sorted, measured and read — never cut, compacted, de-duplicated or
// filtered (two intervals that start or end at the same position are two events).
func rulesEventsKept(c *Ctx, r *Report) {
	ni := c.fn("regions", "NewIndex")
	where := "regions.NewIndex"
	if ni == nil {
		r.undecided("EVENTS-KEPT", where, "anchor", "", "NewIndex not found")
		return
	}
	isEvents := func(t types.Type) bool {
		sl, ok := t.Underlying().(*types.Slice)
		if !ok {
			return false
		}
		nm, ok := sl.Elem().(*types.Named)
		return ok && nm.Obj().Name() == "event" && nm.Obj().Pkg() != nil && nm.Obj().Pkg().Path() == modPath+"/regions"
	}
	allowedStd := map[string]bool{"sort.Slice": true, "sort.SliceStable": true, "slices.SortFunc": true, "slices.SortStableFunc": true, "sort.Sort": true, "sort.Stable": true}
	var bad []string
	n := 0
	var fs []*ssa.Function
	for _, g := range c.stageFuncs(ni) {
		fs = append(fs, family(g)...)
	}
	for _, f := range fs {
		instrs(f, func(in ssa.Instruction) {
			switch x := in.(type) {
			case *ssa.Slice:
				if isEvents(x.X.Type()) && (x.Low != nil || x.High != nil || x.Max != nil) {
					n++
					bad = append(bad, "part of the list taken at "+c.pos(x.Pos()))
				}
			case *ssa.Call:
				uses := false
				for _, a := range x.Call.Args {
					v := a
					if mi, ok := v.(*ssa.MakeInterface); ok {
						v = mi.X
					}
					if isEvents(v.Type()) {
						uses = true
					}
				}
				if !uses {
					return
				}
				n++
				if b, ok := x.Call.Value.(*ssa.Builtin); ok {
					switch b.Name() {
					case "append", "len", "cap":
						return
					}
					bad = append(bad, b.Name()+" at "+c.pos(x.Pos()))
					return
				}
				g := x.Call.StaticCallee()
				if g == nil {
					bad = append(bad, "dynamic call at "+c.pos(x.Pos()))
					return
				}
				name := qname(g)
				if o := g.Origin(); o != nil {
					name = qname(o)
				}
				if allowedStd[name] || strings.HasPrefix(name, "slices.SortFunc") || strings.HasPrefix(name, "slices.SortStableFunc") {
					return
				}
				if c.inModule(g) && g.Pkg == ni.Pkg {
					return // a stage or helper of the package: looked at through stageFuncs, or reads only
				}
				bad = append(bad, name+" at "+c.pos(x.Pos()))
			}
		})
	}
	sort.Strings(bad)
	r.check(len(bad) == 0 && n >= 2, "EVENTS-KEPT", where, "the event list is only appended to and sorted", c.pos(ni.Pos()),
		fmt.Sprintf("the event list is handed only to append, len and a sort (%d uses): every start and every end built reaches the sweep", n),
		fmt.Sprintf("the event list is cut, compacted or handed to something that may drop elements (%v): intervals that share a start or an end are no longer all opened and closed", bad))
}
